(* C02, control-flow tranche -- Gallina models of what the rewrite rules of pyrefact/fixes.py do to the
   statement tree (MiniPy fragment), mirroring the code as it is after the listed repairs.
   Conventions shared with the harness (harness/c02.py):
     - an `orelse` block that consists of exactly one `if` statement is printed (and was written) as
       `elif`; several rules skip `elif` nodes (core.get_code(node).startswith("elif"));
     - when a rule deletes every statement of a block, the text back end leaves `pass` ([fixb]);
     - the deep models compute the fixpoint of the rule's passes (processing.fix iterates the
       one-pass rewrite, max_iter = 5); they take the recursion depth as fuel [n] and are called with
       [fuel_of p] by the [*_model] wrappers.  Every soundness theorem holds for every fuel.
   No proofs in this file. *)
From Coq Require Import List Bool Arith.
Import ListNotations.
Require Import Pyrefact.MiniPyModel.

(* ---------------------------------------------------------------------------------------------- *)
(* sizes / fuel *)
Fixpoint ssize (s : stmt) : nat :=
  let blk := fix blk (l : list stmt) : nat := match l with [] => 0 | x :: tl => ssize x + blk tl end in
  match s with
  | SIf _ b e => 1 + blk b + blk e
  | SLoop _ b e => 1 + blk b + blk e
  | _ => 1
  end.
Definition psize (p : list stmt) : nat := fold_right (fun s n => ssize s + n) 0 p.
Definition fuel_of (p : list stmt) : nat := 2 * psize p + 2.

(* core.literal_value on a test: Some v when the test is a literal *)
Fixpoint tval (t : test) : option bool :=
  match t with
  | Known b => Some b
  | Unknown _ _ => None
  | TNot u => option_map negb (tval u)
  end.

(* fixes._negate_condition followed by the parser's canonical form *)
Definition negate (t : test) : test :=
  match t with
  | TNot u => u
  | Known b => Known (negb b)
  | _ => TNot t
  end.

Definition fixb (b : list stmt) : list stmt := match b with [] => [SPass] | _ => b end.
(* an else block that had statements keeps a `pass` when all of them are deleted *)
Definition fixe (orig e : list stmt) : list stmt := match orig with [] => [] | _ => fixb e end.
Definition is_elif (e : list stmt) : bool := match e with [SIf _ _ _] => true | _ => false end.

(* ---------------------------------------------------------------------------------------------- *)
(* core._may_leave_iteration, core.is_blocking (core.py:1000-1075, after repairs 97bca47, 1ff8620) *)
Inductive parent := PNone | PLoop.     (* parent_type None / ast.For or ast.While *)

Fixpoint may_leave (s : stmt) : bool :=
  match s with
  | SBreak | SContinue => true
  | SIf _ b e => existsb may_leave b || existsb may_leave e
  | SLoop _ _ e => existsb may_leave e
  | _ => false
  end.

(* the scan of a loop body: False at a statement that may leave the iteration, True at a blocking one *)
Definition scan_with (leave blocking : stmt -> bool) (dflt : bool) : list stmt -> bool :=
  fix scan (l : list stmt) : bool :=
    match l with
    | [] => dflt
    | x :: tl => if leave x then false else if blocking x then true else scan tl
    end.

Fixpoint is_blocking (s : stmt) (p : parent) : bool :=
  match s with
  | SRaise => true
  | SReturn _ => true
  | SBreak | SContinue => match p with PNone => true | PLoop => false end
  | SIf t b e =>
      match tval t with
      | Some true => existsb (fun x => is_blocking x p) b
      | Some false => existsb (fun x => is_blocking x p) e
      | None => existsb (fun x => is_blocking x p) b && existsb (fun x => is_blocking x p) e
      end
  | SLoop (HWhile t) b _ =>
      match tval t with
      | Some true => scan_with may_leave (fun x => is_blocking x PLoop) true b
      | _ => false
      end
  | SLoop (HFor (IKnown (S _))) b _ => scan_with may_leave (fun x => is_blocking x PLoop) false b
  | _ => false
  end.

Definition anyb (b : list stmt) : bool := existsb (fun x => is_blocking x PNone) b.

(* ---------------------------------------------------------------------------------------------- *)
(* fixes.remove_dead_ifs (fixes.py:1874-1918; If/While part), after the repairs
     - `while <falsy literal>: ... else: E`  is left alone (was: deleted together with E),
     - an `elif <literal>` with a live branch is left alone (was: the live branch was dedented out
       of the if-chain and ran even when an earlier branch had run).
   [rdi n p] = block p after the rule has reached its fixpoint; [rdi_else] = an else block.
   `if <falsy literal>: A elif ...` makes the rule produce unparsable text, which rolls back the
   whole pass; that shape is outside the correspondence domain and is left in place here. *)
Fixpoint rdi (n : nat) (p : list stmt) : list stmt :=
  match n with
  | O => p
  | S n' =>
      flat_map (fun s =>
        match s with
        | SIf t b e =>
            match tval t with
            | Some true => rdi n' b                       (* spliced in place of the node *)
            | Some false =>
                if is_elif e then [SIf t (fixb (rdi n' b)) (rdi_else n' e)]   (* outside the domain *)
                else rdi n' e
            | None => [SIf t (fixb (rdi n' b)) (rdi_else n' e)]
            end
        | SLoop h b e =>
            match h with
            | HWhile t =>
                match tval t, e with
                | Some false, [] => []          (* a loop that never runs and has no else: deleted *)
                | _, _ => [SLoop h (fixb (rdi n' b)) (fixe e (rdi n' e))]   (* with an else: left alone (7d823f2) *)
                end
            | _ => [SLoop h (fixb (rdi n' b)) (fixe e (rdi n' e))]
            end
        | _ => [s]
        end) p
  end
with rdi_else (n : nat) (e : list stmt) : list stmt :=
  match n with
  | O => e
  | S n' =>
      match e with
      | [SIf t2 b2 e2] =>            (* an elif node *)
          let b2' := fixb (rdi n' b2) in
          let e2' := rdi_else n' e2 in
          match tval t2, e2' with
          | Some false, [] => []     (* dead elif without else: the clause is deleted *)
          | _, _ => [SIf t2 b2' e2']
          end
      | _ => fixe e (rdi n' e)
      end
  end.
Definition remove_dead_ifs_model (p : list stmt) : list stmt := fixb (rdi (fuel_of p) p).

(* ---------------------------------------------------------------------------------------------- *)
(* fixes.remove_redundant_else (fixes.py:1065-1106): an `if` (not an elif) with an else clause whose
   body contains a blocking statement loses the else; its statements follow the `if`. *)
Fixpoint rre (n : nat) (p : list stmt) : list stmt :=
  match n with
  | O => p
  | S n' =>
      match p with
      | [] => []
      | s :: rest =>
          let rest' := rre n' rest in
          match s with
          | SIf t b e =>
              match e with
              | [] => SIf t (rre n' b) [] :: rest'
              | _ => if anyb b then SIf t (rre n' b) [] :: rre n' e ++ rest'
                     else SIf t (rre n' b) (rre_else n' e) :: rest'
              end
          | SLoop h b e => SLoop h (rre n' b) (rre n' e) :: rest'
          | _ => s :: rest'
          end
      end
  end
with rre_else (n : nat) (e : list stmt) : list stmt :=
  match n with
  | O => e
  | S n' =>
      match e with
      | [SIf t2 b2 e2] => [SIf t2 (rre n' b2) (rre_else n' e2)]    (* elif: not a site itself *)
      | _ => rre n' e
      end
  end.
Definition remove_redundant_else_model (p : list stmt) : list stmt := rre (fuel_of p) p.

(* ---------------------------------------------------------------------------------------------- *)
(* fixes.fix_if_return (fixes.py:5339-5377, after repair 4486780):
     if c: return True          if c: return False
     return False        and    return True          anywhere in a block
   become `return c` when c is a negation (or a comparison: not in MiniPy), else `return bool(c)`, and
   `return not c`.  The constants are matched exactly (True/False only).
   MiniPy writes `bool(t)` as `not not t`: one truth test of t whose result is True/False -- the same
   evaluation (same draws, same events, same value); the reader of the harness maps `bool(<test>)` to it.
   The rules are parametrised by the value form [vf] chosen for the first shape: [as_value] is the repaired
   rule, the identity is the rule before the repair (kept for the pinned refutation old_*_refuted). *)
Definition TBool (t : test) : test := TNot (TNot t).
Definition as_value (t : test) : test := match t with TNot _ => t | _ => TBool t end.
Definition ret_const (b : list stmt) : option bool :=
  match b with [SReturn (RVal (VBool v))] => Some v | _ => None end.
Definition fir_site (p : list stmt) : option (test * bool * list stmt) :=
  match p with
  | SIf t b [] :: SReturn (RVal (VBool w)) :: rest =>
      match ret_const b with
      | Some v => if xorb v w then Some (t, v, rest) else None
      | None => None
      end
  | _ => None
  end.
Fixpoint fir_with (vf : test -> test) (n : nat) (p : list stmt) : list stmt :=
  match n with
  | O => p
  | S n' =>
      match fir_site p with
      | Some (t, v, rest) => SReturn (RTest (if v then vf t else TNot t)) :: fir_with vf n' rest
      | None =>
          match p with
          | [] => []
          | s :: rest =>
              match s with
              | SIf t b e => SIf t (fir_with vf n' b) (fir_with vf n' e)
              | SLoop h b e => SLoop h (fir_with vf n' b) (fir_with vf n' e)
              | _ => s
              end :: fir_with vf n' rest
          end
      end
  end.
Definition fir := fir_with as_value.
Definition fix_if_return_model (p : list stmt) : list stmt := fir (fuel_of p) p.
Definition old_fix_if_return_model (p : list stmt) : list stmt := fir_with (fun t => t) (fuel_of p) p.

(* the guard under which the rule BEFORE the repair was right: every `return c` site has a boolean-valued condition *)
Definition boolish (t : test) : bool := match t with Unknown _ _ => false | _ => true end.
Fixpoint fir_safe (n : nat) (p : list stmt) : bool :=
  match n with
  | O => true
  | S n' =>
      match fir_site p with
      | Some (t, v, rest) => (if v then boolish t else true) && fir_safe n' rest
      | None =>
          match p with
          | [] => true
          | s :: rest =>
              match s with
              | SIf t b e => fir_safe n' b && fir_safe n' e
              | SLoop h b e => fir_safe n' b && fir_safe n' e
              | _ => true
              end && fir_safe n' rest
          end
      end
  end.

(* ---------------------------------------------------------------------------------------------- *)
(* fixes.fix_if_assign (fixes.py:5386-5440, after repairs 4e708bf: elif nodes are skipped, and 4486780):
     if c: v = True else: v = False   ->  v = c  for a negation, else  v = bool(c)
     (and the mirrored form -> v = not c) *)
Definition asg_const (b : list stmt) : option (var * bool) :=
  match b with [SAssign x (RVal (VBool v))] => Some (x, v) | _ => None end.
Definition fia_site (s : stmt) : option (test * var * bool) :=
  match s with
  | SIf t b e =>
      match asg_const b, asg_const e with
      | Some (x, v), Some (y, w) => if Nat.eqb x y && xorb v w then Some (t, x, v) else None
      | _, _ => None
      end
  | _ => None
  end.
Fixpoint fia_with (vf : test -> test) (n : nat) (p : list stmt) : list stmt :=
  match n with
  | O => p
  | S n' =>
      map (fun s =>
        match fia_site s with
        | Some (t, x, v) => SAssign x (RTest (if v then vf t else TNot t))
        | None =>
            match s with
            | SIf t b e => SIf t (fia_with vf n' b) (fia_else_with vf n' e)
            | SLoop h b e => SLoop h (fia_with vf n' b) (fia_with vf n' e)
            | _ => s
            end
        end) p
  end
with fia_else_with (vf : test -> test) (n : nat) (e : list stmt) : list stmt :=
  match n with
  | O => e
  | S n' =>
      match e with
      | [SIf t2 b2 e2] => [SIf t2 (fia_with vf n' b2) (fia_else_with vf n' e2)]     (* elif: not a site *)
      | _ => fia_with vf n' e
      end
  end.
Definition fia := fia_with as_value.
Definition fia_else := fia_else_with as_value.
Definition fix_if_assign_model (p : list stmt) : list stmt := fia (fuel_of p) p.
Definition old_fix_if_assign_model (p : list stmt) : list stmt := fia_with (fun t => t) (fuel_of p) p.

Fixpoint fia_safe (n : nat) (p : list stmt) : bool :=
  match n with
  | O => true
  | S n' =>
      forallb (fun s =>
        match fia_site s with
        | Some (t, x, v) => if v then boolish t else true
        | None =>
            match s with
            | SIf t b e => fia_safe n' b && fia_safe_else n' e
            | SLoop h b e => fia_safe n' b && fia_safe n' e
            | _ => true
            end
        end) p
  end
with fia_safe_else (n : nat) (e : list stmt) : bool :=
  match n with
  | O => true
  | S n' =>
      match e with
      | [SIf t2 b2 e2] => fia_safe n' b2 && fia_safe_else n' e2
      | _ => fia_safe n' e
      end
  end.

(* ---------------------------------------------------------------------------------------------- *)
(* processing.fix (processing.py:747-765): the one-pass rewrite is iterated max_iter = 5 times; the loop
   stops early only when the text is back at the ORIGINAL source (`history` is never extended) *)
Definition fix5 (pass : list stmt -> list stmt) (p : list stmt) : list stmt :=
  let s1 := pass p in let s2 := pass s1 in let s3 := pass s2 in let s4 := pass s3 in let s5 := pass s4 in
  if prog_eqb s1 p || prog_eqb s2 p || prog_eqb s3 p || prog_eqb s4 p then p else s5.

(* ---------------------------------------------------------------------------------------------- *)
(* fixes.swap_if_else (fixes.py:1189-1287) *)
Definition is_pass (s : stmt) : bool := match s with SPass => true | _ => false end.
Definition nopass (b : list stmt) : list stmt := filter (fun s => negb (is_pass s)) b.

(* number of If nodes in a subtree (core.walk(node, ast.If) includes the node itself) *)
Fixpoint count_ifs (s : stmt) : nat :=
  match s with
  | SIf _ b e => 1 + list_sum (map count_ifs b) + list_sum (map count_ifs e)
  | SLoop _ b e => list_sum (map count_ifs b) + list_sum (map count_ifs e)
  | _ => 0
  end.
Definition count_branches (l : list stmt) : nat := 1 + list_sum (map count_ifs l).

Definition starts_with_jump (l : list stmt) : bool :=
  match l with (SReturn _ | SContinue | SBreak) :: _ => true | _ => false end.

(* _orelse_preferred_as_body *)
Definition opab (body orelse : list stmt) : bool :=
  if forallb is_pass body then true
  else if forallb is_pass orelse then false
  else
    let bb := anyb body in let ob := anyb orelse in
    if bb && negb ob then false
    else if ob && negb bb then true
    else if ob && bb && (2 * count_branches orelse <=? count_branches body) then true
    else starts_with_jump orelse && (3 <? length body).

(* _swap_explicit_if_else, one pass: outermost sites first (ast.walk is breadth-first, an inner rewrite
   overlapping a scheduled outer one is dropped until the next pass); elif nodes are skipped *)
Definition swap_site (b e : list stmt) : bool :=
  match e with
  | [] => false
  | _ => negb (anyb b && negb (anyb e)) && opab b e
  end.
Fixpoint sw (n : nat) (p : list stmt) : list stmt :=
  match n with
  | O => p
  | S n' =>
      map (fun s =>
        match s with
        | SIf t b e => if swap_site b e then SIf (negate t) e (nopass b)
                       else SIf t (sw n' b) (sw_else n' e)
        | SLoop h b e => SLoop h (sw n' b) (sw n' e)
        | _ => s
        end) p
  end
with sw_else (n : nat) (e : list stmt) : list stmt :=
  match n with
  | O => e
  | S n' =>
      match e with
      | [SIf t2 b2 e2] => [SIf t2 (sw n' b2) (sw_else n' e2)]
      | _ => sw n' e
      end
  end.
Definition swap_explicit (p : list stmt) : list stmt := fix5 (fun q => sw (fuel_of q) q) p.

(* _swap_implicit_if_else: `if t: B` (B blocking, no else) followed by the rest R of its block, R blocking
   too and preferred as body: becomes `if not t: R else: B`.  Only the first passing candidate is
   rewritten (the correspondence domain has at most one). *)
Definition implicit_site (s : stmt) (rest : list stmt) : option (list stmt) :=
  match s, rest with
  | SIf t b [], _ :: _ =>
      if anyb b && anyb rest && opab b rest then Some [SIf (negate t) rest (nopass b)] else None
  | _, _ => None
  end.
Fixpoint swi (n : nat) (p : list stmt) : option (list stmt) :=
  match n with
  | O => None
  | S n' =>
      match p with
      | [] => None
      | s :: rest =>
          match implicit_site s rest with
          | Some q => Some q
          | None =>
              let inside :=
                match s with
                | SIf t b e =>
                    match swi n' b with
                    | Some b' => Some (SIf t b' e)
                    | None => option_map (fun e' => SIf t b e') (swi n' e)
                    end
                | SLoop h b e =>
                    match swi n' b with
                    | Some b' => Some (SLoop h b' e)
                    | None => option_map (fun e' => SLoop h b e') (swi n' e)
                    end
                | _ => None
                end in
              match inside with
              | Some s' => Some (s' :: rest)
              | None => option_map (cons s) (swi n' rest)
              end
          end
      end
  end.
Definition swap_if_else_model (p : list stmt) : list stmt :=
  match swi (fuel_of p) p with
  | Some q => swap_explicit (swap_explicit q)
  | None => swap_explicit p
  end.

(* ---------------------------------------------------------------------------------------------- *)
(* fixes.delete_unreachable_code (fixes.py:876-922, after repairs d6620b5, 7d823f2).
   - in the body of every node that is not an If/While (the function, for loops): everything after the first
     blocking statement is deleted ([duc_scan]); bodies of If/While and all else blocks are not scanned;
   - `if <literal>`: the dead branch is emptied (an `elif` clause in a dead else is removed), an `if` with a
     falsy literal test and no else is deleted; `while <falsy literal>` likewise.
   Fixpoint of the passes. *)
Fixpoint duc_scan (n : nat) (p : list stmt) : list stmt :=
  match n with
  | O => p
  | S n' =>
      match p with
      | [] => []
      | s :: rest => let s' := duc_stmt n' s in s' ++ (if anyb s' then [] else duc_scan n' rest)
      end
  end
with duc_plain (n : nat) (p : list stmt) : list stmt :=
  match n with
  | O => p
  | S n' => flat_map (duc_stmt n') p
  end
with duc_stmt (n : nat) (s : stmt) : list stmt :=
  match n with
  | O => [s]
  | S n' =>
      match s with
      | SIf t b e =>
          match tval t with
          | Some true =>
              [SIf t (fixb (duc_plain n' b)) (match e with [] => [] | _ => if is_elif e then [] else [SPass] end)]
          | Some false =>
              match duc_else n' e with
              | [] => []                     (* no else (left): the node is deleted *)
              | e' => [SIf t [SPass] e']
              end
          | None => [SIf t (fixb (duc_plain n' b)) (duc_else n' e)]
          end
      | SLoop (HWhile t) b e =>
          match tval t, e with
          | Some false, [] => []
          | Some false, _ => [SLoop (HWhile t) [SPass] (fixe e (duc_plain n' e))]
          | _, _ => [SLoop (HWhile t) (fixb (duc_plain n' b)) (fixe e (duc_plain n' e))]
          end
      | SLoop (HFor it) b e => [SLoop (HFor it) (fixb (duc_scan n' b)) (fixe e (duc_plain n' e))]
      | _ => [s]
      end
  end
with duc_else (n : nat) (e : list stmt) : list stmt :=
  match n with
  | O => e
  | S n' => if is_elif e then duc_plain n' e else fixe e (duc_plain n' e)
  end.
Definition delete_unreachable_code_model (p : list stmt) : list stmt := fixb (duc_scan (2 * fuel_of p) p).

(* ---------------------------------------------------------------------------------------------- *)
(* fixes.early_return (fixes.py:1290-1322): the function body ends with `<if>; return x` and every path
   through the trailing if/elif/else chain (recursively through last statements that are ifs, all with an
   else) ends with `x = <value>`: each such assignment becomes `return <value>`, the final return is
   deleted. *)
Definition er_go (rec : list stmt -> option (list stmt)) (x : var) : list stmt -> option (list stmt) :=
  fix go (b : list stmt) : option (list stmt) :=
    match b with
    | [] => None
    | [s] =>
        match s with
        | SAssign y r => if Nat.eqb y x then Some [SReturn r] else None
        | SIf t bb ee =>
            match rec bb, rec ee with
            | Some b', Some e' => Some [SIf t b' e']
            | _, _ => None
            end
        | _ => None
        end
    | s :: tl => option_map (cons s) (go tl)
    end.
Fixpoint er_block (n : nat) (x : var) (b : list stmt) : option (list stmt) :=
  match n with
  | O => None
  | S n' => er_go (er_block n' x) x b
  end.
Fixpoint er_top (n : nat) (p : list stmt) : list stmt :=
  match p with
  | [SIf t b e; SReturn (RVar x)] =>
      match er_block n x [SIf t b e] with Some q => q | None => p end
  | s :: tl => s :: er_top n tl
  | [] => []
  end.
Definition early_return_model (p : list stmt) : list stmt := er_top (fuel_of p) p.

(* ---------------------------------------------------------------------------------------------- *)
(* fixes.early_continue (fixes.py:1336-1371; one application through processing.alter_code): in a `for` loop
   whose last statement is an `if` that does not already end with `continue`:
     - if that `if` or an `if` nested in its else part has an else of more than 2 statements, `continue` is
       appended to its body;
     - else if it has no else, enough statements and spans >= 6 lines, it becomes `if not t: continue else: body`. *)
Fixpoint nlines (s : stmt) : nat :=
  match s with
  | SIf _ b e =>
      1 + list_sum (map nlines b) +
      match e with
      | [] => 0
      | [SIf _ _ _ as i] => nlines i            (* printed as elif *)
      | _ => 1 + list_sum (map nlines e)
      end
  | SLoop _ b e =>
      1 + list_sum (map nlines b) + match e with [] => 0 | _ => 1 + list_sum (map nlines e) end
  | _ => 1
  end.
(* some If in the subtree (the node included) has more than 2 statements in its else *)
Fixpoint big_else (s : stmt) : bool :=
  match s with
  | SIf _ b e => (2 <? length e) || existsb big_else b || existsb big_else e
  | SLoop _ b e => existsb big_else b || existsb big_else e
  | _ => false
  end.
(* sum of (len(body) - 1) over the compound statements nested in a block (iter_bodies_recursive) *)
Fixpoint body_excess (s : stmt) : nat :=
  match s with
  | SIf _ b e => (length b - 1) + list_sum (map body_excess b) + list_sum (map body_excess e)
  | SLoop _ b e => (length b - 1) + list_sum (map body_excess b) + list_sum (map body_excess e)
  | _ => 0
  end.
Definition ends_with_continue (b : list stmt) : bool :=
  match rev b with SContinue :: _ => true | _ => false end.

(* Some (new statement, replaced?) when the rule fires on the last statement of a for body *)
Definition ec_last (s : stmt) : option (stmt * bool) :=
  match s with
  | SIf t bb ee =>
      if ends_with_continue bb then None
      else if (2 <? length ee) || existsb big_else ee then Some (SIf t (bb ++ [SContinue]) ee, false)
      else if (3 <=? (length bb - 1) + list_sum (map body_excess bb))
              && (5 <=? list_sum (map nlines bb) - 1)
              && (match ee with [] => true | _ => false end)
           then Some (SIf (negate t) [SContinue] bb, true)
           else None
  | _ => None
  end.
(* after repair (early_continue keeps only the outermost replacements): nothing is edited inside a replaced
   `if`; a loop nested there is handled by the next run of the rule *)
Definition ec_body (rec : stmt -> stmt) : list stmt -> list stmt :=
  fix body (b : list stmt) : list stmt :=
    match b with
    | [] => []
    | [s] => match ec_last s with
             | Some (s', true) => [s']
             | Some (s', false) => [rec s']
             | None => [rec s]
             end
    | s :: tl => rec s :: body tl
    end.
Fixpoint ec1 (n : nat) (s : stmt) : stmt :=
  match n with
  | O => s
  | S n' =>
      match s with
      | SIf t b e => SIf t (map (ec1 n') b) (map (ec1 n') e)
      | SLoop (HFor it) b e => SLoop (HFor it) (ec_body (ec1 n') b) (map (ec1 n') e)
      | SLoop h b e => SLoop h (map (ec1 n') b) (map (ec1 n') e)
      | _ => s
      end
  end.
Definition ec (n : nat) (p : list stmt) : list stmt := map (ec1 n) p.
Definition early_continue_model (p : list stmt) : list stmt := ec (fuel_of p) p.

(* ---------------------------------------------------------------------------------------------- *)
(* fixes.breakout_common_code_in_ifs (fixes.py:2348-2481).
   For an `if` with an else (not an elif):
     (A) first statements of both branches equal          -> moved before the `if`
     (B) else last statements equal                       -> moved after the `if`
     then, when the recursive first/last leaves exist (every nested first/last `if` has an else):
     (C) all recursive first leaves equal                 -> moved before
     (D) else all recursive last leaves equal             -> moved after
     (E) else the non-blocking recursive last leaves (>= 2) equal -> those moved after
     otherwise the decision of (A)/(B) stands.  `pass` is never moved.
   For an `if` without else whose body blocks, followed by the rest R of its block: (A)/(C) between the body
   and R (moved before).  One pass applies every site (an edit inside a removed statement is dropped);
   processing.fix iterates the pass. *)
Fixpoint split_last {A} (l : list A) : option (list A * A) :=
  match l with
  | [] => None
  | [x] => Some ([], x)
  | x :: tl => match split_last tl with Some (i, z) => Some (x :: i, z) | None => None end
  end.
Definition pick (front : bool) (l : list stmt) : option stmt :=
  if front then hd_error l else option_map snd (split_last l).

(* _all_branches: None = IndexError *)
Fixpoint leaves (front : bool) (n : nat) (s : stmt) : option (list stmt) :=
  match n with
  | O => None
  | S n' =>
      match s with
      | SIf _ bb ee =>
          match pick front bb, pick front ee with
          | Some x, Some y =>
              match leaves front n' x, leaves front n' y with
              | Some l1, Some l2 => Some (l1 ++ l2)
              | _, _ => None
              end
          | _, _ => None
          end
      | _ => Some [s]
      end
  end.
Definition all_same (l : list stmt) : bool :=
  match l with x :: tl => forallb (stmt_eqb x) tl | [] => false end.

(* remove the recursive first/last leaf of a statement; [nb]: blocking leaves stay *)
Fixpoint strip (front nb : bool) (n : nat) (s : stmt) : list stmt :=
  match n with
  | O => [s]
  | S n' =>
      match s with
      | SIf t bb ee =>
          let on := fun (l : list stmt) =>
            if front then match l with x :: tl => strip front nb n' x ++ tl | [] => [] end
            else match split_last l with Some (i, z) => i ++ strip front nb n' z | None => [] end in
          [SIf t (fixb (on bb)) (fixb (on ee))]
      | _ => if nb && is_blocking s PNone then [s] else []
      end
  end.
(* remove the first/last statement of a block as a whole *)
Definition drop_top (front : bool) (l : list stmt) : list stmt :=
  if front then tl l else match split_last l with Some (i, _) => i | None => [] end.
Definition strip_block (front nb : bool) (n : nat) (l : list stmt) : list stmt :=
  if front then match l with x :: tl => strip front nb n x ++ tl | [] => [] end
  else match split_last l with Some (i, z) => i ++ strip front nb n z | None => [] end.

Inductive bmode := MTop | MDeep | MDeepNB.
Record bdec := mkB { bd_front : bool; bd_mode : bmode; bd_stmt : stmt }.

Definition bc_decide (n : nat) (explicit : bool) (b e : list stmt) : option bdec :=
  match pick true b, pick true e, pick false b, pick false e with
  | Some b0, Some e0, Some bl, Some el =>
      let d0 := if stmt_eqb b0 e0 then Some (mkB true MTop b0)
                else if explicit && stmt_eqb bl el then Some (mkB false MTop bl) else None in
      let d1 :=
        match leaves true n b0, leaves true n e0, leaves false n bl, leaves false n el with
        | Some s1, Some s2, Some f1, Some f2 =>
            let sb := s1 ++ s2 in let eb := f1 ++ f2 in
            if all_same sb then Some (mkB true MDeep (hd SPass sb))
            else if explicit && all_same eb then Some (mkB false MDeep (hd SPass eb))
            else
              let nbl := filter (fun x => negb (is_blocking x PNone)) eb in
              if explicit && (2 <=? length nbl) && all_same nbl then Some (mkB false MDeepNB (hd SPass nbl))
              else d0
        | _, _, _, _ => d0
        end in
      match d1 with
      | Some d => if is_pass (bd_stmt d) then None else Some d
      | None => None
      end
  | _, _, _, _ => None
  end.
Definition is_simple_stmt (s : stmt) : bool := match s with SIf _ _ _ | SLoop _ _ _ => false | _ => true end.

(* the two blocks after the removals of decision d *)
Definition bc_strip (n : nat) (d : bdec) (l : list stmt) : list stmt :=
  match bd_mode d with
  | MTop => drop_top (bd_front d) l
  | MDeep => strip_block (bd_front d) false n l
  | MDeepNB => strip_block (bd_front d) true n l
  end.

(* A decision the text back end cannot carry out: a compound statement to be moved BEFORE the `if` (the node is
   inserted with only its first line re-indented).  The resulting text is not valid Python and the WHOLE pass is
   rolled back ([bcx]).  Statements moved BEHIND the `if` are inserted as indented text right after the end of the
   `if` (after repair of _move_after_scope) and always succeed. *)
Definition bc_bad (d : bdec) (rest : list stmt) : bool :=
  bd_front d && negb (is_simple_stmt (bd_stmt d)).

Definition bc_implicit (p b rest : list stmt) : option bdec :=
  if anyb b then match rest with [] => None | _ => bc_decide (fuel_of p) false b rest end else None.

Definition bc_else' (n : nat) (d : bdec) (e : list stmt) : list stmt :=
  match bd_mode d, is_elif e with
  | MTop, true => []                 (* the elif clause itself is removed *)
  | _, _ => fixb (bc_strip n d e)
  end.

Fixpoint bcp (n : nat) (p : list stmt) : list stmt :=
  match n with
  | O => p
  | S n' =>
      match p with
      | [] => []
      | s :: rest =>
          match s with
          | SIf t b [] =>
              (* implicit else: body blocks, the rest of the block plays the else *)
              match bc_implicit p b rest with
              | Some d =>
                  if bc_bad d rest then SIf t (bcp n' b) [] :: bcp n' rest
                  else bd_stmt d :: SIf t (bcp n' (fixb (bc_strip (fuel_of p) d b))) []
                                 :: bcp n' (bc_strip (fuel_of p) d rest)
              | None => SIf t (bcp n' b) [] :: bcp n' rest
              end
          | SIf t b e =>
              match bc_decide (fuel_of p) true b e with
              | Some d =>
                  if bc_bad d rest then SIf t (bcp n' b) (bcp_else n' e) :: bcp n' rest
                  else
                    let s' := SIf t (bcp n' (fixb (bc_strip (fuel_of p) d b)))
                                    (bcp_else n' (bc_else' (fuel_of p) d e)) in
                    if bd_front d then bd_stmt d :: s' :: bcp n' rest
                    else s' :: bd_stmt d :: bcp n' rest
              | None => SIf t (bcp n' b) (bcp_else n' e) :: bcp n' rest
              end
          | SLoop h b e => SLoop h (bcp n' b) (bcp n' e) :: bcp n' rest
          | _ => s :: bcp n' rest
          end
      end
  end
with bcp_else (n : nat) (e : list stmt) : list stmt :=
  match n with
  | O => e
  | S n' =>
      match e with
      | [SIf t2 b2 e2] => [SIf t2 (bcp n' b2) (bcp_else n' e2)]
      | _ => bcp n' e
      end
  end.

(* does the pass meet a decision that cannot be carried out? (same traversal as bcp) *)
Fixpoint bcx (n : nat) (p : list stmt) : bool :=
  match n with
  | O => false
  | S n' =>
      match p with
      | [] => false
      | s :: rest =>
          match s with
          | SIf t b [] =>
              match bc_implicit p b rest with
              | Some d =>
                  bc_bad d rest || bcx n' (fixb (bc_strip (fuel_of p) d b)) || bcx n' (bc_strip (fuel_of p) d rest)
              | None => bcx n' b || bcx n' rest
              end
          | SIf t b e =>
              match bc_decide (fuel_of p) true b e with
              | Some d =>
                  bc_bad d rest || bcx n' (fixb (bc_strip (fuel_of p) d b))
                  || bcx_else n' (bc_else' (fuel_of p) d e) || bcx n' rest
              | None => bcx n' b || bcx_else n' e || bcx n' rest
              end
          | SLoop h b e => bcx n' b || bcx n' e || bcx n' rest
          | _ => bcx n' rest
          end
      end
  end
with bcx_else (n : nat) (e : list stmt) : bool :=
  match n with
  | O => false
  | S n' =>
      match e with
      | [SIf t2 b2 e2] => bcx n' b2 || bcx_else n' e2
      | _ => bcx n' e
      end
  end.
Definition bc_pass (p : list stmt) : list stmt := if bcx (fuel_of p) p then p else bcp (fuel_of p) p.
Definition breakout_common_code_model (p : list stmt) : list stmt := fix5 bc_pass p.
(* ---- the guard of the partial theorem: every statement moved BEFORE an `if` commutes with the tests it is
        moved over (the test is a literal, or the statement assigns a constant to a variable the test does
        not read).  Moves behind the `if` need no guard. *)
Fixpoint test_reads (t : test) : list var :=
  match t with Known _ => [] | Unknown _ rd => rd | TNot u => test_reads u end.
Definition commutes (X : stmt) (t : test) : bool :=
  match tval t with
  | Some _ => true
  | None => match X with
            | SAssign x (RVal _) => negb (existsb (Nat.eqb x) (test_reads t))
            | _ => false
            end
  end.
Fixpoint front_tests (n : nat) (s : stmt) : list test :=
  match n with
  | O => []
  | S n' =>
      match s with
      | SIf t bb ee =>
          t :: match bb with x :: _ => front_tests n' x | [] => [] end
            ++ match ee with y :: _ => front_tests n' y | [] => [] end
      | _ => []
      end
  end.
Definition heads_tests (n : nat) (l : list stmt) : list test :=
  match l with x :: _ => front_tests n x | [] => [] end.
Definition hoist_ok (n : nat) (d : bdec) (t : test) (b e : list stmt) : bool :=
  negb (bd_front d) ||
  (commutes (bd_stmt d) t &&
   match bd_mode d with
   | MTop => true
   | _ => forallb (commutes (bd_stmt d)) (heads_tests n b ++ heads_tests n e)
   end).
Fixpoint bcs (n : nat) (p : list stmt) : bool :=
  match n with
  | O => true
  | S n' =>
      match p with
      | [] => true
      | s :: rest =>
          match s with
          | SIf t b [] =>
              match bc_implicit p b rest with
              | Some d =>
                  if bc_bad d rest then bcs n' b && bcs n' rest
                  else hoist_ok (fuel_of p) d t b rest
                       && bcs n' (fixb (bc_strip (fuel_of p) d b)) && bcs n' (bc_strip (fuel_of p) d rest)
              | None => bcs n' b && bcs n' rest
              end
          | SIf t b e =>
              match bc_decide (fuel_of p) true b e with
              | Some d =>
                  if bc_bad d rest then bcs n' b && bcs_else n' e && bcs n' rest
                  else hoist_ok (fuel_of p) d t b e
                       && bcs n' (fixb (bc_strip (fuel_of p) d b))
                       && bcs_else n' (bc_else' (fuel_of p) d e) && bcs n' rest
              | None => bcs n' b && bcs_else n' e && bcs n' rest
              end
          | SLoop h b e => bcs n' b && bcs n' e && bcs n' rest
          | _ => bcs n' rest
          end
      end
  end
with bcs_else (n : nat) (e : list stmt) : bool :=
  match n with
  | O => true
  | S n' =>
      match e with
      | [SIf t2 b2 e2] => bcs n' b2 && bcs_else n' e2
      | _ => bcs n' e
      end
  end.
Definition bc_pass_safe (p : list stmt) : bool := bcx (fuel_of p) p || bcs (fuel_of p) p.
Definition bc_safe (p : list stmt) : bool :=
  let s1 := bc_pass p in let s2 := bc_pass s1 in let s3 := bc_pass s2 in let s4 := bc_pass s3 in
  bc_pass_safe p && bc_pass_safe s1 && bc_pass_safe s2 && bc_pass_safe s3 && bc_pass_safe s4.


(* ---------------------------------------------------------------------------------------------- *)
(* fixes.move_before_loop (fixes.py:949-1077, after repairs d47dff7, eeaceb7, 6970620) on loops whose body consists of simple statements only (the
   dependency analysis tracing.code_dependencies_outputs is modelled for straight-line code; a loop with a
   compound statement in its body is outside the correspondence domain and left alone).
   A top-level assignment `x = <constant or variable>` of the loop body is moved in front of the loop when
     - no return/raise/break/continue precedes it in the body,
     - x neither occurs in the statements before it nor in the loop header,
     - a variable on its right-hand side is not assigned elsewhere in the body,
     - (d47dff7) the statements behind it do not read x and then assign it again (scanned up to and
       including the first statement that assigns x; `x = x` both reads and assigns).
   The other conditions added by the repairs (targets that are not plain names, values computed from objects
   the loop may change -- the exemption for a bare name on the right-hand side is what MiniPy has --, names
   declared global/nonlocal) concern constructs MiniPy does not have.
   The rule restarts after every move. *)
Definition rexpr_reads (e : rexpr) : list var :=
  match e with RVal _ => [] | RVar y => [y] | RTest t => test_reads t end.
Definition stmt_reads (s : stmt) : list var :=
  match s with
  | SEv _ rd => rd
  | SAssign _ e => rexpr_reads e
  | SReturn e => rexpr_reads e
  | _ => []
  end.
Definition stmt_writes (s : stmt) : list var := match s with SAssign x _ => [x] | _ => [] end.
Definition is_jump (s : stmt) : bool :=
  match s with SReturn _ | SRaise | SBreak | SContinue => true | _ => false end.
Definition head_reads (h : head) : list var :=
  match h with
  | HWhile t => test_reads t
  | HFor (IKnown _) => []
  | HFor (IUnknown _ rd) => rd
  end.
Definition mem (x : var) (l : list var) : bool := existsb (Nat.eqb x) l.
Definition occurs (x : var) (l : list stmt) : bool :=
  existsb (fun s => mem x (stmt_reads s) || mem x (stmt_writes s)) l.
Definition writes_in (x : var) (l : list stmt) : bool := existsb (fun s => mem x (stmt_writes s)) l.

(* is_read / is_reassigned of d47dff7: [rd] = x was read by an earlier statement of [after] *)
Fixpoint read_then_reassigned (x : var) (rd : bool) (after : list stmt) : bool :=
  match after with
  | [] => false
  | s :: tl =>
      let rd' := rd || mem x (stmt_reads s) in
      if mem x (stmt_writes s) then rd' else read_then_reassigned x rd' tl
  end.
Definition hoistable (h : head) (before : list stmt) (s : stmt) (after : list stmt) : bool :=
  match s with
  | SAssign x k =>
      match k with RTest _ => false | _ => true end
      && negb (existsb is_jump before)
      && negb (occurs x before)
      && negb (mem x (head_reads h))
      && match k with RVar y => negb (writes_in y (before ++ after)) | _ => true end
      && negb (read_then_reassigned x false after)
  | _ => false
  end.
(* first hoistable statement: Some (statement, body without it) *)
Fixpoint hoist_one (h : head) (before : list stmt) (l : list stmt) : option (stmt * list stmt) :=
  match l with
  | [] => None
  | s :: tl => if hoistable h before s tl then Some (s, before ++ tl)
               else hoist_one h (before ++ [s]) tl
  end.
Fixpoint hoist_all (n : nat) (h : head) (body : list stmt) : list stmt * list stmt :=
  match n with
  | O => ([], body)
  | S n' =>
      match hoist_one h [] body with
      | Some (s, body') => let (pre, b) := hoist_all n' h body' in (s :: pre, b)
      | None => ([], body)
      end
  end.
Fixpoint mbl (n : nat) (p : list stmt) : list stmt :=
  match n with
  | O => p
  | S n' =>
      flat_map (fun s =>
        match s with
        | SIf t b e => [SIf t (mbl n' b) (mbl n' e)]
        | SLoop h b e =>
            if forallb is_simple_stmt b then
              let (pre, b') := hoist_all (length b) h b in pre ++ [SLoop h (fixb b') (mbl n' e)]
            else [s]
        | _ => [s]
        end) p
  end.
Definition move_before_loop_model (p : list stmt) : list stmt := mbl (fuel_of p) p.
(* ---- guard of the partial theorem: every loop out of which something is moved certainly runs its body at
        least once, the moved statement assigns a constant, and its variable is not assigned elsewhere in
        the body *)
Definition runs_once (h : head) : bool :=
  match h with
  | HWhile t => match tval t with Some true => true | _ => false end
  | HFor (IKnown (S _)) => true
  | HFor _ => false
  end.
Fixpoint hoist_all_safe (n : nat) (h : head) (body : list stmt) : bool :=
  match n with
  | O => true
  | S n' =>
      match hoist_one h [] body with
      | Some (s, body') =>
          runs_once h
          && match s with SAssign x (RVal _) => negb (writes_in x body') | _ => false end
          && hoist_all_safe n' h body'
      | None => true
      end
  end.
Fixpoint mbl_safe (n : nat) (p : list stmt) : bool :=
  match n with
  | O => true
  | S n' =>
      forallb (fun s =>
        match s with
        | SIf t b e => mbl_safe n' b && mbl_safe n' e
        | SLoop h b e =>
            if forallb is_simple_stmt b then hoist_all_safe (length b) h b && mbl_safe n' e else true
        | _ => true
        end) p
  end.


(* ---------------------------------------------------------------------------------------------- *)
(* correspondence plumbing: (rule number, input program, expected output of the real rule) *)
Definition apply_rule (k : nat) (p : list stmt) : list stmt :=
  match k with
  | 0 => remove_dead_ifs_model p
  | 1 => remove_redundant_else_model p
  | 2 => fix_if_return_model p
  | 3 => fix_if_assign_model p
  | 4 => swap_if_else_model p
  | 5 => delete_unreachable_code_model p
  | 6 => early_return_model p
  | 7 => early_continue_model p
  | 8 => breakout_common_code_model p
  | 9 => move_before_loop_model p
  | _ => p
  end.
(* expected = None: the real rule left the program unchanged *)
Definition rule_case_ok (c : nat * list stmt * option (list stmt)) : bool :=
  let '(k, p, expected) := c in
  prog_eqb (canon (apply_rule k p)) (match expected with Some q => q | None => p end).

(* is_blocking / may_leave against core.is_blocking / core._may_leave_iteration *)
Definition blocking_case_ok (c : stmt * list bool) : bool :=
  let '(s, exp) := c in
  match exp with
  | [a; b; d] => Bool.eqb (is_blocking s PNone) a && Bool.eqb (is_blocking s PLoop) b
                 && Bool.eqb (may_leave s) d
  | _ => false
  end.
