(* K3 -- model of the offset arithmetic of pyrefact/core.py
     _get_line_start_charnos, _get_charno, _get_position, get_charnos, Match.{string,lineno,col_offset},
     has_ignore_comment
   and of the re-like wrappers of pyrefact/pattern_matching.py (findall/search/match/fullmatch, the
   text printed by the command-line `find`).
   Text is [list N] (code points).  Python ints are [Z] (negative indices wrap as in Python).
   The model mirrors the code as it is after the fix: commits F13-1..F13-5.  No proofs in this file. *)
From Coq Require Import List ZArith NArith Bool.
Require Import Pyrefact.Base.
Import ListNotations.
Open Scope Z_scope.

Definition text := list N.
Definition len {A} (l : list A) : Z := Z.of_nat (length l).

(* ------------------------------------------------------------------------------------------ *)
(* Python sequence indexing and slicing *)

(* t[i]; None = IndexError *)
Definition py_index {A} (t : list A) (i : Z) : option A :=
  if i <? 0 then (if i + len t <? 0 then None else nth_error t (Z.to_nat (i + len t)))
  else nth_error t (Z.to_nat i).

(* normalisation of a slice bound against a sequence of length n *)
Definition norm_idx (n i : Z) : Z := if i <? 0 then Z.max (i + n) 0 else Z.min i n.

(* s[a:b] *)
Definition py_slice {A} (s : list A) (a b : Z) : list A :=
  let a' := norm_idx (len s) a in
  let b' := norm_idx (len s) b in
  firstn (Z.to_nat (b' - a')) (skipn (Z.to_nat a') s).

(* ------------------------------------------------------------------------------------------ *)
(* code points *)

Definition neqb (c : N) (k : N) : bool := N.eqb c k.
Definition SP : N := 32%N.
Definition AT : N := 64%N.

(* the line ends the CPython tokenizer knows: \n \r (and \r\n) *)
Definition is_tok_nl (c : N) : bool := neqb c 10 || neqb c 13.

(* the separators of str.splitlines: \n \v \f \r \x1c \x1d \x1e \x85 \u2028 \u2029 (and \r\n) *)
Definition is_str_sep (c : N) : bool :=
  neqb c 10 || neqb c 11 || neqb c 12 || neqb c 13 || neqb c 28 || neqb c 29 || neqb c 30
  || neqb c 133 || neqb c 8232 || neqb c 8233.

(* number of bytes of the UTF-8 encoding of a code point *)
Definition utf8_len (c : N) : Z :=
  if (c <? 128)%N then 1 else if (c <? 2048)%N then 2 else if (c <? 65536)%N then 3 else 4.

Definition is_ascii (s : text) : bool := forallb (fun c => (c <? 128)%N) s.

Fixpoint utf8_size (s : text) : Z :=
  match s with [] => 0 | c :: tl => utf8_len c + utf8_size tl end.

(* ------------------------------------------------------------------------------------------ *)
(* lines (keepends=True) for a separator class; "\r\n" is one line end *)

(* does a line end right after the character c (whose successors are tl)? *)
Definition line_end (sep : N -> bool) (c : N) (tl : text) : bool :=
  sep c && negb (neqb c 13 && match tl with d :: _ => neqb d 10 | [] => false end).

Fixpoint lines (sep : N -> bool) (s : text) : list text :=
  match s with
  | [] => []
  | c :: tl =>
      if line_end sep c tl then [c] :: lines sep tl
      else match lines sep tl with
           | [] => [[c]]
           | l :: ls => (c :: l) :: ls
           end
  end.

(* str.splitlines(keepends=True) *)
Definition str_lines (s : text) : list text := lines is_str_sep s.
(* re.findall(r"[^\r\n]*(?:\r\n|\r|\n)|[^\r\n]+", s): the lines of the tokenizer *)
Definition tok_lines (s : text) : list text := lines is_tok_nl s.

(* ------------------------------------------------------------------------------------------ *)
(* core._get_line_start_charnos *)

(* the loop: charnos.append(start); start += len(line).  Returns the table and the final start. *)
Fixpoint starts_from (start : Z) (ls : list text) : list Z * Z :=
  match ls with
  | [] => ([], start)
  | l :: tl => let '(r, e) := starts_from (start + len l) tl in (start :: r, e)
  end.

(* `not source or source[-1] in "\r\n"` *)
Definition ends_with_nl (s : text) : bool :=
  match s with [] => true | _ => is_tok_nl (last s 0%N) end.

Definition line_starts (s : text) : list Z :=
  let '(r, e) := starts_from 0 (tok_lines s) in
  if ends_with_nl s then r ++ [e] else r.

(* ------------------------------------------------------------------------------------------ *)
(* core._get_charno: (lineno, utf-8 byte column) -> character number.  None = IndexError *)

(* len(bytes[:b].decode("utf-8", "ignore")): the characters that fit completely into b bytes *)
Fixpoint chars_in (l : text) (b : Z) : Z :=
  match l with
  | [] => 0
  | c :: tl => if utf8_len c <=? b then 1 + chars_in tl (b - utf8_len c) else 0
  end.

Definition get_charno (s : text) (lineno col : Z) : option Z :=
  match py_index (line_starts s) (Z.max (lineno - 1) 0) with   (* max(lineno - 1, 0): repair 58d55a0 *)
  | None => None
  | Some st =>
      if is_ascii s || (col <=? 0) then Some (st + col)
      else Some (st + chars_in (py_slice s st (st + col)) col)
  end.

(* ------------------------------------------------------------------------------------------ *)
(* core._get_position and core.get_charnos *)

Definition pos4 := (Z * Z * Z * Z)%type.   (* lineno, col_offset, end_lineno, end_col_offset *)
(* the four position attributes of a node; None = attribute missing (or None) *)
Definition attrs := (option Z * option Z * option Z * option Z)%type.

Definition get_position (a : attrs) : pos4 :=
  let '(l, c, el, ec) := a in
  let l' := match l with Some x => x | None => 1 end in
  let c' := match c with Some x => x | None => 0 end in
  (l', c', match el with Some x => x | None => l' end, match ec with Some x => x | None => c' end).

(* tuple order *)
Definition pos_ltb (a b : pos4) : bool :=
  let '(a1, a2, a3, a4) := a in
  let '(b1, b2, b3, b4) := b in
  (a1 <? b1) || ((a1 =? b1) && ((a2 <? b2) || ((a2 =? b2) && ((a3 <? b3) || ((a3 =? b3) && (a4 <? b4)))))).

(* min(xs, key=_get_position): the first minimal element *)
Fixpoint min_pos (best : pos4) (l : list pos4) : pos4 :=
  match l with
  | [] => best
  | x :: tl => min_pos (if pos_ltb x best then x else best) tl
  end.

(* length of the leading run of spaces *)
Fixpoint lspaces (l : text) : Z :=
  match l with
  | c :: tl => if neqb c SP then 1 + lspaces tl else 0
  | [] => 0
  end.
Definition rspaces (l : text) : Z := lspaces (rev l).

Fixpoint dropwhile (f : N -> bool) (l : text) : text :=
  match l with
  | c :: tl => if f c then dropwhile f tl else l
  | [] => []
  end.
Definition rstrip (f : N -> bool) (l : text) : text := rev (dropwhile f (rev l)).

(* the characters skipped when looking for the "@" of the first decorator: " \t\f\\\r\n(" *)
Definition is_dec_blank (c : N) : bool :=
  neqb c 32 || neqb c 9 || neqb c 12 || neqb c 92 || neqb c 13 || neqb c 10 || neqb c 40.

Definition range := (Z * Z)%type.

(* get_charnos(node, source, keep_first_indent).
   decs   = positions of node.decorator_list ([] when the node has none / no such attribute)
   a      = the node's own position attributes
   is_def = isinstance(node, (ClassDef, FunctionDef, AsyncFunctionDef)) *)
Definition get_charnos (s : text) (decs : list pos4) (a : attrs) (is_def keep : bool) : option range :=
  let node_position := get_position a in
  let start_position :=
    match decs with [] => node_position | d :: ds => min_pos d ds end in
  let '(sl, sc, _, _) := start_position in
  let '(_, _, el, ec) := node_position in
  match get_charno s sl sc with
  | None => None
  | Some start0 =>
      match a with
      | (_, _, None, _) => Some (start0, start0)
      | _ =>
          match get_charno s el ec with
          | None => None
          | Some end0 =>
              let code := py_slice s start0 end0 in
              let start1 := match code with
                            | c :: _ => if neqb c SP then start0 + lspaces code else start0
                            | [] => start0 end in
              let end1 := match rev code with
                          | c :: _ => if neqb c SP then end0 - rspaces code else end0
                          | [] => end0 end in
              let start2 :=
                match decs with
                | [] => start1
                | _ :: _ =>
                    if is_def then
                      let at_ := len (rstrip is_dec_blank (py_slice s 0 start1)) - 1 in
                      if (0 <=? at_) && match py_index s at_ with Some c => neqb c AT | None => false end
                      then at_ else start1
                    else start1
                end in
              let start3 := if keep then start2 - rspaces (py_slice s 0 start2) else start2 in
              Some (start3, end1)
          end
      end
  end.

(* ------------------------------------------------------------------------------------------ *)
(* core.Match *)

(* Match.string *)
Definition match_string (s : text) (r : range) : text := py_slice s (fst r) (snd r).

(* the loop of Match._lineno_col_offset over table[1:] *)
Fixpoint lc_loop (prev ln : Z) (rest : list Z) (p : Z) : Z * Z :=
  match rest with
  | [] => (ln, p - prev)
  | t :: rest' => if p <? t then (ln, p - prev) else lc_loop t (ln + 1) rest' p
  end.

(* Match._lineno_col_offset; None = IndexError (empty table) *)
Definition lineno_col (s : text) (p : Z) : option (Z * Z) :=
  match line_starts s with
  | [] => None
  | t0 :: rest => Some (lc_loop t0 1 rest p)
  end.

(* ------------------------------------------------------------------------------------------ *)
(* pattern_matching: the wrappers, over the list of spans that find_replace yields (in order) *)

Definition range_eqb (a b : range) : bool := (fst a =? fst b) && (snd a =? snd b).

Definition findall (s : text) (spans : list range) : list text := map (match_string s) spans.
Definition search (spans : list range) : option range := hd_error spans.

Definition zmin_list (d : Z) (l : list Z) : Z := fold_left Z.min l d.
Definition zmax_list (d : Z) (l : list Z) : Z := fold_left Z.max l d.

(* Range(min starts, max ends) of the ranges of root.body; None = empty body *)
Definition body_range (body : list range) : option range :=
  match body with
  | [] => None
  | b :: bs => Some (zmin_list (fst b) (map fst bs), zmax_list (snd b) (map snd bs))
  end.

Definition pm_match (body : list range) (spans : list range) : option range :=
  match body_range body with
  | None => None
  | Some br => find (fun m => fst m =? fst br) spans
  end.

Definition pm_fullmatch (body : list range) (spans : list range) : option range :=
  match body_range body with
  | None => None
  | Some br => find (fun m => range_eqb m br) spans
  end.

(* `find`: f"{filename}:{match.lineno}:{match.col_offset}: {match.string.splitlines()[0]}";
   None = IndexError (empty string / empty table) *)
Fixpoint takewhile (f : N -> bool) (l : text) : text :=
  match l with
  | c :: tl => if f c then c :: takewhile f tl else []
  | [] => []
  end.

Definition cli_fields (s : text) (r : range) : option (Z * Z * text) :=
  match lineno_col s (fst r), match_string s r with
  | Some (l, c), (x :: _) as str => Some (l, c, takewhile (fun ch => negb (is_str_sep ch)) str)
  | _, _ => None
  end.

(* ------------------------------------------------------------------------------------------ *)
(* core.has_ignore_comment *)

(* \s of a str pattern *)
Definition is_space (c : N) : bool :=
  ((9 <=? c) && (c <=? 13))%N || ((28 <=? c) && (c <=? 32))%N || neqb c 133 || neqb c 160
  || neqb c 5760 || ((8192 <=? c) && (c <=? 8202))%N || neqb c 8232 || neqb c 8233 || neqb c 8239
  || neqb c 8287 || neqb c 12288.

Fixpoint prefix_of (p l : text) : option text :=   (* l = p ++ rest *)
  match p, l with
  | [], _ => Some l
  | x :: p', y :: l' => if neqb x y then prefix_of p' l' else None
  | _ :: _, [] => None
  end.

Definition w_pyrefact : text := [112; 121; 114; 101; 102; 97; 99; 116]%N.
Definition w_skip_file : text := [115; 107; 105; 112; 95; 102; 105; 108; 101]%N.
Definition w_ignore : text := [105; 103; 110; 111; 114; 101]%N.

(* does  \s*pyrefact\s*:\s*(skip_file|ignore)  match at the start of l ? *)
Definition ignore_tail (l : text) : bool :=
  match prefix_of w_pyrefact (dropwhile is_space l) with
  | None => false
  | Some r1 =>
      match dropwhile is_space r1 with
      | c :: r2 =>
          if neqb c 58 then
            let r3 := dropwhile is_space r2 in
            match prefix_of w_skip_file r3, prefix_of w_ignore r3 with
            | None, None => false
            | _, _ => true
            end
          else false
      | [] => false
      end
  end.

(* pattern.search(line) *)
Fixpoint has_ignore_pattern (l : text) : bool :=
  match l with
  | [] => false
  | c :: tl => (neqb c 35 && ignore_tail tl) || has_ignore_pattern tl
  end.

Definition overlaps (a b : range) : bool := (fst a <? snd b) && (fst b <? snd a).

(* core.strip_line_terminator(line) != line : the line ends with \n, \r\n or \r *)
Definition terminated (l : text) : bool :=
  match l with [] => false | _ => is_tok_nl (last l 0%N) end.

(* does the range r touch the line l = [ls, le) ?  A non-empty range: Range.overlaps (`rng & Range(..)`).
   An empty range (an insertion; repair 8992e08): anywhere from the first column of the line up to its
   terminator, and at the very end of a line without terminator (the unterminated last line). *)
Definition touches_line (r : range) (ls le : Z) (l : text) : bool :=
  if fst r =? snd r
  then ((ls <=? fst r) && (fst r <? le)) || ((fst r =? le) && negb (terminated l))
  else overlaps r (ls, le).

(* core._ignore_comment_linenos (repair 776bcb9): the zero-based numbers of the physical lines that carry
   a COMMENT token matching the regex; None when CPython's tokenize raises (then every line whose text
   matches counts).  The tokenizer is NOT modelled: its verdict is an input of the model, supplied by
   CPython in the correspondence (same convention as IgnoreModel.comment_ok of property C20). *)
Definition comment_ok (coms : option (list nat)) (i : nat) : bool :=
  match coms with None => true | Some cs => existsb (Nat.eqb i) cs end.

(* the loop of has_ignore_comment over enumerate(split_lines(source)); i = lineno, start = character_count *)
Fixpoint has_ignore_from (coms : option (list nat)) (i : nat) (start : Z) (ls : list text) (r : range) : bool :=
  match ls with
  | [] => false
  | l :: tl =>
      let e := start + len l in
      (touches_line r start e l && has_ignore_pattern l && comment_ok coms i)
      || has_ignore_from coms (S i) e tl r
  end.

(* core.split_lines = _PHYSICAL_LINE_PATTERN.findall = tok_lines (repair a37c022: no longer str.splitlines) *)
Definition has_ignore_comment (s : text) (coms : option (list nat)) (r : range) : bool :=
  has_ignore_from coms 0 0 (tok_lines s) r.

(* the recogniser before the repairs a37c022 / 8992e08 / 776bcb9 (kept for the pinned refutations):
   str.splitlines lines, Range.overlaps only, the regex on the raw line *)
Fixpoint has_ignore_from_v0 (start : Z) (ls : list text) (r : range) : bool :=
  match ls with
  | [] => false
  | l :: tl =>
      let e := start + len l in
      (overlaps r (start, e) && has_ignore_pattern l) || has_ignore_from_v0 e tl r
  end.
Definition has_ignore_comment_v0 (s : text) (r : range) : bool := has_ignore_from_v0 0 (str_lines s) r.

(* ------------------------------------------------------------------------------------------ *)
(* Reference semantics (a definition; validated against CPython by the harness):
   the location the CPython tokenizer gives to the character offset p of s.
   tok_loc s p = (n, b, cc): n line ends lie before p, and between the start of p's line and p
   there are cc characters, which are b bytes of UTF-8. *)
Fixpoint tok_loc (s : text) (p : nat) : nat * Z * Z :=
  match p, s with
  | S p', c :: tl =>
      let '(n, b, cc) := tok_loc tl p' in
      if line_end is_tok_nl c tl then (S n, b, cc)
      else match n with
           | O => (O, utf8_len c + b, 1 + cc)
           | S _ => (n, b, cc)
           end
  | _, _ => (O, 0, 0)
  end.

(* (lineno, col_offset) as found on ast nodes *)
Definition tok_pos (s : text) (p : nat) : Z * Z :=
  let '(n, b, _) := tok_loc s p in (1 + Z.of_nat n, b).

(* the same location computed left to right, the way a tokenizer does it *)
Fixpoint tok_scan (s : text) (p : nat) (l b : Z) : Z * Z :=
  match p, s with
  | S p', c :: tl =>
      if line_end is_tok_nl c tl then tok_scan tl p' (l + 1) 0 else tok_scan tl p' l (b + utf8_len c)
  | _, _ => (l, b)
  end.

(* ------------------------------------------------------------------------------------------ *)
(* correspondence case checkers *)

Definition zeqb_list (a b : list Z) : bool :=
  (length a =? length b)%nat && forallb (fun p => fst p =? snd p) (combine a b).
Definition text_eqb (a b : text) : bool :=
  (length a =? length b)%nat && forallb (fun p => neqb (fst p) (snd p)) (combine a b).
Definition texts_eqb (a b : list text) : bool :=
  (length a =? length b)%nat && forallb (fun p => text_eqb (fst p) (snd p)) (combine a b).
Definition oz_eqb (a b : option Z) : bool :=
  match a, b with Some x, Some y => x =? y | None, None => true | _, _ => false end.
Definition orange_eqb (a b : option range) : bool :=
  match a, b with Some x, Some y => range_eqb x y | None, None => true | _, _ => false end.
Definition ozz_eqb := orange_eqb.

Fixpoint zrange (lo : Z) (n : nat) : list Z :=
  match n with O => [] | S n' => lo :: zrange (lo + 1) n' end.
Fixpoint nrange (lo : N) (n : nat) : list N :=
  match n with O => [] | S n' => lo :: nrange (N.succ lo) n' end.

(* small-scope case: everything the implementation computes from one string
     table     = _get_line_start_charnos(s)
     slines    = s.splitlines(keepends=True)
     lcs       = Match(Range(p, p), s, ())._lineno_col_offset() for p = -1 .. len(s)+1
     charnos   = _get_charno(s, l, c) for l = 0 .. len(table)+1 (outer), c = -1 .. len(s)+1 (inner) *)
Definition str_case := (text * list Z * list text * list (option (Z * Z)) * list (list (option Z)))%type.

Definition str_case_ok (c : str_case) : bool :=
  let '(s, table, slines, lcs, charnos) := c in
  let n := length s in
  let ps := zrange (-1) (n + 3) in
  zeqb_list (line_starts s) table
  && texts_eqb (str_lines s) slines
  && (length lcs =? length ps)%nat
  && forallb (fun x => ozz_eqb (lineno_col s (fst x)) (snd x)) (combine ps lcs)
  && (length charnos =? length table + 2)%nat
  && forallb (fun row =>
        (length (snd row) =? length ps)%nat
        && forallb (fun x => oz_eqb (get_charno s (fst row) (fst x)) (snd x)) (combine ps (snd row)))
       (combine (zrange 0 (length table + 2)) charnos).

(* node case: get_charnos for both keep_first_indent values, Match geometry of the resulting span,
   and (for nodes of a parsed source) the reference location of the true offsets *)
Definition node_obs :=
  (list pos4 * attrs * bool            (* decorators, attributes, is_def *)
   * option range * option range       (* get_charnos(.., False), get_charnos(.., True) *)
   * option (Z * Z)                    (* Match(span False).lineno, col_offset *)
   * option (Z * Z * pos4))%type.      (* oracle: true start, true end offsets, and ast position *)

Definition node_ok (s : text) (o : node_obs) : bool :=
  let '(decs, a, is_def, r0, r1, lc, orc) := o in
  orange_eqb (get_charnos s decs a is_def false) r0
  && orange_eqb (get_charnos s decs a is_def true) r1
  && match r0 with
     | Some r => ozz_eqb (lineno_col s (fst r)) lc
     | None => match lc with None => true | _ => false end
     end
  && match orc with
     | None => true
     | Some (z1, z2, (l, c, el, ec)) =>
         let p1 := Z.to_nat z1 in
         let p2 := Z.to_nat z2 in
         let '(l1, c1) := tok_pos s p1 in
         let '(l2, c2) := tok_pos s p2 in
         (l1 =? l) && (c1 =? c) && (l2 =? el) && (c2 =? ec)
         && range_eqb (tok_scan s p1 1 0) (l, c) && range_eqb (tok_scan s p2 1 0) (el, ec)
     end.

Definition src_case := (text * list node_obs)%type.
Definition src_case_ok (c : src_case) : bool := forallb (node_ok (fst c)) (snd c).

(* API case: spans yielded by finditer, ranges of root.body, and what the wrappers returned *)
Definition api_case :=
  (text * list range * list range
   * list text * option range * option range * option range
   * list (option (Z * Z * text)))%type.

Definition ocli_eqb (a b : option (Z * Z * text)) : bool :=
  match a, b with
  | Some (l, c, t), Some (l', c', t') => (l =? l') && (c =? c') && text_eqb t t'
  | None, None => true
  | _, _ => false
  end.

Definition api_case_ok (c : api_case) : bool :=
  let '(s, spans, body, fa, se, ma, fu, cli) := c in
  texts_eqb (findall s spans) fa
  && orange_eqb (search spans) se
  && orange_eqb (pm_match body spans) ma
  && orange_eqb (pm_fullmatch body spans) fu
  && (length cli =? length spans)%nat
  && forallb (fun x => ocli_eqb (cli_fields s (fst x)) (snd x)) (combine spans cli).

(* has_ignore_comment case: (source, tokenizer verdict, expected core.split_lines line lengths,
   list of (range, expected has_ignore_comment)) *)
Definition ign_case := (text * option (list nat) * list Z * list (range * bool))%type.
Definition ign_case_ok (c : ign_case) : bool :=
  let '(s, coms, lens, rs) := c in
  zeqb_list (map len (tok_lines s)) lens
  && forallb (fun x => Bool.eqb (has_ignore_comment s coms (fst x)) (snd x)) rs.

(* ------------------------------------------------------------------------------------------ *)
(* Exhaustive small-scope enumeration done inside Coq: the model is evaluated on ALL strings of a
   given length over an alphabet, the observations are folded into 40-bit digests per block of
   strings (a block = all strings with a given prefix), and the harness compares the digests with
   those it computed from the implementation's observations, enumerated in the same order.
   (A block whose digest differs is re-run with explicit [str_case]/[src_case] cases.) *)

Definition dg (h x : Z) : Z := Z.land (h * 33 + x + 64) 1099511627775.
Definition dg_list (h : Z) (l : list Z) : Z := fold_left dg l h.

Fixpoint all_strings (A : list N) (n : nat) : list text :=
  match n with
  | O => [[]]
  | S n' => flat_map (fun c => map (cons c) (all_strings A n')) A
  end.

Definition enc_oz (o : option Z) : list Z := match o with Some v => [1; v] | None => [0] end.
Definition enc_ozz (o : option (Z * Z)) : list Z := match o with Some (a, b) => [1; a; b] | None => [0] end.

Definition str_obs (s : text) : list Z :=
  let table := line_starts s in
  let ps := zrange (-1) (length s + 3) in
  [len table] ++ table ++ [len (str_lines s)] ++ map len (str_lines s)
  ++ flat_map (fun p => enc_ozz (lineno_col s p)) ps
  ++ flat_map (fun l => flat_map (fun c => enc_oz (get_charno s l c)) ps) (zrange 0 (length table + 2)).

Definition str_digest (s : text) : Z := dg_list 7 (str_obs s).

Definition block_digests (f : text -> Z) (A : list N) (pfxs : list text) (k : nat) : list Z :=
  map (fun pfx => dg_list 1 (map (fun t => f (pfx ++ t)) (all_strings A k))) pfxs.

(* get_charnos on a grid of synthetic nodes: variants = (decorators, is_def), attribute grid, both
   keep_first_indent values; plus the Match line/column of the span start *)
Definition grid_obs (variants : list (list pos4 * bool)) (agrid : list attrs) (s : text) : list Z :=
  flat_map (fun v =>
    flat_map (fun a =>
      let r0 := get_charnos s (fst v) a (snd v) false in
      let r1 := get_charnos s (fst v) a (snd v) true in
      enc_ozz r0 ++ enc_ozz r1
      ++ match r0 with Some r => enc_ozz (lineno_col s (fst r)) ++ [len (match_string s r)] | None => [] end)
      agrid) variants.

Definition grid_digest (variants : list (list pos4 * bool)) (agrid : list attrs) (s : text) : Z :=
  dg_list 7 (grid_obs variants agrid s).

Definition digests_bad (got expected : list Z) : list nat :=
  if (length got =? length expected)%nat then bad_idx (fun x => fst x =? snd x) (combine got expected)
  else [length got; length expected; 9999%nat].
