(* C02, statement-merging / collection-literal tranche: proofs about the models of RulesCollModel.v. *)
From Coq Require Import List ZArith Bool Lia Arith.
Import ListNotations.
Require Import Pyrefact.RulesExprModel Pyrefact.RulesExprProofs Pyrefact.RulesCollModel.
Open Scope Z_scope.

(* =========================================================================================== *)
(* Stores *)

Lemma sget_sset_same : forall s x v, sget (sset s x v) x = Some v.
Proof.
  induction s as [|[y w] tl IH]; intros x v; cbn [sget sset].
  - rewrite (Nat.eqb_refl x). reflexivity.
  - destruct (Nat.ltb x y) eqn:Hlt; cbn [sget].
    + rewrite (Nat.eqb_refl x). reflexivity.
    + destruct (Nat.eqb x y) eqn:He; cbn [sget]; rewrite He; [reflexivity | apply IH].
Qed.

Lemma sget_sset_other : forall s x y v, x <> y -> sget (sset s x v) y = sget s y.
Proof.
  induction s as [|[z w] tl IH]; intros x y v Hxy; cbn [sget sset].
  - destruct (Nat.eqb y x) eqn:He; [apply Nat.eqb_eq in He; congruence | reflexivity].
  - destruct (Nat.ltb x z) eqn:Hlt; cbn [sget].
    + destruct (Nat.eqb y x) eqn:He; [apply Nat.eqb_eq in He; congruence | reflexivity].
    + destruct (Nat.eqb x z) eqn:He; cbn [sget].
      * apply Nat.eqb_eq in He. subst z. destruct (Nat.eqb y x) eqn:Hy; [apply Nat.eqb_eq in Hy; congruence | reflexivity].
      * destruct (Nat.eqb y z); [reflexivity | apply IH; assumption].
Qed.

Lemma sset_sset_same : forall s x a b, sset (sset s x a) x b = sset s x b.
Proof.
  induction s as [|[y w] tl IH]; intros x a b; cbn [sset].
  - rewrite (Nat.ltb_irrefl x), (Nat.eqb_refl x). reflexivity.
  - destruct (Nat.ltb x y) eqn:Hlt; cbn [sset].
    + rewrite (Nat.ltb_irrefl x), (Nat.eqb_refl x). reflexivity.
    + destruct (Nat.eqb x y) eqn:He; cbn [sset]; rewrite Hlt, He; [reflexivity | rewrite IH; reflexivity].
Qed.

(* =========================================================================================== *)
(* Frame: an expression that does not mention x does not depend on the binding of x *)

Section FrameX.
  Variable x0 : nat.

  Definition agree_offx (en1 en2 : env) : Prop := forall y, y <> x0 -> en1 y = en2 y.

  Definition fr_at (w : world) (e : expr) : Prop :=
    mentions x0 e = false -> forall en1 en2, agree_offx en1 en2 -> forall tr, eval w e en1 tr = eval w e en2 tr.
  Definition fr_sub (w : world) (e : expr) : Prop :=
    match e with
    | EStar a | EKw _ a | EDStar a | EOp _ a => fr_at w a
    | EKV k v => fr_at w k /\ fr_at w v
    | _ => True
    end.
  Definition fr_P (w : world) (e : expr) : Prop := fr_at w e /\ fr_sub w e.

  Lemma agx_upd : forall en1 en2 y v, agree_offx en1 en2 -> agree_offx (upd en1 y v) (upd en2 y v).
  Proof. intros en1 en2 y v H z Hz. unfold upd. destruct (Nat.eqb z y); [reflexivity | apply H, Hz]. Qed.

  Lemma agx_bind_names : forall xs vs en1 en2, agree_offx en1 en2 ->
    match bind_names xs vs en1, bind_names xs vs en2 with
    | Some a, Some b => agree_offx a b
    | None, None => True
    | _, _ => False
    end.
  Proof.
    induction xs as [|y xs IH]; intros [|v vs] en1 en2 H; cbn; try exact I; [assumption|].
    apply IH. apply agx_upd. assumption.
  Qed.

  Lemma agx_bind : forall t v en1 en2, agree_offx en1 en2 ->
    match bind t v en1, bind t v en2 with
    | Some a, Some b => agree_offx a b
    | None, None => True
    | _, _ => False
    end.
  Proof.
    intros [y|xs] v en1 en2 H; cbn.
    - apply agx_upd. assumption.
    - destruct (items_of v); [apply agx_bind_names; assumption | exact I].
  Qed.

  Variable w : world.

  Lemma elts_fr : forall l, Forall (fr_P w) l -> existsb (mentions x0) l = false ->
    forall en1 en2, agree_offx en1 en2 -> forall tr,
      eval_elts (eval w) en1 l tr = eval_elts (eval w) en2 l tr.
  Proof.
    induction 1 as [|a l [Ha Hs] Hl IH]; intros Hr en1 en2 Hag tr; [reflexivity|].
    cbn in Hr. apply orb_false_iff in Hr as [Hra Hrl].
    assert (Hgen : match eval w a en1 tr with
                   | Some (v, tr1) => match eval_elts (eval w) en1 l tr1 with
                                      | Some (rest, tr2) => Some (v :: rest, tr2) | None => None end
                   | None => None end =
                   match eval w a en2 tr with
                   | Some (v, tr1) => match eval_elts (eval w) en2 l tr1 with
                                      | Some (rest, tr2) => Some (v :: rest, tr2) | None => None end
                   | None => None end).
    { rewrite (Ha Hra en1 en2 Hag tr). destruct (eval w a en2 tr) as [[v tr1]|]; [|reflexivity].
      rewrite (IH Hrl en1 en2 Hag tr1). reflexivity. }
    destruct a; try exact Hgen.
    cbn [eval_elts]. cbn [fr_sub] in Hs. cbn [mentions] in Hra. rewrite (Hs Hra en1 en2 Hag tr).
    destruct (eval w a en2 tr) as [[v tr1]|]; [|reflexivity]. destruct (items_of v); [|reflexivity].
    rewrite (IH Hrl en1 en2 Hag tr1). reflexivity.
  Qed.

  Lemma args_fr : forall l, Forall (fr_P w) l -> existsb (mentions x0) l = false ->
    forall en1 en2, agree_offx en1 en2 -> forall tr,
      eval_args (eval w) en1 l tr = eval_args (eval w) en2 l tr.
  Proof.
    induction 1 as [|a l [Ha Hs] Hl IH]; intros Hr en1 en2 Hag tr; [reflexivity|].
    cbn in Hr. apply orb_false_iff in Hr as [Hra Hrl].
    assert (Hgen : match eval w a en1 tr with
                   | Some (v, tr1) => match eval_args (eval w) en1 l tr1 with
                                      | Some (rest, tr2) => Some ((None, v) :: rest, tr2) | None => None end
                   | None => None end =
                   match eval w a en2 tr with
                   | Some (v, tr1) => match eval_args (eval w) en2 l tr1 with
                                      | Some (rest, tr2) => Some ((None, v) :: rest, tr2) | None => None end
                   | None => None end).
    { rewrite (Ha Hra en1 en2 Hag tr). destruct (eval w a en2 tr) as [[v tr1]|]; [|reflexivity].
      rewrite (IH Hrl en1 en2 Hag tr1). reflexivity. }
    destruct a; try exact Hgen; cbn [eval_args]; cbn [fr_sub] in Hs; cbn [mentions] in Hra;
      rewrite (Hs Hra en1 en2 Hag tr); destruct (eval w a en2 tr) as [[v tr1]|]; try reflexivity.
    - destruct (items_of v); [|reflexivity]. rewrite (IH Hrl en1 en2 Hag tr1). reflexivity.
    - rewrite (IH Hrl en1 en2 Hag tr1). reflexivity.
  Qed.

  Lemma items_fr : forall l, Forall (fr_P w) l -> existsb (mentions x0) l = false ->
    forall en1 en2, agree_offx en1 en2 -> forall d tr,
      eval_items (eval w) en1 l d tr = eval_items (eval w) en2 l d tr.
  Proof.
    induction 1 as [|a l [Ha Hs] Hl IH]; intros Hr en1 en2 Hag d tr; [reflexivity|].
    cbn in Hr. apply orb_false_iff in Hr as [Hra Hrl].
    destruct a; try reflexivity; cbn [eval_items]; cbn [fr_sub] in Hs; cbn [mentions] in Hra.
    - apply orb_false_iff in Hra as [Hk Hv]. destruct Hs as [Fk Fv].
      rewrite (Fk Hk en1 en2 Hag tr). destruct (eval w a1 en2 tr) as [[kv tr1]|]; [|reflexivity].
      rewrite (Fv Hv en1 en2 Hag tr1). destruct (eval w a2 en2 tr1) as [[vv tr2]|]; [|reflexivity].
      destruct (hashable kv); [apply IH; assumption | reflexivity].
    - rewrite (Hs Hra en1 en2 Hag tr). destruct (eval w a en2 tr) as [[[] tr1]|]; try reflexivity.
      apply IH; assumption.
  Qed.

  Lemma chain_fr : forall l, Forall (fr_P w) l -> existsb (mentions x0) l = false ->
    forall en1 en2, agree_offx en1 en2 -> forall lv tr,
      eval_chain (eval w) w en1 l lv tr = eval_chain (eval w) w en2 l lv tr.
  Proof.
    induction 1 as [|a l [Ha Hs] Hl IH]; intros Hr en1 en2 Hag lv tr; [reflexivity|].
    cbn in Hr. apply orb_false_iff in Hr as [Hra Hrl].
    destruct a; try reflexivity. cbn [eval_chain]. cbn [fr_sub] in Hs. cbn [mentions] in Hra.
    rewrite (Hs Hra en1 en2 Hag tr). destruct (eval w a en2 tr) as [[rv tr1]|]; [|reflexivity].
    destruct (cmp_sem w o lv rv); [|reflexivity]. destruct l; [reflexivity|].
    destruct (truthy v); [apply IH; assumption | reflexivity].
  Qed.

  Lemma conds_fr : forall l, Forall (fr_P w) l -> existsb (mentions x0) l = false ->
    forall en1 en2, agree_offx en1 en2 -> forall tr,
      eval_conds (eval w) en1 l tr = eval_conds (eval w) en2 l tr.
  Proof.
    induction 1 as [|a l [Ha Hs] Hl IH]; intros Hr en1 en2 Hag tr; [reflexivity|].
    cbn in Hr. apply orb_false_iff in Hr as [Hra Hrl]. cbn [eval_conds].
    rewrite (Ha Hra en1 en2 Hag tr). destruct (eval w a en2 tr) as [[cv tr1]|]; [|reflexivity].
    destruct (truthy cv); [apply IH; assumption | reflexivity].
  Qed.

  Lemma loop_fr : forall k elt dval ifs t,
    fr_at w elt -> fr_at w dval -> Forall (fr_P w) ifs ->
    mentions x0 elt = false -> mentions x0 dval = false -> existsb (mentions x0) ifs = false ->
    forall xs en1 en2, agree_offx en1 en2 ->
      forall acc dacc tr,
        comp_loop (eval w) k elt dval t ifs en1 xs acc dacc tr =
        comp_loop (eval w) k elt dval t ifs en2 xs acc dacc tr.
  Proof.
    intros k elt dval ifs t Fe Fd Fi Re Rd Ri xs en1 en2 Hag.
    induction xs as [|v xs IH]; intros acc dacc tr; [reflexivity|].
    cbn [comp_loop]. pose proof (agx_bind t v en1 en2 Hag) as Hb.
    destruct (bind t v en1) as [a|], (bind t v en2) as [b|]; try contradiction; [|reflexivity].
    rewrite (conds_fr ifs Fi Ri a b Hb tr).
    destruct (eval_conds (eval w) b ifs tr) as [[[] tr1]|]; [|apply IH|reflexivity].
    rewrite (Fe Re a b Hb tr1). destruct (eval w elt b tr1) as [[v' tr2]|]; [|reflexivity].
    destruct k; try apply IH.
    rewrite (Fd Rd a b Hb tr2). destruct (eval w dval b tr2) as [[dv tr3]|]; [|reflexivity].
    destruct (hashable v'); [apply IH | reflexivity].
  Qed.

  Lemma fr_all : forall e, fr_P w e.
  Proof.
    induction e using expr_ind'; split; try exact I; try (intros Hr en1 en2 Hag tr).
    - reflexivity.
    - cbn in Hr. cbn. apply Nat.eqb_neq in Hr. rewrite (Hag x Hr). reflexivity.
    - cbn [eval]. rewrite (elts_fr _ H Hr _ _ Hag). reflexivity.
    - cbn [eval]. rewrite (args_fr _ H Hr _ _ Hag). reflexivity.
    - cbn [eval]. rewrite (elts_fr _ H Hr _ _ Hag). reflexivity.
    - cbn [eval]. rewrite (items_fr _ H Hr _ _ Hag). reflexivity.
    - cbn in Hr. apply orb_false_iff in Hr as [Hl Hrest]. rewrite !eval_ECmp.
      destruct IHe as [Fe _]. rewrite (Fe Hl _ _ Hag). destruct (eval w e en2 tr) as [[lv tr0]|]; [|reflexivity].
      apply chain_fr; assumption.
    - cbn in Hr. cbn [eval]. destruct IHe as [Fe _]. rewrite (Fe Hr _ _ Hag). reflexivity.
    - cbn in Hr. apply orb_false_iff in Hr as [Hr Hifs]. apply orb_false_iff in Hr as [Hr Hit].
      apply orb_false_iff in Hr as [Hr Hdval]. apply orb_false_iff in Hr as [_ Helt]. rewrite !eval_EComp.
      destruct IHe1 as [F1 _], IHe2 as [F2 _], IHe3 as [F3 _].
      rewrite (F3 Hit _ _ Hag). destruct (eval w e3 en2 tr) as [[itv tr0]|]; [|reflexivity].
      destruct (items_of itv) as [xs|]; [|reflexivity].
      apply loop_fr; assumption.
    - reflexivity.
    - destruct IHe as [Fe _]. apply Fe; assumption.
    - reflexivity.
    - destruct IHe as [Fe _]. apply Fe; assumption.
    - reflexivity.
    - destruct IHe1 as [F1 _], IHe2 as [F2 _]. split; assumption.
    - reflexivity.
    - destruct IHe as [Fe _]. apply Fe; assumption.
    - reflexivity.
    - destruct IHe as [Fe _]. apply Fe; assumption.
  Qed.
End FrameX.

Lemma frame_x : forall x w e, mentions x e = false ->
  forall en1 en2, agree_offx x en1 en2 -> forall tr, eval w e en1 tr = eval w e en2 tr.
Proof. intros x w e. apply fr_all. Qed.

Lemma agree_sset : forall s x v, agree_offx x (sget (sset s x v)) (sget s).
Proof. intros s x v y Hy. apply sget_sset_other. congruence. Qed.

Lemma frame_sset : forall w x e s v tr, mentions x e = false ->
  eval w e (sget (sset s x v)) tr = eval w e (sget s) tr.
Proof. intros. apply (frame_x x); [assumption | apply agree_sset]. Qed.

Lemma frame_elts_sset : forall w x l s v tr, existsb (mentions x) l = false ->
  eval_elts (eval w) (sget (sset s x v)) l tr = eval_elts (eval w) (sget s) l tr.
Proof.
  intros. apply (elts_fr x); [|assumption | apply agree_sset].
  apply Forall_forall. intros e _. apply fr_all.
Qed.

(* =========================================================================================== *)
(* Pure expressions (no call): the value does not depend on the trace, the trace is unchanged *)

Definition retr {A} (r : option (A * trace)) (tr : trace) : option (A * trace) :=
  match r with Some (v, _) => Some (v, tr) | None => None end.

Section Pure.
  Variable w : world.

  Definition pu_at (e : expr) : Prop :=
    pure e = true -> forall en tr, eval w e en tr = retr (eval w e en []) tr.
  Definition pu_sub (e : expr) : Prop :=
    match e with
    | EStar a | EKw _ a | EDStar a | EOp _ a => pu_at a
    | EKV k v => pu_at k /\ pu_at v
    | _ => True
    end.
  Definition pu_P (e : expr) : Prop := pu_at e /\ pu_sub e.

  Lemma retr_nil : forall {A} (F : trace -> option (A * trace)),
    (forall tr, F tr = retr (F []) tr) -> forall v t, F [] = Some (v, t) -> t = [].
  Proof. intros A F H v t E. specialize (H []). rewrite E in H. cbn in H. congruence. Qed.

  Lemma elts_pu : forall l, Forall pu_P l -> forallb pure l = true ->
    forall en tr, eval_elts (eval w) en l tr = retr (eval_elts (eval w) en l []) tr.
  Proof.
    induction 1 as [|a l [Ha Hs] Hl IH]; intros Hp en tr; [reflexivity|].
    cbn in Hp. apply andb_true_iff in Hp as [Hpa Hpl].
    assert (Hgen : match eval w a en tr with
                   | Some (v, tr1) => match eval_elts (eval w) en l tr1 with
                                      | Some (rest, tr2) => Some (v :: rest, tr2) | None => None end
                   | None => None end =
                   retr (match eval w a en [] with
                   | Some (v, tr1) => match eval_elts (eval w) en l tr1 with
                                      | Some (rest, tr2) => Some (v :: rest, tr2) | None => None end
                   | None => None end) tr).
    { rewrite (Ha Hpa en tr). destruct (eval w a en []) as [[v t]|] eqn:E; [|reflexivity].
      assert (t = []) by (apply (retr_nil (eval w a en) (Ha Hpa en) v t E)). subst t. cbn [retr].
      rewrite (IH Hpl en tr). destruct (eval_elts (eval w) en l []) as [[rest t2]|]; reflexivity. }
    destruct a; try exact Hgen.
    cbn [eval_elts]. cbn [pu_sub] in Hs. cbn [pure] in Hpa. rewrite (Hs Hpa en tr).
    destruct (eval w a en []) as [[v t]|] eqn:E; [|reflexivity].
    assert (t = []) by (apply (retr_nil (eval w a en) (Hs Hpa en) v t E)). subst t. cbn [retr].
    destruct (items_of v); [|reflexivity].
    rewrite (IH Hpl en tr). destruct (eval_elts (eval w) en l []) as [[rest t2]|]; reflexivity.
  Qed.

  Lemma items_pu : forall l, Forall pu_P l -> forallb pure l = true ->
    forall en d tr, eval_items (eval w) en l d tr = retr (eval_items (eval w) en l d []) tr.
  Proof.
    induction 1 as [|a l [Ha Hs] Hl IH]; intros Hp en d tr; [reflexivity|].
    cbn in Hp. apply andb_true_iff in Hp as [Hpa Hpl].
    destruct a; try reflexivity; cbn [eval_items]; cbn [pu_sub] in Hs; cbn [pure] in Hpa.
    - apply andb_true_iff in Hpa as [Hk Hv]. destruct Hs as [Fk Fv].
      rewrite (Fk Hk en tr). destruct (eval w a1 en []) as [[kv t]|] eqn:E; [|reflexivity].
      assert (t = []) by (apply (retr_nil (eval w a1 en) (Fk Hk en) kv t E)). subst t. cbn [retr].
      rewrite (Fv Hv en tr). destruct (eval w a2 en []) as [[vv t]|] eqn:E2; [|reflexivity].
      assert (t = []) by (apply (retr_nil (eval w a2 en) (Fv Hv en) vv t E2)). subst t. cbn [retr].
      destruct (hashable kv); [apply IH; assumption | reflexivity].
    - rewrite (Hs Hpa en tr). destruct (eval w a en []) as [[v t]|] eqn:E; [|reflexivity].
      assert (t = []) by (apply (retr_nil (eval w a en) (Hs Hpa en) v t E)). subst t. cbn [retr].
      destruct v; try reflexivity. apply IH; assumption.
  Qed.

  Lemma chain_pu : forall l, Forall pu_P l -> forallb pure l = true ->
    forall en lv tr, eval_chain (eval w) w en l lv tr = retr (eval_chain (eval w) w en l lv []) tr.
  Proof.
    induction 1 as [|a l [Ha Hs] Hl IH]; intros Hp en lv tr; [reflexivity|].
    cbn in Hp. apply andb_true_iff in Hp as [Hpa Hpl].
    destruct a; try reflexivity. cbn [eval_chain]. cbn [pu_sub] in Hs. cbn [pure] in Hpa.
    rewrite (Hs Hpa en tr). destruct (eval w a en []) as [[rv t]|] eqn:E; [|reflexivity].
    assert (t = []) by (apply (retr_nil (eval w a en) (Hs Hpa en) rv t E)). subst t. cbn [retr].
    destruct (cmp_sem w o lv rv); [|reflexivity]. destruct l; [reflexivity|].
    destruct (truthy v); [apply IH; assumption | reflexivity].
  Qed.

  Lemma conds_pu : forall l, Forall pu_P l -> forallb pure l = true ->
    forall en tr, eval_conds (eval w) en l tr = retr (eval_conds (eval w) en l []) tr.
  Proof.
    induction 1 as [|a l [Ha Hs] Hl IH]; intros Hp en tr; [reflexivity|].
    cbn in Hp. apply andb_true_iff in Hp as [Hpa Hpl]. cbn [eval_conds].
    rewrite (Ha Hpa en tr). destruct (eval w a en []) as [[cv t]|] eqn:E; [|reflexivity].
    assert (t = []) by (apply (retr_nil (eval w a en) (Ha Hpa en) cv t E)). subst t. cbn [retr].
    destruct (truthy cv); [apply IH; assumption | reflexivity].
  Qed.

  Lemma loop_pu : forall k elt dval ifs t en,
    pu_at elt -> pu_at dval -> Forall pu_P ifs ->
    pure elt = true -> pure dval = true -> forallb pure ifs = true ->
    forall xs acc dacc tr,
      comp_loop (eval w) k elt dval t ifs en xs acc dacc tr =
      retr (comp_loop (eval w) k elt dval t ifs en xs acc dacc []) tr.
  Proof.
    intros k elt dval ifs t en Fe Fd Fi Pe Pd Pi.
    induction xs as [|v xs IH]; intros acc dacc tr.
    - cbn [comp_loop]. destruct (finish_comp k acc dacc); reflexivity.
    - cbn [comp_loop]. destruct (bind t v en) as [a|]; [|reflexivity].
      rewrite (conds_pu ifs Fi Pi a tr).
      destruct (eval_conds (eval w) a ifs []) as [[b t0]|] eqn:E; [|reflexivity].
      assert (t0 = []) by (apply (retr_nil (eval_conds (eval w) a ifs) (conds_pu ifs Fi Pi a) b t0 E)). subst t0.
      cbn [retr]. destruct b; [|apply IH].
      rewrite (Fe Pe a tr). destruct (eval w elt a []) as [[v' t1]|] eqn:E1; [|reflexivity].
      assert (t1 = []) by (apply (retr_nil (eval w elt a) (Fe Pe a) v' t1 E1)). subst t1. cbn [retr].
      destruct k; try apply IH.
      rewrite (Fd Pd a tr). destruct (eval w dval a []) as [[dv t2]|] eqn:E2; [|reflexivity].
      assert (t2 = []) by (apply (retr_nil (eval w dval a) (Fd Pd a) dv t2 E2)). subst t2. cbn [retr].
      destruct (hashable v'); [apply IH | reflexivity].
  Qed.

  Lemma pu_all : forall e, pu_P e.
  Proof.
    induction e using expr_ind'; split; try exact I; try (intros Hp en tr).
    - reflexivity.
    - cbn. destruct (en x); reflexivity.
    - discriminate Hp.
    - discriminate Hp.
    - cbn in Hp. cbn [eval]. rewrite (elts_pu _ H Hp en tr).
      destruct (eval_elts (eval w) en elts []) as [[vs t]|]; [|reflexivity]. cbn [retr].
      destruct k; try reflexivity. destruct (mkset vs); reflexivity.
    - cbn in Hp. cbn [eval]. rewrite (items_pu _ H Hp en [] tr).
      destruct (eval_items (eval w) en items [] []) as [[d t]|]; reflexivity.
    - cbn in Hp. apply andb_true_iff in Hp as [Hl Hrest]. rewrite !eval_ECmp.
      destruct IHe as [Fe _]. rewrite (Fe Hl en tr). destruct (eval w e en []) as [[lv t]|] eqn:E; [|reflexivity].
      assert (t = []) by (apply (retr_nil (eval w e en) (Fe Hl en) lv t E)). subst t. cbn [retr].
      apply chain_pu; assumption.
    - cbn in Hp. cbn [eval]. destruct IHe as [Fe _]. rewrite (Fe Hp en tr).
      destruct (eval w e en []) as [[v t]|]; reflexivity.
    - cbn in Hp. apply andb_true_iff in Hp as [Hp Hifs]. apply andb_true_iff in Hp as [Hp Hit].
      apply andb_true_iff in Hp as [Hp _]. apply andb_true_iff in Hp as [Helt Hdval]. rewrite !eval_EComp.
      destruct IHe1 as [F1 _], IHe2 as [F2 _], IHe3 as [F3 _].
      rewrite (F3 Hit en tr). destruct (eval w e3 en []) as [[itv t0]|] eqn:E; [|reflexivity].
      assert (t0 = []) by (apply (retr_nil (eval w e3 en) (F3 Hit en) itv t0 E)). subst t0. cbn [retr].
      destruct (items_of itv) as [xs|]; [|reflexivity].
      apply loop_pu; assumption.
    - reflexivity.
    - destruct IHe as [Fe _]. apply Fe; assumption.
    - reflexivity.
    - destruct IHe as [Fe _]. apply Fe; assumption.
    - reflexivity.
    - destruct IHe1 as [F1 _], IHe2 as [F2 _]. split; assumption.
    - reflexivity.
    - destruct IHe as [Fe _]. apply Fe; assumption.
    - reflexivity.
    - destruct IHe as [Fe _]. apply Fe; assumption.
  Qed.
End Pure.

Lemma pure_eval : forall w e, pure e = true -> forall en tr, eval w e en tr = retr (eval w e en []) tr.
Proof. intros w e. apply pu_all. Qed.

(* evaluating a pure expression and another expression in either order *)
Lemma pure_swap : forall w k v en tr, (pure k || pure v = true) ->
  match eval w v en tr with
  | Some (vv, tr1) => match eval w k en tr1 with Some (kv, tr2) => Some (kv, vv, tr2) | None => None end
  | None => None
  end =
  match eval w k en tr with
  | Some (kv, tr1) => match eval w v en tr1 with Some (vv, tr2) => Some (kv, vv, tr2) | None => None end
  | None => None
  end.
Proof.
  intros w k v en tr H. apply orb_true_iff in H as [H|H].
  - rewrite (pure_eval w k H en tr).
    destruct (eval w v en tr) as [[vv tr1]|] eqn:E.
    + rewrite (pure_eval w k H en tr1). destruct (eval w k en []) as [[kv t]|]; cbn [retr]; [|reflexivity].
      rewrite E. reflexivity.
    + destruct (eval w k en []) as [[kv t]|]; cbn [retr]; [rewrite E|]; reflexivity.
  - rewrite (pure_eval w v H en tr).
    destruct (eval w k en tr) as [[kv tr1]|] eqn:E.
    + rewrite (pure_eval w v H en tr1). destruct (eval w v en []) as [[vv t]|]; cbn [retr]; [|reflexivity].
      rewrite E. reflexivity.
    + destruct (eval w v en []) as [[vv t]|]; cbn [retr]; [rewrite E|]; reflexivity.
Qed.

(* =========================================================================================== *)
(* Displays evaluated piecewise *)

Lemma eval_elts_app : forall ev en l1 l2 tr,
  eval_elts ev en (l1 ++ l2) tr =
  match eval_elts ev en l1 tr with
  | Some (vs1, tr1) => match eval_elts ev en l2 tr1 with
                       | Some (vs2, tr2) => Some (vs1 ++ vs2, tr2)
                       | None => None
                       end
  | None => None
  end.
Proof.
  intros ev en. induction l1 as [|a l1 IH]; intros l2 tr.
  - cbn. destruct (eval_elts ev en l2 tr) as [[vs2 tr2]|]; reflexivity.
  - assert (Hgen : forall (F : val -> option (list val)),
      match ev a en tr with
      | Some (v, tr1) => match F v with
          | Some pre => match eval_elts ev en (l1 ++ l2) tr1 with Some (rest, tr2) => Some (pre ++ rest, tr2) | None => None end
          | None => None end
      | None => None end =
      match (match ev a en tr with
             | Some (v, tr1) => match F v with
                 | Some pre => match eval_elts ev en l1 tr1 with Some (rest, tr2) => Some (pre ++ rest, tr2) | None => None end
                 | None => None end
             | None => None end) with
      | Some (vs1, tr1) => match eval_elts ev en l2 tr1 with Some (vs2, tr2) => Some (vs1 ++ vs2, tr2) | None => None end
      | None => None end).
    { intros F. destruct (ev a en tr) as [[v tr1]|]; [|reflexivity]. destruct (F v) as [pre|]; [|reflexivity].
      rewrite IH. destruct (eval_elts ev en l1 tr1) as [[r1 t1]|]; [|reflexivity].
      destruct (eval_elts ev en l2 t1) as [[r2 t2]|]; [|reflexivity]. rewrite app_assoc. reflexivity. }
    assert (Hplain : match ev a en tr with
      | Some (v, tr1) => match eval_elts ev en (l1 ++ l2) tr1 with Some (rest, tr2) => Some (v :: rest, tr2) | None => None end
      | None => None end =
      match (match ev a en tr with
             | Some (v, tr1) => match eval_elts ev en l1 tr1 with Some (rest, tr2) => Some (v :: rest, tr2) | None => None end
             | None => None end) with
      | Some (vs1, tr1) => match eval_elts ev en l2 tr1 with Some (vs2, tr2) => Some (vs1 ++ vs2, tr2) | None => None end
      | None => None end).
    { specialize (Hgen (fun v => Some [v])). cbn in Hgen. exact Hgen. }
    cbn [app]. destruct a; try exact Hplain.
    cbn [eval_elts].
    destruct (ev a en tr) as [[v tr1]|]; [|reflexivity]. destruct (items_of v) as [pre|]; [|reflexivity].
    rewrite IH. destruct (eval_elts ev en l1 tr1) as [[r1 t1]|]; [|reflexivity].
    destruct (eval_elts ev en l2 t1) as [[r2 t2]|]; [|reflexivity]. rewrite app_assoc. reflexivity.
Qed.

Lemma eval_items_app : forall ev en l1 l2 d tr,
  eval_items ev en (l1 ++ l2) d tr =
  match eval_items ev en l1 d tr with
  | Some (d1, tr1) => eval_items ev en l2 d1 tr1
  | None => None
  end.
Proof.
  intros ev en. induction l1 as [|a l1 IH]; intros l2 d tr; [reflexivity|].
  cbn [app]. destruct a; try reflexivity; cbn [eval_items].
  - destruct (ev a1 en tr) as [[kv tr1]|]; [|reflexivity]. destruct (ev a2 en tr1) as [[vv tr2]|]; [|reflexivity].
    destruct (hashable kv); [apply IH | reflexivity].
  - destruct (ev a en tr) as [[[] tr1]|]; try reflexivity. apply IH.
Qed.

Definition acc_eval (k : akind) (w : world) (en : env) (ps : list expr) (a : val) (tr : trace)
  : option (val * trace) :=
  match k, a with
  | AKDict, VDict d =>
      match eval_items (eval w) en ps d tr with Some (d', tr') => Some (VDict d', tr') | None => None end
  | AKList, VList l =>
      match eval_elts (eval w) en ps tr with Some (vs, tr') => Some (VList (l ++ vs), tr') | None => None end
  | AKSet, VSet s =>
      match eval_elts (eval w) en ps tr with
      | Some (vs, tr') => if forallb hashable vs then Some (VSet (fold_left set_add vs s), tr') else None
      | None => None
      end
  | _, _ => None
  end.

Definition empty_of (k : akind) : val :=
  match k with AKDict => VDict [] | AKList => VList [] | AKSet => VSet [] end.

Definition shape (k : akind) (a : val) : Prop :=
  match k, a with
  | AKDict, VDict _ | AKList, VList _ | AKSet, VSet _ => True
  | _, _ => False
  end.

Lemma acc_shape : forall k w en ps a tr a' tr', acc_eval k w en ps a tr = Some (a', tr') -> shape k a'.
Proof.
  intros k w en ps a tr a' tr' H. destruct k, a; try discriminate; cbn in H.
  - destruct (eval_items (eval w) en ps d tr) as [[d' t]|]; [|discriminate]. injection H as <- _. exact I.
  - destruct (eval_elts (eval w) en ps tr) as [[vs t]|]; [|discriminate]. injection H as <- _. exact I.
  - destruct (eval_elts (eval w) en ps tr) as [[vs t]|]; [|discriminate].
    destruct (forallb hashable vs); [|discriminate]. injection H as <- _. exact I.
Qed.

Lemma acc_app : forall k w en ps1 ps2 a tr,
  acc_eval k w en (ps1 ++ ps2) a tr =
  match acc_eval k w en ps1 a tr with
  | Some (a1, tr1) => acc_eval k w en ps2 a1 tr1
  | None => None
  end.
Proof.
  intros k w en ps1 ps2 a tr. destruct k, a; try reflexivity; cbn [acc_eval].
  - rewrite eval_items_app. destruct (eval_items (eval w) en ps1 d tr) as [[d1 tr1]|]; reflexivity.
  - rewrite eval_elts_app. destruct (eval_elts (eval w) en ps1 tr) as [[vs1 tr1]|]; [|reflexivity].
    destruct (eval_elts (eval w) en ps2 tr1) as [[vs2 tr2]|]; [|reflexivity]. rewrite app_assoc. reflexivity.
  - rewrite eval_elts_app. destruct (eval_elts (eval w) en ps1 tr) as [[vs1 tr1]|]; [|reflexivity].
    destruct (forallb hashable vs1) eqn:H1.
    + cbn [acc_eval]. destruct (eval_elts (eval w) en ps2 tr1) as [[vs2 tr2]|]; [|reflexivity].
      rewrite forallb_app, H1, fold_left_app. reflexivity.
    + destruct (eval_elts (eval w) en ps2 tr1) as [[vs2 tr2]|]; [|reflexivity].
      rewrite forallb_app, H1. reflexivity.
Qed.

Lemma display_eval : forall k w ps en tr,
  eval w (display k ps) en tr = acc_eval k w en ps (empty_of k) tr.
Proof.
  intros [] w ps en tr; cbn [display empty_of acc_eval].
  - apply eval_EDict.
  - rewrite eval_ESeq. destruct (eval_elts (eval w) en ps tr) as [[vs tr1]|]; reflexivity.
  - rewrite eval_ESeq. destruct (eval_elts (eval w) en ps tr) as [[vs tr1]|]; [|reflexivity].
    unfold mkset. destruct (forallb hashable vs); reflexivity.
Qed.

(* =========================================================================================== *)
(* Equations of the interpreter *)

Lemma exec_block_nil : forall W q, exec_block W [] q = Some (ONormal, q).
Proof. reflexivity. Qed.

Lemma exec_block_cons : forall W s b q,
  exec_block W (s :: b) q =
  match exec_stmt W s q with
  | Some (ONormal, q1) => exec_block W b q1
  | r => r
  end.
Proof. reflexivity. Qed.

Lemma exec_SIf : forall W c b1 b2 q,
  exec_stmt W (SIf c b1 b2) q =
  match eval_in W c q with
  | Some (cv, tr1) =>
      let q1 := mkSt (st_store q) (read_own (st_own q) [c]) tr1 in
      if truthy cv then exec_block W b1 q1 else exec_block W b2 q1
  | None => None
  end.
Proof. reflexivity. Qed.

Lemma exec_SFor : forall W t it body q,
  exec_stmt W (SFor t it body) q =
  match eval_in W (isrc_expr it) q with
  | Some (itv, tr1) =>
      match src_items it itv with
      | Some items =>
          exec_loop W t it body items
            (mkSt (st_store q) (fold_left rebind_own (tgt_names t) (read_own (st_own q) [isrc_expr it])) tr1)
      | None => None
      end
  | None => None
  end.
Proof. reflexivity. Qed.

Lemma exec_loop_cons : forall W t it body v rest q,
  exec_loop W t it body (v :: rest) q =
  match accept W it v q with
  | Some (true, q1) =>
      match sbind t v (st_store q1) with
      | Some s' =>
          match exec_block W body (mkSt s' (fold_left rebind_own (tgt_names t) (st_own q1)) (st_trace q1)) with
          | Some (ONormal, q2) | Some (OCont, q2) => exec_loop W t it body rest q2
          | Some (OBreak, q2) => Some (ONormal, q2)
          | r => r
          end
      | None => None
      end
  | Some (false, q1) => exec_loop W t it body rest q1
  | None => None
  end.
Proof. reflexivity. Qed.

Lemma exec_block_app : forall W b1 b2 q,
  exec_block W (b1 ++ b2) q =
  match exec_block W b1 q with
  | Some (ONormal, q1) => exec_block W b2 q1
  | r => r
  end.
Proof.
  intros W. induction b1 as [|s b1 IH]; intros b2 q; [reflexivity|].
  cbn [app]. rewrite !exec_block_cons. destruct (exec_stmt W s q) as [[[] q1]|]; try reflexivity. apply IH.
Qed.

(* =========================================================================================== *)
(* The merge rules *)

Definition blind (W : worlds) (x : nat) : Prop := forall s v, W (sset s x v) = W s.

Definition rkind (r : mrule) (k : akind) : Prop :=
  match r with MCollAdd => k <> AKDict | _ => k = AKDict end.

(* dicts as the evaluator builds them: no two equal keys, and rebuilding them changes nothing *)
Definition canon (d : list (val * val)) : Prop := wfd d /\ dict_update [] d = d.

Lemma canon_nil : canon [].
Proof. split; [exact I | reflexivity]. Qed.

Lemma canon_set : forall d k v, canon d -> canon (dict_set d k v).
Proof.
  intros d k v [Hw Hu]. split; [apply wfd_set; assumption|].
  rewrite update_set by assumption. rewrite Hu. reflexivity.
Qed.

Lemma loop_dict_canon : forall ev elt dval t ifs en xs acc dacc tr r tr',
  comp_loop ev CDict elt dval t ifs en xs acc dacc tr = Some (r, tr') -> canon dacc ->
  exists d, r = VDict d /\ canon d.
Proof.
  intros ev elt dval t ifs en. induction xs as [|x xs IH]; intros acc dacc tr r tr' H Hc.
  - cbn in H. injection H as <- _. eauto.
  - cbn [comp_loop] in H. destruct (bind t x en) as [en'|]; [|discriminate].
    destruct (eval_conds ev en' ifs tr) as [[[] tr1]|]; [|eapply IH; eassumption|discriminate].
    destruct (ev elt en' tr1) as [[v tr2]|]; [|discriminate].
    destruct (ev dval en' tr2) as [[dv tr3]|]; [|discriminate].
    destruct (hashable v); [|discriminate]. eapply IH; [eassumption | apply canon_set; assumption].
Qed.

Lemma init_inv : forall r s x k ps, init_of r s = Some (x, k, ps) ->
  exists e, s = SAssign x e /\ fresh e = true /\ rkind r k.
Proof.
  intros r s x k ps H. destruct s; try discriminate. cbn in H. exists e.
  destruct r, e; try discriminate;
    repeat match goal with
           | H : context [match ?k with KList => _ | KTuple => _ | KSet => _ end] |- _ => destruct k
           | H : context [match ?k with CList => _ | CSet => _ | CGen => _ | CDict => _ end] |- _ => destruct k
           | H : context [match ?b with BList => _ | _ => _ end] |- _ => destruct b
           | H : context [match ?l with [] => _ | _ :: _ => _ end] |- _ => destruct l
           | H : context [if ?c then _ else _] |- _ => destruct c
           end; try discriminate; injection H as <- <- <-; repeat split; try reflexivity; discriminate.
Qed.

Lemma init_eval : forall r x e k ps w en tr v tr1,
  init_of r (SAssign x e) = Some (x, k, ps) ->
  eval w e en tr = Some (v, tr1) ->
  acc_eval k w en ps (empty_of k) tr = Some (v, tr1).
Proof.
  intros r x e k ps w en tr v tr1 Hi He.
  assert (Hdisp : forall k0 ps0, e = display k0 ps0 -> acc_eval k0 w en ps0 (empty_of k0) tr = Some (v, tr1)).
  { intros k0 ps0 ->. rewrite <- display_eval. exact He. }
  assert (Hdc : forall elt dval t it ifs, e = EComp CDict elt dval t it ifs ->
            acc_eval AKDict w en [EDStar e] (VDict []) tr = Some (v, tr1)).
  { intros elt dval t it ifs ->. cbn [acc_eval eval_items]. rewrite He.
    rewrite eval_EComp in He. destruct (eval w it en tr) as [[itv tr0]|]; [|discriminate].
    destruct (items_of itv) as [xs|]; [|discriminate].
    destruct (loop_dict_canon _ _ _ _ _ _ _ _ _ _ _ _ He canon_nil) as [d [-> [_ Hu]]].
    rewrite Hu. reflexivity. }
  cbn in Hi. destruct r, e; try discriminate.
  - injection Hi as <- <-. apply (Hdisp AKDict). reflexivity.
  - injection Hi as <- <-. apply (Hdisp AKDict). reflexivity.
  - destruct k0; try discriminate. injection Hi as <- <-. eapply Hdc. reflexivity.
  - destruct k0; try discriminate. injection Hi as <- <-. eapply Hdc. reflexivity.
  - (* set() / set(a) *)
    destruct b; try discriminate. destruct args as [|a [|]]; try discriminate.
    + injection Hi as <- <-. cbn in He. cbn. exact He.
    + destruct (plain a) eqn:Hp; [|discriminate]. injection Hi as <- <-.
      rewrite eval_EBi, (eval_args_plain_cons _ _ _ _ _ Hp) in He.
      cbn [acc_eval eval_elts empty_of].
      destruct (eval w a en tr) as [[v0 t1]|]; [|discriminate]. cbn in He.
      destruct (items_of v0) as [l|]; [|discriminate]. rewrite app_nil_r.
      unfold mkset in He. destruct (forallb hashable l); [|discriminate]. injection He as <- <-. reflexivity.
  - destruct k0; try discriminate; injection Hi as <- <-.
    + apply (Hdisp AKList). reflexivity.
    + apply (Hdisp AKSet). reflexivity.
  - destruct k0; try discriminate; injection Hi as <- <-.
    + (* list comprehension *)
      cbn [acc_eval eval_elts empty_of]. rewrite He.
      rewrite eval_EComp in He. destruct (eval w e3 en tr) as [[itv tr0]|]; [|discriminate].
      destruct (items_of itv) as [xs|]; [|discriminate].
      destruct (loop_list_shape _ _ _ _ _ _ _ _ _ _ _ _ He) as [a ->]. cbn. rewrite app_nil_r. reflexivity.
    + (* set comprehension *)
      cbn [acc_eval eval_elts empty_of]. rewrite He.
      rewrite eval_comp_nondict in He by reflexivity.
      destruct (eval w (EComp CList e1 e2 t e3 ifs) en tr) as [[[] tr']|]; try discriminate.
      cbn [finish_comp] in He. destruct (mkset l) as [sv|] eqn:Hm; [|discriminate]. injection He as <- <-.
      unfold mkset in Hm. destruct (forallb hashable l) eqn:Hh; [|discriminate]. injection Hm as <-.
      cbn [items_of]. rewrite app_nil_r.
      rewrite fold_set_add_hashable by (assumption || reflexivity).
      rewrite nodupk_rebuild; [reflexivity|]. apply fold_set_add_nodupk. constructor.
Qed.

Lemma exec_meth_owned : forall W x m args a st tr,
  blind W x -> existsb (mentions x) args = false ->
  exec_stmt W (SMeth x m args) (mkSt (sset st x a) (Some x) tr) =
  match eval_elts (eval (W st)) (sget st) args tr with
  | Some (vs, tr1) =>
      match apply_meth m a vs with
      | Some r => Some (ONormal, mkSt (sset st x r) (Some x) tr1)
      | None => None
      end
  | None => None
  end.
Proof.
  intros W x m args a st tr Hb Hm.
  cbn [exec_stmt st_own st_store st_trace is_owned]. rewrite (Nat.eqb_refl x), sget_sset_same, Hb.
  rewrite frame_elts_sset by assumption. rewrite Hm. cbn [negb orb].
  destruct (eval_elts (eval (W st)) (sget st) args tr) as [[vs tr1]|]; [|reflexivity].
  destruct (apply_meth m a vs); [|reflexivity]. rewrite sset_sset_same. reflexivity.
Qed.

Lemma exec_setitem_owned : forall W x k v a st tr,
  blind W x -> mentions x k || mentions x v = false ->
  exec_stmt W (SSetItem x k v) (mkSt (sset st x a) (Some x) tr) =
  match eval (W st) v (sget st) tr with
  | Some (vv, tr1) =>
      match eval (W st) k (sget st) tr1 with
      | Some (kv, tr2) =>
          match a with
          | VDict d => if hashable kv then Some (ONormal, mkSt (sset st x (VDict (dict_set d kv vv))) (Some x) tr2) else None
          | _ => None
          end
      | None => None
      end
  | None => None
  end.
Proof.
  intros W x k v a st tr Hb Hm. pose proof Hm as Hm'. apply orb_false_iff in Hm' as [Hk Hv].
  cbn [exec_stmt st_own st_store st_trace is_owned]. rewrite (Nat.eqb_refl x). unfold eval_in.
  cbn [st_store st_trace]. rewrite sget_sset_same, !Hb, Hm. rewrite (frame_sset _ _ v) by assumption.
  destruct (eval (W st) v (sget st) tr) as [[vv tr1]|]; [|reflexivity].
  rewrite (frame_sset _ _ k) by assumption.
  destruct (eval (W st) k (sget st) tr1) as [[kv tr2]|]; [|reflexivity].
  destruct a; try reflexivity. cbn [negb orb]. rewrite andb_true_r.
  destruct (hashable kv); [|reflexivity]. rewrite sset_sset_same. reflexivity.
Qed.

Lemma eval_elts_plain_cons : forall w en x tl tr, plain x = true ->
  eval_elts (eval w) en (x :: tl) tr =
  match eval w x en tr with
  | Some (v, tr1) => match eval_elts (eval w) en tl tr1 with
                     | Some (rest, tr2) => Some (v :: rest, tr2)
                     | None => None
                     end
  | None => None
  end.
Proof. intros w en x tl tr H. destruct x; try discriminate; reflexivity. Qed.

Lemma inline_eval : forall w en a v tr tr1 l,
  eval w a en tr = Some (v, tr1) -> items_of v = Some l ->
  eval_elts (eval w) en (inline_arg a) tr = Some (l, tr1).
Proof.
  intros w en a v tr tr1 l He Hi.
  assert (Hgen : eval_elts (eval w) en [EStar a] tr = Some (l, tr1)).
  { cbn [eval_elts]. rewrite He, Hi, app_nil_r. reflexivity. }
  destruct a; try exact Hgen. destruct k; try exact Hgen; cbn [inline_arg]; rewrite eval_ESeq in He;
    destruct (eval_elts (eval w) en elts tr) as [[vs t]|]; try discriminate;
    injection He as <- <-; cbn in Hi; injection Hi as <-; reflexivity.
Qed.

Lemma inline_all : forall w en args vs tr tr1 ls,
  forallb plain args = true -> eval_elts (eval w) en args tr = Some (vs, tr1) -> all_items vs = Some ls ->
  eval_elts (eval w) en (flat_map inline_arg args) tr = Some (concat ls, tr1).
Proof.
  intros w en. induction args as [|a args IH]; intros vs tr tr1 ls Hp He Ha.
  - cbn in He. injection He as <- <-. cbn in Ha. injection Ha as <-. reflexivity.
  - cbn in Hp. apply andb_true_iff in Hp as [Hpa Hp]. rewrite (eval_elts_plain_cons _ _ _ _ _ Hpa) in He.
    destruct (eval w a en tr) as [[v t1]|] eqn:Ev; [|discriminate].
    destruct (eval_elts (eval w) en args t1) as [[rest t2]|] eqn:Er; [|discriminate].
    injection He as <- <-. cbn [all_items] in Ha.
    destruct (items_of v) as [l|] eqn:Hi; [|discriminate]. destruct (all_items rest) as [ls'|] eqn:Hr; [|discriminate].
    injection Ha as <-. cbn [flat_map concat]. rewrite eval_elts_app.
    rewrite (inline_eval _ _ _ _ _ _ _ Ev Hi). rewrite (IH _ _ _ _ Hp Er Hr). reflexivity.
Qed.

Fixpoint mods_of (r : mrule) (x : nat) (l : list stmt) : option (list expr) :=
  match l with
  | [] => Some []
  | s :: tl => match mod_of r x s, mods_of r x tl with
               | Some a, Some b => Some (a ++ b)
               | _, _ => None
               end
  end.

Lemma mod_step : forall W r x k s more a st tr out q',
  blind W x -> rkind r k -> shape k a ->
  mod_of r x s = Some more ->
  exec_stmt W s (mkSt (sset st x a) (Some x) tr) = Some (out, q') ->
  out = ONormal /\
  exists a' tr', acc_eval k (W st) (sget st) more a tr = Some (a', tr') /\ q' = mkSt (sset st x a') (Some x) tr'.
Proof.
  intros W r x k s more a st tr out q' Hb Hrk Hsh Hm He.
  assert (Hset : forall y k0 v0,
            (if Nat.eqb y x && negb (mentions x k0 || mentions x v0) && (pure k0 || pure v0) then Some [EKV k0 v0] else None) = Some more ->
            k = AKDict -> s = SSetItem y k0 v0 ->
            out = ONormal /\ exists a' tr', acc_eval k (W st) (sget st) more a tr = Some (a', tr') /\
                                            q' = mkSt (sset st x a') (Some x) tr').
  { intros y k0 v0 Hc -> ->.
    destruct (Nat.eqb y x) eqn:Hy; [|discriminate]. apply Nat.eqb_eq in Hy. subst y.
    destruct (mentions x k0 || mentions x v0) eqn:Hmn; [discriminate|].
    destruct (pure k0 || pure v0) eqn:Hpu; [|discriminate]. injection Hc as <-.
    rewrite exec_setitem_owned in He by assumption.
    pose proof (pure_swap (W st) k0 v0 (sget st) tr Hpu) as Hsw.
    destruct (eval (W st) v0 (sget st) tr) as [[vv t1]|]; [|discriminate].
    destruct (eval (W st) k0 (sget st) t1) as [[kv t2]|]; [|discriminate].
    destruct a; try discriminate. destruct (hashable kv) eqn:Hh; [|discriminate].
    injection He as <- <-. split; [reflexivity|].
    cbn [acc_eval eval_items].
    destruct (eval (W st) k0 (sget st) tr) as [[kv' t1']|]; [|discriminate].
    destruct (eval (W st) v0 (sget st) t1') as [[vv' t2']|]; [|discriminate].
    injection Hsw as <- <- <-. rewrite Hh. eauto. }
  assert (Hupd : forall y a0,
            (if Nat.eqb y x && negb (mentions x a0) && is_dict_expr a0 then Some [EDStar a0] else None) = Some more ->
            k = AKDict -> s = SMeth y MUpdate [a0] ->
            out = ONormal /\ exists a' tr', acc_eval k (W st) (sget st) more a tr = Some (a', tr') /\
                                            q' = mkSt (sset st x a') (Some x) tr').
  { intros y a0 Hc -> ->.
    destruct (Nat.eqb y x) eqn:Hy; [|discriminate]. apply Nat.eqb_eq in Hy. subst y.
    destruct (mentions x a0) eqn:Hmn; [discriminate|].
    destruct (is_dict_expr a0) eqn:Hd; [|discriminate]. injection Hc as <-.
    rewrite exec_meth_owned in He by (try assumption; cbn; rewrite Hmn; reflexivity).
    assert (Hpl : plain a0 = true) by (destruct a0; try discriminate; reflexivity).
    rewrite (eval_elts_plain_cons _ _ _ _ _ Hpl) in He.
    destruct a; try contradiction. cbn [acc_eval eval_items].
    destruct (eval (W st) a0 (sget st) tr) as [[v0 t1]|]; [|discriminate]. cbn [eval_elts] in He.
    cbn [apply_meth] in He. destruct v0; try discriminate. injection He as <- <-.
    split; [reflexivity|]. eauto. }
  destruct r; cbn [mod_of] in Hm; cbn [rkind] in Hrk.
  - destruct s; try discriminate. eapply Hset; eauto.
  - destruct s; try discriminate. destruct m; try discriminate. destruct args as [|a0 [|]]; try discriminate.
    eapply Hupd; eauto.
  - destruct s; try discriminate. eapply Hset; eauto.
  - destruct s; try discriminate. destruct m; try discriminate. destruct args as [|a0 [|]]; try discriminate.
    eapply Hupd; eauto.
  - destruct s; try discriminate.
    destruct (Nat.eqb x0 x) eqn:Hy; [|discriminate]. apply Nat.eqb_eq in Hy. subst x0.
    destruct (existsb (mentions x) args) eqn:Hmn; [discriminate|]. cbn [negb andb] in Hm.
    rewrite exec_meth_owned in He by assumption.
    destruct (eval_elts (eval (W st)) (sget st) args tr) as [[vs t1]|] eqn:Ev; [|discriminate].
    destruct (apply_meth m a vs) as [r|] eqn:Ha; [|discriminate]. injection He as <- <-.
    split; [reflexivity|].
    destruct m.
    + (* append *)
      destruct args as [|a0 [|]]; try discriminate. destruct (plain a0) eqn:Hp; [|discriminate]. injection Hm as <-.
      destruct a; try discriminate. destruct vs as [|v0 [|]]; try discriminate. injection Ha as <-.
      destruct k; try contradiction. cbn [acc_eval]. rewrite Ev. eauto.
    + (* extend *)
      destruct (forallb plain args) eqn:Hp; [|discriminate]. injection Hm as <-.
      destruct a; try discriminate. destruct vs as [|v0 [|]]; try discriminate. cbn [apply_meth] in Ha.
      destruct (items_of v0) as [its|] eqn:Hi; [|discriminate]. injection Ha as <-.
      destruct k; try contradiction. cbn [acc_eval].
      rewrite (inline_all _ _ _ _ _ _ [its] Hp Ev) by (cbn; rewrite Hi; reflexivity).
      cbn [concat]. rewrite app_nil_r. eauto.
    + (* add *)
      destruct args as [|a0 [|]]; try discriminate. destruct (plain a0) eqn:Hp; [|discriminate]. injection Hm as <-.
      destruct a; try discriminate. destruct vs as [|v0 [|]]; try discriminate. cbn [apply_meth] in Ha.
      destruct (hashable v0) eqn:Hh; [|discriminate]. injection Ha as <-.
      destruct k; try contradiction. cbn [acc_eval]. rewrite Ev. cbn. rewrite Hh. cbn. eauto.
    + (* update *)
      destruct (forallb plain args) eqn:Hp; [|discriminate]. injection Hm as <-.
      destruct a; try discriminate.
      * cbn [apply_meth] in Ha. destruct (all_items vs) as [ls|] eqn:Hal; [|discriminate].
        destruct (forallb hashable (concat ls)) eqn:Hh; [|discriminate]. injection Ha as <-.
        destruct k; try contradiction. cbn [acc_eval].
        rewrite (inline_all _ _ _ _ _ _ _ Hp Ev Hal). rewrite Hh. eauto.
      * destruct k; try contradiction; congruence.
Qed.

Lemma window : forall W r x k mods more a st tr rest res,
  blind W x -> rkind r k -> shape k a ->
  mods_of r x mods = Some more ->
  exec_block W (mods ++ rest) (mkSt (sset st x a) (Some x) tr) = Some res ->
  exists a' tr', acc_eval k (W st) (sget st) more a tr = Some (a', tr') /\ shape k a' /\
                 exec_block W rest (mkSt (sset st x a') (Some x) tr') = Some res.
Proof.
  intros W r x k. induction mods as [|s mods IH]; intros more a st tr rest res Hb Hrk Hsh Hm He.
  - cbn in Hm. injection Hm as <-. exists a, tr. split; [|split; assumption].
    destruct k, a; try contradiction; cbn; try rewrite app_nil_r; reflexivity.
  - cbn [mods_of] in Hm. destruct (mod_of r x s) as [m1|] eqn:Hm1; [|discriminate].
    destruct (mods_of r x mods) as [m2|] eqn:Hm2; [|discriminate]. injection Hm as <-.
    cbn [app] in He. rewrite exec_block_cons in He.
    destruct (exec_stmt W s (mkSt (sset st x a) (Some x) tr)) as [[out q1]|] eqn:Es; [|discriminate].
    destruct (mod_step _ _ _ _ _ _ _ _ _ _ _ Hb Hrk Hsh Hm1 Es) as [-> [a1 [tr1 [Ha1 ->]]]].
    pose proof (acc_shape _ _ _ _ _ _ _ _ Ha1) as Hsh1.
    destruct (IH _ _ _ _ _ _ Hb Hrk Hsh1 eq_refl He) as [a' [tr' [Ha' [Hsh' Hr]]]].
    exists a', tr'. split; [|split; assumption]. rewrite acc_app, Ha1. exact Ha'.
Qed.

(* One transaction: `x = <init>` and the following statements that the rule folds, against the single
   assignment of the merged display.  W may read variables, but not x. *)
Theorem merge_window_sound : forall W r s0 x k ps mods more rest q res,
  blind W x ->
  init_of r s0 = Some (x, k, ps) -> mods_of r x mods = Some more ->
  exec_block W (s0 :: mods ++ rest) q = Some res ->
  exec_block W (SAssign x (display k (ps ++ more)) :: rest) q = Some res.
Proof.
  intros W r s0 x k ps mods more rest q res Hb Hi Hm He.
  destruct (init_inv _ _ _ _ _ Hi) as [e [-> [Hf Hrk]]].
  rewrite exec_block_cons in He. cbn [exec_stmt] in He. unfold eval_in in He. rewrite Hf in He.
  destruct (eval (W (st_store q)) e (sget (st_store q)) (st_trace q)) as [[v tr1]|] eqn:Ee; [|discriminate].
  pose proof (init_eval _ _ _ _ _ _ _ _ _ _ Hi Ee) as Hacc.
  pose proof (acc_shape _ _ _ _ _ _ _ _ Hacc) as Hsh.
  destruct (window _ _ _ _ _ _ _ _ _ _ _ Hb Hrk Hsh Hm He) as [a' [tr' [Ha' [_ Hr]]]].
  rewrite exec_block_cons. cbn [exec_stmt]. unfold eval_in.
  rewrite display_eval, acc_app, Hacc, Ha'.
  assert (Hfd : fresh (display k (ps ++ more)) = true) by (destruct k; reflexivity).
  rewrite Hfd. exact Hr.
Qed.

(* The whole pass over one statement list *)
Definition cur_ok (r : mrule) (c : option cur) (consumed : list stmt) : Prop :=
  match c with
  | None => consumed = []
  | Some (s0, x, k, ps, fo) =>
      exists ps0 mods more,
        init_of r s0 = Some (x, k, ps0) /\ mods_of r x mods = Some more /\ ps = ps0 ++ more /\
        consumed = s0 :: mods /\ (fo = false -> mods = [])
  end.

Lemma mods_of_snoc : forall r x mods more s m, mods_of r x mods = Some more -> mod_of r x s = Some m ->
  mods_of r x (mods ++ [s]) = Some (more ++ m).
Proof.
  intros r x. induction mods as [|s0 mods IH]; intros more s m Hm Hs.
  - cbn in Hm. injection Hm as <-. cbn. rewrite Hs, app_nil_r. reflexivity.
  - cbn [mods_of] in Hm. destruct (mod_of r x s0) as [m0|] eqn:E0; [|discriminate].
    destruct (mods_of r x mods) as [m1|] eqn:E; [|discriminate]. injection Hm as <-.
    cbn [app mods_of]. rewrite (IH _ _ _ eq_refl Hs), E0, app_assoc. reflexivity.
Qed.

Lemma flush_sound : forall W r c consumed rest q res,
  (forall x, blind W x) -> cur_ok r c consumed ->
  exec_block W (consumed ++ rest) q = Some res -> exec_block W (flush c ++ rest) q = Some res.
Proof.
  intros W r c consumed rest q res Hb Hok He. destruct c as [[[[[s0 x] k] ps] fo]|]; cbn [flush].
  - destruct Hok as [ps0 [mods [more [Hi [Hm [-> [-> Hfo]]]]]]]. destruct fo.
    + cbn [app]. eapply merge_window_sound; eauto.
    + rewrite (Hfo eq_refl) in He. exact He.
  - cbn in Hok. subst consumed. exact He.
Qed.

Lemma scan_sound_gen : forall W r b c consumed q res,
  (forall x, blind W x) -> cur_ok r c consumed ->
  exec_block W (consumed ++ b) q = Some res -> exec_block W (scan r c b) q = Some res.
Proof.
  intros W r. induction b as [|s b IH]; intros c consumed q res Hb Hok He.
  - cbn [scan]. rewrite <- (app_nil_r (flush c)). eapply flush_sound; eauto.
  - assert (Hrestart : forall q res,
      exec_block W (s :: b) q = Some res ->
      exec_block W (match start r s with Some c' => scan r (Some c') b | None => s :: scan r None b end) q = Some res).
    { intros q0 res0 He0. unfold start. destruct (init_of r s) as [[[x k] ps]|] eqn:Hi.
      - apply (IH _ [s]); [assumption| |exact He0].
        exists ps, [], []. rewrite app_nil_r. repeat split; auto.
      - rewrite exec_block_cons in *. destruct (exec_stmt W s q0) as [[[] q1]|]; try exact He0.
        apply (IH None []); [assumption|reflexivity|exact He0]. }
    cbn [scan]. destruct c as [[[[[s0 x] k] ps] fo]|].
    + destruct (mod_of r x s) as [m|] eqn:Hm.
      * destruct Hok as [ps0 [mods [more [Hi [Hms [-> [-> Hfo]]]]]]].
        apply (IH _ (s0 :: mods ++ [s])).
        -- assumption.
        -- exists ps0, (mods ++ [s]), (more ++ m). rewrite app_assoc. repeat split; auto.
           ++ apply mods_of_snoc; assumption.
           ++ discriminate.
        -- cbn [app] in *. rewrite <- app_assoc. exact He.
      * rewrite exec_block_app. rewrite exec_block_app in He.
        destruct (exec_block W consumed q) as [[out q1]|] eqn:Ec; [|discriminate].
        assert (Hfl : exec_block W (flush (Some ((s0, x, k, ps, fo) : cur))) q = Some (out, q1)).
        { rewrite <- (app_nil_r (flush _)). eapply flush_sound; eauto. rewrite app_nil_r. exact Ec. }
        rewrite Hfl. destruct out; try exact He. apply Hrestart. exact He.
    + cbn in Hok. subst consumed. apply Hrestart. exact He.
Qed.

Theorem merge_block_sound : forall W r b q res,
  (forall x, blind W x) ->
  exec_block W b q = Some res -> exec_block W (merge_block r b) q = Some res.
Proof. intros W r b q res Hb He. apply (scan_sound_gen W r b None []); [assumption|reflexivity|exact He]. Qed.

(* the guards are satisfiable: a block on which the pass folds three statements *)
Example merge_block_example :
  merge_block MCollAdd
    [SAssign 1 (ESeq KList [EConst (AInt 1)]); SMeth 1 MAppend [ECall 0 []];
     SMeth 1 MExtend [ESeq KTuple [EName 2; EStar (EName 3)]]; SMeth 1 MAppend [EName 1]; SExpr (EName 1)]
  = [SAssign 1 (ESeq KList [EConst (AInt 1); ECall 0 []; EName 2; EStar (EName 3)]);
     SMeth 1 MAppend [EName 1]; SExpr (EName 1)].
Proof. reflexivity. Qed.

Example merge_dict_example :
  merge_block MDictAssign
    [SAssign 1 (EDict [EKV (EConst (AInt 1)) (EConst (AInt 2))]); SSetItem 1 (EConst (ABool true)) (ECall 0 []);
     SSetItem 1 (ECall 0 []) (ECall 4 []); SSetItem 1 (EConst (AInt 3)) (EConst (AInt 4))]
  = [SAssign 1 (EDict [EKV (EConst (AInt 1)) (EConst (AInt 2)); EKV (EConst (ABool true)) (ECall 0 [])]);
     SSetItem 1 (ECall 0 []) (ECall 4 []); SSetItem 1 (EConst (AInt 3)) (EConst (AInt 4))].
Proof. reflexivity. Qed.

(* Without `blind`: a callee that reads the variable being built (F02coll-1).  f5 returns len(v1). *)
Theorem merge_refuted_global_reader :
  exists W r b q res, exec_block W b q = Some res /\ merge_block r b <> b /\
                      exec_block W (merge_block r b) q <> Some res.
Proof.
  exists test_worlds, MDictAssign,
    [SAssign 1 (EDict []); SSetItem 1 (EConst (AInt 1)) (ECall 5 [])],
    (mkSt [(1%nat, VList [VInt 9; VInt 9])] None []).
  eexists. split; [vm_compute; reflexivity|]. split; vm_compute; discriminate.
Qed.

(* The rules before the repairs (every world, also a constant one) *)
Theorem merge_old_refuted_self_read :
  exists r b q res, exec_block (fun _ => test_world) b q = Some res /\
                    exec_block (fun _ => test_world) (scan_old r None b) q <> Some res.
Proof.
  exists MDictAssign, [SAssign 1 (EDict []); SSetItem 1 (EConst (AInt 1)) (EBi BLen [EName 1])],
    (mkSt [(1%nat, VList [VInt 9; VInt 9])] None []).
  eexists. split; [vm_compute; reflexivity|]. vm_compute. discriminate.
Qed.

Theorem merge_old_refuted_order :
  exists r b q res, exec_block (fun _ => test_world) b q = Some res /\
                    exec_block (fun _ => test_world) (scan_old r None b) q <> Some res.
Proof.
  exists MDictAssign, [SAssign 1 (EDict []); SSetItem 1 (ECall 0 []) (ECall 4 [])], (mkSt [] None []).
  eexists. split; [vm_compute; reflexivity|]. vm_compute. discriminate.
Qed.

(* =========================================================================================== *)
(* fixes.breakout_starred_args *)

Lemma elts_as_args : forall w en l tr vs t,
  eval_elts (eval w) en l tr = Some (vs, t) ->
  eval_args (eval w) en l tr = Some (map (fun x => (None, x)) vs, t).
Proof.
  intros w en. induction l as [|a l IH]; intros tr vs t H.
  - cbn in H. injection H as <- <-. reflexivity.
  - assert (Hgen : match eval w a en tr with
                   | Some (v, tr1) => match eval_elts (eval w) en l tr1 with
                                      | Some (rest, tr2) => Some (v :: rest, tr2) | None => None end
                   | None => None end = Some (vs, t) ->
                   match eval w a en tr with
                   | Some (v, tr1) => match eval_args (eval w) en l tr1 with
                                      | Some (rest, tr2) => Some ((None, v) :: rest, tr2) | None => None end
                   | None => None end = Some (map (fun x => (None, x)) vs, t)).
    { intros H0. destruct (eval w a en tr) as [[v tr1]|]; [|discriminate].
      destruct (eval_elts (eval w) en l tr1) as [[rest tr2]|] eqn:E; [|discriminate]. injection H0 as <- <-.
      rewrite (IH _ _ _ E). reflexivity. }
    destruct a; try (apply Hgen; exact H).
    + cbn [eval_elts] in H. cbn [eval_args].
      destruct (eval w a en tr) as [[v tr1]|]; [|discriminate]. destruct (items_of v) as [its|]; [|discriminate].
      destruct (eval_elts (eval w) en l tr1) as [[rest tr2]|] eqn:E; [|discriminate]. injection H as <- <-.
      rewrite (IH _ _ _ E), map_app. reflexivity.
    + cbn [eval_elts] in H. cbn in H. discriminate.
Qed.

Lemma eval_args_app : forall ev en l1 l2 tr,
  eval_args ev en (l1 ++ l2) tr =
  match eval_args ev en l1 tr with
  | Some (vs1, tr1) => match eval_args ev en l2 tr1 with
                       | Some (vs2, tr2) => Some (vs1 ++ vs2, tr2)
                       | None => None
                       end
  | None => None
  end.
Proof.
  intros ev en. induction l1 as [|a l1 IH]; intros l2 tr.
  - cbn. destruct (eval_args ev en l2 tr) as [[vs2 tr2]|]; reflexivity.
  - cbn [app]. destruct a; cbn [eval_args];
      try (destruct (ev _ en tr) as [[v tr1]|]; [|reflexivity]; rewrite IH;
           destruct (eval_args ev en l1 tr1) as [[r1 t1]|]; [|reflexivity];
           destruct (eval_args ev en l2 t1) as [[r2 t2]|]; reflexivity).
    destruct (ev a en tr) as [[v tr1]|]; [|reflexivity]. destruct (items_of v) as [its|]; [|reflexivity].
    rewrite IH. destruct (eval_args ev en l1 tr1) as [[r1 t1]|]; [|reflexivity].
    destruct (eval_args ev en l2 t1) as [[r2 t2]|]; [|reflexivity]. rewrite app_assoc. reflexivity.
Qed.

Definition piece (a : expr) : list expr := match splice_arg a with Some l => l | None => [a] end.

Lemma piece_elts : forall w en a tr r,
  eval_elts (eval w) en [a] tr = Some r -> eval_elts (eval w) en (piece a) tr = Some r.
Proof.
  intros w en a tr r H. unfold piece. destruct (splice_arg a) as [l|] eqn:Hs; [|exact H].
  destruct a; try discriminate. destruct a; try discriminate. cbn [eval_elts] in H. rewrite eval_ESeq in H.
  destruct k; cbn [splice_arg] in Hs.
  - injection Hs as <-. destruct (eval_elts (eval w) en elts tr) as [[vs t]|]; [|discriminate].
    cbn in H. rewrite app_nil_r in H. exact H.
  - injection Hs as <-. destruct (eval_elts (eval w) en elts tr) as [[vs t]|]; [|discriminate].
    cbn in H. rewrite app_nil_r in H. exact H.
  - destruct elts as [|x [|]]; try discriminate. destruct (is_star x) eqn:Hx; [discriminate|]. injection Hs as <-.
    destruct (eval_elts (eval w) en [x] tr) as [[vs t]|] eqn:E; [|discriminate].
    assert (exists v, vs = [v]) as [v ->].
    { destruct x; try discriminate; cbn [eval_elts] in E;
        match type of E with context [eval w ?e en tr] => destruct (eval w e en tr) as [[v0 tt0]|] end;
        try discriminate; injection E as <- _; eauto. }
    unfold mkset in H. cbn [forallb] in H. destruct (hashable v); [|discriminate]. cbn in H. exact H.
Qed.

Lemma splice_elts : forall w en args tr r,
  eval_elts (eval w) en args tr = Some r -> eval_elts (eval w) en (splice_args args) tr = Some r.
Proof.
  intros w en. induction args as [|a args IH]; intros tr r H; [exact H|].
  change (a :: args) with ([a] ++ args) in H. rewrite eval_elts_app in H.
  unfold splice_args. cbn [flat_map]. fold (piece a). fold (splice_args args). rewrite eval_elts_app.
  destruct (eval_elts (eval w) en [a] tr) as [[vs1 tr1]|] eqn:E; [|discriminate].
  rewrite (piece_elts _ _ _ _ _ E).
  destruct (eval_elts (eval w) en args tr1) as [[vs2 tr2]|] eqn:E2; [|discriminate].
  rewrite (IH _ _ E2). exact H.
Qed.

Lemma piece_args : forall w en a tr r,
  eval_args (eval w) en [a] tr = Some r -> eval_args (eval w) en (piece a) tr = Some r.
Proof.
  intros w en a tr r H. unfold piece. destruct (splice_arg a) as [l|] eqn:Hs; [|exact H].
  assert (He : exists vs t, eval_elts (eval w) en [a] tr = Some (vs, t) /\ r = (map (fun x => (None, x)) vs, t)).
  { destruct a; try discriminate. cbn [eval_args] in H. cbn [eval_elts].
    destruct (eval w a en tr) as [[v t]|]; [|discriminate]. destruct (items_of v) as [its|]; [|discriminate].
    cbn in H. injection H as <-. exists (its ++ []), t. rewrite map_app. split; reflexivity. }
  destruct He as [vs [t [He ->]]].
  apply elts_as_args. pose proof (piece_elts _ _ _ _ _ He) as Hp. unfold piece in Hp. rewrite Hs in Hp. exact Hp.
Qed.

Lemma splice_args_sound : forall w en args tr r,
  eval_args (eval w) en args tr = Some r -> eval_args (eval w) en (splice_args args) tr = Some r.
Proof.
  intros w en. induction args as [|a args IH]; intros tr r H; [exact H|].
  change (a :: args) with ([a] ++ args) in H. rewrite eval_args_app in H.
  unfold splice_args. cbn [flat_map]. fold (piece a). fold (splice_args args). rewrite eval_args_app.
  destruct (eval_args (eval w) en [a] tr) as [[vs1 tr1]|] eqn:E; [|discriminate].
  rewrite (piece_args _ _ _ _ _ E).
  destruct (eval_args (eval w) en args tr1) as [[vs2 tr2]|] eqn:E2; [|discriminate].
  rewrite (IH _ _ E2). exact H.
Qed.

Theorem starargs_sound : forall w e e' en tr r,
  rw_starargs e = Some e' -> eval w e en tr = Some r -> eval w e' en tr = Some r.
Proof.
  intros w e e' en tr r Hrw He. destruct e; try discriminate; cbn [rw_starargs] in Hrw;
    destruct (existsb _ args); try discriminate; injection Hrw as <-.
  - cbn [eval] in *. destruct (eval_elts (eval w) en args tr) as [[vs tr1]|] eqn:E; [|discriminate].
    rewrite (splice_elts _ _ _ _ _ E). exact He.
  - rewrite eval_EBi in *. destruct (eval_args (eval w) en args tr) as [[vs tr1]|] eqn:E; [|discriminate].
    rewrite (splice_args_sound _ _ _ _ _ E). exact He.
Qed.

(* the rule before the repair unpacked `*{*a}` too *)
Theorem starargs_old_refuted :
  exists e e' en, eval test_world e en [] <> None /\ eval test_world e' en [] <> eval test_world e en [] /\
    e = ECall 4 [EStar (ESeq KSet [EStar (EName 2)])] /\ e' = ECall 4 [EStar (EName 2)].
Proof.
  exists (ECall 4 [EStar (ESeq KSet [EStar (EName 2)])]), (ECall 4 [EStar (EName 2)]),
    (mkenv [(2%nat, VList [VInt 1; VInt 1])]).
  repeat split; vm_compute; discriminate.
Qed.

(* =========================================================================================== *)
(* fixes.replace_with_filter *)

(* states that differ at most in the binding (and ownership) of x *)
Definition xequiv (x : nat) (q1 q2 : state) : Prop :=
  (forall v, sset (st_store q1) x v = sset (st_store q2) x v) /\
  rebind_own (st_own q1) x = rebind_own (st_own q2) x /\ st_trace q1 = st_trace q2.

Definition res_rel (x : nat) (r1 r2 : option (outcome * state)) : Prop :=
  match r1, r2 with
  | Some (o1, q1), Some (o2, q2) => o1 = o2 /\ xequiv x q1 q2
  | None, None => True
  | _, _ => False
  end.

Lemma xequiv_refl : forall x q, xequiv x q q.
Proof. intros x q. repeat split. Qed.

Lemma res_rel_refl : forall x r, res_rel x r r.
Proof. intros x [[o q]|]; cbn; [split; [reflexivity | apply xequiv_refl] | exact I]. Qed.

Lemma rebind_idem : forall o x, rebind_own (rebind_own o x) x = rebind_own o x.
Proof. intros [y|] x; cbn; [|reflexivity]. destruct (Nat.eqb y x) eqn:E; cbn; [reflexivity | rewrite E; reflexivity]. Qed.

Lemma read_own_rebound : forall o x c, (forall y, y <> x -> mentions y c = false) ->
  read_own (rebind_own o x) [c] = rebind_own o x.
Proof.
  intros [y|] x c H; cbn; [|reflexivity]. destruct (Nat.eqb y x) eqn:E; cbn; [reflexivity|].
  apply Nat.eqb_neq in E. rewrite (H y E). reflexivity.
Qed.

Lemma filter_test_mentions : forall x c f, filter_test x c = Some f -> forall y, y <> x -> mentions y c = false.
Proof.
  intros x c f H y Hy. destruct c; try discriminate; cbn in H.
  - destruct (Nat.eqb x x0) eqn:E; [|discriminate]. apply Nat.eqb_eq in E. subst x0. cbn. apply Nat.eqb_neq. congruence.
  - destruct args as [|[] [|]]; try discriminate. destruct (Nat.eqb x x0) eqn:E; [|discriminate].
    apply Nat.eqb_eq in E. subst x0. cbn. rewrite orb_false_r. apply Nat.eqb_neq. congruence.
Qed.

(* the test `c` on the freshly bound loop variable = the test of filter(f, ..) on the item *)
Lemma filter_test_eval : forall W x c f s v o tr,
  filter_test x c = Some f -> blind W x ->
  match eval (W (sset s x v)) c (sget (sset s x v)) tr with
  | Some (cv, tr1) => Some (truthy cv, tr1)
  | None => None
  end =
  match accept W (IFilter f (EConst ANone)) v (mkSt s o tr) with
  | Some (b, q) => Some (b, st_trace q)
  | None => None
  end.
Proof.
  intros W x c f s v o tr H Hb. destruct c; try discriminate; cbn in H.
  - destruct (Nat.eqb x x0) eqn:E; [|discriminate]. apply Nat.eqb_eq in E. subst x0. injection H as <-.
    cbn. rewrite sget_sset_same. reflexivity.
  - destruct args as [|[] [|]]; try discriminate. destruct (Nat.eqb x x0) eqn:E; [|discriminate].
    apply Nat.eqb_eq in E. subst x0. injection H as <-.
    cbn. rewrite sget_sset_same, Hb. destruct (call_or (W s) tr f0 [v]); reflexivity.
Qed.

Lemma accept_filter_state : forall W f e1 e2 v q, accept W (IFilter f e1) v q = accept W (IFilter f e2) v q.
Proof. reflexivity. Qed.

Lemma accept_filter_shape : forall W f e v q b q', accept W (IFilter f e) v q = Some (b, q') ->
  st_store q' = st_store q /\ st_own q' = st_own q.
Proof.
  intros W f e v q b q' H. destruct f; cbn in H.
  - destruct (call_or _ _ _ _); [|discriminate]. injection H as _ <-. split; reflexivity.
  - injection H as _ <-. split; reflexivity.
Qed.

Section FilterLoop.
  Variables (W : worlds) (x : nat) (e : expr) (c : expr) (f : option nat) (s1 : stmt) (neg : bool).
  Hypothesis Hft : filter_test x c = Some f.
  Hypothesis Hb : blind W x.

  Definition orig_body : list stmt :=
    if neg then [SIf (ENot c) [SCont] []; s1] else [SIf c [s1] []].

  (* the original body, once the loop variable is bound: the test, then s1 or nothing *)
  Lemma orig_body_exec : forall s v o tr,
    exec_block W orig_body (mkSt (sset s x v) (rebind_own o x) tr) =
    match eval (W (sset s x v)) c (sget (sset s x v)) tr with
    | Some (cv, tr1) =>
        if truthy cv then exec_block W [s1] (mkSt (sset s x v) (rebind_own o x) tr1)
        else Some (if neg then OCont else ONormal, mkSt (sset s x v) (rebind_own o x) tr1)
    | None => None
    end.
  Proof.
    intros s v o tr. unfold orig_body. destruct neg.
    - rewrite exec_block_cons, exec_SIf. unfold eval_in. cbn [st_store st_trace st_own eval].
      destruct (eval (W (sset s x v)) c (sget (sset s x v)) tr) as [[cv tr1]|]; [|reflexivity].
      cbn [truthy]. assert (Hr : read_own (rebind_own o x) [ENot c] = rebind_own o x).
      { apply read_own_rebound. intros y Hy. cbn. exact (filter_test_mentions _ _ _ Hft y Hy). }
      rewrite Hr. destruct (truthy cv); cbn [negb]; reflexivity.
    - rewrite exec_block_cons, exec_SIf. unfold eval_in. cbn [st_store st_trace st_own].
      destruct (eval (W (sset s x v)) c (sget (sset s x v)) tr) as [[cv tr1]|]; [|reflexivity].
      rewrite (read_own_rebound _ _ _ (filter_test_mentions _ _ _ Hft)).
      destruct (truthy cv).
      + destruct (exec_block W [s1] _) as [[[] q']|]; reflexivity.
      + reflexivity.
  Qed.

  Lemma filter_loop : forall items q1 q2, xequiv x q1 q2 ->
    res_rel x (exec_loop W (TName x) (IPlain e) orig_body items q1)
              (exec_loop W (TName x) (IFilter f e) [s1] items q2).
  Proof.
    induction items as [|v items IH]; intros q1 q2 Hq.
    - cbn. split; [reflexivity | exact Hq].
    - rewrite !exec_loop_cons. destruct q1 as [st1 o1 tr1], q2 as [st2 o2 tr2].
      destruct Hq as [Hs [Ho Ht]]. cbn [st_store st_own st_trace] in *. subst tr2.
      change (accept W (IPlain e) v (mkSt st1 o1 tr1)) with (Some (true, mkSt st1 o1 tr1)).
      cbn [sbind tgt_names fold_left st_store st_own st_trace].
      rewrite orig_body_exec.
      pose proof (filter_test_eval W x c f st2 v o2 tr1 Hft Hb) as Ht. rewrite <- (Hs v) in Ht.
      rewrite (accept_filter_state W f e (EConst ANone)).
      destruct (eval (W (sset st1 x v)) c (sget (sset st1 x v)) tr1) as [[cv tr']|].
      + destruct (accept W (IFilter f (EConst ANone)) v (mkSt st2 o2 tr1)) as [[b q']|] eqn:Ea; [|discriminate].
        destruct (accept_filter_shape _ _ _ _ _ _ _ Ea) as [Hst Hown]. destruct q' as [st' o' tr'']. cbn in Hst, Hown, Ht.
        subst st' o'. injection Ht as <- <-.
        destruct (truthy cv).
        * cbn [sbind st_store st_own st_trace fold_left tgt_names]. rewrite <- (Hs v), <- Ho.
          destruct (exec_block W [s1] (mkSt (sset st1 x v) (rebind_own o1 x) tr')) as [[[] q3]|];
            try (apply IH, xequiv_refl); try apply res_rel_refl.
        * assert (Hq' : xequiv x (mkSt (sset st1 x v) (rebind_own o1 x) tr') (mkSt st2 o2 tr')).
          { repeat split; cbn [st_store st_own st_trace].
            - intros u. rewrite sset_sset_same. apply Hs.
            - rewrite rebind_idem. exact Ho. }
          destruct neg; apply IH; exact Hq'.
      + destruct (accept W (IFilter f (EConst ANone)) v (mkSt st2 o2 tr1)) as [[b q']|]; [discriminate | exact I].
  Qed.
End FilterLoop.

Lemma filter_shape_inv : forall body c s1 neg, filter_shape body = Some (c, s1, neg) -> body = orig_body c s1 neg.
Proof.
  intros body c s1 neg H. unfold filter_shape in H.
  repeat match type of H with
         | context [match ?t with _ => _ end] => destruct t; try discriminate
         end; injection H as <- <- <-; reflexivity.
Qed.

Theorem filter_sound : forall W s s' q, (forall x, blind W x) -> rw_filter s = Some s' ->
  exists x, res_rel x (exec_stmt W s q) (exec_stmt W s' q).
Proof.
  intros W s s' q Hb H. destruct s; try discriminate. destruct t as [x|]; try discriminate.
  destruct it; try discriminate. exists x.
  assert (Hcore : forall c f s1 neg, filter_test x c = Some f ->
            res_rel x (exec_stmt W (SFor (TName x) (IPlain e) (orig_body c s1 neg)) q)
                      (exec_stmt W (SFor (TName x) (IFilter f e) [s1]) q)).
  { intros c f s1 neg Hft. rewrite !exec_SFor. cbn [isrc_expr src_items].
    destruct (eval_in W e q) as [[itv tr1]|]; [|exact I]. destruct (items_of itv) as [items|]; [|exact I].
    apply filter_loop; [assumption | apply Hb | apply xequiv_refl]. }
  cbn [rw_filter] in H. destruct (filter_shape body) as [[[c s1] neg]|] eqn:Hsh; [|discriminate].
  destruct (filter_test x c) as [f|] eqn:Hft; [|discriminate].
  injection H as <-.
  rewrite (filter_shape_inv _ _ _ _ Hsh). apply (Hcore c f s1 neg Hft).
Qed.

(* 295ec41 (the template back end indents compound statements): the rule no longer stays silent on
   compound body statements; the old model was the restriction of the new one, sound a fortiori *)
Lemma filter_old_sub : forall s s', rw_filter_old s = Some s' -> rw_filter s = Some s'.
Proof.
  intros s s' H. destruct s; try discriminate. cbn [rw_filter_old] in H.
  destruct (filter_shape body) as [[[c s1] neg]|]; [|discriminate].
  destruct (simple_stmt s1); [exact H | discriminate].
Qed.

Example filter_compound_body :
  let s := SFor (TName 1) (IPlain (EName 2)) [SIf (EName 1) [SIf (EName 1) [SExpr (ECall 0 [])] []] []] in
  rw_filter s = Some (SFor (TName 1) (IFilter None (EName 2)) [SIf (EName 1) [SExpr (ECall 0 [])] []])
  /\ rw_filter_old s = None.
Proof. split; reflexivity. Qed.

(* full equality fails: the loop variable after the loop (F02-47) *)
Theorem filter_refuted_loop_variable :
  exists s s' q, rw_filter s = Some s' /\ exec_stmt (fun _ => test_world) s q <> exec_stmt (fun _ => test_world) s' q /\
                 exec_stmt (fun _ => test_world) s q <> None.
Proof.
  exists (SFor (TName 1) (IPlain (ESeq KList [EConst (AInt 1); EConst (AInt 0)])) [SIf (EName 1) [SExpr (ECall 4 [EName 1])] []]).
  eexists. exists (mkSt [] None []). split; [reflexivity|]. split; vm_compute; discriminate.
Qed.

(* =========================================================================================== *)
(* fixes.simplify_assign_immediate_return.  The variables of the function are dead once it returns:
   two runs are alike if they return the same value with the same trace (the stores may differ), or
   do not return and end in the same state. *)

Definition ret_rel (r1 r2 : option (outcome * state)) : Prop :=
  match r1, r2 with
  | Some (o1, q1), Some (o2, q2) =>
      match o1 with
      | ORet v => o2 = ORet v /\ st_trace q1 = st_trace q2
      | _ => o1 = o2 /\ q1 = q2
      end
  | None, None => True
  | _, _ => False
  end.

Lemma ret_rel_refl : forall r, ret_rel r r.
Proof. intros [[[] q]|]; cbn; auto. Qed.

Section StmtInd.
  Variable P : stmt -> Prop.
  Hypothesis HAssign : forall x e, P (SAssign x e).
  Hypothesis HSetItem : forall x k v, P (SSetItem x k v).
  Hypothesis HMeth : forall x m args, P (SMeth x m args).
  Hypothesis HExpr : forall e, P (SExpr e).
  Hypothesis HRet : forall e, P (SRet e).
  Hypothesis HPass : P SPass.
  Hypothesis HCont : P SCont.
  Hypothesis HBreak : P SBreak.
  Hypothesis HIf : forall c b1 b2, Forall P b1 -> Forall P b2 -> P (SIf c b1 b2).
  Hypothesis HFor : forall t it body, Forall P body -> P (SFor t it body).

  Fixpoint stmt_ind' (s : stmt) : P s :=
    let fl := fix fl (l : list stmt) : Forall P l :=
      match l with
      | [] => Forall_nil P
      | x :: tl => Forall_cons x (stmt_ind' x) (fl tl)
      end in
    match s with
    | SAssign x e => HAssign x e
    | SSetItem x k v => HSetItem x k v
    | SMeth x m args => HMeth x m args
    | SExpr e => HExpr e
    | SRet e => HRet e
    | SPass => HPass
    | SCont => HCont
    | SBreak => HBreak
    | SIf c b1 b2 => HIf c b1 b2 (fl b1) (fl b2)
    | SFor t it body => HFor t it body (fl body)
    end.
End StmtInd.

Section ImmRet.
  Variables (W : worlds) (ok : nat -> bool).

  Definition ir_stmt (s : stmt) : Prop := forall q, ret_rel (exec_stmt W s q) (exec_stmt W (immret_s ok s) q).

  Lemma immret_b_cons : forall s1 tl,
    immret_b ok (s1 :: tl) =
    match s1, tl with
    | SAssign x e, SRet (EName y) :: tl' =>
        if Nat.eqb x y && ok x then SRet e :: immret_b ok tl' else immret_s ok s1 :: immret_b ok tl
    | _, _ => immret_s ok s1 :: immret_b ok tl
    end.
  Proof. reflexivity. Qed.

  Lemma ir_generic : forall s1 tl, ir_stmt s1 ->
    (forall q, ret_rel (exec_block W tl q) (exec_block W (immret_b ok tl) q)) ->
    forall q, ret_rel (exec_block W (s1 :: tl) q) (exec_block W (immret_s ok s1 :: immret_b ok tl) q).
  Proof.
    intros s1 tl H1 Htl q. rewrite !exec_block_cons. specialize (H1 q).
    destruct (exec_stmt W s1 q) as [[o1 q1]|], (exec_stmt W (immret_s ok s1) q) as [[o2 q2]|]; cbn in H1; try contradiction; [|exact I].
    destruct o1; destruct H1 as [Ho H1]; subst o2; try (subst q2); cbn; auto.
  Qed.

  Lemma ir_block_n : forall n b, (length b <= n)%nat -> Forall ir_stmt b ->
    forall q, ret_rel (exec_block W b q) (exec_block W (immret_b ok b) q).
  Proof.
    induction n as [|n IH]; intros b Hn Hb q.
    - destruct b; [apply ret_rel_refl | cbn in Hn; lia].
    - destruct b as [|s1 tl]; [apply ret_rel_refl|]. cbn in Hn.
      inversion Hb as [|? ? H1 Htl]; subst.
      assert (Hgen : ret_rel (exec_block W (s1 :: tl) q) (exec_block W (immret_s ok s1 :: immret_b ok tl) q)).
      { apply ir_generic; [assumption|]. intros q'. apply IH; [lia | assumption]. }
      rewrite immret_b_cons. destruct s1; try exact Hgen. destruct tl as [|s2 tl']; [exact Hgen|].
      destruct s2; try exact Hgen. destruct e0; try exact Hgen.
      destruct (Nat.eqb x x0 && ok x) eqn:Hc; [|exact Hgen].
      apply andb_true_iff in Hc as [Hx _]. apply Nat.eqb_eq in Hx. subst x0.
      rewrite !exec_block_cons. cbn [exec_stmt]. unfold eval_in. cbn [st_store st_trace eval].
      destruct (eval (W (st_store q)) e (sget (st_store q)) (st_trace q)) as [[v tr1]|]; [|exact I].
      rewrite exec_block_cons. cbn [exec_stmt]. unfold eval_in. cbn [st_store st_trace eval].
      rewrite sget_sset_same. cbn. split; reflexivity.
  Qed.

  Lemma ir_block : forall b, Forall ir_stmt b ->
    forall q, ret_rel (exec_block W b q) (exec_block W (immret_b ok b) q).
  Proof. intros b. apply (ir_block_n (length b)). lia. Qed.

  Lemma ir_all : forall s, ir_stmt s.
  Proof.
    induction s using stmt_ind'; intros q; try apply ret_rel_refl.
    - (* if *)
      change (immret_s ok (SIf c b1 b2)) with (SIf c (immret_b ok b1) (immret_b ok b2)). rewrite !exec_SIf.
      destruct (eval_in W c q) as [[cv tr1]|]; [|exact I]. cbn zeta.
      destruct (truthy cv); apply ir_block; assumption.
    - (* for *)
      change (immret_s ok (SFor t it body)) with (SFor t it (immret_b ok body)). rewrite !exec_SFor.
      destruct (eval_in W (isrc_expr it) q) as [[itv tr1]|]; [|exact I].
      destruct (src_items it itv) as [items|]; [|exact I].
      generalize (mkSt (st_store q) (fold_left rebind_own (tgt_names t) (read_own (st_own q) [isrc_expr it])) tr1).
      induction items as [|v items IHi]; intros q0; [apply ret_rel_refl|].
      rewrite !exec_loop_cons. destruct (accept W it v q0) as [[[] q1]|]; [| apply IHi | exact I].
      destruct (sbind t v (st_store q1)) as [s'|]; [|exact I].
      pose proof (ir_block body H (mkSt s' (fold_left rebind_own (tgt_names t) (st_own q1)) (st_trace q1))) as Hr.
      destruct (exec_block W body _) as [[o1 q2]|], (exec_block W (immret_b ok body) _) as [[o2 q3]|];
        cbn in Hr; try contradiction; [|exact I].
      destruct o1; destruct Hr as [Ho Hr]; subst o2; try (subst q3); cbn; auto; try apply IHi.
  Qed.

  Theorem immret_sound : forall b q, ret_rel (exec_block W b q) (exec_block W (immret_b ok b) q).
  Proof. intros b q. apply ir_block. apply Forall_forall. intros s _. apply ir_all. Qed.
End ImmRet.

Corollary rw_immret_sound : forall W body q, ret_rel (exec_block W body q) (exec_block W (rw_immret body) q).
Proof. intros. apply immret_sound. Qed.

Example rw_immret_example :
  rw_immret [SIf (ECall 4 []) [SAssign 1 (ECall 0 []); SRet (EName 1)] [SAssign 2 (ECall 0 []); SExpr (EName 2); SRet (EName 2)]]
  = [SIf (ECall 4 []) [SRet (ECall 0 [])] [SAssign 2 (ECall 0 []); SExpr (EName 2); SRet (EName 2)]].
Proof. reflexivity. Qed.

(* =========================================================================================== *)
(* fixes.simplify_redundant_lambda, on one application *)

Lemma bind_params_other : forall xs vs en en1 rest y,
  bind_params xs vs en = Some (en1, rest) -> ~ List.In y xs -> en1 y = en y.
Proof.
  induction xs as [|x xs IH]; intros vs en en1 rest y H Hy.
  - cbn in H. injection H as <- _. reflexivity.
  - destruct vs as [|v vs]; [discriminate|]. cbn in H. rewrite (IH _ _ _ _ _ H).
    + unfold upd. destruct (Nat.eqb y x) eqn:E; [|reflexivity]. apply Nat.eqb_eq in E. subst. exfalso. apply Hy. left. reflexivity.
    + intros Hin. apply Hy. right. exact Hin.
Qed.

Lemma bind_params_names : forall w xs vs en en1 rest tr,
  bind_params xs vs en = Some (en1, rest) -> NoDup xs ->
  forall en2, (forall y, List.In y xs -> en2 y = en1 y) ->
  exists pre, vs = pre ++ rest /\ eval_elts (eval w) en2 (map EName xs) tr = Some (pre, tr).
Proof.
  intros w. induction xs as [|x xs IH]; intros vs en en1 rest tr H Hnd en2 Hag.
  - cbn in H. injection H as _ <-. exists []. split; reflexivity.
  - destruct vs as [|v vs]; [discriminate|]. cbn in H. inversion Hnd as [|? ? Hnin Hnd']; subst.
    destruct (IH _ _ _ _ tr H Hnd' en2) as [pre [-> He]].
    { intros y Hy. apply Hag. right. exact Hy. }
    exists (v :: pre). split; [reflexivity|]. cbn [map eval_elts eval].
    rewrite (Hag x (or_introl eq_refl)). rewrite (bind_params_other _ _ _ _ _ _ H Hnin).
    unfold upd. rewrite (Nat.eqb_refl x). rewrite He. reflexivity.
Qed.

Lemma is_forward_spec : forall xs va args, is_forward xs va args = true ->
  args = map EName xs ++ match va with Some a => [EStar (EName a)] | None => [] end.
Proof.
  induction xs as [|x xs IH]; intros va args H.
  - cbn in H. destruct args as [|a [|]]; try discriminate.
    + destruct va; [discriminate | reflexivity].
    + destruct a; try discriminate. destruct a; try discriminate. destruct va as [a|]; [|discriminate].
      apply Nat.eqb_eq in H. subst. reflexivity.
    + destruct a; try discriminate. destruct a; discriminate.
  - cbn in H. destruct args as [|a args]; [discriminate|]. destruct a; try discriminate.
    apply andb_true_iff in H as [Hx H]. apply Nat.eqb_eq in Hx. subst. cbn. f_equal. apply IH. exact H.
Qed.

Lemma split_kws_plain : forall l, split_kws (map (fun x : val => (None, x)) l) = (l, []).
Proof. induction l as [|a l IH]; [reflexivity|]. cbn. rewrite IH. reflexivity. Qed.

(* evaluating the forwarded argument list inside the lambda gives back the arguments of the call *)
Lemma forward_eval : forall w l en args tr en1 rest,
  NoDup (l_params l ++ match l_vararg l with Some a => [a] | None => [] end) ->
  bind_params (l_params l) args en = Some (en1, rest) ->
  match l_vararg l with Some _ => True | None => rest = [] end ->
  eval_elts (eval w)
    (match l_vararg l with Some a => upd en1 a (VTuple rest) | None => en1 end)
    (map EName (l_params l) ++ match l_vararg l with Some a => [EStar (EName a)] | None => [] end) tr
  = Some (args, tr).
Proof.
  intros w l en args tr en1 rest Hnd Hb Hr.
  assert (Hnd1 : NoDup (l_params l)).
  { destruct (l_vararg l) as [a|].
    - apply NoDup_remove_1 in Hnd. rewrite app_nil_r in Hnd. exact Hnd.
    - rewrite app_nil_r in Hnd. exact Hnd. }
  destruct (l_vararg l) as [a|].
  - assert (Ha : ~ List.In a (l_params l)).
    { intros Hin. apply NoDup_remove_2 in Hnd. rewrite app_nil_r in Hnd. exact (Hnd Hin). }
    destruct (bind_params_names w _ _ _ _ _ tr Hb Hnd1 (upd en1 a (VTuple rest))) as [pre [-> He]].
    { intros y Hy. unfold upd. destruct (Nat.eqb y a) eqn:E; [|reflexivity]. apply Nat.eqb_eq in E. subst. contradiction. }
    rewrite eval_elts_app, He. cbn [eval_elts eval]. unfold upd. rewrite (Nat.eqb_refl a). cbn. rewrite app_nil_r. reflexivity.
  - subst rest. destruct (bind_params_names w _ _ _ _ _ tr Hb Hnd1 en1) as [pre [-> He]]; [reflexivity|].
    rewrite !app_nil_r. exact He.
Qed.

Theorem lambda_sound : forall w l r en args tr res,
  NoDup (l_params l ++ match l_vararg l with Some a => [a] | None => [] end) ->
  rw_lambda l = Some r -> apply_lam w l en args tr = Some res -> apply_repl w r args tr = Some res.
Proof.
  intros w l r en args tr res Hnd Hrw Ha. unfold rw_lambda, rw_lambda_gen in Hrw.
  destruct (true && negb (Nat.eqb (l_ndefaults l) 0)); [discriminate|].
  unfold apply_lam in Ha.
  destruct (lam_literal l) as [r0|] eqn:Hlit.
  - injection Hrw as <-. unfold lam_literal in Hlit.
    destruct (l_params l) as [|x [|]]; try discriminate; destruct (l_vararg l); try discriminate.
    + (* lambda: [] / () / {} *)
      cbn in Ha. destruct args; [|discriminate].
      destruct (l_body l); try discriminate.
      * destruct k; try discriminate; destruct elts; try discriminate; injection Hlit as <-;
          cbn in Ha; injection Ha as <-; reflexivity.
      * destruct items; try discriminate. injection Hlit as <-. cbn in Ha. injection Ha as <-. reflexivity.
    + (* lambda x: [*x] *)
      destruct (l_body l); try discriminate.
      destruct elts as [|e0 [|]]; try discriminate;
        try (exfalso; repeat match type of Hlit with
                             | context [match ?t with _ => _ end] => destruct t; try discriminate
                             end; fail).
      destruct e0; try discriminate. destruct e0; try discriminate.
      destruct (Nat.eqb x x0) eqn:Ex; [|discriminate]. apply Nat.eqb_eq in Ex. subst x0. injection Hlit as <-.
      destruct args as [|a [|]]; try discriminate. cbn [bind_params] in Ha.
      rewrite eval_ESeq in Ha. cbn [eval_elts eval] in Ha. unfold upd in Ha. rewrite (Nat.eqb_refl x) in Ha.
      cbn [apply_repl]. destruct (items_of a) as [its|] eqn:Hi; [|discriminate]. rewrite app_nil_r in Ha.
      destruct k; cbn [seq_bi bapply]; rewrite Hi; cbn [option_map].
      * injection Ha as <-. reflexivity.
      * injection Ha as <-. reflexivity.
      * destruct (mkset its); [|discriminate]. injection Ha as <-. reflexivity.
  - unfold lam_forward in Hrw.
    destruct (bind_params (l_params l) args en) as [[en1 rest]|] eqn:Hb; [|discriminate].
    assert (Hrest : match l_vararg l with Some _ => True | None => rest = [] end).
    { destruct (l_vararg l); [exact I|]. destruct rest; [reflexivity | discriminate]. }
    pose proof (forward_eval w l en args tr en1 rest Hnd Hb Hrest) as Hfw.
    assert (Henv : match l_vararg l, rest with
                   | Some a, _ => eval w (l_body l) (upd en1 a (VTuple rest)) tr
                   | None, [] => eval w (l_body l) en1 tr
                   | None, _ :: _ => None
                   end = eval w (l_body l) (match l_vararg l with Some a => upd en1 a (VTuple rest) | None => en1 end) tr).
    { destruct (l_vararg l); [reflexivity|]. subst rest. reflexivity. }
    rewrite Henv in Ha. clear Henv.
    destruct (l_body l); try discriminate.
    + destruct (is_forward (l_params l) (l_vararg l) args0) eqn:Hf; [|discriminate]. injection Hrw as <-.
      rewrite (is_forward_spec _ _ _ Hf) in Ha. cbn [eval] in Ha. rewrite Hfw in Ha. exact Ha.
    + destruct (is_forward (l_params l) (l_vararg l) args0) eqn:Hf; [|discriminate]. injection Hrw as <-.
      rewrite (is_forward_spec _ _ _ Hf) in Ha. rewrite eval_EBi in Ha.
      rewrite (elts_as_args _ _ _ _ _ _ Hfw) in Ha. rewrite split_kws_plain in Ha. cbn [fst snd] in Ha.
      cbn [apply_repl]. exact Ha.
Qed.

(* before the repair: a default is dropped *)
Theorem lambda_old_refuted_defaults :
  exists l r, rw_lambda_old l = Some r /\ rw_lambda l = None /\ l_ndefaults l = 1%nat.
Proof. exists (mkLam [1%nat] 1 None (ECall 4 [EName 1])), (LFun 4). repeat split. Qed.

(* =========================================================================================== *)
(* fixes.fix_raise_missing_from *)

Theorem raise_from_partial : forall caught x,
  x_value (raise_from caught x) = x_value (raise_plain caught x) /\
  x_context (raise_from caught x) = x_context (raise_plain caught x).
Proof. intros. split; reflexivity. Qed.

Theorem raise_from_refuted : forall caught x, raise_from caught x <> raise_plain caught x.
Proof. intros caught x H. discriminate H. Qed.

(* =========================================================================================== *)
(* fixes.implicit_defaultdict: one loop step *)

Lemma dict_get_set_same : forall d k v, dict_get (dict_set d k v) k = Some v.
Proof.
  induction d as [|[k' v'] d IH]; intros k v; cbn.
  - rewrite key_eqb_refl. reflexivity.
  - destruct (key_eqb k' k) eqn:E; cbn; rewrite E; [reflexivity | apply IH].
Qed.

(* the items of the mapping after the step are the same *)
Theorem defaultdict_step_items : forall lk d k v, plain_step lk d k v = dd_step lk d k v.
Proof.
  intros lk d k v. unfold plain_step, dd_step. destruct (hashable k); [|reflexivity].
  destruct (dict_get d k) as [c|] eqn:E.
  - rewrite E. reflexivity.
  - rewrite dict_get_set_same. reflexivity.
Qed.

(* but the class is observable: a later read of a missing key *)
Theorem defaultdict_refuted_missing_key : forall lk d k, dict_get d k = None ->
  fst (mapping_read (PlainDict d) k) = None /\ fst (mapping_read (DefaultDict lk d) k) = Some (dd_empty lk).
Proof. intros lk d k H. unfold mapping_read. cbn. rewrite H. split; reflexivity. Qed.

Theorem defaultdict_refuted_class : forall lk d, PlainDict d <> DefaultDict lk d.
Proof. intros lk d H. discriminate H. Qed.

(* =========================================================================================== *)
(* the merge rules in nested statement lists *)

Section Deep.
  Variables (W : worlds) (r : mrule).
  Hypothesis Hb : forall x, blind W x.

  Definition dP (s : stmt) : Prop := forall q res, exec_stmt W s q = Some res -> exec_stmt W (merge_s r s) q = Some res.

  Lemma merge_s_If : forall c b1 b2, merge_s r (SIf c b1 b2) = SIf c (merge_deep r b1) (merge_deep r b2).
  Proof. reflexivity. Qed.
  Lemma merge_s_For : forall t it body, merge_s r (SFor t it body) = SFor t it (merge_deep r body).
  Proof. reflexivity. Qed.

  Lemma map_sound : forall b, Forall dP b -> forall q res,
    exec_block W b q = Some res -> exec_block W (map (merge_s r) b) q = Some res.
  Proof.
    induction 1 as [|s b Hs Hbk IH]; intros q res He; [exact He|].
    cbn [map]. rewrite exec_block_cons in *.
    destruct (exec_stmt W s q) as [[o q1]|] eqn:E; [|discriminate]. rewrite (Hs _ _ E).
    destruct o; try exact He. apply IH. exact He.
  Qed.

  Lemma deep_block : forall b, Forall dP b -> forall q res,
    exec_block W b q = Some res -> exec_block W (merge_deep r b) q = Some res.
  Proof. intros b H q res He. apply merge_block_sound; [exact Hb|]. apply map_sound; assumption. Qed.

  Lemma dP_all : forall s, dP s.
  Proof.
    induction s using stmt_ind'; intros q res He; try exact He.
    - rewrite merge_s_If. rewrite exec_SIf in *. destruct (eval_in W c q) as [[cv tr1]|]; [|discriminate].
      cbn zeta in *. destruct (truthy cv); apply deep_block; assumption.
    - rewrite merge_s_For. rewrite exec_SFor in *. destruct (eval_in W (isrc_expr it) q) as [[itv tr1]|]; [|discriminate].
      destruct (src_items it itv) as [items|]; [|discriminate].
      revert He. generalize (mkSt (st_store q) (fold_left rebind_own (tgt_names t) (read_own (st_own q) [isrc_expr it])) tr1).
      induction items as [|v items IHi]; intros q0 He; [exact He|].
      rewrite exec_loop_cons in *. destruct (accept W it v q0) as [[[] q1]|]; [| apply IHi; exact He | discriminate].
      destruct (sbind t v (st_store q1)) as [s'|]; [|discriminate].
      destruct (exec_block W body _) as [[o q2]|] eqn:E; [|discriminate].
      rewrite (deep_block body H _ _ E). destruct o; try exact He; apply IHi; exact He.
  Qed.

  Theorem merge_deep_sound : forall b q res,
    exec_block W b q = Some res -> exec_block W (merge_deep r b) q = Some res.
  Proof. intros b q res. apply deep_block. apply Forall_forall. intros s _. apply dP_all. Qed.
End Deep.

(* =========================================================================================== *)
(* fixes.implicit_dict_keys_values_items, for-statement forms: a block that never reads `_` does not
   depend on the binding of `_` (statement-level frame), hence `for k, _ in d.items()` = `for k in d.keys()`
   up to the binding of `_` *)

Lemma sset_comm : forall s x y a b, x <> y -> sset (sset s y a) x b = sset (sset s x b) y a.
Proof.
  induction s as [|[z w] tl IH]; intros x y a b Hxy; cbn [sset];
    repeat (match goal with
            | |- context [Nat.ltb ?a ?b] => destruct (Nat.ltb a b) eqn:?
            | |- context [Nat.eqb ?a ?b] => destruct (Nat.eqb a b) eqn:?
            end; cbn [sset]);
    repeat match goal with
           | H : Nat.ltb _ _ = true |- _ => apply Nat.ltb_lt in H
           | H : Nat.ltb _ _ = false |- _ => apply Nat.ltb_ge in H
           | H : Nat.eqb _ _ = true |- _ => apply Nat.eqb_eq in H
           | H : Nat.eqb _ _ = false |- _ => apply Nat.eqb_neq in H
           end; try lia; try reflexivity; try (subst; lia).
  rewrite IH by assumption. reflexivity.
Qed.

Notation U := underscore.

Definition sR (s1 s2 : store) : Prop := forall v, sset s1 U v = sset s2 U v.
Definition oR (o1 o2 : option nat) : Prop := rebind_own o1 U = rebind_own o2 U.

Lemma xequiv_split : forall q1 q2, xequiv U q1 q2 <->
  sR (st_store q1) (st_store q2) /\ oR (st_own q1) (st_own q2) /\ st_trace q1 = st_trace q2.
Proof. intros. reflexivity. Qed.

Lemma sR_refl : forall s, sR s s.
Proof. intros s v. reflexivity. Qed.

Lemma sR_sset : forall s1 s2 y v, sR s1 s2 -> sR (sset s1 y v) (sset s2 y v).
Proof.
  intros s1 s2 y v H u. destruct (Nat.eq_dec U y) as [<-|Hy].
  - rewrite !sset_sset_same. apply H.
  - rewrite !(sset_comm _ U y) by assumption. rewrite H. reflexivity.
Qed.

Lemma sR_get : forall s1 s2 y, sR s1 s2 -> y <> U -> sget s1 y = sget s2 y.
Proof.
  intros s1 s2 y H Hy. rewrite <- (sget_sset_other s1 U y VNone) by congruence.
  rewrite <- (sget_sset_other s2 U y VNone) by congruence. rewrite H. reflexivity.
Qed.

Lemma sR_agree : forall s1 s2, sR s1 s2 -> agree_off (sget s1) (sget s2).
Proof. intros s1 s2 H y Hy. apply sR_get; assumption. Qed.

Lemma sR_bind_names : forall xs vs s1 s2, sR s1 s2 ->
  match sbind_names xs vs s1, sbind_names xs vs s2 with
  | Some a, Some b => sR a b
  | None, None => True
  | _, _ => False
  end.
Proof.
  induction xs as [|x xs IH]; intros [|v vs] s1 s2 H; cbn; try exact I; [assumption|].
  apply IH. apply sR_sset. assumption.
Qed.

Lemma sR_bind : forall t v s1 s2, sR s1 s2 ->
  match sbind t v s1, sbind t v s2 with
  | Some a, Some b => sR a b
  | None, None => True
  | _, _ => False
  end.
Proof.
  intros [x|xs] v s1 s2 H; cbn.
  - apply sR_sset. assumption.
  - destruct (items_of v); [apply sR_bind_names; assumption | exact I].
Qed.

Ltac oR_tac :=
  unfold oR, rebind_own, read_own, is_owned in *;
  repeat match goal with
         | o : option nat |- _ => destruct o
         end;
  repeat match goal with
         | |- context [if ?c then _ else _] => destruct c eqn:?
         | H : context [if ?c then _ else _] |- _ => destruct c eqn:?
         end;
  repeat match goal with
         | H : Nat.eqb _ _ = true |- _ => apply Nat.eqb_eq in H
         | H : Nat.eqb _ _ = false |- _ => apply Nat.eqb_neq in H
         end;
  subst; try congruence; try reflexivity.

Lemma oR_refl : forall o, oR o o.
Proof. intros. reflexivity. Qed.

Lemma oR_read : forall o1 o2 es, oR o1 o2 -> oR (read_own o1 es) (read_own o2 es).
Proof. intros o1 o2 es H. oR_tac. Qed.

Lemma oR_rebind : forall o1 o2 y, oR o1 o2 -> oR (rebind_own o1 y) (rebind_own o2 y).
Proof. intros o1 o2 y H. oR_tac. Qed.

Lemma oR_fold : forall ys o1 o2, oR o1 o2 -> oR (fold_left rebind_own ys o1) (fold_left rebind_own ys o2).
Proof. induction ys as [|y ys IH]; intros o1 o2 H; [assumption|]. cbn. apply IH, oR_rebind, H. Qed.

Lemma oR_owned : forall o1 o2 x, oR o1 o2 -> x <> U -> is_owned o1 x = is_owned o2 x.
Proof.
  intros [a|] [b|] x H Hx; unfold oR, rebind_own, is_owned in *.
  - destruct (Nat.eqb a U) eqn:Ea, (Nat.eqb b U) eqn:Eb; try discriminate.
    + apply Nat.eqb_eq in Ea, Eb. subst. reflexivity.
    + injection H as ->. reflexivity.
  - destruct (Nat.eqb a U) eqn:Ea; [|discriminate]. apply Nat.eqb_eq in Ea. subst a. apply Nat.eqb_neq. exact Hx.
  - destruct (Nat.eqb b U) eqn:Eb; [|discriminate]. apply Nat.eqb_eq in Eb. subst b. symmetry. apply Nat.eqb_neq. exact Hx.
  - reflexivity.
Qed.

Lemma oR_assign : forall o1 o2 (b : bool) y, oR o1 o2 ->
  oR (if b then Some y else rebind_own o1 y) (if b then Some y else rebind_own o2 y).
Proof. intros o1 o2 [] y H; [reflexivity | apply oR_rebind, H]. Qed.

Lemma oR_rebind_U : forall o, oR (rebind_own o U) o.
Proof. intros o. unfold oR. apply rebind_idem. Qed.

Section UsFrame.
  Variable W : worlds.
  Hypothesis HbW : blind W U.

  Lemma W_eq : forall s1 s2, sR s1 s2 -> W s1 = W s2.
  Proof. intros s1 s2 H. rewrite <- (HbW s1 VNone), <- (HbW s2 VNone), H. reflexivity. Qed.

  Lemma eval_eq : forall e s1 s2 tr, reads_us e = false -> sR s1 s2 ->
    eval (W s1) e (sget s1) tr = eval (W s2) e (sget s2) tr.
  Proof. intros e s1 s2 tr He H. rewrite (W_eq _ _ H). apply frame; [assumption | apply sR_agree, H]. Qed.

  Lemma elts_eq : forall l s1 s2 tr, existsb reads_us l = false -> sR s1 s2 ->
    eval_elts (eval (W s1)) (sget s1) l tr = eval_elts (eval (W s2)) (sget s2) l tr.
  Proof.
    intros l s1 s2 tr Hl H. rewrite (W_eq _ _ H). apply elts_frame; [|assumption | apply sR_agree, H].
    apply Forall_forall. intros e _. apply frame_all.
  Qed.

  Definition fP (s : stmt) : Prop :=
    reads_us_s s = false -> forall q1 q2, xequiv U q1 q2 -> res_rel U (exec_stmt W s q1) (exec_stmt W s q2).
  Definition fB (b : list stmt) : Prop :=
    reads_us_b b = false -> forall q1 q2, xequiv U q1 q2 -> res_rel U (exec_block W b q1) (exec_block W b q2).

  Lemma reads_us_If : forall c b1 b2, reads_us_s (SIf c b1 b2) = reads_us c || reads_us_b b1 || reads_us_b b2.
  Proof. reflexivity. Qed.
  Lemma reads_us_For : forall t it body, reads_us_s (SFor t it body) = reads_us (isrc_expr it) || reads_us_b body.
  Proof. reflexivity. Qed.

  Lemma fB_of_Forall : forall b, Forall fP b -> fB b.
  Proof.
    induction 1 as [|s b Hs Hb IH]; intros Hr q1 q2 Hq.
    - cbn. split; [reflexivity | exact Hq].
    - cbn in Hr. apply orb_false_iff in Hr as [Hr1 Hr2]. rewrite !exec_block_cons.
      specialize (Hs Hr1 q1 q2 Hq).
      destruct (exec_stmt W s q1) as [[o1 q1']|], (exec_stmt W s q2) as [[o2 q2']|]; cbn in Hs; try contradiction; [|exact I].
      destruct Hs as [<- Hq']. destruct o1; try (split; [reflexivity | exact Hq']). apply IH; assumption.
  Qed.

  Lemma accept_rel : forall it v q1 q2, xequiv U q1 q2 ->
    match accept W it v q1, accept W it v q2 with
    | Some (b1, q1'), Some (b2, q2') => b1 = b2 /\ xequiv U q1' q2'
    | None, None => True
    | _, _ => False
    end.
  Proof.
    intros it v q1 q2 Hq. pose proof Hq as [Hs [Ho Ht]].
    destruct it; cbn [accept]; try (split; [reflexivity | exact Hq]).
    destruct f as [g|]; [|split; [reflexivity | exact Hq]].
    rewrite (W_eq _ _ Hs), Ht. destruct (call_or (W (st_store q2)) (st_trace q2) g [v]); [|exact I].
    split; [reflexivity|]. (split; [|split]); cbn [st_store st_own st_trace]; try assumption. reflexivity.
  Qed.

  Lemma loop_rel : forall t it body, fB body -> reads_us_b body = false ->
    forall items q1 q2, xequiv U q1 q2 ->
      res_rel U (exec_loop W t it body items q1) (exec_loop W t it body items q2).
  Proof.
    intros t it body Hb Hr. induction items as [|v items IH]; intros q1 q2 Hq.
    - cbn. split; [reflexivity | exact Hq].
    - rewrite !exec_loop_cons. pose proof (accept_rel it v q1 q2 Hq) as Ha.
      destruct (accept W it v q1) as [[b1 q1']|], (accept W it v q2) as [[b2 q2']|]; try contradiction; [|exact I].
      destruct Ha as [<- Hq']. destruct b1; [|apply IH; exact Hq'].
      destruct Hq' as [Hs [Ho Ht]]. pose proof (sR_bind t v _ _ Hs) as Hbd.
      destruct (sbind t v (st_store q1')) as [s1'|], (sbind t v (st_store q2')) as [s2'|]; try contradiction; [|exact I].
      assert (Hq2 : xequiv U (mkSt s1' (fold_left rebind_own (tgt_names t) (st_own q1')) (st_trace q1'))
                              (mkSt s2' (fold_left rebind_own (tgt_names t) (st_own q2')) (st_trace q2'))).
      { (split; [|split]); cbn [st_store st_own st_trace]; [exact Hbd | apply oR_fold, Ho | exact Ht]. }
      specialize (Hb Hr _ _ Hq2).
      destruct (exec_block W body _) as [[o1 q3]|], (exec_block W body _) as [[o2 q4]|]; cbn in Hb; try contradiction; [|exact I].
      destruct Hb as [<- Hq3]. destruct o1; try (apply IH; exact Hq3); split; try reflexivity; exact Hq3.
  Qed.

  Lemma fP_all : forall s, fP s.
  Proof.
    induction s using stmt_ind'; intros Hr q1 q2 Hq; pose proof Hq as [Hs [Ho Ht]];
      destruct q1 as [s1 o1 tr1], q2 as [s2 o2 tr2]; cbn [st_store st_own st_trace] in *; subst tr2.
    - (* assign *)
      cbn in Hr. cbn [exec_stmt]. unfold eval_in. cbn [st_store st_own st_trace].
      rewrite (eval_eq _ _ _ _ Hr Hs). destruct (eval (W s2) e (sget s2) tr1) as [[v t]|]; [|exact I].
      split; [reflexivity|]. (split; [|split]); cbn [st_store st_own st_trace].
      + apply sR_sset; exact Hs.
      + apply oR_assign, oR_read, Ho.
      + reflexivity.
    - (* setitem *)
      cbn in Hr. apply orb_false_iff in Hr as [Hr Hv]. apply orb_false_iff in Hr as [Hx Hk].
      apply Nat.eqb_neq in Hx. cbn [exec_stmt]. unfold eval_in. cbn [st_store st_own st_trace].
      rewrite (oR_owned _ _ x Ho Hx). destruct (is_owned o2 x); [|exact I].
      rewrite (eval_eq _ _ _ _ Hv Hs). destruct (eval (W s2) v (sget s2) tr1) as [[vv t1]|]; [|exact I].
      rewrite (eval_eq _ _ _ _ Hk Hs). destruct (eval (W s2) k (sget s2) t1) as [[kv t2]|]; [|exact I].
      rewrite (sR_get _ _ x Hs Hx). destruct (sget s2 x) as [[]|]; try exact I.
      destruct (hashable kv && (negb (mentions x k || mentions x v) || hashable vv)); [|exact I].
      split; [reflexivity|]. (split; [|split]); cbn [st_store st_own st_trace]; [apply sR_sset; exact Hs | exact Ho | reflexivity].
    - (* method *)
      cbn in Hr. apply orb_false_iff in Hr as [Hx Ha]. apply Nat.eqb_neq in Hx.
      cbn [exec_stmt]. cbn [st_store st_own st_trace].
      rewrite (oR_owned _ _ x Ho Hx). destruct (is_owned o2 x); [|exact I].
      rewrite (sR_get _ _ x Hs Hx). destruct (sget s2 x) as [recv|]; [|exact I].
      rewrite (elts_eq _ _ _ _ Ha Hs). destruct (eval_elts (eval (W s2)) (sget s2) args tr1) as [[vs t1]|]; [|exact I].
      destruct (negb (existsb (mentions x) args) || forallb hashable vs); [|exact I].
      destruct (apply_meth m recv vs); [|exact I].
      split; [reflexivity|]. (split; [|split]); cbn [st_store st_own st_trace]; [apply sR_sset; exact Hs | exact Ho | reflexivity].
    - (* expression statement *)
      cbn in Hr. cbn [exec_stmt]. unfold eval_in. cbn [st_store st_own st_trace].
      rewrite (eval_eq _ _ _ _ Hr Hs). destruct (eval (W s2) e (sget s2) tr1) as [[v t]|]; [|exact I].
      split; [reflexivity|]. (split; [|split]); cbn [st_store st_own st_trace]; [exact Hs | apply oR_read, Ho | reflexivity].
    - (* return *)
      cbn in Hr. cbn [exec_stmt]. unfold eval_in. cbn [st_store st_own st_trace].
      rewrite (eval_eq _ _ _ _ Hr Hs). destruct (eval (W s2) e (sget s2) tr1) as [[v t]|]; [|exact I].
      split; [reflexivity|]. (split; [|split]); cbn [st_store st_own st_trace]; [exact Hs | apply oR_read, Ho | reflexivity].
    - split; [reflexivity | exact Hq].
    - split; [reflexivity | exact Hq].
    - split; [reflexivity | exact Hq].
    - (* if *)
      rewrite reads_us_If in Hr. apply orb_false_iff in Hr as [Hr H2]. apply orb_false_iff in Hr as [Hc H1].
      rewrite !exec_SIf. unfold eval_in. cbn [st_store st_own st_trace].
      rewrite (eval_eq _ _ _ _ Hc Hs). destruct (eval (W s2) c (sget s2) tr1) as [[cv t]|]; [|exact I].
      cbn zeta.
      assert (Hq' : xequiv U (mkSt s1 (read_own o1 [c]) t) (mkSt s2 (read_own o2 [c]) t)).
      { (split; [|split]); cbn [st_store st_own st_trace]; [exact Hs | apply oR_read, Ho | reflexivity]. }
      destruct (truthy cv); [apply (fB_of_Forall _ H H1) | apply (fB_of_Forall _ H0 H2)]; exact Hq'.
    - (* for *)
      rewrite reads_us_For in Hr. apply orb_false_iff in Hr as [Hi Hb].
      rewrite !exec_SFor. unfold eval_in. cbn [st_store st_own st_trace].
      rewrite (eval_eq _ _ _ _ Hi Hs). destruct (eval (W s2) (isrc_expr it) (sget s2) tr1) as [[itv t1]|]; [|exact I].
      destruct (src_items it itv) as [items|]; [|exact I].
      apply loop_rel; [apply fB_of_Forall; assumption | assumption |].
      (split; [|split]); cbn [st_store st_own st_trace]; [exact Hs | apply oR_fold, oR_read, Ho | reflexivity].
  Qed.

  Lemma fB_all : forall b, fB b.
  Proof. intros b. apply fB_of_Forall. apply Forall_forall. intros s _. apply fP_all. Qed.

  (* for k, _ in e.items(): body   against   for k in e.keys(): body  (and _, v / values) *)
  Lemma items_loop : forall (kind : bool) y body e1 e2 d q1 q2,
    reads_us_b body = false -> xequiv U q1 q2 ->
    res_rel U
      (exec_loop W (TTup (if kind then [y; U] else [U; y])) (IItems e1) body
                 (map (fun kv => VTuple [fst kv; snd kv]) d) q1)
      (exec_loop W (TName y) (if kind then IKeys e2 else IValues e2) body
                 (map (if kind then fst else snd) d) q2).
  Proof.
    intros kind y body e1 e2 d q1 q2 Hr. revert q1 q2. induction d as [|[kk vv] d IH]; intros q1 q2 Hq.
    - cbn. split; [reflexivity | exact Hq].
    - cbn [map fst snd]. rewrite !exec_loop_cons.
      assert (Hacc1 : accept W (IItems e1) (VTuple [kk; vv]) q1 = Some (true, q1)) by reflexivity.
      assert (Hacc2 : forall v, accept W (if kind then IKeys e2 else IValues e2) v q2 = Some (true, q2))
        by (destruct kind; reflexivity).
      rewrite Hacc1, Hacc2. destruct Hq as [Hs [Ho Ht]].
      assert (Hq2 : xequiv U
                (mkSt (if kind then sset (sset (st_store q1) y kk) U vv else sset (sset (st_store q1) U kk) y vv)
                      (fold_left rebind_own (tgt_names (TTup (if kind then [y; U] else [U; y]))) (st_own q1)) (st_trace q1))
                (mkSt (sset (st_store q2) y (if kind then kk else vv))
                      (fold_left rebind_own (tgt_names (TName y)) (st_own q2)) (st_trace q2))).
      { (split; [|split]); cbn [st_store st_own st_trace]; [| |exact Ht].
        - intros u. destruct kind.
          + rewrite sset_sset_same. apply sR_sset; exact Hs.
          + pose proof (sR_sset _ _ y vv (sR_sset _ _ U kk Hs)) as H1. rewrite H1.
            apply sR_sset. intros w. rewrite sset_sset_same. reflexivity.
        - destruct kind; cbn [tgt_names fold_left].
          + eapply eq_trans; [apply oR_rebind_U|]. apply oR_rebind, Ho.
          + apply oR_rebind. eapply eq_trans; [apply oR_rebind_U | exact Ho]. }
      assert (Hb1 : sbind (TTup (if kind then [y; U] else [U; y])) (VTuple [kk; vv]) (st_store q1) =
                    Some (if kind then sset (sset (st_store q1) y kk) U vv else sset (sset (st_store q1) U kk) y vv))
        by (destruct kind; reflexivity).
      rewrite Hb1. cbn [sbind]. destruct kind.
      + pose proof (fB_all body Hr _ _ Hq2) as Hb.
        destruct (exec_block W body _) as [[o1 q3]|], (exec_block W body _) as [[o2 q4]|]; cbn in Hb; try contradiction; [|exact I].
        destruct Hb as [<- Hq3]. destruct o1; try (apply IH; exact Hq3); split; try reflexivity; exact Hq3.
      + pose proof (fB_all body Hr _ _ Hq2) as Hb.
        destruct (exec_block W body _) as [[o1 q3]|], (exec_block W body _) as [[o2 q4]|]; cbn in Hb; try contradiction; [|exact I].
        destruct Hb as [<- Hq3]. destruct o1; try (apply IH; exact Hq3); split; try reflexivity; exact Hq3.
  Qed.
End UsFrame.

Theorem items_sound : forall W s s' q, blind W U -> rw_items false s = Some s' ->
  match s with SFor _ _ body => reads_us_b body = false | _ => True end ->
  res_rel U (exec_stmt W s q) (exec_stmt W s' q).
Proof.
  intros W s s' q Hb H Hr. destruct s; try discriminate. destruct t as [|[|k [|u [|]]]]; try discriminate.
  destruct it; try discriminate. cbn [rw_items] in H.
  assert (Hcore : forall (kind : bool) y,
            (if kind then [k; u] = [y; U] else [k; u] = [U; y]) ->
            res_rel U (exec_stmt W (SFor (TTup [k; u]) (IItems e) body) q)
                      (exec_stmt W (SFor (TName y) (if kind then IKeys e else IValues e) body) q)).
  { intros kind y Hk. rewrite !exec_SFor.
    assert (He : isrc_expr (if kind then IKeys e else IValues e) = e) by (destruct kind; reflexivity).
    rewrite He. cbn [isrc_expr]. destruct (eval_in W e q) as [[itv tr1]|]; [|exact I].
    assert (Hsrc : src_items (if kind then IKeys e else IValues e) itv =
                   match itv with VDict d => Some (map (if kind then fst else snd) d) | _ => None end)
      by (destruct kind; reflexivity).
    rewrite Hsrc. cbn [src_items]. destruct itv; try exact I.
    assert (Ht : TTup [k; u] = TTup (if kind then [y; U] else [U; y])) by (destruct kind; rewrite Hk; reflexivity).
    rewrite Ht. apply items_loop; [assumption | assumption |].
    split; [|split]; cbn [st_store st_own st_trace]; [apply sR_refl | | reflexivity].
    destruct kind; cbn [tgt_names fold_left].
    - apply oR_rebind_U.
    - apply oR_rebind, oR_rebind_U. }
  destruct (Nat.eqb u U) eqn:Eu.
  - apply Nat.eqb_eq in Eu. subst u. injection H as <-. apply (Hcore true k). reflexivity.
  - destruct (Nat.eqb k U) eqn:Ek; [|discriminate]. apply Nat.eqb_eq in Ek. subst k. injection H as <-.
    apply (Hcore false u). reflexivity.
Qed.

(* full equality fails: `_` is no longer bound by the loop; with `_` read afterwards the rule (before the
   repair F02coll-11) changed the program *)
Theorem items_refuted_underscore :
  exists s s' q, rw_items false s = Some s' /\ exec_stmt (fun _ => test_world) s q <> exec_stmt (fun _ => test_world) s' q /\
                 exec_stmt (fun _ => test_world) s q <> None.
Proof.
  exists (SFor (TTup [1%nat; U]) (IItems (EName 2)) [SPass]). eexists.
  exists (mkSt [(2%nat, VDict [(VInt 1, VInt 2)])] None []).
  split; [reflexivity|]. split; vm_compute; discriminate.
Qed.
