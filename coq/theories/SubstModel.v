(* K13/K1 -- model of pattern_matching.subn / sub, processing.find_replace (the part after the
   matcher: range + instantiated replacement, yield order, count limiting), core.format_template
   (textual filling of {{x}}), textwrap.dedent / indent as used there, core.has_ignore_comment
   (= IgnoreModel.has_ignore: physical lines of core.split_lines, the regex, the tokenizer's verdict as an
   input), processing._apply_rewrites (refusal of whitespace-only transactions and of no-op members, both
   decided on the ORIGINAL source) and the Range/str branch of processing._do_rewrite(scheduled=True).
   Mirrors the code as it is on the merged tree (after 287b37c 4047a08 7322cc1 8085be6 a37c022 8992e08 776bcb9
   9c4cf3b bb9c8e5 and the C14 repairs recorded in KNOWN_FINDINGS.txt).
   The matcher itself (core.walk_wildcard / walk_sequence) is property C12: the list of matches, in
   yield order, is an INPUT of this model.  Text = list of code points (list Z); the domain is
   "\n"-separated text without tabs or other line separators (checked by the harness on every case).
   No proofs in this file. *)
From Coq Require Import List ZArith Bool.
From Coq Require String Ascii.
Import ListNotations.
Require Import Pyrefact.SchedModel.
Require Pyrefact.IgnoreModel Pyrefact.SchedApplyModel.
Open Scope Z_scope.

Definition text := list Z.

(* case files give texts as string literals (much faster to read than lists of numerals) *)
Fixpoint text_of_string (s : String.string) : text :=
  match s with
  | String.EmptyString => []
  | String.String a r => Z.of_N (Ascii.N_of_ascii a) :: text_of_string r
  end.

Definition NL : Z := 10.
Definition SP : Z := 32.

(* the Uint63-packed reader used by bulk case files lives in SubstCases.v (runner only; no theorem depends on it) *)

(* ------------------------------------------------------------------------------------------ *)
(* basic text functions                                                                         *)

(* source[s:e] for 0 <= s, e *)
Definition slice (src : text) (r : range) : text :=
  firstn (Z.to_nat (snd r) - Z.to_nat (fst r)) (skipn (Z.to_nat (fst r)) src).

Fixpoint starts_with (p s : text) : bool :=
  match p, s with
  | [], _ => true
  | x :: p', y :: s' => (x =? y) && starts_with p' s'
  | _ :: _, [] => false
  end.

(* str.isspace on the ASCII part: \t \n \v \f \r, \x1c-\x1f, space *)
Definition is_space (c : Z) : bool :=
  (c =? 32) || ((9 <=? c) && (c <=? 13)) || ((28 <=? c) && (c <=? 31)).

(* \w on the ASCII part *)
Definition is_word (c : Z) : bool :=
  ((48 <=? c) && (c <=? 57)) || ((65 <=? c) && (c <=? 90)) || ((97 <=? c) && (c <=? 122)) || (c =? 95).

Fixpoint lstrip (s : text) : text :=
  match s with
  | c :: tl => if is_space c then lstrip tl else s
  | [] => []
  end.

Definition rstrip (s : text) : text := rev (lstrip (rev s)).

(* line.strip() != "" *)
Definition nonblank (s : text) : bool := match lstrip s with [] => false | _ => true end.

(* str.splitlines(keepends=True), "\n" only *)
Fixpoint lines_ke_aux (cur : text) (s : text) : list text :=
  match s with
  | [] => match cur with [] => [] | _ => [rev cur] end
  | c :: tl => if c =? NL then rev (c :: cur) :: lines_ke_aux [] tl else lines_ke_aux (c :: cur) tl
  end.
Definition lines_ke (s : text) : list text := lines_ke_aux [] s.

(* str.split("\n") *)
Fixpoint split_nl_aux (cur : text) (s : text) : list text :=
  match s with
  | [] => [rev cur]
  | c :: tl => if c =? NL then rev cur :: split_nl_aux [] tl else split_nl_aux (c :: cur) tl
  end.
Definition split_nl (s : text) : list text := split_nl_aux [] s.

Fixpoint join_nl (ls : list text) : text :=
  match ls with
  | [] => []
  | [l] => l
  | l :: tl => l ++ NL :: join_nl tl
  end.

Definition drop_nl (l : text) : text :=
  match rev l with c :: r => if c =? NL then rev r else l | [] => l end.

(* str.splitlines(), "\n" only *)
Definition lines_nk (s : text) : list text := map drop_nl (lines_ke s).

Fixpoint count_leading_sp (s : text) : nat :=
  match s with c :: tl => if c =? SP then S (count_leading_sp tl) else O | [] => O end.

Fixpoint spaces (n : nat) : text := match n with O => [] | S k => SP :: spaces k end.

(* ------------------------------------------------------------------------------------------ *)
(* core.has_ignore_comment (after a37c022 / 8992e08 / 776bcb9) is IgnoreModel.has_ignore (property C20): per
   physical line of core.split_lines (\n, \r\n, \r only) the regex  #\s*pyrefact\s*:\s*(skip_file|ignore),
   confirmed by a COMMENT token of the tokenizer on that line.  The tokenizer's verdict [coms] (zero-based
   numbers of the lines with such a comment token; None = the source cannot be tokenized, then the textual
   test decides) is an INPUT of the model, computed by the harness with CPython's tokenizer. *)
Definition to_n (s : text) : IgnoreModel.text := map Z.to_N s.

Definition ignore_entries (src : text) (coms : option (list nat)) : list (range * IgnoreModel.text) :=
  IgnoreModel.ignore_entries (to_n src) coms.

(* the character ranges of the physical lines that carry an ignore comment *)
Definition ignore_lines (src : text) (coms : option (list nat)) : list range :=
  map fst (ignore_entries src coms).

(* the same lines as SchedModel.ignored / touches_line expects them: an unterminated (last) line is handed
   over with its end moved one past the text, so that an insertion at the very end of the text touches it *)
Definition sched_line (e : range * IgnoreModel.text) : range :=
  (fst (fst e), if IgnoreModel.terminated (snd e) then snd (fst e) else snd (fst e) + 1).

Definition sched_ilines (src : text) (coms : option (list nat)) : list range :=
  map sched_line (ignore_entries src coms).

(* ------------------------------------------------------------------------------------------ *)
(* core.format_template (repaired): one pass of re.sub(r"\{\{(\w+)\}\}", fill, source);
   a wildcard that has no binding raises ValueError (None). *)

Fixpoint take_word (s : text) : text * text :=
  match s with
  | c :: tl => if is_word c then let '(w, r) := take_word tl in (c :: w, r) else ([], s)
  | [] => ([], [])
  end.

Fixpoint text_lookup (name : text) (binds : list (text * text)) : option text :=
  match binds with
  | [] => None
  | (k, v) :: tl => if text_eqb k name then Some v else text_lookup name tl
  end.

(* the wildcard name if a wildcard starts here:  "{{" \w+ "}}" *)
Definition wildcard_at (s : text) : option text :=
  match s with
  | 123 :: 123 :: r =>
      let '(w, r') := take_word r in
      match w, r' with
      | _ :: _, 125 :: 125 :: _ => Some w
      | _, _ => None
      end
  | _ => None
  end.

(* "\n".join(line if <kept> else indentation + line for i, line in enumerate(text.split("\n"))):
   the first line, the lines listed in [strl] (they begin inside a string literal) and -- unless [blanks] --
   the blank lines stay as they are; every other line gets k blanks in front *)
Fixpoint indent_lines (blanks : bool) (k : nat) (strl : list nat) (i : nat) (ls : list text) : list text :=
  match ls with
  | [] => []
  | l :: tl =>
      (if Nat.eqb i 0 || existsb (Nat.eqb i) strl || (negb blanks && negb (nonblank l)) then l else spaces k ++ l)
      :: indent_lines blanks k strl (S i) tl
  end.

(* the other lines of a multi-line binding get the indentation of a slot that stands alone on its line,
   except the lines that begin inside a string literal of the bound text (f93f22a: a multi-line docstring
   of a bound def / class is content).  [strl v] = those lines, zero-based:
   core._lines_inside_string_literals(v), a tokenizer question -- an input of the model *)
Definition indent_binding (strl : text -> list nat) (k : nat) (v : text) : text :=
  join_nl (indent_lines true k (strl v) O (split_nl v)).

(* [skip] = characters of a wildcard already replaced that are still to be consumed;
   [lead] = Some k when the template line so far consists of k blanks *)
Fixpoint fill_aux (strl : text -> list nat) (binds : list (text * text)) (lead : option nat) (skip : nat) (s : text)
  : option text :=
  match s with
  | [] => Some []
  | c :: tl =>
      match skip with
      | S k => fill_aux strl binds None k tl
      | O =>
          match wildcard_at s with
          | Some w =>
              match text_lookup w binds, fill_aux strl binds None (length w + 3) tl with
              | Some v, Some rest =>
                  Some ((match lead with Some (S k) => indent_binding strl (S k) v | _ => v end) ++ rest)
              | _, _ => None
              end
          | None =>
              let lead' := if c =? NL then Some O
                           else if c =? SP then match lead with Some k => Some (S k) | None => None end
                           else None in
              match fill_aux strl binds lead' O tl with Some rest => Some (c :: rest) | None => None end
          end
      end
  end.

Definition format_template (strl : text -> list nat) (tmpl : text) (binds : list (text * text)) : option text :=
  fill_aux strl binds (Some O) O tmpl.

(* ------------------------------------------------------------------------------------------ *)
(* textwrap.dedent (space-only indentation) and textwrap.indent *)

(* _whitespace_only_re.sub('', text): a line made of spaces only becomes empty *)
Definition blank_to_empty (l : text) : text :=
  if forallb (fun c => c =? SP) l then [] else l.

Fixpoint min_list (d : nat) (l : list nat) : nat :=
  match l with [] => d | x :: tl => Nat.min x (min_list x tl) end.

Definition dedent (s : text) : text :=
  let ls := map blank_to_empty (split_nl s) in
  (* _leading_whitespace_re: lines that have a character other than space/tab/newline *)
  let indents := map count_leading_sp (filter (fun l => match l with [] => false | _ => true end) ls) in
  let margin := match indents with [] => O | x :: tl => min_list x indents end in
  join_nl (map (fun l => match l with [] => [] | _ => skipn margin l end) ls).

(* textwrap.indent(text, " " * n): prefix every line that is not whitespace-only *)
Definition indent (n : nat) (s : text) : text :=
  concat (map (fun l => if nonblank l then spaces n ++ l else l) (lines_ke s)).

(* str.partition("\n") *)
Fixpoint partition_nl (s : text) : text * text * text :=
  match s with
  | [] => ([], [], [])
  | c :: tl => if c =? NL then ([], [NL], tl)
               else let '(a, sep, b) := partition_nl tl in (c :: a, sep, b)
  end.

(* position just after the last "\n" strictly before position [s] *)
Fixpoint line_start_aux (pos last : nat) (s : nat) (src : text) : nat :=
  match src with
  | [] => last
  | c :: tl => if Nat.leb s pos then last
               else line_start_aux (S pos) (if c =? NL then S pos else last) s tl
  end.
Definition line_start (src : text) (s : nat) : nat := line_start_aux O O s src.

(* formatting.indentation_level(one line):  0 when blank, else the number of leading spaces *)
Definition indentation_of_line (l : text) : nat :=
  if nonblank l then count_leading_sp l else O.

(* find_replace (repaired): the indentation of the line on which the match starts *)
Definition match_indentation (src : text) (r : range) : nat :=
  let ls := line_start src (Z.to_nat (fst r)) in
  let seg := slice src (Z.of_nat ls, snd r) in
  indentation_of_line (let '(a, _, _) := partition_nl seg in a).

(* The lines of the instantiated, dedented replacement as find_replace yields them: the first line is
   already in place, the others get the indentation of the line the match starts on -- except blank lines
   and the lines that begin inside a string literal (2578f83).  [strl d] = those lines of the text d:
   processing._lines_inside_string_literals(d), a tokenizer question -- an input of the model, and the model
   asks it about the INSTANTIATED text of every match (a literal that spans lines can come from the
   template or from a binding: the docstring of a bound def / class). *)
Definition place_lines (strl : text -> list nat) (src : text) (r : range) (filled : text) : list text :=
  let d := dedent filled in
  indent_lines false (match_indentation src r) (strl d) O (split_nl d).

Definition place_replacement (strl : text -> list nat) (src : text) (r : range) (filled : text) : text :=
  join_nl (place_lines strl src r filled).

(* one match as found by the matcher: range of the matched node(s), wildcard bindings by unparsed text *)
Definition smatch := (range * list (text * text))%type.

Definition take_count {X} (count : Z) (l : list X) : list X :=
  if 0 <? count then firstn (Z.to_nat count) l else l.

(* what subn's fix_func yields; None = ValueError out of format_template.  The generator is lazy:
   item number count+1 is still computed before the loop breaks. *)
Fixpoint items_of (strl : text -> list nat) (src tmpl : text) (ms : list smatch) : option (list (range * text)) :=
  match ms with
  | [] => Some []
  | (r, binds) :: tl =>
      match format_template strl tmpl binds, items_of strl src tmpl tl with
      | Some f, Some rest => Some ((r, place_replacement strl src r f) :: rest)
      | _, _ => None
      end
  end.

Definition subn_items (strl : text -> list nat) (src tmpl : text) (count : Z) (ms : list smatch)
  : option (list (range * text)) :=
  match items_of strl src tmpl (if 0 <? count then firstn (S (Z.to_nat count)) ms else ms) with
  | Some l => Some (take_count count l)
  | None => None
  end.

(* ------------------------------------------------------------------------------------------ *)
(* scheduling: every yielded item is its own default transaction of the single group *)
Section Subn.
Variable T : Type.
Variable teqb : T -> T -> bool.
Variable tcmp : T -> T -> comparison.
Variable ilines : list range.

Definition subn_yield (items : list (range * T)) : list (yielded T) :=
  map (fun it => (fst it, snd it, None)) items.

Definition subn_schedule (items : list (range * T)) : list (tkey * rewrite T) :=
  schedule T teqb tcmp ilines [subn_yield items].

(* reference: the greedy selection in yield order.  [seen] = items met so far (duplicate test of the
   scheduler), [acc] = accepted so far *)
Definition item_eqb (a b : range * T) : bool := range_eqb (fst a) (fst b) && teqb (snd a) (snd b).

Fixpoint greedy (seen acc : list (range * T)) (items : list (range * T)) : list (range * T) :=
  match items with
  | [] => acc
  | it :: tl =>
      if existsb (item_eqb it) seen || ignored ilines (fst it)
         || existsb (fun a => overlaps (fst it) (fst a)) acc
      then greedy (it :: seen) acc tl
      else greedy (it :: seen) (acc ++ [it]) tl
  end.

End Subn.

(* ------------------------------------------------------------------------------------------ *)
(* processing._apply_rewrites and processing._do_rewrite(scheduled=True), branch  old : Range, new : str *)
Section DoRewrite.
Variable valid : text -> bool.           (* core.is_valid_python *)
Variable equiv : text -> text -> bool.   (* processing._sources_equivalent (same tree): a parser question, input *)

Definition str_pass : text := [112; 97; 115; 115].

Definition splice_t (src : text) (r : range) (n : text) : text := splice Z src r n.

(* processing._significant_lines:  [line.rstrip() for line in core.split_lines(code) if line.strip()] *)
Definition sig_lines (s : text) : list text := map rstrip (filter nonblank (lines_nk s)).

Fixpoint texts_eqb (a b : list text) : bool :=
  match a, b with
  | [], [] => true
  | x :: a', y :: b' => text_eqb x y && texts_eqb a' b'
  | _, _ => false
  end.

(* the replacement and the code it replaces have the same non-blank lines after rstrip() -- LEADING
   whitespace (block structure) is compared *)
Definition ws_only_change (n code : text) : bool := texts_eqb (sig_lines n) (sig_lines code).

Definition extra_indented (extra : nat) (n : text) : text :=
  match lines_ke n with
  | [] => []       (* not reached: only used when n is non-empty *)
  | l0 :: ls => l0 ++ concat (map (fun l => spaces extra ++ l) ls)
  end.

Fixpoint first_valid (src : text) (r : range) (n : text) (extras : list nat) (dflt : text) : text :=
  match extras with
  | [] => dflt
  | x :: tl => let c := splice_t src r (extra_indented x n) in
               if valid c then c else first_valid src r n tl dflt
  end.

(* [wrap r]: the code at r is a generator expression written with the parentheses of the call it is the
   only argument of, and the replacement is not such a generator again (a parser question);
   [mlstr t]: a line of t begins inside a string literal (a tokenizer question).  Both are inputs. *)
Variable wrap : range -> bool.
Variable mlstr : text -> bool.

(* processing._same_significant_lines(code, new_code): a difference in blank lines and trailing blanks only --
   never when a line of either text begins inside a string literal *)
Definition same_significant (code n : text) : bool :=
  ws_only_change n code && negb (mlstr code || mlstr n).

Definition wrapped (r : range) (n : text) : text :=
  if wrap r && nonblank n then 40 :: n ++ [41] else n.

Definition char_is (src : text) (i : nat) (c : Z) : bool :=
  match nth_error src i with Some d => d =? c | None => false end.

Definition ends_with (c : Z) (n : text) : bool :=
  match rev n with d :: _ => d =? c | [] => false end.

(* processing._pad_braces (8085be6): a replacement that begins (ends) with a brace directly after (before) a
   brace of the source -- the replacement field of an f-string -- is padded with blanks when that parses and the
   unpadded text does not, or means something else ("{{" is an escaped brace) *)
Definition pad_braces (src : text) (r : range) (n : text) : text :=
  let s := Z.to_nat (fst r) in
  let e := Z.to_nat (snd r) in
  if (match n with c :: _ => c =? 123 | [] => false end
      && match s with O => false | S k => char_is src k 123 end)
     || (ends_with 125 n && char_is src e 125)
  then
    let padded_n := SP :: n ++ [SP] in
    let cand := splice_t src r n in
    let padded := splice_t src r padded_n in
    if valid padded && negb (valid cand && equiv cand padded) then padded_n else n
  else n.

(* _do_rewrite(source, rewrite, scheduled=True): the ignore-comment test and the whitespace-only test are the
   caller's (decided per transaction on the original source); what is left is the equal-text test on the
   CURRENT text, the generator parentheses, the brace padding, the "pass" candidate for an empty replacement
   and the first valid extra indent of 0, 4, 8, 12 *)
Definition do_rewrite (src : text) (rw : range * text) : text :=
  let '(r, n0) := rw in
  let code := slice src r in
  if text_eqb n0 code then src
  else
    let n := pad_braces src r (wrapped r n0) in
    let cand := splice_t src r n in
    let nonempty := match n with [] => false | _ => true end in
    let choice :=
      if nonempty || valid cand then cand
      else let pc := splice_t src r str_pass in if valid pc then pc else cand in
    if nonempty && negb (valid choice)
    then first_valid src r n [0; 4; 8; 12]%nat choice
    else choice.
    (* minimize_whitespace_line_differences (difflib) is the identity when neither the replaced code
       nor the replacement has a whitespace-only line; the harness checks that on every case *)

Definition do_all (src : text) (rws : list (range * text)) : text := fold_left do_rewrite rws src.

(* the texts _do_rewrite may splice in for a replacement n (after parentheses / padding) *)
Definition candidates (n : text) : list text :=
  n :: match n with [] => [str_pass] | _ => [] end
    ++ map (fun x => extra_indented x n) [0; 4; 8; 12]%nat.

(* ---- _apply_rewrites ---- *)
Definition entry := (tkey * rewrite text)%type.

(* processing._is_whitespace_only_change(source, rng, rewrite), on the ORIGINAL source *)
Definition ws_refused (src : text) (e : entry) : bool :=
  let code := slice src (rrng (snd e)) in
  negb (text_eqb (rnew (snd e)) code) && same_significant code (rnew (snd e)).

(* a member whose replacement text equals the original text of its range is skipped *)
Definition noop (src : text) (e : entry) : bool :=
  text_eqb (rnew (snd e)) (slice src (rrng (snd e))).

(* the scheduled rewrites that reach _do_rewrite: those of transactions without a whitespace-only member
   (SchedApplyModel.surviving: refusal per transaction), minus the no-op members *)
Definition applicable (src : text) (sched : list entry) : list entry :=
  filter (fun e => negb (noop src e)) (SchedApplyModel.surviving text (ws_refused src) sched).

End DoRewrite.

(* ------------------------------------------------------------------------------------------ *)
(* the whole of subn (up to the validity rollback, which is SchedModel.apply_rewrites' and T10.5) *)

Definition sched_pairs (l : list (tkey * rewrite text)) : list (range * text) :=
  map (fun e => (rrng (snd e), rnew (snd e))) l.

Definition subn_sched_text (src : text) (coms : option (list nat)) (items : list (range * text))
  : list (tkey * rewrite text) :=
  subn_schedule text text_eqb text_cmp (sched_ilines src coms) items.

Definition subn_candidate (valid : text -> bool) (equiv : text -> text -> bool) (wrap : range -> bool)
           (mlstr : text -> bool) (src : text) (coms : option (list nat)) (items : list (range * text)) : text :=
  do_all valid equiv wrap src (sched_pairs (applicable mlstr src (subn_sched_text src coms items))).

(* _apply_rewrites: roll back to the source when the candidate does not parse (restore = the
   _substitute_original_(f)strings step, an abstract function as in SchedModel.apply_rewrites) *)
Definition subn_output (valid : text -> bool) (equiv : text -> text -> bool) (wrap : range -> bool)
           (mlstr : text -> bool) (restore : text -> text -> text) (src : text) (coms : option (list nat))
           (items : list (range * text)) : text :=
  let c := subn_candidate valid equiv wrap mlstr src coms items in
  if negb (valid c) then src
  else let c' := restore src c in if negb (valid c') then src else c'.

(* ------------------------------------------------------------------------------------------ *)
(* correspondence cases *)

(* [dflt] answers for a text the implementation never asked about: the model is evaluated with both
   defaults and must give the implementation's text either way, so a validity question the
   implementation no longer asks (or asks about another text) cannot go unnoticed *)
Fixpoint valid_table (dflt : bool) (tbl : list (text * bool)) (t : text) : bool :=
  match tbl with
  | [] => dflt
  | (k, v) :: tl => if text_eqb k t then v else valid_table dflt tl t
  end.

Fixpoint equiv_table (dflt : bool) (tbl : list (text * text * bool)) (a b : text) : bool :=
  match tbl with
  | [] => dflt
  | (k1, k2, v) :: tl => if text_eqb k1 a && text_eqb k2 b then v else equiv_table dflt tl a b
  end.

(* the tokenizer's answers about the texts the model asks about (computed by the harness with CPython's
   tokenize); a text that is not listed has no line inside a string literal *)
Fixpoint strl_table (tbl : list (text * list nat)) (t : text) : list nat :=
  match tbl with
  | [] => []
  | (k, v) :: tl => if text_eqb k t then v else strl_table tl t
  end.

Record subn_case := mkSubn {
  sc_src : text;
  sc_tmpl : text;
  sc_count : Z;
  sc_matches : list smatch;             (* all matches of the pattern, in the matcher's yield order *)
  sc_valid : list (text * bool);        (* answers of core.is_valid_python observed during the run *)
  sc_equiv : list (text * text * bool); (* answers of processing._sources_equivalent observed during the run *)
  sc_wraps : list range;                (* ranges whose replacement gets the call's parentheses back *)
  sc_mlstr : list text;                 (* texts with a line that begins inside a string literal *)
  sc_strl : list (text * list nat);     (* lines that begin inside a string literal: bound texts, instantiated replacements *)
  sc_coms : option (list nat);          (* CPython's tokenizer: lines with an ignore COMMENT token *)
  sc_ilines : list range;               (* physical lines for which core.has_ignore_comment answers True *)
  sc_probes : list (range * bool);      (* core.has_ignore_comment on probe ranges: first / last character of
                                           every physical line, insertion points at its first column and at its end *)
  sc_items : option (list (range * text));  (* what find_replace yielded inside subn; None = ValueError *)
  sc_sched : list flat_entry;           (* what _schedule_rewrites returned *)
  sc_cand : text;                       (* text after the chain of _do_rewrite calls *)
  sc_n : Z                              (* the count subn returned *)
}.

Fixpoint ranges_eqb (a b : list range) : bool :=
  match a, b with
  | [], [] => true
  | x :: a', y :: b' => range_eqb x y && ranges_eqb a' b'
  | _, _ => false
  end.

Fixpoint items_eqb (a b : list (range * text)) : bool :=
  match a, b with
  | [], [] => true
  | x :: a', y :: b' => range_eqb (fst x) (fst y) && text_eqb (snd x) (snd y) && items_eqb a' b'
  | _, _ => false
  end.

Definition model_items (c : subn_case) :=
  subn_items (strl_table (sc_strl c)) (sc_src c) (sc_tmpl c) (sc_count c) (sc_matches c).

Definition model_sched (c : subn_case) : list flat_entry :=
  match model_items c with
  | Some its => flatten (subn_sched_text (sc_src c) (sc_coms c) its)
  | None => []
  end.

Definition model_cand_d (dflt : bool) (c : subn_case) : text :=
  match model_items c with
  | Some its => subn_candidate (valid_table dflt (sc_valid c)) (equiv_table dflt (sc_equiv c))
                               (fun r => existsb (range_eqb r) (sc_wraps c))
                               (fun t => existsb (text_eqb t) (sc_mlstr c)) (sc_src c) (sc_coms c) its
  | None => sc_src c
  end.
Definition model_cand (c : subn_case) : text := model_cand_d false c.

Definition model_n (c : subn_case) : Z :=
  match model_items c with Some its => Z.of_nat (length its) | None => -1 end.

(* result code: 0 = agreement; otherwise the first component that differs (6 = the text depends on a
   validity answer the implementation never produced) *)
Definition subn_case_code (c : subn_case) : nat :=
  if negb (ranges_eqb (ignore_lines (sc_src c) (sc_coms c)) (sc_ilines c))
     || negb (forallb (fun p => Bool.eqb (ignored (sched_ilines (sc_src c) (sc_coms c)) (fst p)) (snd p))
                      (sc_probes c)) then 1%nat
  else match model_items c, sc_items c with
       | None, None => 0%nat
       | Some a, Some b =>
           if negb (items_eqb a b) then 2%nat
           else if negb (flats_eqb (model_sched c) (sc_sched c)) then 3%nat
           else if negb (text_eqb (model_cand c) (sc_cand c)) then 4%nat
           else if negb (text_eqb (model_cand_d true c) (sc_cand c)) then 6%nat
           else if negb (model_n c =? sc_n c) then 5%nat
           else 0%nat
       | _, _ => 2%nat
       end.

Definition subn_case_ok (c : subn_case) : bool := Nat.eqb (subn_case_code c) 0.

(* text-function cases (format_template / dedent / indent on their own) *)
Inductive fn_case :=
| FFormat (tmpl : text) (binds : list (text * text)) (expected : option text)
| FDedent (s : text) (expected : text)
| FIndent (n : nat) (s : text) (expected : text).

Definition opt_text_eqb (a b : option text) : bool :=
  match a, b with
  | None, None => true
  | Some x, Some y => text_eqb x y
  | _, _ => false
  end.

Definition fn_case_ok (c : fn_case) : bool :=
  match c with
  | FFormat t b e => opt_text_eqb (format_template (fun _ => []) t b) e
  | FDedent s e => text_eqb (dedent s) e
  | FIndent n s e => text_eqb (indent n s) e
  end.
