(* C02, tranche "ctl": abstractions.simplify_if_control_flow preserves every run of every MiniPy program.

   part 1  a block without assignments keeps the environment; reading F pos x instead of x is invisible while
           both hold the same value (sub_exec)
   part 2  simulation up to a set W of names the program does not mention: brel W p p' relates a program and
           the program with any number of if-nodes rewritten (in either direction); brel_sound
   part 3  RulesCtlModel.sicf_step produces brel-related programs (cand_fire, at_depth_brel)
   theorems sicf_step_sound, sicf_iter_sound, sicf_sound, sicf_obs_equiv *)
From Coq Require Import List Bool Arith Lia.
Import ListNotations.
Require Import Pyrefact.MiniPyModel Pyrefact.MiniPyProofs Pyrefact.RulesCtlModel.
Require Pyrefact.RulesFlowProofs.

(* ------------------------------------------------------------------------------------------ *)
(* equations of the nested fixpoints *)
Lemma snames_if t b e : snames (SIf t b e) = tnames t ++ bnames b ++ bnames e.
Proof. reflexivity. Qed.
Lemma snames_loop h b e : snames (SLoop h b e) = hnames h ++ bnames b ++ bnames e.
Proof. reflexivity. Qed.
Lemma sasg_if t b e : sasg (SIf t b e) = basg b || basg e.
Proof. reflexivity. Qed.
Lemma sasg_loop h b e : sasg (SLoop h b e) = basg b || basg e.
Proof. reflexivity. Qed.
Lemma sub_stmt_if F pos t b e :
  sub_stmt F pos (SIf t b e) =
  SIf (sub_test F pos t) (sub_block F (pos + length (tnames t)) b)
      (sub_block F (pos + length (tnames t) + length (bnames b)) e).
Proof. reflexivity. Qed.
Lemma sub_stmt_loop F pos h b e :
  sub_stmt F pos (SLoop h b e) =
  SLoop (sub_head F pos h) (sub_block F (pos + length (hnames h)) b)
        (sub_block F (pos + length (hnames h) + length (bnames b)) e).
Proof. reflexivity. Qed.

(* ------------------------------------------------------------------------------------------ *)
(* part 1: a block without assignments keeps the environment, and reading f pos x for x is invisible
   when both hold the same value *)
Definition fok (F : nat -> var -> var) (e : env) : Prop := forall pos x, get e (F pos x) = get e x.

Lemma sub_rd_vals F e pos rd : fok F e -> map (get e) (sub_rd F pos rd) = map (get e) rd.
Proof.
  intros H. revert pos. induction rd as [|x rd IH]; intros; simpl; [reflexivity|].
  rewrite H, IH. reflexivity.
Qed.

Lemma eval_test_env o st t : s_env (snd (eval_test o st t)) = s_env st.
Proof.
  induction t; simpl; auto. destruct (eval_test o st t); simpl in *; auto.
Qed.
Lemma eval_rexpr_env o st e : s_env (snd (eval_rexpr o st e)) = s_env st.
Proof. destruct e; simpl; auto. apply eval_test_env. Qed.

Lemma sub_test_eval F o st pos t : fok F (s_env st) -> eval_test o st (sub_test F pos t) = eval_test o st t.
Proof.
  intros H. induction t; simpl; auto.
  - rewrite sub_rd_vals; auto.
  - rewrite IHt. reflexivity.
Qed.
Lemma sub_rexpr_eval F o st pos e : fok F (s_env st) -> eval_rexpr o st (sub_rexpr F pos e) = eval_rexpr o st e.
Proof.
  intros H. destruct e; simpl; auto.
  - rewrite H. reflexivity.
  - apply sub_test_eval; auto.
Qed.

Definition sub_lk (F : nat -> var -> var) (pos : nat) (lk : lkind) : lkind :=
  match lk with LWhile t => LWhile (sub_test F pos t) | _ => lk end.

Lemma sub_enter F o st pos h : fok F (s_env st) ->
  enter o st (sub_head F pos h) = (fst (enter o st h), sub_lk F pos (snd (enter o st h))).
Proof.
  intros H. destruct h as [t|[n|i rd]]; simpl; auto. rewrite sub_rd_vals; auto.
Qed.
Lemma enter_env o st h : s_env (fst (enter o st h)) = s_env st.
Proof. destruct h as [t|[n|i rd]]; reflexivity. Qed.

Lemma sub_loop_next F o st pos lk : fok F (s_env st) ->
  loop_next o st (sub_lk F pos lk) =
  (fst (fst (loop_next o st lk)), snd (fst (loop_next o st lk)), sub_lk F pos (snd (loop_next o st lk))).
Proof.
  intros H. destruct lk as [t|[|n]|i]; simpl; auto.
  rewrite sub_test_eval by auto. destruct (eval_test o st t); reflexivity.
Qed.
Lemma loop_next_env o st lk : s_env (snd (fst (loop_next o st lk))) = s_env st.
Proof.
  destruct lk as [t|[|n]|i]; simpl; auto.
  pose proof (eval_test_env o st t). destruct (eval_test o st t); simpl in *; auto.
Qed.

Definition keeps (r : option res) (st : state) : Prop :=
  match r with Some (_, st') => s_env st' = s_env st | None => True end.

Lemma keeps_trans r st st0 : keeps r st -> s_env st = s_env st0 -> keeps r st0.
Proof. destruct r as [[]|]; simpl; congruence. Qed.

Lemma noasg_env n :
  (forall o st b, basg b = false -> keeps (exec n o st b) st) /\
  (forall o st lk b e, basg b = false -> basg e = false -> keeps (loop_ n o st lk b e) st).
Proof.
  induction n as [|n [IHe IHl]]; [split; intros; exact I|].
  assert (Hstep : forall o st s, sasg s = false -> keeps (step1 (exec n o) (loop_ n o) o st s) st).
  { intros o st s Hs. destruct s; simpl; try reflexivity.
    - discriminate.
    - pose proof (eval_rexpr_env o st e). destruct (eval_rexpr o st e); simpl in *; auto.
    - rewrite sasg_if in Hs. apply orb_false_elim in Hs as [Hb He].
      pose proof (eval_test_env o st t) as Ht. destruct (eval_test o st t) as [v st1]; simpl in *.
      eapply keeps_trans; [|exact Ht]. destruct (truthy v); apply IHe; auto.
    - rewrite sasg_loop in Hs. apply orb_false_elim in Hs as [Hb He].
      pose proof (enter_env o st h) as Ht. destruct (enter o st h) as [st1 lk]; simpl in *.
      eapply keeps_trans; [|exact Ht]. apply IHl; auto. }
  split.
  - intros o st b Hb. destruct b as [|s rest]; [reflexivity|].
    simpl in Hb. apply orb_false_elim in Hb as [Hs Hr].
    specialize (Hstep o st s Hs). simpl.
    destruct (step1 (exec n o) (loop_ n o) o st s) as [[out st1]|] eqn:E; simpl; [|exact I].
    simpl in Hstep. destruct out; simpl; auto.
    eapply keeps_trans; [apply IHe; auto|exact Hstep].
  - intros o st lk b e Hb He. simpl.
    pose proof (loop_next_env o st lk) as Hn.
    destruct (loop_next o st lk) as [[go st1] lk']; simpl in Hn. destruct go.
    + pose proof (IHe o st1 b Hb) as H1.
      destruct (exec n o st1 b) as [[out st2]|]; simpl; [|exact I]. simpl in H1.
      destruct out; simpl; try congruence;
        (eapply keeps_trans; [apply IHl; auto|congruence]).
    + eapply keeps_trans; [apply IHe; auto|exact Hn].
Qed.

Lemma step1_keeps n o st s : sasg s = false -> keeps (step1 (exec n o) (loop_ n o) o st s) st.
Proof.
  intros Hs. destruct (noasg_env n) as [IHe IHl]. destruct s; simpl; try reflexivity.
  - discriminate.
  - pose proof (eval_rexpr_env o st e). destruct (eval_rexpr o st e); simpl in *; auto.
  - rewrite sasg_if in Hs. apply orb_false_elim in Hs as [Hb He].
    pose proof (eval_test_env o st t) as Ht. destruct (eval_test o st t) as [v st1]; simpl in *.
    eapply keeps_trans; [|exact Ht]. destruct (truthy v); apply IHe; auto.
  - rewrite sasg_loop in Hs. apply orb_false_elim in Hs as [Hb He].
    pose proof (enter_env o st h) as Ht. destruct (enter o st h) as [st1 lk]; simpl in *.
    eapply keeps_trans; [|exact Ht]. apply IHl; auto.
Qed.
Lemma fok_env F e e' : fok F e -> e' = e -> fok F e'.
Proof. intros H ->. exact H. Qed.

Lemma sub_exec n :
  (forall F pos o st b, basg b = false -> fok F (s_env st) ->
     exec n o st (sub_block F pos b) = exec n o st b) /\
  (forall F pk pb pe o st lk b e, basg b = false -> basg e = false -> fok F (s_env st) ->
     loop_ n o st (sub_lk F pk lk) (sub_block F pb b) (sub_block F pe e) = loop_ n o st lk b e).
Proof.
  induction n as [|n [IHe IHl]]; [split; reflexivity|].
  assert (Hstep : forall F pos o st s, sasg s = false -> fok F (s_env st) ->
     step1 (exec n o) (loop_ n o) o st (sub_stmt F pos s) = step1 (exec n o) (loop_ n o) o st s).
  { intros F pos o st s Hs HF. destruct s; try reflexivity.
    - simpl. rewrite sub_rd_vals; auto.
    - discriminate.
    - simpl. rewrite sub_rexpr_eval; auto.
    - rewrite sub_stmt_if. rewrite sasg_if in Hs. apply orb_false_elim in Hs as [Hb He].
      simpl. rewrite sub_test_eval by auto.
      pose proof (eval_test_env o st t) as Ht. destruct (eval_test o st t) as [v st1]. simpl in Ht.
      destruct (truthy v); apply IHe; auto; eapply fok_env; eauto.
    - rewrite sub_stmt_loop. rewrite sasg_loop in Hs. apply orb_false_elim in Hs as [Hb He].
      simpl. rewrite sub_enter by auto.
      pose proof (enter_env o st h) as Ht. destruct (enter o st h) as [st1 lk]. simpl in *.
      apply IHl; auto. eapply fok_env; eauto. }
  split.
  - intros F pos o st b Hb HF. destruct b as [|s rest]; [reflexivity|].
    simpl in Hb. apply orb_false_elim in Hb as [Hs Hr].
    simpl sub_block.
    change (andthen (step1 (exec n o) (loop_ n o) o st (sub_stmt F pos s))
                    (fun st' => exec n o st' (sub_block F (pos + length (snames s)) rest)) =
            andthen (step1 (exec n o) (loop_ n o) o st s) (fun st' => exec n o st' rest)).
    rewrite Hstep by auto.
    pose proof (step1_keeps n o st s Hs) as K.
    destruct (step1 (exec n o) (loop_ n o) o st s) as [[out st1]|]; simpl; auto.
    simpl in K. destruct out; simpl; auto. apply IHe; auto. eapply fok_env; eauto.
  - intros F pk pb pe o st lk b e Hb He HF.
    change (match loop_next o st (sub_lk F pk lk) with
            | (true, st1, lk') => loop_k (exec n o st1 (sub_block F pb b))
                                    (fun st2 => loop_ n o st2 lk' (sub_block F pb b) (sub_block F pe e))
            | (false, st1, _) => exec n o st1 (sub_block F pe e)
            end =
            match loop_next o st lk with
            | (true, st1, lk') => loop_k (exec n o st1 b) (fun st2 => loop_ n o st2 lk' b e)
            | (false, st1, _) => exec n o st1 e
            end).
    rewrite sub_loop_next by auto.
    pose proof (loop_next_env o st lk) as Hn.
    destruct (loop_next o st lk) as [[go st1] lk']; simpl in *. destruct go.
    + rewrite IHe by (auto; eapply fok_env; eauto).
      pose proof (proj1 (noasg_env n) o st1 b Hb) as K.
      destruct (exec n o st1 b) as [[out st2]|]; simpl; auto. simpl in K.
      destruct out; simpl; auto; apply IHl; auto; eapply fok_env; eauto; congruence.
    + apply IHe; auto. eapply fok_env; eauto.
Qed.

Lemma sub_block_runs F o st b r : basg b = false -> fok F (s_env st) ->
  (runs o st (sub_block F 0 b) r <-> runs o st b r).
Proof.
  intros Hb HF. split; intros [n H]; exists n.
  - rewrite <- H. symmetry. apply (proj1 (sub_exec n)); auto.
  - rewrite <- H. apply (proj1 (sub_exec n)); auto.
Qed.

(* ------------------------------------------------------------------------------------------ *)
(* part 2: simulation up to a set W of new names *)
Definition pre (aw : list (var * var)) : list stmt := map (fun p => SAssign (snd p) (RVar (fst p))) aw.
Definition run_pre (aw : list (var * var)) (st : state) : state :=
  fold_left (fun st p => set_var (snd p) (get (s_env st) (fst p)) st) aw st.

Lemma pre_runs o aw st : runs o st (pre aw) (Normal, run_pre aw st).
Proof.
  revert st. induction aw as [|[a w] aw IH]; intros; simpl.
  - apply runs_nil. reflexivity.
  - apply runs_cons. exists (Normal, set_var w (get (s_env st) a) st). split; [reflexivity|].
    simpl. apply IH.
Qed.

Lemma pre_exec o aw q : forall n st r, exec n o st (pre aw ++ q) = Some r ->
  exists n', n' <= n /\ exec n' o (run_pre aw st) q = Some r.
Proof.
  induction aw as [|[a w] aw IH]; intros n st r H; simpl in *.
  - exists n. split; [lia|exact H].
  - destruct n as [|n]; [discriminate|]. simpl in H.
    apply IH in H. destruct H as [n' [Hle H]]. exists n'. split; [lia|exact H].
Qed.

Section Sim.
Variable W : list var.

Definition ncl (l : list name) : Prop := forall x, In (NVar x) l -> ~ In x W.
Definition agree (e e' : env) : Prop := forall x, ~ In x W -> get e x = get e' x.
Definition R (st st' : state) : Prop :=
  agree (s_env st) (s_env st') /\ s_pos st = s_pos st' /\ s_tr st = s_tr st'.
Definition Rres (r r' : res) : Prop := fst r = fst r' /\ R (snd r) (snd r').

Lemma R_sym st st' : R st st' -> R st' st.
Proof. intros [A [B C]]. split; [|split]; try congruence. intros x Hx. symmetry. apply A. exact Hx. Qed.
Lemma R_trans a b c : R a b -> R b c -> R a c.
Proof.
  intros [A [B C]] [A' [B' C']]. split; [|split]; try congruence.
  intros x Hx. rewrite A by exact Hx. apply A'. exact Hx.
Qed.
Lemma Rres_sym r r' : Rres r r' -> Rres r' r.
Proof. intros [A B]. split; [congruence|apply R_sym; exact B]. Qed.

Lemma ncl_app l m : ncl (l ++ m) <-> ncl l /\ ncl m.
Proof.
  unfold ncl. split.
  - intros H. split; intros x Hx; apply H; apply in_or_app; auto.
  - intros [H1 H2] x Hx. apply in_app_or in Hx. destruct Hx; auto.
Qed.
Lemma ncl_cons_fun k l : ncl (NFun k :: l) <-> ncl l.
Proof.
  unfold ncl. split; intros H x Hx.
  - apply H. right. exact Hx.
  - destruct Hx as [Hx|Hx]; [discriminate|auto].
Qed.
Lemma ncl_cons_var y l : ncl (NVar y :: l) <-> ~ In y W /\ ncl l.
Proof.
  unfold ncl. split.
  - intros H. split; [apply H; left; reflexivity|]. intros x Hx. apply H. right. exact Hx.
  - intros [H1 H2] x [Hx|Hx]; [inversion Hx; subst; exact H1|auto].
Qed.
Lemma ncl_vars rd : ncl (map NVar rd) -> forall x, In x rd -> ~ In x W.
Proof. intros H x Hx. apply H. apply in_map. exact Hx. Qed.

Lemma agree_vals e e' rd : agree e e' -> ncl (map NVar rd) -> map (get e) rd = map (get e') rd.
Proof.
  intros A H. apply map_ext_in. intros x Hx. apply A. eapply ncl_vars; eauto.
Qed.

Lemma R_eval_test o st st' t : ncl (tnames t) -> R st st' ->
  fst (eval_test o st t) = fst (eval_test o st' t) /\ R (snd (eval_test o st t)) (snd (eval_test o st' t)).
Proof.
  intros Hc HR. induction t; simpl in *.
  - split; [reflexivity|exact HR].
  - apply ncl_cons_fun in Hc. destruct HR as [A [B C]].
    rewrite (agree_vals _ _ rd A Hc). unfold draw, emit; simpl. rewrite B, C.
    split; [reflexivity|]. split; [exact A|split; reflexivity].
  - specialize (IHt Hc). destruct (eval_test o st t), (eval_test o st' t); simpl in *.
    destruct IHt as [-> H2]. split; [reflexivity|exact H2].
Qed.
Lemma R_eval_rexpr o st st' e : ncl (rnames e) -> R st st' ->
  fst (eval_rexpr o st e) = fst (eval_rexpr o st' e) /\ R (snd (eval_rexpr o st e)) (snd (eval_rexpr o st' e)).
Proof.
  intros Hc HR. destruct e; simpl in *.
  - split; [reflexivity|exact HR].
  - split; [|exact HR]. destruct HR as [A _]. apply A. apply ncl_cons_var in Hc. tauto.
  - apply R_eval_test; auto.
Qed.

Definition lkcl (lk : lkind) : Prop := match lk with LWhile t => ncl (tnames t) | _ => True end.

Lemma R_enter o st st' h : ncl (hnames h) -> R st st' ->
  snd (enter o st h) = snd (enter o st' h) /\ lkcl (snd (enter o st h)) /\ R (fst (enter o st h)) (fst (enter o st' h)).
Proof.
  intros Hc HR. destruct h as [t|[n|i rd]]; simpl in *.
  - split; [reflexivity|split; [exact Hc|exact HR]].
  - split; [reflexivity|split; [exact Logic.I|exact HR]].
  - apply ncl_cons_fun, ncl_cons_fun in Hc. destruct HR as [A [B C]].
    rewrite (agree_vals _ _ rd A Hc). split; [reflexivity|split; [exact Logic.I|]].
    split; [exact A|split; simpl; congruence].
Qed.

Lemma R_loop_next o st st' lk : lkcl lk -> R st st' ->
  fst (fst (loop_next o st lk)) = fst (fst (loop_next o st' lk)) /\
  snd (loop_next o st lk) = snd (loop_next o st' lk) /\ lkcl (snd (loop_next o st lk)) /\
  R (snd (fst (loop_next o st lk))) (snd (fst (loop_next o st' lk))).
Proof.
  intros Hc HR. destruct lk as [t|[|n]|i]; simpl in *.
  - pose proof (R_eval_test o st st' t Hc HR) as [H1 H2].
    destruct (eval_test o st t), (eval_test o st' t); simpl in *. subst. auto.
  - auto.
  - auto.
  - destruct HR as [A [B C]]. unfold draw, emit; simpl. rewrite B, C.
    split; [reflexivity|split; [reflexivity|split; [exact Logic.I|]]].
    split; [exact A|split; reflexivity].
Qed.

Lemma agree_upd e e' x v : agree e e' -> agree (upd e x v) (upd e' x v).
Proof.
  intros A y Hy. destruct (Nat.eq_dec y x) as [->|Hne].
  - rewrite !get_upd_same. reflexivity.
  - rewrite !get_upd_other by exact Hne. apply A. exact Hy.
Qed.

(* the added assignments *)
Definition pre_ok (aw : list (var * var)) (F : nat -> var -> var) : Prop :=
  NoDup (map snd aw) /\ (forall a w, In (a, w) aw -> In w W /\ ~ In a W) /\
  (forall pos x, F pos x = x \/ In (x, F pos x) aw).

Lemma run_pre_frame aw : forall st,
  s_pos (run_pre aw st) = s_pos st /\ s_tr (run_pre aw st) = s_tr st /\
  (forall x, ~ In x (map snd aw) -> get (s_env (run_pre aw st)) x = get (s_env st) x).
Proof.
  induction aw as [|[a w] aw IH]; intros; simpl.
  - auto.
  - destruct (IH (set_var w (get (s_env st) a) st)) as [H1 [H2 H3]]. simpl in *.
    split; [exact H1|split; [exact H2|]]. intros x Hx. rewrite H3 by tauto.
    apply get_upd_other. intros ->. tauto.
Qed.

Lemma run_pre_val aw : forall st a w,
  NoDup (map snd aw) -> (forall a w, In (a, w) aw -> ~ In a (map snd aw)) -> In (a, w) aw ->
  get (s_env (run_pre aw st)) w = get (s_env st) a.
Proof.
  induction aw as [|[a0 w0] aw IH]; intros st a w Hnd Ha Hin; simpl in *; [tauto|].
  inversion Hnd as [|? ? Hn0 Hnd']; subst.
  destruct Hin as [Heq|Hin].
  - injection Heq as E1 E2. subst a0 w0.
    destruct (run_pre_frame aw (set_var w (get (s_env st) a) st)) as [_ [_ H3]].
    rewrite H3 by exact Hn0. simpl. apply get_upd_same.
  - rewrite (IH _ a w Hnd'); auto.
    + simpl. apply get_upd_other. intros E. apply (Ha a w); [right; exact Hin|left; congruence].
    + intros a1 w1 H1 H2. apply (Ha a1 w1); [right; exact H1|right; exact H2].
Qed.

Lemma run_pre_spec aw F st : pre_ok aw F ->
  R st (run_pre aw st) /\ fok F (s_env (run_pre aw st)).
Proof.
  intros [Hnd [HW HF]].
  destruct (run_pre_frame aw st) as [H1 [H2 H3]].
  assert (HinW : forall x, In x (map snd aw) -> In x W).
  { intros x Hx. apply in_map_iff in Hx. destruct Hx as [[a w] [<- Hin]]. apply (HW a w Hin). }
  split.
  - split; [|split; congruence]. intros x Hx. symmetry. apply H3. intros Hin. apply Hx. auto.
  - intros pos x. destruct (HF pos x) as [->|Hin]; [reflexivity|].
    rewrite (run_pre_val aw st x (F pos x)); auto.
    + symmetry. apply H3. intros Hx. apply (HW _ _ Hin). auto.
    + intros a w Hi Hx. apply (HW _ _ Hi). auto.
Qed.

Inductive srel : stmt -> stmt -> Prop :=
| sr_simple s : RulesFlowProofs.is_simple s = true -> ncl (snames s) -> srel s s
| sr_if t b b' e e' : ncl (tnames t) -> brel b b' -> brel e e' -> srel (SIf t b e) (SIf t b' e')
| sr_loop h b b' e e' : ncl (hnames h) -> brel b b' -> brel e e' -> srel (SLoop h b e) (SLoop h b' e')
| sr_fire t b e aw aw' F F' :
    ncl (tnames t) -> ncl (bnames b) -> ncl (bnames e) -> basg b = false -> basg e = false ->
    pre_ok aw F -> pre_ok aw' F' ->
    srel (SIf t b e) (SIf t (pre aw ++ sub_block F 0 b) (pre aw' ++ sub_block F' 0 e))
| sr_erif t b e aw aw' F F' :
    ncl (tnames t) -> ncl (bnames b) -> ncl (bnames e) -> basg b = false -> basg e = false ->
    pre_ok aw F -> pre_ok aw' F' ->
    srel (SIf t (pre aw ++ sub_block F 0 b) (pre aw' ++ sub_block F' 0 e)) (SIf t b e)
with brel : list stmt -> list stmt -> Prop :=
| br_nil : brel [] []
| br_cons s s' l l' : srel s s' -> brel l l' -> brel (s :: l) (s' :: l').

Scheme srel_mind := Minimality for srel Sort Prop
  with brel_mind := Minimality for brel Sort Prop.
Combined Scheme srel_brel_ind from srel_mind, brel_mind.

Lemma rel_sym : (forall s s', srel s s' -> srel s' s) /\ (forall l l', brel l l' -> brel l' l).
Proof.
  apply srel_brel_ind; intros; try (constructor; auto; fail).
Qed.

Lemma brel_refl l : ncl (bnames l) -> brel l l.
Proof.
  assert (HS : forall s, ncl (snames s) -> srel s s).
  { intros s. induction s using RulesFlowProofs.stmt_ind'.
    - intros Hc. apply sr_simple; auto.
    - rewrite snames_if. intros Hc. apply ncl_app in Hc as [Ht Hc]. apply ncl_app in Hc as [Hb He].
      apply sr_if; auto.
      + clear He. induction H as [|x l0 Hx Hl IH]; [constructor|].
        simpl in Hb. apply ncl_app in Hb as [H1 H2]. constructor; auto.
      + clear Hb. induction H0 as [|x l0 Hx Hl IH]; [constructor|].
        simpl in He. apply ncl_app in He as [H1 H2]. constructor; auto.
    - rewrite snames_loop. intros Hc. apply ncl_app in Hc as [Ht Hc]. apply ncl_app in Hc as [Hb He].
      apply sr_loop; auto.
      + clear He. induction H as [|x l0 Hx Hl IH]; [constructor|].
        simpl in Hb. apply ncl_app in Hb as [H1 H2]. constructor; auto.
      + clear Hb. induction H0 as [|x l0 Hx Hl IH]; [constructor|].
        simpl in He. apply ncl_app in He as [H1 H2]. constructor; auto. }
  induction l as [|s l IH]; intros Hc; [constructor|].
  simpl in Hc. apply ncl_app in Hc as [H1 H2]. constructor; auto.
Qed.

Lemma sim n :
  (forall o p p' st st' r, brel p p' -> R st st' -> exec n o st p = Some r ->
     exists r', runs o st' p' r' /\ Rres r r') /\
  (forall o lk b b' e e' st st' r, lkcl lk -> brel b b' -> brel e e' -> R st st' ->
     loop_ n o st lk b e = Some r -> exists r', lruns o st' lk b' e' r' /\ Rres r r').
Proof.
  induction n as [|n [IHe IHl]]; [split; intros; discriminate|].
  assert (Hstep : forall o s s' st st' r1, srel s s' -> R st st' ->
            step1 (exec n o) (loop_ n o) o st s = Some r1 ->
            exists r1', runs1 o st' s' r1' /\ Rres r1 r1').
  { intros o s s' st st' r1 Hs HR H. inversion Hs; subst; clear Hs.
    - (* simple *)
      destruct s'; simpl in *; try discriminate.
      + injection H as <-. eexists; split; [reflexivity|]. split; [reflexivity|exact HR].
      + injection H as <-. apply ncl_cons_fun in H1. destruct HR as [A [B C]].
        eexists; split; [reflexivity|]. rewrite (agree_vals _ _ rd A H1).
        split; [reflexivity|]. split; [exact A|split; simpl; congruence].
      + apply ncl_cons_var in H1 as [_ H1].
        pose proof (R_eval_rexpr o st st' e H1 HR) as [E1 [A [B C]]].
        destruct (eval_rexpr o st e) as [v st1]. injection H as <-.
        eexists; split; [reflexivity|]. simpl in *. subst v.
        split; [reflexivity|]. split; [apply agree_upd; exact A|split; simpl; congruence].
      + pose proof (R_eval_rexpr o st st' e H1 HR) as [E1 E2].
        destruct (eval_rexpr o st e) as [v st1]. injection H as <-.
        eexists; split; [reflexivity|]. simpl in *. subst v. split; [reflexivity|exact E2].
      + injection H as <-. eexists; split; [reflexivity|]. split; [reflexivity|exact HR].
      + injection H as <-. eexists; split; [reflexivity|]. split; [reflexivity|exact HR].
      + injection H as <-. eexists; split; [reflexivity|]. split; [reflexivity|exact HR].
    - (* if *)
      simpl in *. pose proof (R_eval_test o st st' t H0 HR) as [E1 E2].
      destruct (eval_test o st t) as [v st1]. simpl in *. rewrite <- E1.
      destruct (truthy v); eapply IHe; eauto.
    - (* loop *)
      simpl in *. pose proof (R_enter o st st' h H0 HR) as [E1 [E2 E3]].
      destruct (enter o st h) as [st1 lk]. simpl in *. rewrite <- E1.
      eapply IHl; eauto.
    - (* fire *)
      simpl in *. pose proof (R_eval_test o st st' t H0 HR) as [E1 E2].
      destruct (eval_test o st t) as [v st1]. simpl in *. rewrite <- E1.
      set (st1' := snd (eval_test o st' t)) in *.
      destruct (truthy v).
      + destruct (run_pre_spec aw F st1' H5) as [HR2 HF].
        destruct (IHe o b b st1 (run_pre aw st1') r1 (brel_refl b H1) (R_trans _ _ _ E2 HR2) H) as [r' [Hr HRr]].
        exists r'. split; [|exact HRr]. apply runs_app. exists (Normal, run_pre aw st1').
        split; [apply pre_runs|]. simpl. apply sub_block_runs; auto.
      + destruct (run_pre_spec aw' F' st1' H6) as [HR2 HF].
        destruct (IHe o e e st1 (run_pre aw' st1') r1 (brel_refl e H2) (R_trans _ _ _ E2 HR2) H) as [r' [Hr HRr]].
        exists r'. split; [|exact HRr]. apply runs_app. exists (Normal, run_pre aw' st1').
        split; [apply pre_runs|]. simpl. apply sub_block_runs; auto.
    - (* erif *)
      simpl in *. pose proof (R_eval_test o st st' t H0 HR) as [E1 E2].
      destruct (eval_test o st t) as [v st1]. simpl in *. rewrite <- E1.
      destruct (truthy v).
      + apply pre_exec in H. destruct H as [n' [Hle H]].
        destruct (run_pre_spec aw F st1 H5) as [HR2 HF].
        rewrite (proj1 (sub_exec n')) in H by auto.
        eapply exec_mono in H; [|exact Hle].
        eapply IHe; [apply brel_refl; exact H1| |exact H].
        eapply R_trans; [apply R_sym; exact HR2|exact E2].
      + apply pre_exec in H. destruct H as [n' [Hle H]].
        destruct (run_pre_spec aw' F' st1 H6) as [HR2 HF].
        rewrite (proj1 (sub_exec n')) in H by auto.
        eapply exec_mono in H; [|exact Hle].
        eapply IHe; [apply brel_refl; exact H2| |exact H].
        eapply R_trans; [apply R_sym; exact HR2|exact E2]. }
  split.
  - intros o p p' st st' r Hb HR H. inversion Hb; subst; clear Hb.
    + simpl in H. injection H as <-. exists (Normal, st'). split; [apply runs_nil; reflexivity|].
      split; [reflexivity|exact HR].
    + simpl in H.
      destruct (step1 (exec n o) (loop_ n o) o st s) as [[out1 st1]|] eqn:E1; [|discriminate].
      destruct (Hstep o s s' st st' _ H0 HR E1) as [[out1' st1'] [Hr1 [Ho HR1]]]. simpl in Ho, HR1. subst out1'.
      destruct out1; simpl in H.
      all: try (injection H as <-; eexists; split;
                [apply runs_cons; eexists; split; [exact Hr1|reflexivity]|split; [reflexivity|exact HR1]]).
      destruct (IHe o l l' st1 st1' r H1 HR1 H) as [r' [Hr HRr]].
      exists r'. split; [|exact HRr]. apply runs_cons. eexists; split; [exact Hr1|exact Hr].
  - intros o lk b b' e e' st st' r Hlk Hb He HR H. simpl in H.
    pose proof (R_loop_next o st st' lk Hlk HR) as [E1 [E2 [E3 E4]]].
    destruct (loop_next o st lk) as [[go st1] lk1]. destruct (loop_next o st' lk) as [[go' st1'] lk1'] eqn:EN'.
    simpl in *. subst go' lk1'. destruct go.
    + destruct (exec n o st1 b) as [[out1 st2]|] eqn:Eb; [|discriminate].
      destruct (IHe o b b' st1 st1' _ Hb E4 Eb) as [[out1' st2'] [Hr1 [Ho HR1]]]. simpl in Ho, HR1. subst out1'.
      destruct out1; simpl in H.
      * destruct (IHl o lk1 b b' e e' st2 st2' r E3 Hb He HR1 H) as [r' [Hr HRr]].
        exists r'. split; [|exact HRr]. apply lruns_unfold; rewrite EN'.
        exists (Normal, st2'). split; [exact Hr1|exact Hr].
      * injection H as <-. eexists; split; [apply lruns_unfold; rewrite EN'; eexists; split; [exact Hr1|reflexivity]|split; [reflexivity|exact HR1]].
      * injection H as <-. eexists; split; [apply lruns_unfold; rewrite EN'; eexists; split; [exact Hr1|reflexivity]|split; [reflexivity|exact HR1]].
      * injection H as <-. eexists; split; [apply lruns_unfold; rewrite EN'; eexists; split; [exact Hr1|reflexivity]|split; [reflexivity|exact HR1]].
      * destruct (IHl o lk1 b b' e e' st2 st2' r E3 Hb He HR1 H) as [r' [Hr HRr]].
        exists r'. split; [|exact HRr]. apply lruns_unfold; rewrite EN'.
        exists (Cnt, st2'). split; [exact Hr1|exact Hr].
    + destruct (IHe o e e' st1 st1' r He E4 H) as [r' [Hr HRr]].
      exists r'. split; [apply lruns_unfold; rewrite EN'; exact Hr|exact HRr].
Qed.

Theorem brel_sound o p p' st st' : brel p p' -> R st st' ->
  (forall r, runs o st p r -> exists r', runs o st' p' r' /\ Rres r r') /\
  (forall r', runs o st' p' r' -> exists r, runs o st p r /\ Rres r r').
Proof.
  intros Hb HR. split.
  - intros r [n H]. eapply (proj1 (sim n)); eauto.
  - intros r' [n H]. destruct (proj1 (sim n) o p' p st' st r' (proj2 rel_sym _ _ Hb) (R_sym _ _ HR) H) as [r [Hr HRr]].
    exists r. split; [exact Hr|apply Rres_sym; exact HRr].
Qed.
End Sim.

(* ------------------------------------------------------------------------------------------ *)
(* part 3: the rule model produces related programs *)
Lemma memv_in x l : memv x l = true <-> In x l.
Proof.
  induction l as [|y l IH]; simpl; [split; [discriminate|tauto]|].
  rewrite orb_true_iff, Nat.eqb_eq, IH. split; intros [H|H]; auto.
Qed.

Lemma next_fresh_spec used fuel : forall n w, next_fresh used n fuel = Some w -> memv w used = false /\ n <= w.
Proof.
  induction fuel as [|fuel IH]; intros n w H; simpl in H; [discriminate|].
  destruct (memv n used) eqn:E.
  - apply IH in H. destruct H; split; [auto|lia].
  - injection H as <-. auto.
Qed.

Lemma alloc_spec used ps : forall n tr, alloc used n ps = Some tr ->
  (forall p, In p tr -> memv (snd p) used = false /\ n <= snd p /\ In (fst p) ps) /\ NoDup (map snd tr).
Proof.
  induction ps as [|[a b] ps IH]; intros n tr H; cbn [alloc] in H.
  - injection H as <-. split; [intros p []|constructor].
  - destruct (next_fresh used n (S (length used))) as [w|] eqn:E; [|discriminate].
    destruct (alloc used (S w) ps) as [tr'|] eqn:E2; [|discriminate].
    injection H as <-. apply next_fresh_spec in E as [E1 E3].
    destruct (IH _ _ E2) as [H1 H2]. split.
    + intros p [<-|Hp]; simpl; [auto|].
      destruct (H1 p Hp) as [A [B C]]. split; [auto|split; [lia|auto]].
    + simpl. constructor; [|exact H2]. intros Hin. apply in_map_iff in Hin.
      destruct Hin as [p [Hp1 Hp2]]. destruct (H1 p Hp2) as [_ [B _]]. lia.
Qed.

Lemma var_pairs_in l : forall ps a b, var_pairs l = Some ps -> In (a, b) ps -> In (NVar a, NVar b) l.
Proof.
  induction l as [|[[x|k] [y|k']] l IH]; intros ps a b H Hin; simpl in H; try discriminate.
  - injection H as <-. destruct Hin.
  - destruct (var_pairs l) as [ps'|] eqn:E; [|discriminate]. injection H as <-.
    destruct Hin as [Heq|Hin]; [injection Heq as -> ->; left; reflexivity|right; eapply IH; eauto].
Qed.

Lemma diff_pairs_in l : forall seen p, In p (diff_pairs l seen) -> In p l.
Proof.
  induction l as [|q l IH]; intros seen p H; simpl in H; [exact H|].
  destruct (name_eqb (fst q) (snd q) || mem_pair q seen).
  - right. eapply IH; eauto.
  - destruct H as [->|H]; [left; reflexivity|right; eapply IH; eauto].
Qed.

Definition aw_of (side : var * var * var -> var) (tr : list (var * var * var)) : list (var * var) :=
  map (fun p => (side p, snd p)) tr.

Lemma prelude_pre side tr : prelude side tr = pre (aw_of side tr).
Proof. unfold prelude, pre, aw_of. rewrite map_map. reflexivity. Qed.

Lemma pos_table_in side tr zs : forall pos a w,
  nth pos (pos_table side tr zs) None = Some (a, w) -> In (a, w) (aw_of side tr).
Proof.
  induction zs as [|[na nb] zs IH]; intros pos a w H; simpl in H.
  - destruct pos; discriminate.
  - destruct pos as [|pos]; [|eapply IH; eauto].
    destruct (name_eqb na nb); [discriminate|]. destruct na as [x|]; [|discriminate]. destruct nb as [y|]; [|discriminate].
    clear IH. induction tr as [|p tr IHt]; [discriminate|]. simpl.
    destruct (Nat.eqb (side_b p) x && Nat.eqb (side_e p) y).
    + injection H as <- <-. left. reflexivity.
    + right. apply IHt. exact H.
Qed.

Lemma tab_fn_ok side tr zs pos x :
  tab_fn (pos_table side tr zs) pos x = x \/ In (x, tab_fn (pos_table side tr zs) pos x) (aw_of side tr).
Proof.
  unfold tab_fn. destruct (nth pos (pos_table side tr zs) None) as [[a w]|] eqn:E; [|left; reflexivity].
  destruct (Nat.eqb x a) eqn:Ex; [|left; reflexivity].
  apply Nat.eqb_eq in Ex. subst a. right. eapply pos_table_in; eauto.
Qed.

Definition fresh_ok (used : list var) (tr : list (var * var * var)) : Prop :=
  forall w, In w (map snd tr) -> memv w used = false /\ VB <= w.

Lemma ncl_used used tr l : fresh_ok used tr ->
  (forall x, In (NVar x) l -> memv x used = true) -> ncl (map snd tr) l.
Proof.
  intros Hf Hu x Hx Hw. apply Hf in Hw. rewrite (Hu x Hx) in Hw. destruct Hw; discriminate.
Qed.

Lemma cand_fire used t b e s' tr :
  cand used t b e = Fire s' tr ->
  (forall x, In (NVar x) (tnames t ++ bnames b ++ bnames e) -> memv x used = true) ->
  srel (map snd tr) (SIf t b e) s' /\ fresh_ok used tr.
Proof.
  unfold cand. intros H Hu.
  destruct e as [|e0 e1] eqn:Ee; [discriminate|]. rewrite <- Ee in *.
  destruct (basg b || basg e) eqn:Ea; [discriminate|]. apply orb_false_elim in Ea as [Hab Hae].
  destruct (negb (Nat.eqb (length (bnames b)) (length (bnames e)))); [discriminate|].
  destruct (var_pairs (diff_pairs (combine (bnames b) (bnames e)) [])) as [ps|] eqn:Ep; [|discriminate].
  destruct (alloc used VB ps) as [tr0|] eqn:Eal; [|discriminate].
  destruct (negb (prog_eqb (ren_all side_b tr0 b) (ren_all side_e tr0 e))); [discriminate|].
  destruct (len_func (ren_all side_b tr0 b) <? 2 * len_adds tr0); [discriminate|].
  destruct tr0 as [|p0 tr1] eqn:Etr; [discriminate|]. rewrite <- Etr in *.
  assert (HF : s' = SIf t (prelude side_b tr0 ++ sub_block (tab_fn (pos_table side_b tr0 (combine (bnames b) (bnames e)))) 0 b)
                          (prelude side_e tr0 ++ sub_block (tab_fn (pos_table side_e tr0 (combine (bnames b) (bnames e)))) 0 e)
               /\ tr = tr0).
  { rewrite Ee in H. destruct e0; try (injection H as <- <-; rewrite Ee; auto; fail).
    destruct e1; [discriminate|]. injection H as <- <-. rewrite Ee. auto. }
  destruct HF as [-> ->]. clear H.
  destruct (alloc_spec _ _ _ _ Eal) as [H1 H2].
  assert (Hfr : fresh_ok used tr0).
  { intros w Hw. apply in_map_iff in Hw. destruct Hw as [p [<- Hp]]. destruct (H1 p Hp) as [A [B _]]. auto. }
  split; [|exact Hfr].
  assert (Hc : ncl (map snd tr0) (tnames t ++ bnames b ++ bnames e)) by (eapply ncl_used; eauto).
  apply ncl_app in Hc as [Hct Hc]. apply ncl_app in Hc as [Hcb Hce].
  assert (Hzs : forall p, In p tr0 -> In (NVar (side_b p)) (bnames b) /\ In (NVar (side_e p)) (bnames e)).
  { intros [[a b0] w] Hp. destruct (H1 _ Hp) as [_ [_ C]]. simpl in C.
    eapply var_pairs_in in C; [|exact Ep]. apply diff_pairs_in in C.
    split; [eapply in_combine_l; eauto|eapply in_combine_r; eauto]. }
  rewrite !prelude_pre. apply sr_fire; auto.
  - split; [|split].
    + unfold aw_of. rewrite map_map. exact H2.
    + intros a w Hin. unfold aw_of in Hin. apply in_map_iff in Hin. destruct Hin as [p [Heq Hp]].
      injection Heq as <- <-. split; [apply in_map; exact Hp|]. apply Hcb. apply (Hzs p Hp).
    + intros. apply tab_fn_ok.
  - split; [|split].
    + unfold aw_of. rewrite map_map. exact H2.
    + intros a w Hin. unfold aw_of in Hin. apply in_map_iff in Hin. destruct Hin as [p [Heq Hp]].
      injection Heq as <- <-. split; [apply in_map; exact Hp|]. apply Hce. apply (Hzs p Hp).
    + intros. apply tab_fn_ok.
Qed.

Definition keep (s : stmt) (r : found) : found :=
  match r with Done tl' tr => Done (s :: tl') tr | NoCand => NoCand | Stop => Stop end.
Definition into (used : list var) (d : nat) (mk : list stmt -> list stmt -> stmt) (b e : list stmt)
                (s : stmt) (tl : list stmt) : found :=
  match at_depth used d b with
  | Done b' tr => Done (mk b' e :: tl) tr
  | Stop => Stop
  | NoCand =>
      match at_depth used d e with
      | Done e' tr => Done (mk b e' :: tl) tr
      | Stop => Stop
      | NoCand => keep s (at_depth used (S d) tl)
      end
  end.

Lemma at_depth_0_cons used s tl : at_depth used 0 (s :: tl) =
  match s with
  | SIf t b e =>
      match cand used t b e with
      | Skip => keep s (at_depth used 0 tl)
      | Abort => Stop
      | Fire s' tr => Done (s' :: tl) tr
      end
  | _ => keep s (at_depth used 0 tl)
  end.
Proof. destruct s; unfold keep; simpl; reflexivity. Qed.

Lemma at_depth_S_cons used d s tl : at_depth used (S d) (s :: tl) =
  match s with
  | SIf t b e => into used d (SIf t) b e s tl
  | SLoop h b e => into used d (SLoop h) b e s tl
  | _ => keep s (at_depth used (S d) tl)
  end.
Proof. destruct s; unfold into, keep; simpl; reflexivity. Qed.

Lemma keep_done s r l' tr : keep s r = Done l' tr -> exists tl', r = Done tl' tr /\ l' = s :: tl'.
Proof. destruct r; simpl; try discriminate. intros H. injection H as <- <-. eauto. Qed.

Lemma into_done used d mk b e s tl l' tr : into used d mk b e s tl = Done l' tr ->
  (exists b', at_depth used d b = Done b' tr /\ l' = mk b' e :: tl) \/
  (exists e', at_depth used d e = Done e' tr /\ l' = mk b e' :: tl) \/
  (exists tl', at_depth used (S d) tl = Done tl' tr /\ l' = s :: tl').
Proof.
  unfold into. destruct (at_depth used d b) as [| |b' tr1]; try discriminate.
  - destruct (at_depth used d e) as [| |e' tr1]; try discriminate.
    + intros H. apply keep_done in H. right. right. exact H.
    + intros H. injection H as <- <-. right. left. eauto.
  - intros H. injection H as <- <-. left. eauto.
Qed.

Lemma srel_refl W s : ncl W (snames s) -> srel W s s.
Proof.
  intros H. assert (Hb : brel W [s] [s]) by (apply brel_refl; simpl; rewrite app_nil_r; exact H).
  inversion Hb; subst. assumption.
Qed.

Definition used_ok (used : list var) (l : list name) : Prop := forall x, In (NVar x) l -> memv x used = true.
Lemma used_ok_app used l m : used_ok used (l ++ m) -> used_ok used l /\ used_ok used m.
Proof. intros H. split; intros x Hx; apply H; apply in_or_app; auto. Qed.

Lemma at_depth_brel d : forall used l l' tr, at_depth used d l = Done l' tr ->
  used_ok used (bnames l) -> brel (map snd tr) l l' /\ fresh_ok used tr.
Proof.
  induction d as [|d IHd]; intros used l.
  - induction l as [|s tl IHl]; intros l' tr H Hu; [discriminate|].
    rewrite at_depth_0_cons in H. simpl in Hu. apply used_ok_app in Hu as [Hus Hut].
    assert (Hkeep : keep s (at_depth used 0 tl) = Done l' tr -> brel (map snd tr) (s :: tl) l' /\ fresh_ok used tr).
    { intros K. apply keep_done in K. destruct K as [tl' [K ->]].
      destruct (IHl _ _ K Hut) as [B Fr]. split; [|exact Fr].
      constructor; [apply srel_refl; eapply ncl_used; eauto|exact B]. }
    destruct s; auto.
    destruct (cand used t body orelse) as [| |s' tr1] eqn:Ec; [auto|discriminate|].
    injection H as <- <-. rewrite snames_if in Hus.
    destruct (cand_fire _ _ _ _ _ _ Ec Hus) as [Sr Fr]. split; [|exact Fr].
    constructor; [exact Sr|apply brel_refl; eapply ncl_used; eauto].
  - induction l as [|s tl IHl]; intros l' tr H Hu; [discriminate|].
    rewrite at_depth_S_cons in H. simpl in Hu. apply used_ok_app in Hu as [Hus Hut].
    assert (Hkeep : keep s (at_depth used (S d) tl) = Done l' tr -> brel (map snd tr) (s :: tl) l' /\ fresh_ok used tr).
    { intros K. apply keep_done in K. destruct K as [tl' [K ->]].
      destruct (IHl _ _ K Hut) as [B Fr]. split; [|exact Fr].
      constructor; [apply srel_refl; eapply ncl_used; eauto|exact B]. }
    destruct s; auto.
    + rewrite snames_if in Hus. apply used_ok_app in Hus as [Hut' Hus]. apply used_ok_app in Hus as [Hub Hue].
      apply into_done in H. destruct H as [[b' [K ->]]|[[e' [K ->]]|[tl' [K ->]]]].
      * destruct (IHd _ _ _ _ K Hub) as [B Fr]. split; [|exact Fr].
        constructor; [|apply brel_refl; eapply ncl_used; eauto].
        apply sr_if; [eapply ncl_used; eauto|exact B|apply brel_refl; eapply ncl_used; eauto].
      * destruct (IHd _ _ _ _ K Hue) as [B Fr]. split; [|exact Fr].
        constructor; [|apply brel_refl; eapply ncl_used; eauto].
        apply sr_if; [eapply ncl_used; eauto|apply brel_refl; eapply ncl_used; eauto|exact B].
      * destruct (IHl _ _ K Hut) as [B Fr]. split; [|exact Fr].
        constructor; [|exact B]. apply srel_refl. rewrite snames_if. eapply ncl_used; eauto.
        intros x Hx. apply in_app_or in Hx as [Hx|Hx]; [auto|]. apply in_app_or in Hx as [Hx|Hx]; auto.
    + rewrite snames_loop in Hus. apply used_ok_app in Hus as [Hut' Hus]. apply used_ok_app in Hus as [Hub Hue].
      apply into_done in H. destruct H as [[b' [K ->]]|[[e' [K ->]]|[tl' [K ->]]]].
      * destruct (IHd _ _ _ _ K Hub) as [B Fr]. split; [|exact Fr].
        constructor; [|apply brel_refl; eapply ncl_used; eauto].
        apply sr_loop; [eapply ncl_used; eauto|exact B|apply brel_refl; eapply ncl_used; eauto].
      * destruct (IHd _ _ _ _ K Hue) as [B Fr]. split; [|exact Fr].
        constructor; [|apply brel_refl; eapply ncl_used; eauto].
        apply sr_loop; [eapply ncl_used; eauto|apply brel_refl; eapply ncl_used; eauto|exact B].
      * destruct (IHl _ _ K Hut) as [B Fr]. split; [|exact Fr].
        constructor; [|exact B]. apply srel_refl. rewrite snames_loop. eapply ncl_used; eauto.
        intros x Hx. apply in_app_or in Hx as [Hx|Hx]; [auto|]. apply in_app_or in Hx as [Hx|Hx]; auto.
Qed.

Lemma levels_done used p : forall n d p' tr, levels used p d n = Done p' tr ->
  exists d', at_depth used d' p = Done p' tr.
Proof.
  induction n as [|n IH]; intros d p' tr H; simpl in H; [discriminate|].
  destruct (at_depth used d p) as [| |l tr1] eqn:E; [eapply IH; eauto|discriminate|].
  injection H as <- <-. eauto.
Qed.

Lemma vars_of_in x l : In (NVar x) l <-> In x (vars_of l).
Proof.
  induction l as [|[y|k] l IH]; simpl; [tauto| |].
  - rewrite <- IH. split.
    + intros [H|H]; [injection H as ->; left; reflexivity|right; exact H].
    + intros [H|H]; [subst; left; reflexivity|right; exact H].
  - rewrite <- IH. split; [intros [H|H]; [discriminate|auto]|auto].
Qed.

(* ------------------------------------------------------------------------------------------ *)
(* the theorems *)

(* r' is r up to the variables in W: same outcome (with the returned value), same oracle position, same
   event trace, same contents of every other variable *)
Definition same_upto (W : list var) (r r' : res) : Prop :=
  fst r = fst r' /\ s_pos (snd r) = s_pos (snd r') /\ s_tr (snd r) = s_tr (snd r') /\
  forall x, ~ In x W -> get (s_env (snd r)) x = get (s_env (snd r')) x.

Definition new_names (tr : list (var * var * var)) : list var := map snd tr.

Theorem sicf_step_sound p p' tr : sicf_step p = Done p' tr ->
  (forall w, In w (new_names tr) -> VB <= w /\ ~ In w (bvars p)) /\
  forall o st,
    (forall r, runs o st p r -> exists r', runs o st p' r' /\ same_upto (new_names tr) r r') /\
    (forall r', runs o st p' r' -> exists r, runs o st p r /\ same_upto (new_names tr) r r').
Proof.
  unfold sicf_step. intros H. apply levels_done in H. destruct H as [d H].
  apply at_depth_brel in H.
  2:{ intros x Hx. apply memv_in. apply vars_of_in. exact Hx. }
  destruct H as [B Fr]. split.
  - intros w Hw. destruct (Fr w Hw) as [A C]. split; [exact C|].
    intros Hin. apply memv_in in Hin. congruence.
  - intros o st.
    assert (HR : R (new_names tr) st st) by (split; [intros x _; reflexivity|split; reflexivity]).
    destruct (brel_sound (new_names tr) o p p' st st B HR) as [S1 S2]. split.
    + intros r Hr. destruct (S1 r Hr) as [r' [Hr' [A [Ag [Bq C]]]]]. exists r'. split; [exact Hr'|].
      split; [exact A|split; [exact Bq|split; [exact C|exact Ag]]].
    + intros r' Hr'. destruct (S2 r' Hr') as [r [Hr [A [Ag [Bq C]]]]]. exists r. split; [exact Hr|].
      split; [exact A|split; [exact Bq|split; [exact C|exact Ag]]].
Qed.

(* the rule function (to the fixpoint): up to the var_N names *)
Definition same_low (r r' : res) : Prop :=
  fst r = fst r' /\ s_pos (snd r) = s_pos (snd r') /\ s_tr (snd r) = s_tr (snd r') /\
  forall x, x < VB -> get (s_env (snd r)) x = get (s_env (snd r')) x.

Lemma same_low_trans a b c : same_low a b -> same_low b c -> same_low a c.
Proof.
  intros [A [B [C D]]] [A' [B' [C' D']]]. split; [congruence|split; [congruence|split; [congruence|]]].
  intros x Hx. rewrite D by exact Hx. apply D'. exact Hx.
Qed.

Theorem sicf_iter_sound fuel : forall p o st,
  (forall r, runs o st p r -> exists r', runs o st (sicf_iter fuel p) r' /\ same_low r r') /\
  (forall r', runs o st (sicf_iter fuel p) r' -> exists r, runs o st p r /\ same_low r r').
Proof.
  induction fuel as [|fuel IH]; intros p o st; simpl.
  - split; intros r Hr; exists r; (split; [exact Hr|]); (split; [reflexivity|split; [reflexivity|split; reflexivity]]).
  - destruct (sicf_step p) as [| |p' tr] eqn:E.
    + split; intros r Hr; exists r; (split; [exact Hr|]); (split; [reflexivity|split; [reflexivity|split; reflexivity]]).
    + split; intros r Hr; exists r; (split; [exact Hr|]); (split; [reflexivity|split; [reflexivity|split; reflexivity]]).
    + destruct (sicf_step_sound _ _ _ E) as [Fr S]. destruct (S o st) as [S1 S2].
      destruct (IH p' o st) as [I1 I2].
      assert (Hlow : forall a b, same_upto (new_names tr) a b -> same_low a b).
      { intros a b [A [B [C D]]]. split; [exact A|split; [exact B|split; [exact C|]]].
        intros x Hx. apply D. intros Hin. apply Fr in Hin. lia. }
      split.
      * intros r Hr. destruct (S1 r Hr) as [r1 [Hr1 H1]]. destruct (I1 r1 Hr1) as [r2 [Hr2 H2]].
        exists r2. split; [exact Hr2|]. eapply same_low_trans; [apply Hlow; exact H1|exact H2].
      * intros r2 Hr2. destruct (I2 r2 Hr2) as [r1 [Hr1 H2]]. destruct (S2 r1 Hr1) as [r [Hr H1]].
        exists r. split; [exact Hr|]. eapply same_low_trans; [apply Hlow; exact H1|exact H2].
Qed.

Theorem sicf_sound p o st :
  (forall r, runs o st p r -> exists r', runs o st (sicf p) r' /\ same_low r r') /\
  (forall r', runs o st (sicf p) r' -> exists r, runs o st p r /\ same_low r r').
Proof. apply sicf_iter_sound. Qed.

Corollary sicf_obs_equiv p : obs_equiv p (sicf p).
Proof.
  intros o st. destruct (sicf_sound p o st) as [S1 S2]. split.
  - intros r Hr. destruct (S1 r Hr) as [r' [Hr' [A [B [C _]]]]]. exists r'. split; [exact Hr'|].
    unfold obs. congruence.
  - intros r Hr. destruct (S2 r Hr) as [r' [Hr' [A [B [C _]]]]]. exists r'. split; [exact Hr'|].
    unfold obs. congruence.
Qed.

(* non-vacuity: the rule fires (two pairs of names, nested if), and stops at an elif *)
Definition ex_fire : list stmt :=
  [SIf (Unknown 0 [])
     [SEv 1 [0]; SIf (Unknown 5 [0]) [SEv 2 [0; 0]; SEv 2 [0; 1]] [SEv 6 [1; 1]; SReturn (RVar 0)]]
     [SEv 1 [1]; SIf (Unknown 5 [1]) [SEv 2 [1; 1]; SEv 2 [1; 0]] [SEv 6 [0; 0]; SReturn (RVar 1)]]].
Example ex_fire_fires :
  sicf_step ex_fire =
  Done [SIf (Unknown 0 [])
          [SAssign 10 (RVar 0); SAssign 11 (RVar 1);
           SEv 1 [10]; SIf (Unknown 5 [10]) [SEv 2 [10; 10]; SEv 2 [10; 11]] [SEv 6 [11; 11]; SReturn (RVar 10)]]
          [SAssign 10 (RVar 1); SAssign 11 (RVar 0);
           SEv 1 [10]; SIf (Unknown 5 [10]) [SEv 2 [10; 10]; SEv 2 [10; 11]] [SEv 6 [11; 11]; SReturn (RVar 10)]]]
       [(0, 1, 10); (1, 0, 11)].
Proof. vm_compute. reflexivity. Qed.

Definition ex_elif : list stmt :=
  [SIf (Unknown 0 [])
     [SIf (Unknown 5 [0]) [SEv 2 [0; 0]; SEv 2 [0; 0]] [SEv 6 [0; 0]]]
     [SIf (Unknown 5 [1]) [SEv 2 [1; 1]; SEv 2 [1; 1]] [SEv 6 [1; 1]]];
   SIf (Unknown 0 []) [SEv 2 [0; 0]; SEv 2 [0; 0]] [SEv 2 [1; 1]; SEv 2 [1; 1]]].
Example ex_elif_stops : sicf_step ex_elif = Stop /\ sicf ex_elif = ex_elif.
Proof. vm_compute. split; reflexivity. Qed.
