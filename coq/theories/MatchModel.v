(* K2 -- the pattern matcher: Gallina model of core.match_template and its helpers, mirroring the
   code AS IT IS (pyrefact/core.py), plus the declarative semantics `Matches` (a definition, trusted,
   validated against an independent Python brute-force matcher by harness/c12.py).

   code map (pyrefact/core.py)
     match_template            297-378   match_tmpl          (dispatch order kept)
     _match_tuple              169-174   TOr   -> first_some
     _match_set                177-186   TSet
     _match_list               222-254   TList -> len_precheck, cvecs, items_match, first_some
     _iter_template_permutations 189-219 min_count, lohi, product, cvecs
     _match_wildcard           257-264   TWild / TEll
     _match_template_vars      267-285   TNode
     merge_matches / _all_fields_consistent 126-166   merge_all / binds_merge / bind_add
     walk_wildcard / _group_nodes_in_scope / ast.walk   412-453   walk_wildcard, group_by_type, bfs
     walk_sequence             498-562   walk_sequence (expand_first/last = False, as find_replace calls it)
   No proofs in this file. *)
From Coq Require Import List Arith Bool ZArith NArith String Lia.
Import ListNotations.

Definition tag := string.      (* Python class name: "Call", "Name", ..., "list", "int", "str", ... *)
Definition fname := string.    (* field name *)
Definition name := nat.        (* wildcard name; the converter numbers names in alphabetical order *)

(* ---------------------------------------------------------------------------------------------- *)
(* values: what match_template is called on (AST nodes, lists, atoms). Every value carries `key`,
   the interned text that _all_fields_consistent compares: ast.unparse(node) / str(value). *)

Inductive atom :=
| ANone | ABool (b : bool) | AInt (z : Z) | AStr (s : N) | AOth (ty : tag) (k : N).

Inductive value :=
| VT (key : N) (tg : tag) (fs : list (fname * value))
| VL (key : N) (l : list value)
| VA (key : N) (a : atom).

Definition vkey (v : value) : N := match v with VT k _ _ | VL k _ | VA k _ => k end.

Definition atom_tag (a : atom) : tag :=
  match a with
  | ANone => "NoneType" | ABool _ => "bool" | AInt _ => "int" | AStr _ => "str" | AOth ty _ => ty
  end%string.

Definition vtag (v : value) : tag :=
  match v with VT _ tg _ => tg | VL _ _ => "list"%string | VA _ a => atom_tag a end.

(* equality of plain constants: same type and same value (core.py:375 after the F12-4 repair:
   `type(node) is type(template) and node == template`) *)
Definition atom_eqb (a b : atom) : bool :=
  match a, b with
  | ANone, ANone => true
  | ABool x, ABool y => Bool.eqb x y
  | AInt x, AInt y => Z.eqb x y
  | AStr x, AStr y => N.eqb x y
  | AOth t x, AOth u y => String.eqb t u && N.eqb x y
  | _, _ => false
  end.

(* core.py:363-364 (`template is True/False/None` -> identity) and 375-376 *)
Definition atom_match (t a : atom) : bool := atom_eqb a t.

(* ---------------------------------------------------------------------------------------------- *)
(* templates *)

Inductive item (T : Type) := One (t : T) | Opt (t : T) | Star (t : T) | Plus (t : T).
Arguments One {T}. Arguments Opt {T}. Arguments Star {T}. Arguments Plus {T}.
Definition tmpl_of {T} (i : item T) : T := match i with One t | Opt t | Star t | Plus t => t end.

Inductive tmpl :=
| TAny                                   (* `object` *)
| TType (tags : list tag)                (* a type, expanded to the concrete class names it admits *)
| TOr (ts : list tmpl)                   (* tuple *)
| TSet (ts : list tmpl)                  (* set, in `tuple(set)` order *)
| TList (its : list (item tmpl))         (* list with ZeroOrOne / ZeroOrMany / OneOrMany items *)
| TAtom (a : atom)                       (* None / True / False / int / str / ... *)
| TEll                                   (* Wildcard("Ellipsis_anything", object) *)
| TWild (n : name) (common : bool) (t : tmpl)
| TNode (tg : tag) (fs : list (fname * tmpl)).   (* fields in `vars(t).keys() - ignore` order *)

(* ---------------------------------------------------------------------------------------------- *)
(* results: a Python tuple `()` | `(node,)` | Match(root=.., x=.., ..) | Match(x=..)  *)

Definition binds := list (name * value).
Definition result := (option value * binds)%type.    (* root element (absent for a bare wildcard match), fields *)

Definition rlen (r : result) : nat := (if fst r then 1 else 0) + List.length (snd r).
Definition rfirst (r : result) (d : value) : value :=
  match fst r with
  | Some v => v
  | None => match snd r with (_, v) :: _ => v | [] => d end
  end.

(* merge_matches: dict update in iteration order, consistency = equal keys *)
Fixpoint bind_add (n : name) (v : value) (b : binds) : option binds :=
  match b with
  | [] => Some [(n, v)]
  | (m, w) :: b' =>
      if Nat.eqb n m then (if N.eqb (vkey v) (vkey w) then Some ((n, v) :: b') else None)
      else match bind_add n v b' with Some b'' => Some ((m, w) :: b'') | None => None end
  end.

Fixpoint binds_merge (acc : binds) (b : binds) : option binds :=
  match b with
  | [] => Some acc
  | (n, v) :: b' => match bind_add n v acc with Some acc' => binds_merge acc' b' | None => None end
  end.

Fixpoint merge_all (acc : binds) (rs : list (option result)) : option binds :=
  match rs with
  | [] => Some acc
  | None :: _ => None
  | Some r :: rs' => match binds_merge acc (snd r) with Some acc' => merge_all acc' rs' | None => None end
  end.

Definition merge_matches (root : value) (rs : list (option result)) : option result :=
  match merge_all [] rs with Some b => Some (Some root, b) | None => None end.

Fixpoint lookup {X} (f : string) (l : list (string * X)) : option X :=
  match l with [] => None | (g, x) :: l' => if String.eqb f g then Some x else lookup f l' end.

Fixpoint blookup (n : name) (b : binds) : option value :=
  match b with [] => None | (m, v) :: b' => if Nat.eqb n m then Some v else blookup n b' end.

(* ---------------------------------------------------------------------------------------------- *)
(* generic combinators (function parameters are section variables so that the guard checker can
   see through them when match_tmpl passes itself) *)

Section FirstSome.
  Context {X Y : Type} (f : X -> option Y).
  Fixpoint first_some (l : list X) : option Y :=
    match l with [] => None | x :: l' => match f x with Some y => Some y | None => first_some l' end end.
End FirstSome.

(* _iter_template_permutations *)
Section Counts.
  Context {T : Type}.
  Definition min_count (i : item T) : nat := match i with One _ | Plus _ => 1 | _ => 0 end.
  Definition lohi (slack : nat) (i : item T) : nat * nat :=
    match i with One _ => (1, 1) | Opt _ => (0, 1) | Star _ => (0, slack) | Plus _ => (1, 1 + slack) end.
  Definition nsum (l : list nat) : nat := fold_right plus 0 l.
  (* itertools.product of range(lo, hi+1), first coordinate slowest *)
  Fixpoint product (rs : list (nat * nat)) : list (list nat) :=
    match rs with
    | [] => [[]]
    | (lo, hi) :: tl => flat_map (fun c => map (cons c) (product tl)) (seq lo (hi + 1 - lo))
    end.
  (* the count vectors `p` with sum(p) == length, in generation order; none if slack < 0 *)
  Definition cvecs (its : list (item T)) (n : nat) : list (list nat) :=
    let mins := nsum (map min_count its) in
    if n <? mins then [] else
    filter (fun cs => nsum cs =? n) (product (map (lohi (n - mins)) its)).
  (* _match_list's length pre-check (core.py:230-241) *)
  Definition is_opt (i : item T) := match i with Opt _ => true | _ => false end.
  Definition is_star (i : item T) := match i with Star _ => true | _ => false end.
  Definition is_plus (i : item T) := match i with Plus _ => true | _ => false end.
  Definition len_precheck (its : list (item T)) (n : nat) : bool :=
    let minl := List.length its - List.length (filter is_opt its) - List.length (filter is_star its) in
    let unbounded := existsb (fun i => is_star i || is_plus i) its in
    (minl <=? n) && (unbounded || (n <=? List.length its)).
End Counts.

(* zip(nodes, expanded permutation) with the element matcher applied, without building the expansion *)
Section Items.
  Context {T A R : Type}.
  Section Rep.
    Variables (f : A -> R) (k : list A -> list R).
    Fixpoint rep_match (c : nat) (l : list A) : list R :=
      match c with
      | 0 => k l
      | S c' => match l with [] => [] | a :: l' => f a :: rep_match c' l' end
      end.
  End Rep.
  Variable m : T -> A -> R.
  Fixpoint items_match (its : list (item T)) (cs : list nat) (l : list A) : list R :=
    match its, cs with
    | i :: its', c :: cs' => rep_match (m (tmpl_of i)) (items_match its' cs') c l
    | _, _ => []
    end.
End Items.

(* ---------------------------------------------------------------------------------------------- *)
(* match_template *)

Fixpoint match_tmpl (t : tmpl) (v : value) {struct t} : option result :=
  match t with
  | TAny => Some (Some v, [])
  | TType tags => if existsb (String.eqb (vtag v)) tags then Some (Some v, []) else None
  | TOr ts => first_some (fun t' => match_tmpl t' v) ts
  | TSet ts =>
      match v with
      | VL _ l => merge_matches v (map (fun a => first_some (fun t' => match_tmpl t' a) ts) l)
      | _ => None
      end
  | TList its =>
      match v with
      | VL _ l =>
          if len_precheck its (List.length l) then
            first_some (fun cs => merge_matches v (items_match match_tmpl its cs l)) (cvecs its (List.length l))
          else None
      | _ => None
      end
  | TAtom a => match v with VA _ a' => if atom_match a a' then Some (Some v, []) else None | _ => None end
  | TEll => Some (Some v, [])
  | TWild n _ t' =>
      match match_tmpl t' v with
      | Some r => if rlen r =? 1 then Some (None, [(n, rfirst r v)]) else None
      | None => None
      end
  | TNode tg fs =>
      match v with
      | VT _ tg' nfs =>
          if String.eqb tg tg' then
            merge_matches v (map (fun ft => match lookup (fst ft) nfs with
                                            | Some fv => match_tmpl (snd ft) fv
                                            | None => None
                                            end) fs)
          else None
      | _ => None
      end
  end.

(* namedtuple field order: "root" first, then alphabetical (names are numbered alphabetically) *)
Fixpoint bind_insert (n : name) (v : value) (b : binds) : binds :=
  match b with
  | [] => [(n, v)]
  | (m, w) :: b' => if n <=? m then (n, v) :: b else (m, w) :: bind_insert n v b'
  end.
Definition sort_binds (b : binds) : binds := fold_right (fun nv acc => bind_insert (fst nv) (snd nv) acc) [] b.

Definition match_template (t : tmpl) (v : value) : option result :=
  match match_tmpl t v with Some r => Some (fst r, sort_binds (snd r)) | None => None end.

(* ---------------------------------------------------------------------------------------------- *)
(* declarative semantics (trusted definition): the value is the template with every common wildcard
   replaced by the tree rho gives it (same text for every occurrence), every item list read as a
   regular expression (concatenation of the item languages) *)

Section Decl.
  Context {T A : Type}.
  Section Any.
    Variable P : T -> Prop.
    Fixpoint AnyP (ts : list T) : Prop := match ts with [] => False | t :: ts' => P t \/ AnyP ts' end.
  End Any.
  Variable M : T -> A -> Prop.
  Definition item_lang (i : item T) (l : list A) : Prop :=
    match i with
    | One t => exists a, l = [a] /\ M t a
    | Opt t => l = [] \/ exists a, l = [a] /\ M t a
    | Star t => Forall (M t) l
    | Plus t => l <> [] /\ Forall (M t) l
    end.
  Fixpoint LMatch (its : list (item T)) (l : list A) : Prop :=
    match its with
    | [] => l = []
    | i :: its' => exists l1 l2, l = l1 ++ l2 /\ item_lang i l1 /\ LMatch its' l2
    end.
End Decl.

Section Fields.
  Context {T : Type} (P : T -> value -> Prop) (nfs : list (fname * value)).
  Fixpoint FieldsP (fs : list (fname * T)) : Prop :=
    match fs with
    | [] => True
    | ft :: fs' => (exists fv, lookup (fst ft) nfs = Some fv /\ P (snd ft) fv) /\ FieldsP fs'
    end.
End Fields.

Definition env := name -> option value.

Fixpoint Matches (rho : env) (t : tmpl) (v : value) {struct t} : Prop :=
  match t with
  | TAny => True
  | TType tags => In (vtag v) tags
  | TOr ts => AnyP (fun t' => Matches rho t' v) ts
  | TSet ts => match v with VL _ l => Forall (fun a => AnyP (fun t' => Matches rho t' a) ts) l | _ => False end
  | TList its => match v with VL _ l => LMatch (Matches rho) its l | _ => False end
  | TAtom a => match v with VA _ a' => atom_match a a' = true | _ => False end
  | TEll => True
  | TWild n common t' =>
      Matches rho t' v /\ (common = true -> exists w, rho n = Some w /\ vkey w = vkey v)
  | TNode tg fs =>
      match v with VT _ tg' nfs => tg = tg' /\ FieldsP (Matches rho) nfs fs | _ => False end
  end.

Definition env_of (b : binds) : env := fun n => blookup n b.

(* ---------------------------------------------------------------------------------------------- *)
(* guards used by the theorems (boolean) *)

Section Walk.
  Variable f : tmpl -> bool.
  Definition items_all (its : list (item tmpl)) := forallb (fun i => f (tmpl_of i)) its.
End Walk.

(* no wildcard (other than {{...}}) anywhere *)
Fixpoint nowild (t : tmpl) : bool :=
  match t with
  | TAny | TType _ | TAtom _ | TEll => true
  | TOr ts | TSet ts => forallb nowild ts
  | TList its => forallb (fun i => nowild (tmpl_of i)) its
  | TWild _ _ _ => false
  | TNode _ fs => forallb (fun ft => nowild (snd ft)) fs
  end.

(* the first element of a successful match is the node itself (false for a list template, whose
   match carries the *template permutation* in the root slot -- core.py:250) *)
Fixpoint root_is_node (t : tmpl) : bool :=
  match t with
  | TList _ => false
  | TOr ts => forallb root_is_node ts
  | _ => true
  end.

(* well-formed: every wildcard's own template binds nothing and is not a list template *)
Fixpoint wf_tmpl (t : tmpl) : bool :=
  match t with
  | TAny | TType _ | TAtom _ | TEll => true
  | TOr ts | TSet ts => forallb wf_tmpl ts
  | TList its => forallb (fun i => wf_tmpl (tmpl_of i)) its
  | TWild _ _ t' => nowild t' && root_is_node t'
  | TNode _ fs => forallb (fun ft => wf_tmpl (snd ft)) fs
  end.

(* names bound by a template, with multiplicity *)
Fixpoint names (t : tmpl) : list name :=
  match t with
  | TAny | TType _ | TAtom _ | TEll => []
  | TOr ts | TSet ts => flat_map names ts
  | TList its => flat_map (fun i => names (tmpl_of i)) its
  | TWild n _ t' => n :: names t'
  | TNode _ fs => flat_map (fun ft => names (snd ft)) fs
  end.

(* names occur only under plain list items, node fields and or-alternatives (not under ? * +
   items, not in set templates) *)
Fixpoint quant_nowild (t : tmpl) : bool :=
  match t with
  | TAny | TType _ | TAtom _ | TEll => true
  | TOr ts => forallb quant_nowild ts
  | TSet ts => forallb nowild ts
  | TList its =>
      forallb (fun i => match i with
                        | One t' => quant_nowild t'
                        | Opt t' | Star t' | Plus t' => nowild t'
                        end) its
  | TWild _ _ t' => nowild t'
  | TNode _ fs => forallb (fun ft => quant_nowild (snd ft)) fs
  end.

Fixpoint nodupb (l : list name) : bool :=
  match l with [] => true | n :: l' => negb (existsb (Nat.eqb n) l') && nodupb l' end.

(* linear: every name occurs once, only in unquantified positions *)
Definition linear (t : tmpl) : bool := wf_tmpl t && quant_nowild t && nodupb (names t).

(* ---------------------------------------------------------------------------------------------- *)
(* embedding of a value as the template it compiles to (wildcard-free pattern) *)

Fixpoint embed (v : value) : tmpl :=
  match v with
  | VT _ tg fs => TNode tg (map (fun fv => (fst fv, embed (snd fv))) fs)
  | VL _ l => TList (map (fun a => One (embed a)) l)
  | VA _ a => TAtom a
  end.

(* a node's fields are a Python dict: field names are unique *)
Fixpoint nodups (l : list string) : bool :=
  match l with [] => true | s :: l' => negb (existsb (String.eqb s) l') && nodups l' end.

Fixpoint wf_value (v : value) : bool :=
  match v with
  | VT _ _ fs => nodups (map fst fs) && forallb (fun fv => wf_value (snd fv)) fs
  | VL _ l => forallb wf_value l
  | VA _ _ => true
  end.

(* ---------------------------------------------------------------------------------------------- *)
(* search: ast.walk (BFS) + grouping by concrete type + walk_wildcard / walk_sequence *)

Definition child_nodes_of_value (v : value) : list value :=
  match v with
  | VT _ _ _ => [v]
  | VL _ l => filter (fun a => match a with VT _ _ _ => true | _ => false end) l
  | VA _ _ => []
  end.

(* ast.iter_child_nodes: AST-valued fields and AST items of list-valued fields, in field order.
   (The converter lists a node's fields in `_fields` order.) *)
Definition children (v : value) : list value :=
  match v with
  | VT _ _ fs => flat_map (fun fv => child_nodes_of_value (snd fv)) fs
  | _ => []
  end.

(* ast.walk is a queue BFS = level order; `fuel` bounds the height *)
Fixpoint levels (fuel : nat) (nodes : list value) : list value :=
  match fuel with
  | 0 => []
  | S fuel' => match nodes with [] => [] | _ => nodes ++ levels fuel' (flat_map children nodes) end
  end.

Fixpoint height (v : value) : nat :=
  match v with
  | VT _ _ fs => S (fold_right (fun fv acc => Nat.max (height (snd fv)) acc) 0 fs)
  | VL _ l => S (fold_right (fun a acc => Nat.max (height a) acc) 0 l)
  | VA _ _ => 1
  end.

Definition ast_walk (root : value) : list value := levels (height root) [root].

(* _group_nodes_in_scope: concrete types in order of first appearance *)
Fixpoint tags_in_order (seen : list tag) (nodes : list value) : list tag :=
  match nodes with
  | [] => []
  | n :: tl => if existsb (String.eqb (vtag n)) seen then tags_in_order seen tl
               else vtag n :: tags_in_order (vtag n :: seen) tl
  end.

Definition nodes_of_tag (tg : tag) (nodes : list value) : list value :=
  filter (fun n => String.eqb (vtag n) tg) nodes.

(* the head of a template: which concrete types walk_wildcard looks at (core.py:443-448).
   `None` = every type; `Some []` = no node type is a subclass of type(template) (e.g. a bare
   Wildcard at top level: type(template) = Wildcard) *)
Definition head_tags (t : tmpl) : option (list tag) :=
  match t with
  | TType tags => Some tags
  | TNode tg _ => Some [tg]
  | TAny => None     (* `object`: every type *)
  | _ => Some []
  end.

(* node identity: the converter adds a pseudo field "@" holding a unique number *)
Definition uid (v : value) : option value := match v with VT _ _ fs => lookup "@"%string fs | _ => None end.
Definition same_node (a b : value) : bool :=
  match uid a, uid b with
  | Some (VA _ x), Some (VA _ y) => atom_eqb x y
  | _, _ => false
  end.

(* walk_wildcard for one template or a tuple of templates *)
Definition walk_one (all : list value) (t : tmpl) (yielded : list value) : list (value * result) :=
  let groups := match head_tags t with
                | None => tags_in_order [] all
                | Some tags => filter (fun g => existsb (String.eqb g) tags) (tags_in_order [] all)
                end in
      let nodes := flat_map (fun g => nodes_of_tag g all) groups in
      fold_left (fun acc n =>
                   if existsb (same_node n) (yielded ++ map fst acc) then acc
                   else match match_tmpl t n with Some r => acc ++ [(n, r)] | None => acc end)
                nodes [].

Definition walk_wildcard (root : value) (t : tmpl) : list (value * result) :=
  let all := ast_walk root in
  match t with
  | TOr ts => fold_left (fun acc t' => acc ++ walk_one all t' (map fst acc)) ts []
  | _ => walk_one all t []
  end.

(* walk_sequence with expand_first = expand_last = False, then find_replace's merge_matches *)
Fixpoint windows {X} (k : nat) (l : list X) : list (list X) :=
  match l with
  | [] => []
  | _ :: tl => if k <=? List.length l then firstn k l :: windows k tl else []
  end.

Fixpoint zip_match (ts : list tmpl) (ns : list value) : option (list result) :=
  match ts, ns with
  | t :: ts', n :: ns' =>
      match match_tmpl t n with
      | Some r => match zip_match ts' ns' with Some rs => Some (r :: rs) | None => None end
      | None => None
      end
  | _, _ => Some []
  end.

Definition bodies (v : value) : list (list value) :=
  match v with
  | VT _ _ fs =>
      flat_map (fun f => match lookup f fs with Some (VL _ (x :: l)) => [x :: l] | _ => [] end)
               ["body"; "orelse"]%string
  | _ => []
  end.

(* `order` = the concrete class names of dict.fromkeys of AST_TYPES_WITH_BODY followed by AST_TYPES_WITH_ORELSE
   (core.py:504-508: first occurrences in table order; the case predicate checks the harness-supplied
   order against the regenerated tables) *)
Definition walk_sequence (order : list tag) (root : value) (ts : list tmpl)
  : list (list value * binds) :=
  let scopes := map fst (walk_wildcard root (TOr (map (fun g => TType [g]) order))) in
  flat_map (fun sc =>
    flat_map (fun body =>
      flat_map (fun w =>
        match zip_match ts w with
        | Some rs =>
            match merge_all [] (map Some rs) with
            | Some b => [(w, b)]
            | None => []
            end
        | None => []
        end) (windows (List.length ts) body)) (bodies sc)) scopes.
