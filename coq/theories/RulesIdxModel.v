(* C02, tranche "idx": index loops and transposes
     performance.replace_subscript_looping   [b(x[i]) for i in range(len(x))] -> list(x) / [b(x_i) for x_i in x]
     fixes.simplify_transposes               zip( *zip( *e)) -> e
     fixes.inline_math_comprehensions        y = C; S...; z = sum(y) -> ... z = sum(C)   (second half of the file,
                                             over the store semantics of RulesPerfModel)
   Part A is a VALUE semantics (a definition, validated against CPython by harness/c02_idx.py): integers, nested
   lists / tuples, one-shot iterators (zip objects, iter(..): observed through their elements), dictionaries with
   integer keys; exceptions are classes (Type/Index/Key/NameError).  The rule models are the code as it is.
   No proofs in this file. *)
From Coq Require Import List ZArith Bool Lia.
From Pyrefact Require Import Base.
Import ListNotations.
Open Scope Z_scope.

Definition name := nat.
(* the name 'x_i' that _replace_subscript_looping_complex_cases makes of target x and index i (performance.py:498);
   source names are < 10, so the map is injective and never hits a source name *)
Definition join (x i : name) : name := (100 + 10 * x + i)%nat.

Inductive val :=
| VInt (z : Z)
| VList (l : list val)
| VTup (l : list val)
| VIter (l : list val)                 (* an iterator that will yield l *)
| VDict (kv : list (Z * val)).

Inductive exc := TypeErr | IndexErr | KeyErr | NameErr.
Inductive res (A : Type) := Ok (a : A) | Err (x : exc).
Arguments Ok {A} a.
Arguments Err {A} x.

Definition env := list (name * val).
Fixpoint lookup (en : env) (x : name) : option val :=
  match en with [] => None | (y, v) :: t => if Nat.eqb x y then Some v else lookup t x end.
Definition set_var (en : env) (x : name) (v : val) : env := (x, v) :: en.

(* iter(v): what a for clause / list() / a starred argument sees *)
Definition items (v : val) : option (list val) :=
  match v with
  | VInt _ => None
  | VList l | VTup l | VIter l => Some l
  | VDict kv => Some (map (fun p => VInt (fst p)) kv)
  end.
Definition vlen (v : val) : option nat :=
  match v with
  | VList l | VTup l => Some (length l)
  | VDict kv => Some (length kv)
  | _ => None
  end.
Fixpoint dict_get (kv : list (Z * val)) (k : Z) : option val :=
  match kv with [] => None | (k', v) :: t => if k =? k' then Some v else dict_get t k end.
(* v[k] for a non-negative integer k *)
Definition of_nth (o : option val) : res val := match o with Some a => Ok a | None => Err IndexErr end.
Definition getitem (v : val) (k : nat) : res val :=
  match v with
  | VList l | VTup l => of_nth (nth_error l k)
  | VDict kv => match dict_get kv (Z.of_nat k) with Some a => Ok a | None => Err KeyErr end
  | _ => Err TypeErr
  end.

(* element expression of the comprehension; BHole stands for x[i] *)
Inductive body :=
| BHole
| BInt (z : Z)
| BVar (v : name)
| BAdd (a b : body)
| BIdx0 (a : body)                     (* a[0] *)
| BPair (a b : body).                  (* (a, b) *)

Definition vadd (a b : val) : res val :=
  match a, b with
  | VInt p, VInt q => Ok (VInt (p + q))
  | VList p, VList q => Ok (VList (p ++ q))
  | VTup p, VTup q => Ok (VTup (p ++ q))
  | _, _ => Err TypeErr
  end.

Fixpoint beval (en : env) (h : res val) (b : body) : res val :=
  match b with
  | BHole => h
  | BInt z => Ok (VInt z)
  | BVar v => match lookup en v with Some a => Ok a | None => Err NameErr end
  | BAdd a b =>
      match beval en h a with
      | Err x => Err x
      | Ok va => match beval en h b with Err x => Err x | Ok vb => vadd va vb end
      end
  | BIdx0 a => match beval en h a with Err x => Err x | Ok va => getitem va 0 end
  | BPair a b =>
      match beval en h a with
      | Err x => Err x
      | Ok va => match beval en h b with Err x => Err x | Ok vb => Ok (VTup [va; vb]) end
      end
  end.

Inductive expr :=
| EVar (x : name)
| ESub (x i : name) (b : body)         (* [b for i in range(len(x))], BHole = x[i] *)
| EFor (v x : name) (b : body)         (* [b for v in x], no hole *)
| EListOf (e : expr)                   (* list(e) *)
| EZip (e : expr)                      (* zip( *e) *)
| ERows (e : expr)                     (* [list(r) for r in e] *)
| ELen (e : expr).                     (* len(e) *)

Fixpoint mapM {A B} (f : A -> res B) (l : list A) : res (list B) :=
  match l with
  | [] => Ok []
  | a :: t => match f a with
              | Err x => Err x
              | Ok b => match mapM f t with Err x => Err x | Ok r => Ok (b :: r) end
              end
  end.
Fixpoint mapO {A B} (f : A -> option B) (l : list A) : option (list B) :=
  match l with
  | [] => Some []
  | a :: t => match f a with
              | None => None
              | Some b => match mapO f t with None => None | Some r => Some (b :: r) end
              end
  end.

(* zip(r1, .., rn): as many tuples as the shortest argument has elements; zip() is empty *)
Definition dflt := VInt 0.
Definition minlen (rows : list (list val)) : nat :=
  match rows with
  | [] => O
  | r :: t => fold_right (fun r' m => Nat.min (length r') m) (length r) t
  end.
Definition col (rows : list (list val)) (j : nat) : list val := map (fun r => nth j r dflt) rows.
Definition zipn (rows : list (list val)) : list (list val) := map (col rows) (seq 0 (minlen rows)).

(* the rows of a value: None = TypeError (the value, or one of its elements, cannot be iterated) *)
Definition rows_of (v : val) : option (list (list val)) :=
  match items v with None => None | Some rs => mapO items rs end.

Definition hole (en : env) (x : name) (k : nat) : res val :=
  match lookup en x with None => Err NameErr | Some vx => getitem vx k end.
Definition wrap_list (r : res (list val)) : res val := match r with Ok l => Ok (VList l) | Err x => Err x end.

Fixpoint eval (en : env) (e : expr) : res val :=
  match e with
  | EVar x => match lookup en x with Some a => Ok a | None => Err NameErr end
  | ESub x i b =>
      match lookup en x with
      | None => Err NameErr
      | Some vx =>
          match vlen vx with
          | None => Err TypeErr
          | Some n => wrap_list (mapM (fun k => let en' := set_var en i (VInt (Z.of_nat k)) in beval en' (hole en' x k) b)
                                      (seq 0 n))
          end
      end
  | EFor v x b =>
      match lookup en x with
      | None => Err NameErr
      | Some vx =>
          match items vx with
          | None => Err TypeErr
          | Some l => wrap_list (mapM (fun a => beval (set_var en v a) (Err NameErr) b) l)
          end
      end
  | EListOf e1 =>
      match eval en e1 with
      | Err x => Err x
      | Ok v => match items v with None => Err TypeErr | Some l => Ok (VList l) end
      end
  | EZip e1 =>
      match eval en e1 with
      | Err x => Err x
      | Ok v => match rows_of v with None => Err TypeErr | Some rows => Ok (VIter (map VTup (zipn rows))) end
      end
  | ERows e1 =>
      match eval en e1 with
      | Err x => Err x
      | Ok v => match rows_of v with None => Err TypeErr | Some rows => Ok (VList (map VList rows)) end
      end
  | ELen e1 =>
      match eval en e1 with
      | Err x => Err x
      | Ok v => match vlen v with None => Err TypeErr | Some n => Ok (VInt (Z.of_nat n)) end
      end
  end.

(* ---------------------------------------------------------------- performance.replace_subscript_looping *)
Fixpoint holes (b : body) : nat :=
  match b with
  | BHole => 1%nat
  | BInt _ | BVar _ => 0%nat
  | BAdd a c | BPair a c => (holes a + holes c)%nat
  | BIdx0 a => holes a
  end.
Fixpoint mentions (v : name) (b : body) : bool :=
  match b with
  | BHole | BInt _ => false
  | BVar w => Nat.eqb v w
  | BAdd a c | BPair a c => mentions v a || mentions v c
  | BIdx0 a => mentions v a
  end.
Fixpoint fill (r : body) (b : body) : body :=
  match b with
  | BHole => r
  | BInt _ | BVar _ => b
  | BAdd a c => BAdd (fill r a) (fill r c)
  | BPair a c => BPair (fill r a) (fill r c)
  | BIdx0 a => BIdx0 (fill r a)
  end.

(* the names written in a module: what the bindings bind + what the expression mentions *)
Fixpoint bnames (b : body) : list name :=
  match b with
  | BHole | BInt _ => []
  | BVar v => [v]
  | BAdd a c | BPair a c => bnames a ++ bnames c
  | BIdx0 a => bnames a
  end.
Fixpoint names_e (e : expr) : list name :=
  match e with
  | EVar x => [x]
  | ESub x i b => x :: i :: bnames b
  | EFor v x b => v :: x :: bnames b
  | EListOf e1 | EZip e1 | ERows e1 | ELen e1 => names_e e1
  end.
Definition memn (n : name) (l : list name) : bool := existsb (Nat.eqb n) l.

(* old = true: before b71cf14 (no check that the index is only used in x[i]); nocap = true: before 63d3448 (no check
   that the new name x_i is not in use); used = the names written in the module.
   _simple_cases (performance.py:396-447): the element IS x[i] -> list(x).
   _complex_cases (449-509): exactly one x[i] (the comparison in 489 is against a one-element set: other uses of x,
   like x[0] or x alone, do not stop the rule), the index not used elsewhere (492-496), the new name not in use
   (498-500) -> [b(x_i) for x_i in x]. *)
Definition sub_root (old nocap : bool) (used : list name) (x i : name) (b : body) : expr :=
  match b with
  | BHole => EListOf (EVar x)
  | _ => if Nat.eqb (holes b) 1 && (old || negb (mentions i b)) && (nocap || negb (memn (join x i) used))
         then EFor (join x i) x (fill (BVar (join x i)) b)
         else ESub x i b
  end.
Fixpoint sub_with (old nocap : bool) (used : list name) (e : expr) : expr :=
  match e with
  | EVar _ | EFor _ _ _ => e
  | ESub x i b => sub_root old nocap used x i b
  | EListOf e1 => EListOf (sub_with old nocap used e1)
  | EZip e1 => EZip (sub_with old nocap used e1)
  | ERows e1 => ERows (sub_with old nocap used e1)
  | ELen e1 => ELen (sub_with old nocap used e1)
  end.
Definition sub := sub_with false false.
Definition sub_before_b71cf14 := sub_with true false.
Definition sub_before_63d3448 := sub_with false true.

(* guard of the _partial theorem: x is not the index, x holds a sequence whose __getitem__ agrees with iteration
   (or nothing iterable at all); covers: used really lists the names the expression mentions *)
Definition seq_like (o : option val) : bool :=
  match o with Some (VIter _) | Some (VDict _) => false | _ => true end.
Fixpoint sub_ok (en : env) (e : expr) : bool :=
  match e with
  | EVar _ | EFor _ _ _ => true
  | ESub x i b => negb (Nat.eqb x i) && seq_like (lookup en x)
  | EListOf e1 | EZip e1 | ERows e1 | ELen e1 => sub_ok en e1
  end.
Definition covers (used : list name) (e : expr) : bool := forallb (fun n => memn n used) (names_e e).

(* ---------------------------------------------------------------- fixes.simplify_transposes *)
(* zip( *zip( *e)) -> e, anywhere, to the normal form (fixes.py:2804-2806, 2841-2845; no guard at all) *)
Fixpoint transp (e : expr) : expr :=
  match e with
  | EVar _ | ESub _ _ _ | EFor _ _ _ => e
  | EListOf e1 => EListOf (transp e1)
  | ERows e1 => ERows (transp e1)
  | ELen e1 => ELen (transp e1)
  | EZip e1 => match e1 with EZip e2 => transp e2 | _ => EZip (transp e1) end
  end.

(* guard of the _partial theorem: the rows all have the length of the first one, which is not 0 *)
Definition rect (rows : list (list val)) : bool :=
  match rows with
  | [] => true
  | r :: t => negb (Nat.eqb (length r) 0) && forallb (fun r' => Nat.eqb (length r') (length r)) t
  end.
Definition transp_ok (r : res val) : bool :=
  match r with
  | Err _ => true
  | Ok v => match rows_of v with None => true | Some rows => rect rows end
  end.

(* ---------------------------------------------------------------- case checkers *)
Fixpoint body_eqb (a b : body) : bool :=
  match a, b with
  | BHole, BHole => true
  | BInt x, BInt y => x =? y
  | BVar x, BVar y => Nat.eqb x y
  | BAdd a1 a2, BAdd b1 b2 | BPair a1 a2, BPair b1 b2 => body_eqb a1 b1 && body_eqb a2 b2
  | BIdx0 a1, BIdx0 b1 => body_eqb a1 b1
  | _, _ => false
  end.
Fixpoint expr_eqb (a b : expr) : bool :=
  match a, b with
  | EVar x, EVar y => Nat.eqb x y
  | ESub x i c, ESub y j d | EFor x i c, EFor y j d => Nat.eqb x y && Nat.eqb i j && body_eqb c d
  | EListOf x, EListOf y | EZip x, EZip y | ERows x, ERows y | ELen x, ELen y => expr_eqb x y
  | _, _ => false
  end.
Fixpoint val_eqb (a b : val) : bool :=
  let fix l_eqb (p q : list val) : bool :=
    match p, q with [], [] => true | x :: s, y :: t => val_eqb x y && l_eqb s t | _, _ => false end in
  let fix kv_eqb (p q : list (Z * val)) : bool :=
    match p, q with
    | [], [] => true
    | (k, x) :: s, (k', y) :: t => (k =? k') && val_eqb x y && kv_eqb s t
    | _, _ => false
    end in
  match a, b with
  | VInt x, VInt y => x =? y
  | VList p, VList q | VTup p, VTup q | VIter p, VIter q => l_eqb p q
  | VDict p, VDict q => kv_eqb p q
  | _, _ => false
  end.
Definition exc_code (x : exc) : nat :=
  match x with TypeErr => 1 | IndexErr => 2 | KeyErr => 3 | NameErr => 4 end%nat.

Inductive irule := RSub | RTr.
Definition apply_rule (r : irule) (used : list name) (e : expr) : expr :=
  match r with RSub => sub used e | RTr => transp e end.
(* rule cases: rule, the names the bindings bind, input, expected output *)
Definition rule_case_ok (c : irule * list name * expr * expr) : bool :=
  let '(r, bound, p, q) := c in expr_eqb (apply_rule r (bound ++ names_e p) p) q.
(* semantics cases: environment, expression, expected exception code (0 = none) and value *)
Definition sem_case_ok (c : env * expr * nat * val) : bool :=
  let '(en, e, code, v) := c in
  match eval en e with
  | Ok w => Nat.eqb code 0 && val_eqb w v
  | Err x => Nat.eqb code (exc_code x)
  end.
