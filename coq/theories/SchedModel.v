(* K1 -- model of pyrefact/processing.py:_schedule_rewrites, _apply_rewrites, fix, chain
   and core.Range.overlaps / core.has_ignore_comment (range part).
   Mirrors the code as it is.  No proofs in this file (so the model still runs when a proof breaks). *)
From Coq Require Import List ZArith Bool.
Import ListNotations.
Open Scope Z_scope.

Definition range := (Z * Z)%type.

(* core.Range.overlaps : self.start < other.end and other.start < self.end *)
Definition overlaps (a b : range) : bool := (fst a <? snd b) && (fst b <? snd a).

Definition range_eqb (a b : range) : bool := (fst a =? fst b) && (snd a =? snd b).

(* tuple comparison of two ranges (NamedTuple ordering) *)
Definition range_cmp (a b : range) : comparison :=
  match fst a ?= fst b with Eq => snd a ?= snd b | c => c end.

(* core.has_ignore_comment: some physical line that carries an ignore comment is touched by the range.
   [ilines] = the (start,end) character ranges of the lines that carry an ignore comment.
   A non-empty range touches a line when Range.overlaps says so.  An empty range (an insertion) touches the
   line from its first column up to its terminator (repair 8992e08); an unterminated last line is handed
   over with its end moved one past the text, so that an insertion at the very end of the text counts too
   (no non-empty range of the text reaches that position, so nothing else changes). *)
Definition touches_line (r l : range) : bool :=
  if fst r =? snd r then (fst l <=? fst r) && (fst r <? snd l) else overlaps r l.

Definition ignored (ilines : list range) (r : range) : bool :=
  existsb (touches_line r) ilines.

Section Sched.
Variable T : Type.                       (* replacement text *)
Variable teqb : T -> T -> bool.
Variable tcmp : T -> T -> comparison.    (* str ordering of the new text, used by the final sort *)

Record rewrite := mkRw { rrng : range; rnew : T }.

Definition rw_eqb (a b : rewrite) : bool := range_eqb (rrng a) (rrng b) && teqb (rnew a) (rnew b).

Fixpoint rws_eqb (a b : list rewrite) : bool :=
  match a, b with
  | [], [] => true
  | x :: a', y :: b' => rw_eqb x y && rws_eqb a' b'
  | _, _ => false
  end.

(* what a rule yields: (range, new text, explicit transaction number or None) *)
Definition yielded := (range * T * option Z)%type.

(* _Transaction ordering: (group_number, transaction_number, group_name); the name is a function of
   the group number, so it never decides. *)
Definition tkey := (Z * Z)%type.
Definition key_cmp (a b : tkey) : comparison :=
  match fst a ?= fst b with Eq => snd a ?= snd b | c => c end.
Definition key_eqb (a b : tkey) : bool := (fst a =? fst b) && (snd a =? snd b).

(* fill_transaction: the shared counter is incremented for every yielded item *)
Fixpoint fill (cnt : Z) (ys : list yielded) : list (Z * rewrite) * Z :=
  match ys with
  | [] => ([], cnt)
  | (r, n, tr) :: ys' =>
      let cnt' := cnt + 1 in
      let t := match tr with Some t => t | None => cnt' end in
      let '(rest, c) := fill cnt' ys' in
      ((t, mkRw r n) :: rest, c)
  end.

(* transaction_rewrites: defaultdict(list), kept sorted by key *)
Definition txmap := list (tkey * list rewrite).

Fixpoint tr_add (k : tkey) (r : rewrite) (tr : txmap) : txmap :=
  match tr with
  | [] => [(k, [r])]
  | (k', rs) :: tl =>
      match key_cmp k k' with
      | Eq => (k', rs ++ [r]) :: tl
      | Lt => (k, [r]) :: tr
      | Gt => (k', rs) :: tr_add k r tl
      end
  end.

Definition add_items (k : Z) (items : list (Z * rewrite)) (tr : txmap) : txmap :=
  fold_left (fun tr it => tr_add (k, fst it) (snd it) tr) items tr.

(* duplicate elimination over all transactions seen so far, in sorted order *)
Fixpoint dedup (seen : list (list rewrite)) (tr : txmap) : txmap :=
  match tr with
  | [] => []
  | (k, rs) :: tl =>
      if existsb (rws_eqb rs) seen then dedup (rs :: seen) tl
      else (k, rs) :: dedup (rs :: seen) tl
  end.

(* the set {(range, rewrite)} inside one transaction *)
Fixpoint nodup_rw (rs : list rewrite) : list rewrite :=
  match rs with
  | [] => []
  | r :: tl => if existsb (rw_eqb r) tl then nodup_rw tl else r :: nodup_rw tl
  end.

Fixpoint self_conflict (rs : list rewrite) : bool :=
  match rs with
  | [] => false
  | r :: tl => existsb (fun o => overlaps (rrng r) (rrng o)) tl || self_conflict tl
  end.

Definition sched_conflict (sched : list (tkey * rewrite)) (rs : list rewrite) : bool :=
  existsb (fun r => existsb (fun o => overlaps (rrng r) (rrng (snd o))) sched) rs.

Variable ilines : list range.

Inductive verdict := Accepted | DropIgnored | DropSelf | DropSched.

Definition judge (sched : list (tkey * rewrite)) (rs : list rewrite) : verdict :=
  if existsb (fun r => ignored ilines (rrng r)) rs then DropIgnored
  else if self_conflict rs then DropSelf
  else if sched_conflict sched rs then DropSched
  else Accepted.

Definition process_tx (k : Z) (sched : list (tkey * rewrite)) (e : tkey * list rewrite)
  : list (tkey * rewrite) :=
  let '(key, rs0) := e in
  if negb (fst key =? k) then sched
  else
    let rs := nodup_rw rs0 in
    match judge sched rs with
    | Accepted => sched ++ map (fun r => (key, r)) rs
    | _ => sched
    end.

Fixpoint run_groups (k cnt : Z) (tr : txmap) (sched : list (tkey * rewrite))
         (groups : list (list yielded)) : txmap * list (tkey * rewrite) :=
  match groups with
  | [] => (tr, sched)
  | g :: gs =>
      let '(items, cnt') := fill cnt g in
      let tr1 := add_items k items tr in
      let tr2 := dedup [] tr1 in
      let sched' := fold_left (process_tx k) tr2 sched in
      run_groups (k + 1) cnt' tr2 sched' gs
  end.

(* final sort: key (range, new text, transaction), reverse=True *)
Definition entry_cmp (a b : tkey * rewrite) : comparison :=
  match range_cmp (rrng (snd a)) (rrng (snd b)) with
  | Eq => match tcmp (rnew (snd a)) (rnew (snd b)) with
          | Eq => key_cmp (fst a) (fst b)
          | c => c
          end
  | c => c
  end.

(* descending insertion sort; an element equal to one already present goes after it (stable) *)
Fixpoint insert_desc (x : tkey * rewrite) (l : list (tkey * rewrite)) :=
  match l with
  | [] => [x]
  | y :: tl => match entry_cmp x y with
               | Gt => x :: l
               | _ => y :: insert_desc x tl
               end
  end.

Definition sort_desc (l : list (tkey * rewrite)) := fold_left (fun acc x => insert_desc x acc) l [].

Definition START_COUNT : Z := -100000000.

Definition accepted_unsorted (groups : list (list yielded)) : list (tkey * rewrite) :=
  snd (run_groups 0 START_COUNT [] [] groups).

Definition schedule (groups : list (list yielded)) : list (tkey * rewrite) :=
  sort_desc (accepted_unsorted groups).

End Sched.

Arguments mkRw {T}.
Arguments rrng {T}.
Arguments rnew {T}.

(* ---------------------------------------------------------------------------------------- *)
(* Text application: _do_rewrite abstracted to a splice; _apply_rewrites with both rollbacks. *)
Section Apply.
Variable A : Type.

Definition splice (src : list A) (r : range) (n : list A) : list A :=
  firstn (Z.to_nat (fst r)) src ++ n ++ skipn (Z.to_nat (snd r)) src.

Definition apply_all (src : list A) (rws : list (range * list A)) : list A :=
  fold_left (fun s rw => splice s (fst rw) (snd rw)) rws src.

Variable valid : list A -> bool.             (* core.is_valid_python *)
Variable restore : list A -> list A -> list A.  (* _substitute_original_(f)strings *)

Definition apply_rewrites (src : list A) (rws : list (range * list A)) : list A :=
  let new := apply_all src rws in
  if negb (valid new) then src
  else let new' := restore src new in
       if negb (valid new') then src else new'.

(* processing.fix / processing.chain:  history = {source} is never extended *)
Variable pass : list A -> list A.
Variable src_eqb : list A -> list A -> bool.

Fixpoint fix_loop (n : nat) (orig cur : list A) : list A :=
  match n with
  | O => cur
  | S n' => let cur' := pass cur in
            if src_eqb cur' orig then cur' else fix_loop n' orig cur'
  end.

Definition fix_wrapper (max_iter : nat) (src : list A) : list A := fix_loop max_iter src src.

End Apply.

(* ---------------------------------------------------------------------------------------- *)
(* Concrete instance used by the correspondence: text = list of code points *)
Fixpoint text_cmp (a b : list Z) : comparison :=
  match a, b with
  | [], [] => Eq
  | [], _ => Lt
  | _, [] => Gt
  | x :: a', y :: b' => match x ?= y with Eq => text_cmp a' b' | c => c end
  end.
Fixpoint text_eqb (a b : list Z) : bool :=
  match a, b with
  | [], [] => true
  | x :: a', y :: b' => (x =? y) && text_eqb a' b'
  | _, _ => false
  end.

Definition schedule_text := schedule (list Z) text_eqb text_cmp.

(* flat view used for comparison with the implementation:
   (group, transaction number, start, end, text) in final order *)
Definition flat_entry := (Z * Z * Z * Z * list Z)%type.
Definition flatten (l : list (tkey * rewrite (list Z))) : list flat_entry :=
  map (fun e => (fst (fst e), snd (fst e), fst (rrng (snd e)), snd (rrng (snd e)), rnew (snd e))) l.

Definition flat_eqb (a b : flat_entry) : bool :=
  let '(g1, t1, s1, e1, n1) := a in
  let '(g2, t2, s2, e2, n2) := b in
  (g1 =? g2) && (t1 =? t2) && (s1 =? s2) && (e1 =? e2) && text_eqb n1 n2.

Fixpoint flats_eqb (a b : list flat_entry) : bool :=
  match a, b with
  | [], [] => true
  | x :: a', y :: b' => flat_eqb x y && flats_eqb a' b'
  | _, _ => false
  end.

(* one correspondence case: ignored line ranges, groups, what the implementation scheduled,
   the source text and what the implementation's pass returned *)
Record sched_case := mkCase {
  c_ilines : list range;
  c_groups : list (list (yielded (list Z)));
  c_expected : list flat_entry;
  c_src : list Z;
  c_candidate : list Z   (* the text the implementation produced before the validity test *)
}.

Definition model_schedule (c : sched_case) : list flat_entry :=
  flatten (schedule_text (c_ilines c) (c_groups c)).

Definition model_candidate (c : sched_case) : list Z :=
  apply_all Z (c_src c)
    (map (fun e => (rrng (snd e), rnew (snd e))) (schedule_text (c_ilines c) (c_groups c))).

Definition case_ok (c : sched_case) : bool :=
  flats_eqb (model_schedule c) (c_expected c) && text_eqb (model_candidate c) (c_candidate c).

Fixpoint bad_indices_from {X} (ok : X -> bool) (i : nat) (l : list X) : list nat :=
  match l with
  | [] => []
  | c :: tl => if ok c then bad_indices_from ok (S i) tl else i :: bad_indices_from ok (S i) tl
  end.
Definition bad_indices {X} (ok : X -> bool) (l : list X) : list nat := bad_indices_from ok O l.
