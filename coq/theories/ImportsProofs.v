(* K11 -- proofs about ImportsModel.v (C18). *)
From Coq Require Import List Arith Bool PeanoNat Lia Permutation.
Import ListNotations.
Require Import Pyrefact.ImportsModel.

(* ------------------------------------------------------------------------------------------- *)
(* basic facts                                                                                   *)

Lemma mem_In : forall n l, mem n l = true <-> In n l.
Proof.
  intros n l. unfold mem. rewrite existsb_exists. split.
  - intros [x [Hin Heq]]. apply Nat.eqb_eq in Heq. subst. exact Hin.
  - intros Hin. exists n. split; [exact Hin|apply Nat.eqb_refl].
Qed.

Lemma itgt_eqb_eq : forall a b, itgt_eqb a b = true <-> a = b.
Proof.
  intros [m x|m|h] [m' x'|m'|h']; cbn [itgt_eqb]; split; intros H; try discriminate; try congruence.
  - apply andb_true_iff in H. destruct H as [H1 H2].
    apply Nat.eqb_eq in H1. apply Nat.eqb_eq in H2. subst. reflexivity.
  - inversion H. subst. rewrite !Nat.eqb_refl. reflexivity.
  - apply Nat.eqb_eq in H. subst. reflexivity.
  - inversion H. apply Nat.eqb_refl.
  - apply Nat.eqb_eq in H. subst. reflexivity.
  - inversion H. apply Nat.eqb_refl.
Qed.

(* ------------------------------------------------------------------------------------------- *)
(* T18.2  the binding environment depends only on the SET of bindings when they are coherent    *)

Lemma lookup_last_app : forall l1 l2 a,
  lookup_last (l1 ++ l2) a =
  match lookup_last l2 a with Some t => Some t | None => lookup_last l1 a end.
Proof.
  induction l1 as [|[k t] l1 IH]; intros l2 a; cbn [app lookup_last].
  - destruct (lookup_last l2 a); reflexivity.
  - rewrite IH. destruct (lookup_last l2 a); [reflexivity|].
    destruct (lookup_last l1 a); reflexivity.
Qed.

Lemma lookup_last_In : forall l a t, lookup_last l a = Some t -> In (a, t) l.
Proof.
  induction l as [|[k t0] l IH]; intros a t H; cbn [lookup_last] in H; [discriminate|].
  destruct (lookup_last l a) eqn:E.
  - inversion H. subst. right. apply IH. exact E.
  - destruct (k =? a) eqn:Ek; [|discriminate].
    apply Nat.eqb_eq in Ek. inversion H. subst. left. reflexivity.
Qed.

Lemma lookup_last_None : forall l a, lookup_last l a = None -> forall t, ~ In (a, t) l.
Proof.
  induction l as [|[k t0] l IH]; intros a H t Hin; cbn [lookup_last] in H; [exact Hin|].
  destruct (lookup_last l a) eqn:E; [discriminate|].
  destruct (k =? a) eqn:Ek; [discriminate|].
  destruct Hin as [Heq|Hin].
  - inversion Heq. subst. rewrite Nat.eqb_refl in Ek. discriminate.
  - exact (IH a E t Hin).
Qed.

Lemma coherent_binds_spec : forall l,
  coherent_binds l = true ->
  forall a t t', In (a, t) l -> In (a, t') l -> t = t'.
Proof.
  intros l H a t t' H1 H2. unfold coherent_binds in H.
  rewrite forallb_forall in H. specialize (H _ H1).
  rewrite forallb_forall in H. specialize (H _ H2).
  cbn [fst snd] in H. rewrite Nat.eqb_refl in H. cbn [negb orb] in H.
  apply itgt_eqb_eq. exact H.
Qed.

(* the key lemma: per name, only the set of (name, target) pairs matters *)
Lemma env_of_binding_set : forall B B' a,
  coherent_binds B = true ->
  (forall t, In (a, t) B <-> In (a, t) B') ->
  lookup_last B' a = lookup_last B a.
Proof.
  intros B B' a Hc Hset.
  destruct (lookup_last B a) as [t|] eqn:E.
  - pose proof (lookup_last_In _ _ _ E) as Hin.
    destruct (lookup_last B' a) as [t'|] eqn:E'.
    + pose proof (lookup_last_In _ _ _ E') as Hin'.
      apply Hset in Hin'. f_equal. exact (coherent_binds_spec B Hc a t' t Hin' Hin).
    + exfalso. apply Hset in Hin. exact (lookup_last_None _ _ E' t Hin).
  - destruct (lookup_last B' a) as [t'|] eqn:E'; [|reflexivity].
    exfalso. pose proof (lookup_last_In _ _ _ E') as Hin'. apply Hset in Hin'.
    exact (lookup_last_None _ _ E t' Hin').
Qed.

Definition same_binds (l l' : list stmt) : Prop :=
  forall p, In p (all_binds l) <-> In p (all_binds l').

Theorem env_same_binds : forall l l' a,
  coherent l = true -> same_binds l l' -> env l' a = env l a.
Proof.
  intros l l' a Hc Hs. unfold env. apply env_of_binding_set; [exact Hc|].
  intros t. apply Hs.
Qed.

(* ---- sorting is a permutation *)
Lemma insert_by_perm : forall X (key : X -> list nat) x l, Permutation (insert_by key x l) (x :: l).
Proof.
  intros X key x l. induction l as [|y l IH]; cbn [insert_by]; [apply Permutation_refl|].
  destruct (lex_le (key x) (key y)); [apply Permutation_refl|].
  apply perm_trans with (y :: x :: l); [apply perm_skip; exact IH|apply perm_swap].
Qed.

Lemma sort_by_perm : forall X (key : X -> list nat) l, Permutation (sort_by key l) l.
Proof.
  intros X key l. unfold sort_by. induction l as [|x l IH]; cbn [fold_right]; [apply perm_nil|].
  apply perm_trans with (x :: fold_right (insert_by key) [] l); [apply insert_by_perm|].
  apply perm_skip. exact IH.
Qed.

Lemma perm_flat_map : forall X Y (f : X -> list Y) l l',
  Permutation l l' -> Permutation (flat_map f l) (flat_map f l').
Proof.
  intros X Y f l l' H. induction H; cbn [flat_map].
  - apply perm_nil.
  - apply Permutation_app_head. exact IHPermutation.
  - rewrite !app_assoc. apply Permutation_app_tail. apply Permutation_app_comm.
  - eapply perm_trans; eassumption.
Qed.

Lemma old_sort_stmts_perm : forall l, Permutation (old_sort_stmts l) l.
Proof.
  intros l. unfold old_sort_stmts. destruct l as [|a [|b l]]; try apply Permutation_refl.
  apply sort_by_perm.
Qed.

Lemma sort_stmts_perm : forall l, Permutation (sort_stmts l) l.
Proof.
  intros l. unfold sort_stmts. destruct l as [|a [|b l]]; try apply Permutation_refl.
  destruct (order_matters (a :: b :: l)); [apply Permutation_refl|apply sort_by_perm].
Qed.

Lemma same_binds_of_perm : forall l l',
  Permutation (all_binds l') (all_binds l) -> same_binds l l'.
Proof.
  intros l l' H p. split; intros Hin.
  - eapply Permutation_in; [apply Permutation_sym; exact H|exact Hin].
  - eapply Permutation_in; [exact H|exact Hin].
Qed.

(* ---- the guard of the repaired rules (fixes._import_order_matters): when no name is bound twice, all
   bindings are coherent, so any permutation of them gives the same environment *)
Lemma has_dup_false_unique : forall (B : list (name * itgt)),
  has_dup (map fst B) = false ->
  forall a t t', In (a, t) B -> In (a, t') B -> t = t'.
Proof.
  induction B as [|[k v] B IH]; intros H a t t' H1 H2; [destruct H1|].
  cbn [map fst has_dup] in H. apply orb_false_iff in H. destruct H as [Hk Hd].
  assert (Hnot : forall u, ~ In (k, u) B).
  { intros u Hin. assert (Hm : mem k (map fst B) = true).
    { apply mem_In. apply in_map_iff. exists (k, u). split; [reflexivity|exact Hin]. }
    rewrite Hm in Hk. discriminate. }
  destruct H1 as [H1|H1]; destruct H2 as [H2|H2].
  - congruence.
  - inversion H1. subst. exfalso. exact (Hnot _ H2).
  - inversion H2. subst. exfalso. exact (Hnot _ H1).
  - exact (IH Hd a t t' H1 H2).
Qed.

Lemma unique_coherent : forall (B : list (name * itgt)),
  (forall a t t', In (a, t) B -> In (a, t') B -> t = t') -> coherent_binds B = true.
Proof.
  intros B H. unfold coherent_binds. apply forallb_forall. intros [a t] Hp.
  apply forallb_forall. intros [a' t'] Hq. cbn [fst snd].
  destruct (a =? a') eqn:E; [|reflexivity]. apply Nat.eqb_eq in E. subst a'.
  cbn [negb orb]. apply itgt_eqb_eq. exact (H a t t' Hp Hq).
Qed.

Lemma order_free_coherent : forall l, order_matters l = false -> coherent l = true.
Proof.
  intros l H. unfold order_matters in H. apply orb_false_iff in H. destruct H as [_ Hd].
  unfold coherent. apply unique_coherent. apply has_dup_false_unique. exact Hd.
Qed.

(* the statement the task asks for: a permutation of bindings with pairwise distinct bound names yields the
   same environment *)
Theorem perm_distinct_names_env : forall B B' a,
  has_dup (map fst B) = false -> Permutation B' B -> lookup_last B' a = lookup_last B a.
Proof.
  intros B B' a Hd Hp. apply env_of_binding_set.
  - apply unique_coherent. apply has_dup_false_unique. exact Hd.
  - intros t. split; intros Hin.
    + eapply Permutation_in; [apply Permutation_sym; exact Hp|exact Hin].
    + eapply Permutation_in; [exact Hp|exact Hin].
Qed.

(* the old rule (before cc67280), under the coherence guard *)
Theorem old_sort_stmts_env : forall l a, coherent l = true -> env (old_sort_stmts l) a = env l a.
Proof.
  intros l a Hc. apply env_same_binds; [exact Hc|].
  apply same_binds_of_perm. unfold all_binds. apply perm_flat_map. apply old_sort_stmts_perm.
Qed.

(* order dependence of the old rule: `from 4 import 2; from 0 import 2` (module 4 > module 0) *)
Definition sort_witness : list stmt := [SFrom false 4 [(2, None)]; SFrom false 0 [(2, None)]].
Theorem old_sort_stmts_refuted : exists l a, env (old_sort_stmts l) a <> env l a.
Proof. exists sort_witness, 2. vm_compute. discriminate. Qed.

(* FULL theorem for the repaired rule: it refuses exactly the runs whose order could matter *)
Theorem sort_stmts_env : forall l a, env (sort_stmts l) a = env l a.
Proof.
  intros l a. unfold sort_stmts. destruct l as [|s1 [|s2 l]]; try reflexivity.
  destruct (order_matters (s1 :: s2 :: l)) eqn:E; [reflexivity|].
  apply env_same_binds; [apply order_free_coherent; exact E|].
  apply same_binds_of_perm. unfold all_binds. apply perm_flat_map. apply sort_by_perm.
Qed.

(* the repaired rule leaves the old witness alone, and still sorts where it may *)
Example sort_stmts_witness_kept : sort_stmts sort_witness = sort_witness.
Proof. vm_compute. reflexivity. Qed.
Example sort_stmts_fires :
  sort_stmts [SFrom false 4 [(2, None)]; SFrom false 0 [(6, None)]] =
  [SFrom false 0 [(6, None)]; SFrom false 4 [(2, None)]].
Proof. vm_compute. reflexivity. Qed.
(* a star import (`from 4 import *`, STAR = 0) or `import os.path` + `import os` (one head) keep the order *)
Example sort_stmts_star_kept :
  sort_stmts [SFrom false 4 [(STAR, None)]; SFrom false 2 [(6, None)]] =
  [SFrom false 4 [(STAR, None)]; SFrom false 2 [(6, None)]].
Proof. vm_compute. reflexivity. Qed.
Example sort_stmts_head_kept :
  sort_stmts [SImport [(4, None, 2, true)]; SImport [(2, None, 2, true)]] =
  [SImport [(4, None, 2, true)]; SImport [(2, None, 2, true)]].
Proof. vm_compute. reflexivity. Qed.

(* on aliases Python can write (the asname is an identifier: when it equals the module name that name has no
   dot and is its own head) the bound name is `asname or head`, as in _import_order_matters *)
Definition wf_ialias (al : ialias) : bool :=
  match ias al with
  | Some a => negb (a =? imod al) || (ihead al =? imod al)
  | None => true
  end.
Lemma ibound_raw : forall al, wf_ialias al = true ->
  ibound al = match ias al with Some a => a | None => ihead al end.
Proof.
  intros al H. unfold ibound, wf_ialias in *. destruct (ias al) as [a|]; [|reflexivity].
  destruct (a =? imod al) eqn:E; [|reflexivity]. cbn [negb orb] in H.
  apply Nat.eqb_eq in E. apply Nat.eqb_eq in H. congruence.
Qed.

(* ---- alias normalisation / sorting inside a statement *)
Lemma fnorm_bind : forall m al, (fbound (fnorm al), IAttr m (fst (fnorm al))) = (fbound al, IAttr m (fst al)).
Proof.
  intros m [x [a|]]; unfold fnorm, fbound; cbn [fst snd]; [|reflexivity].
  destruct (a =? x) eqn:E; cbn [fst snd]; [|reflexivity].
  apply Nat.eqb_eq in E. subst. reflexivity.
Qed.

Lemma inorm_bind : forall al, (ibound (inorm al), itarget (inorm al)) = (ibound al, itarget al).
Proof.
  intros [[[m [a|]] h] s]; unfold inorm, ibound, itarget, ias, imod, ihead, istd; cbn [fst snd]; [|reflexivity].
  destruct (a =? m) eqn:E; cbn [fst snd]; [reflexivity|]. rewrite E. reflexivity.
Qed.

Lemma map_fnorm_binds : forall m als,
  map (fun al => (fbound al, IAttr m (fst al))) (map fnorm als) =
  map (fun al => (fbound al, IAttr m (fst al))) als.
Proof.
  intros m als. rewrite map_map. apply map_ext. intros al. apply fnorm_bind.
Qed.

Lemma map_inorm_binds : forall als,
  map (fun al => (ibound al, itarget al)) (map inorm als) = map (fun al => (ibound al, itarget al)) als.
Proof.
  intros als. rewrite map_map. apply map_ext. intros al. apply inorm_bind.
Qed.

Lemma old_sort_aliases_stmt_perm : forall s, Permutation (stmt_binds (old_sort_aliases_stmt s)) (stmt_binds s).
Proof.
  intros [std m als|als]; cbn [old_sort_aliases_stmt stmt_binds].
  - rewrite <- (map_fnorm_binds m als). apply Permutation_map. apply sort_by_perm.
  - rewrite <- (map_inorm_binds als). apply Permutation_map. apply sort_by_perm.
Qed.

Lemma perm_flat_map_pointwise : forall X Y (f f' : X -> list Y) l,
  (forall x, Permutation (f' x) (f x)) -> Permutation (flat_map f' l) (flat_map f l).
Proof.
  intros X Y f f' l H. induction l as [|x l IH]; cbn [flat_map]; [apply perm_nil|].
  apply Permutation_app; [apply H|exact IH].
Qed.

(* the old rule (before 95f12ea), under the coherence guard *)
Theorem old_sort_aliases_env : forall l a, coherent l = true -> env (old_sort_aliases l) a = env l a.
Proof.
  intros l a Hc. apply env_same_binds; [exact Hc|].
  apply same_binds_of_perm. unfold all_binds, old_sort_aliases. rewrite flat_map_concat_map, map_map.
  rewrite <- flat_map_concat_map. apply perm_flat_map_pointwise. apply old_sort_aliases_stmt_perm.
Qed.

Definition alias_witness : list stmt := [SFrom false 0 [(4, Some 6); (2, Some 6)]].
Theorem old_sort_aliases_refuted : exists l a, env (old_sort_aliases l) a <> env l a.
Proof. exists alias_witness, 6. vm_compute. discriminate. Qed.

(* FULL theorem for the repaired rule.  Statement by statement: the bindings of one statement keep their
   lookup function (either the statement is left alone or its bound names are pairwise distinct) *)
Lemma sort_aliases_stmt_lookup : forall s a,
  lookup_last (stmt_binds (sort_aliases_stmt s)) a = lookup_last (stmt_binds s) a.
Proof.
  intros s a. unfold sort_aliases_stmt. destruct (order_matters [s]) eqn:E; [reflexivity|].
  unfold order_matters, bound_names, all_binds in E. cbn [flat_map] in E. rewrite app_nil_r in E.
  apply orb_false_iff in E. destruct E as [_ Hd].
  apply perm_distinct_names_env; [exact Hd|apply old_sort_aliases_stmt_perm].
Qed.

Lemma env_cons : forall s l a,
  env (s :: l) a = match env l a with Some t => Some t | None => lookup_last (stmt_binds s) a end.
Proof. intros s l a. unfold env, all_binds. cbn [flat_map]. apply lookup_last_app. Qed.

Theorem sort_aliases_env : forall l a, env (sort_aliases l) a = env l a.
Proof.
  intros l a. induction l as [|s l IH]; [reflexivity|].
  unfold sort_aliases in *. cbn [map]. rewrite !env_cons, IH, sort_aliases_stmt_lookup. reflexivity.
Qed.

(* fixes.sort_imports = _fix_imported_as_self_or_unsorted after _sort_import_statements *)
Theorem sort_imports_env : forall l a, env (sort_aliases (sort_stmts l)) a = env l a.
Proof. intros l a. rewrite sort_aliases_env. apply sort_stmts_env. Qed.

Example sort_aliases_witness_kept : sort_aliases alias_witness = alias_witness.
Proof. vm_compute. reflexivity. Qed.
Example sort_aliases_fires :
  sort_aliases [SFrom false 0 [(4, Some 6); (2, Some 2)]] = [SFrom false 0 [(2, None); (4, Some 6)]].
Proof. vm_compute. reflexivity. Qed.

(* ---- remove_unused_imports *)
Lemma filter_In_pair : forall X (p : X -> bool) (f : X -> name * itgt) als a t,
  (forall al, fst (f al) = a -> p al = true) ->
  (In (a, t) (map f (filter p als)) <-> In (a, t) (map f als)).
Proof.
  intros X p f als a t Hp. rewrite !in_map_iff. split.
  - intros [al [Heq Hin]]. apply filter_In in Hin. exists al. tauto.
  - intros [al [Heq Hin]]. exists al. split; [exact Heq|]. apply filter_In. split; [exact Hin|].
    apply Hp. rewrite Heq. reflexivity.
Qed.

Lemma remove_unused_stmt_binds : forall used s a t,
  mem a used = true ->
  (In (a, t) (flat_map stmt_binds (remove_unused_stmt used s)) <-> In (a, t) (stmt_binds s)).
Proof.
  intros used s a t Hu. destruct s as [std m als|als]; cbn [remove_unused_stmt].
  - destruct (length (filter (fun al => mem (fbound al) used) als) =? length als); [cbn [flat_map]; rewrite app_nil_r; tauto|].
    set (kept := filter (fun al => mem (fbound al) used) als).
    assert (Hk : In (a, t) (map (fun al => (fbound al, IAttr m (fst al))) kept) <->
                 In (a, t) (stmt_binds (SFrom std m als))).
    { cbn [stmt_binds]. apply filter_In_pair. intros al Hal. cbn [fst] in Hal. rewrite Hal. exact Hu. }
    destruct kept as [|k0 kept'] eqn:Ek.
    + cbn [flat_map]. cbn [map] in Hk. exact Hk.
    + cbn [flat_map stmt_binds]. rewrite app_nil_r. rewrite <- Hk.
      split; intros H.
      * eapply Permutation_in; [|exact H]. apply Permutation_map. apply sort_by_perm.
      * eapply Permutation_in; [|exact H]. apply Permutation_map. apply Permutation_sym. apply sort_by_perm.
  - destruct (length (filter (fun al => mem (ibound al) used) als) =? length als); [cbn [flat_map]; rewrite app_nil_r; tauto|].
    set (kept := filter (fun al => mem (ibound al) used) als).
    assert (Hk : In (a, t) (map (fun al => (ibound al, itarget al)) kept) <->
                 In (a, t) (stmt_binds (SImport als))).
    { cbn [stmt_binds]. apply filter_In_pair. intros al Hal. cbn [fst] in Hal. rewrite Hal. exact Hu. }
    destruct kept as [|k0 kept'] eqn:Ek.
    + cbn [flat_map]. cbn [map] in Hk. exact Hk.
    + cbn [flat_map stmt_binds]. rewrite app_nil_r. rewrite <- Hk.
      split; intros H.
      * eapply Permutation_in; [|exact H]. apply Permutation_map. apply sort_by_perm.
      * eapply Permutation_in; [|exact H]. apply Permutation_map. apply Permutation_sym. apply sort_by_perm.
Qed.

Lemma flat_map_flat_map : forall X Y Z (f : X -> list Y) (g : Y -> list Z) l,
  flat_map g (flat_map f l) = flat_map (fun x => flat_map g (f x)) l.
Proof.
  intros X Y Z f g l. induction l as [|x l IH]; cbn [flat_map]; [reflexivity|].
  rewrite flat_map_app, IH. reflexivity.
Qed.

Lemma in_flat_map_pointwise : forall X Y (f f' : X -> list Y) l y,
  (forall x, In y (f' x) <-> In y (f x)) -> (In y (flat_map f' l) <-> In y (flat_map f l)).
Proof.
  intros X Y f f' l y H. rewrite !in_flat_map. split; intros [x [Hx Hy]]; exists x; split; auto; apply H; exact Hy.
Qed.

Theorem remove_unused_env : forall used l a,
  coherent l = true -> In a used -> env (remove_unused used l) a = env l a.
Proof.
  intros used l a Hc Hu. unfold env. apply env_of_binding_set; [exact Hc|].
  intros t. unfold all_binds, remove_unused. rewrite flat_map_flat_map. symmetry.
  apply in_flat_map_pointwise. intros s. apply remove_unused_stmt_binds. apply mem_In. exact Hu.
Qed.

(* a partially used statement is re-emitted with its aliases sorted: `from 0 import 4 as 6, 2 as 6, 8`
   with 8 unused becomes `from 0 import 2 as 6, 4 as 6` *)
Definition unused_witness : list stmt := [SFrom false 0 [(4, Some 6); (2, Some 6); (8, None)]].
Theorem remove_unused_refuted : exists used l a, In a used /\ env (remove_unused used l) a <> env l a.
Proof. exists [6], unused_witness, 6. split; [left; reflexivity|]. vm_compute. discriminate. Qed.

(* ---- _breakout_stacked_imports *)
Lemma dedup_by_In : forall X (eqb : X -> X -> bool) (l : list X) x,
  (forall a b, eqb a b = true -> a = b) ->
  (In x (dedup_by eqb l) <-> In x l).
Proof.
  intros X eqb l x Heq. induction l as [|y l IH]; cbn [dedup_by]; [tauto|].
  destruct (existsb (eqb y) l) eqn:E.
  - rewrite IH. split; [intros H; right; exact H|].
    intros [H|H]; [|exact H]. subst. apply existsb_exists in E. destruct E as [z [Hz Hyz]].
    apply Heq in Hyz. subst. exact Hz.
  - cbn [In]. rewrite IH. tauto.
Qed.

Lemma opt_eqb_eq : forall (a b : option name),
  match a, b with None, None => true | Some x, Some y => x =? y | _, _ => false end = true -> a = b.
Proof.
  intros [x|] [y|] H; try discriminate; [|reflexivity]. apply Nat.eqb_eq in H. subst. reflexivity.
Qed.

Lemma ialias_eqb_eq : forall a b, ialias_eqb a b = true -> a = b.
Proof.
  intros [[[m o] h] s] [[[m' o'] h'] s'] H. unfold ialias_eqb, imod, ias, ihead, istd in H. cbn [fst snd] in H.
  apply andb_true_iff in H. destruct H as [H Ho].
  apply andb_true_iff in H. destruct H as [H Hs].
  apply andb_true_iff in H. destruct H as [Hm Hh].
  apply Nat.eqb_eq in Hm. apply Nat.eqb_eq in Hh. apply eqb_prop in Hs. apply opt_eqb_eq in Ho.
  subst. reflexivity.
Qed.

Lemma falias_eqb_eq : forall a b, falias_eqb a b = true -> a = b.
Proof.
  intros [x o] [x' o'] H. unfold falias_eqb in H. cbn [fst snd] in H.
  apply andb_true_iff in H. destruct H as [Hx Ho].
  apply Nat.eqb_eq in Hx. apply opt_eqb_eq in Ho. subst. reflexivity.
Qed.

Lemma breakout_stmt_binds : forall s p,
  In p (flat_map stmt_binds (breakout_stmt s)) <-> In p (stmt_binds s).
Proof.
  intros s p. destruct s as [std m als|als]; cbn [breakout_stmt]; [cbn [flat_map]; rewrite app_nil_r; tauto|].
  destruct als as [|a1 [|a2 als]]; try (cbn [flat_map]; rewrite app_nil_r; tauto).
  set (L := a1 :: a2 :: als).
  rewrite flat_map_concat_map, map_map, <- flat_map_concat_map.
  cbn [stmt_binds].
  assert (H1 : forall l, In p (flat_map (fun al => stmt_binds (SImport [inorm al])) l) <->
                         In p (map (fun al => (ibound al, itarget al)) l)).
  { intros l. rewrite in_flat_map, in_map_iff. split.
    - intros [al [Hal Hp]]. cbn [stmt_binds map In] in Hp. destruct Hp as [Hp|[]].
      exists al. split; [|exact Hal]. rewrite <- Hp. symmetry. apply inorm_bind.
    - intros [al [Hp Hal]]. exists al. split; [exact Hal|]. cbn [stmt_binds map In]. left.
      rewrite <- Hp. apply inorm_bind. }
  rewrite H1. rewrite !in_map_iff. split.
  - intros [al [Hp Hal]]. exists al. split; [exact Hp|].
    apply (Permutation_in _ (sort_by_perm _ ikey _)) in Hal.
    apply (dedup_by_In _ ialias_eqb L al ialias_eqb_eq). exact Hal.
  - intros [al [Hp Hal]]. exists al. split; [exact Hp|].
    apply (Permutation_in _ (Permutation_sym (sort_by_perm _ ikey _))).
    apply (dedup_by_In _ ialias_eqb L al ialias_eqb_eq). exact Hal.
Qed.

Theorem breakout_env : forall l a, coherent l = true -> env (breakout l) a = env l a.
Proof.
  intros l a Hc. apply env_same_binds; [exact Hc|].
  intros p. unfold all_binds, breakout. rewrite flat_map_flat_map. symmetry.
  apply in_flat_map_pointwise. intros s. apply breakout_stmt_binds.
Qed.

(* `import 4 as 6, 2 as 6` is split in sorted order: 6 ends up bound to module 4 instead of 2 *)
Definition breakout_witness : list stmt := [SImport [(4, Some 6, 4, false); (2, Some 6, 2, false)]].
Theorem breakout_refuted : exists l a, env (breakout l) a <> env l a.
Proof. exists breakout_witness, 6. vm_compute. discriminate. Qed.

(* ---- _fix_duplicate_regular_imports (repaired) *)
Definition cur_sound (cur : list (name * option ialias)) (P : list (name * itgt)) : Prop :=
  forall a k, cur_lookup cur a = Some (Some k) -> In (ibound k, itarget k) P.

Lemma cur_lookup_cons : forall a0 v cur a,
  cur_lookup ((a0, v) :: cur) a = if a0 =? a then Some v else cur_lookup cur a.
Proof.
  intros a0 v cur a. unfold cur_lookup. cbn [find fst snd]. destruct (a0 =? a); reflexivity.
Qed.

Lemma dup_regular_aliases_sound : forall als cur P P' kept cur',
  cur_sound cur P ->
  (forall p, In p P' <-> In p P) ->
  dup_regular_aliases cur als = (kept, cur') ->
  cur_sound cur' (P ++ map (fun al => (ibound al, itarget al)) als) /\
  (forall p, In p (P' ++ map (fun al => (ibound al, itarget al)) kept) <->
             In p (P ++ map (fun al => (ibound al, itarget al)) als)).
Proof.
  induction als as [|al als IH]; intros cur P P' kept cur' Hs Hp Hd; cbn [dup_regular_aliases] in Hd.
  - inversion Hd. subst. cbn [map]. rewrite !app_nil_r. split; [exact Hs|exact Hp].
  - set (k := inorm al) in *.
    assert (Hk : (ibound k, itarget k) = (ibound al, itarget al)) by apply inorm_bind.
    assert (Hkeep : forall r c,
              dup_regular_aliases ((ibound al, Some k) :: cur) als = (r, c) ->
              kept = k :: r -> cur' = c ->
              cur_sound cur' (P ++ map (fun al => (ibound al, itarget al)) (al :: als)) /\
              (forall p, In p (P' ++ map (fun al => (ibound al, itarget al)) kept) <->
                         In p (P ++ map (fun al => (ibound al, itarget al)) (al :: als)))).
    { intros r c Hrc Hkept Hcur. subst kept cur'.
      specialize (IH ((ibound al, Some k) :: cur) (P ++ [(ibound al, itarget al)])
                     (P' ++ [(ibound al, itarget al)]) r c).
      destruct IH as [IH1 IH2].
      - intros a k0 Hl. rewrite cur_lookup_cons in Hl. destruct (ibound al =? a) eqn:Ea.
        + inversion Hl. subst k0. apply in_or_app. right. left. symmetry. exact Hk.
        + apply in_or_app. left. apply (Hs a k0 Hl).
      - intros p. rewrite !in_app_iff. rewrite Hp. tauto.
      - exact Hrc.
      - cbn [map]. rewrite <- !app_assoc in IH1, IH2. cbn [app] in IH1, IH2. split; [exact IH1|].
        intros p. cbn [map]. rewrite Hk. rewrite IH2. rewrite <- ?app_assoc. cbn [app]. tauto. }
    destruct (cur_lookup cur (ibound al)) as [[k'|]|] eqn:El.
    + destruct (ialias_eqb k k') eqn:Ek.
      * apply ialias_eqb_eq in Ek. subst k'.
        specialize (IH cur (P ++ [(ibound al, itarget al)]) P' kept cur').
        destruct IH as [IH1 IH2].
        -- intros a k0 Hl. apply in_or_app. left. exact (Hs a k0 Hl).
        -- intros p. rewrite in_app_iff, Hp. split; [tauto|]. intros [H|[H|[]]]; [exact H|].
           subst p. rewrite <- Hk. exact (Hs _ _ El).
        -- exact Hd.
        -- cbn [map]. rewrite <- !app_assoc in IH1, IH2. cbn [app] in IH1, IH2. split; assumption.
      * destruct (dup_regular_aliases ((ibound al, Some k) :: cur) als) as [r c] eqn:Erc.
        injection Hd as H0 H1. subst kept cur'. apply (Hkeep r c); reflexivity.
    + destruct (dup_regular_aliases ((ibound al, Some k) :: cur) als) as [r c] eqn:Erc.
      injection Hd as H0 H1. subst kept cur'. apply (Hkeep r c); reflexivity.
    + destruct (dup_regular_aliases ((ibound al, Some k) :: cur) als) as [r c] eqn:Erc.
      injection Hd as H0 H1. subst kept cur'. apply (Hkeep r c); reflexivity.
Qed.

Lemma cur_lookup_from_prefix : forall (als : list falias) cur a k,
  cur_lookup (map (fun al => (fbound al, @None ialias)) als ++ cur) a = Some (Some k) ->
  cur_lookup cur a = Some (Some k).
Proof.
  induction als as [|al als IH]; intros cur a k H; cbn [map app] in H; [exact H|].
  rewrite cur_lookup_cons in H. destruct (fbound al =? a); [discriminate|]. apply IH. exact H.
Qed.

Lemma dup_regular_from_binds : forall l cur P P',
  cur_sound cur P ->
  (forall p, In p P' <-> In p P) ->
  forall p, In p (P' ++ all_binds (dup_regular_from cur l)) <-> In p (P ++ all_binds l).
Proof.
  induction l as [|s l IH]; intros cur P P' Hs Hp p.
  - cbn [dup_regular_from all_binds flat_map]. rewrite !app_nil_r. apply Hp.
  - destruct s as [std m als|als]; cbn [dup_regular_from].
    + unfold all_binds. cbn [flat_map]. rewrite !app_assoc. apply IH.
      * intros a k Hl. apply cur_lookup_from_prefix in Hl. apply in_or_app. left. exact (Hs a k Hl).
      * intros q. rewrite !in_app_iff, Hp. tauto.
    + destruct (dup_regular_aliases cur als) as [kept cur'] eqn:Ed.
      destruct (dup_regular_aliases_sound als cur P P' kept cur' Hs Hp Ed) as [Hs' Hk].
      destruct (length kept =? length als).
      * unfold all_binds. cbn [flat_map stmt_binds]. rewrite !app_assoc. apply IH; [exact Hs'|].
        intros q. rewrite !in_app_iff, Hp. tauto.
      * destruct kept as [|k0 kept'] eqn:Ekept.
        -- unfold all_binds. cbn [flat_map stmt_binds]. rewrite (app_assoc P).
           apply IH; [exact Hs'|]. intros q. rewrite <- Hk. cbn [map]. rewrite app_nil_r. tauto.
        -- unfold all_binds. cbn [flat_map stmt_binds]. rewrite !app_assoc. apply IH; [exact Hs'|].
           intros q. rewrite <- Hk. rewrite !in_app_iff.
           assert (Hperm : In q (map (fun al => (ibound al, itarget al)) (sort_by ikey (k0 :: kept'))) <->
                           In q (map (fun al => (ibound al, itarget al)) (k0 :: kept'))).
           { split; intros H.
             - eapply Permutation_in; [|exact H]. apply Permutation_map. apply sort_by_perm.
             - eapply Permutation_in; [|exact H]. apply Permutation_map. apply Permutation_sym. apply sort_by_perm. }
           rewrite Hperm. tauto.
Qed.

Theorem dup_regular_env : forall l a, coherent l = true -> env (dup_regular l) a = env l a.
Proof.
  intros l a Hc. apply env_same_binds; [exact Hc|].
  intros p. symmetry. unfold dup_regular.
  apply (dup_regular_from_binds l [] [] []).
  - intros a0 k H. unfold cur_lookup in H. cbn [find] in H. discriminate.
  - tauto.
Qed.

(* `import 0; import 0, 4 as 6, 2 as 6`: the second statement loses `0` and is re-emitted sorted *)
Definition dup_regular_witness : list stmt :=
  [SImport [(0, None, 0, false)]; SImport [(0, None, 0, false); (4, Some 6, 4, false); (2, Some 6, 2, false)]].
Theorem dup_regular_refuted : exists l a, env (dup_regular l) a <> env l a.
Proof. exists dup_regular_witness, 6. vm_compute. discriminate. Qed.

(* ---- _fix_duplicate_from_imports *)
Lemma runs_concat : forall X (p : X -> bool) l cur, concat (runs p l cur) = rev cur ++ l.
Proof.
  intros X p l. induction l as [|x l IH]; intros cur; cbn [runs].
  - destruct cur; cbn [concat rev app]; [reflexivity|]. rewrite !app_nil_r. reflexivity.
  - destruct (p x).
    + rewrite IH. cbn [rev]. rewrite <- app_assoc. reflexivity.
    + destruct cur as [|c cur'].
      * cbn [concat rev app]. rewrite IH. reflexivity.
      * cbn [concat]. rewrite IH. cbn [rev app]. rewrite <- !app_assoc. reflexivity.
Qed.

Lemma in_group_aliases : forall m whole al,
  In al (group_aliases m whole) <->
  exists std als al0, In (SFrom std m als) whole /\ In al0 als /\ al = fnorm al0.
Proof.
  intros m whole al. unfold group_aliases. rewrite in_flat_map. split.
  - intros [s [Hs Hal]]. destruct s as [std m' als|als]; [|destruct Hal].
    destruct (m' =? m) eqn:E; [|destruct Hal]. apply Nat.eqb_eq in E. subst m'.
    apply in_map_iff in Hal. destruct Hal as [al0 [Heq Hin]]. exists std, als, al0. auto.
  - intros [std [als [al0 [Hs [Hin Heq]]]]]. exists (SFrom std m als). split; [exact Hs|].
    rewrite Nat.eqb_refl. apply in_map_iff. exists al0. auto.
Qed.

Lemma merged_binds : forall std m whole p,
  In p (stmt_binds (SFrom std m (sort_by fkey (dedup_by falias_eqb (group_aliases m whole))))) <->
  exists std' als, In (SFrom std' m als) whole /\ In p (stmt_binds (SFrom std' m als)).
Proof.
  intros std m whole p. cbn [stmt_binds]. rewrite in_map_iff. split.
  - intros [al [Hp Hal]].
    apply (Permutation_in _ (sort_by_perm _ fkey _)) in Hal.
    apply (proj1 (dedup_by_In _ falias_eqb _ al falias_eqb_eq)) in Hal.
    apply (proj1 (in_group_aliases _ _ _)) in Hal. destruct Hal as [std' [als [al0 [Hs [Hin Heq]]]]].
    exists std', als. split; [exact Hs|]. apply in_map_iff. exists al0. split; [|exact Hin].
    rewrite <- Hp, Heq. symmetry. apply fnorm_bind.
  - intros [std' [als [Hs Hp]]]. apply in_map_iff in Hp. destruct Hp as [al0 [Hp Hin]].
    exists (fnorm al0). split; [rewrite <- Hp; apply fnorm_bind|].
    apply (Permutation_in _ (Permutation_sym (sort_by_perm _ fkey _))).
    apply (proj2 (dedup_by_In _ falias_eqb _ _ falias_eqb_eq)).
    apply (proj2 (in_group_aliases _ _ _)). exists std', als, al0. auto.
Qed.

(* everything the merged group binds is bound by the group *)
Lemma merge_group_sub : forall whole gr seen p,
  incl gr whole ->
  In p (all_binds (merge_group_from seen whole gr)) -> In p (all_binds whole).
Proof.
  intros whole. induction gr as [|s gr IH]; intros seen p Hincl Hin; cbn [merge_group_from] in Hin.
  - destruct Hin.
  - assert (Hgr : incl gr whole) by (intros x Hx; apply Hincl; right; exact Hx).
    assert (Hs : In s whole) by (apply Hincl; left; reflexivity).
    assert (Hkeep : In p (all_binds (s :: merge_group_from seen whole gr)) -> In p (all_binds whole)).
    { unfold all_binds at 1. cbn [flat_map]. intros H. apply in_app_or in H. destruct H as [H|H].
      - unfold all_binds. apply in_flat_map. exists s. auto.
      - apply (IH seen p Hgr H). }
    destruct s as [std m als|als]; [|exact (Hkeep Hin)].
    destruct (2 <=? count_mod m whole); [|exact (Hkeep Hin)].
    destruct (mem m seen); [exact (IH seen p Hgr Hin)|].
    unfold all_binds at 1 in Hin. cbn [flat_map] in Hin. apply in_app_or in Hin. destruct Hin as [H|H].
    + apply merged_binds in H. destruct H as [std' [als' [Hw Hp]]].
      unfold all_binds. apply in_flat_map. exists (SFrom std' m als'). auto.
    + exact (IH (m :: seen) p Hgr H).
Qed.

(* everything the group binds is bound by the merged group, or belongs to an already emitted module *)
Lemma merge_group_sup : forall whole gr seen p,
  incl gr whole ->
  In p (all_binds gr) ->
  In p (all_binds (merge_group_from seen whole gr)) \/
  exists std m als, In (SFrom std m als) gr /\ In p (stmt_binds (SFrom std m als)) /\ mem m seen = true.
Proof.
  intros whole. induction gr as [|s gr IH]; intros seen p Hincl Hin.
  - destruct Hin.
  - assert (Hgr : incl gr whole) by (intros x Hx; apply Hincl; right; exact Hx).
    assert (Hs : In s whole) by (apply Hincl; left; reflexivity).
    unfold all_binds in Hin. cbn [flat_map] in Hin. apply in_app_or in Hin.
    cbn [merge_group_from].
    assert (Hkeep : In p (all_binds (s :: merge_group_from seen whole gr)) \/
                    exists std m als, In (SFrom std m als) (s :: gr) /\
                                      In p (stmt_binds (SFrom std m als)) /\ mem m seen = true).
    { destruct Hin as [H|H].
      - left. unfold all_binds. cbn [flat_map]. apply in_or_app. left. exact H.
      - destruct (IH seen p Hgr H) as [H'|[std [m [als [H1 [H2 H3]]]]]].
        + left. unfold all_binds. cbn [flat_map]. apply in_or_app. right. exact H'.
        + right. exists std, m, als. split; [right; exact H1|auto]. }
    destruct s as [std m als|als]; [|exact Hkeep].
    destruct (2 <=? count_mod m whole); [|exact Hkeep].
    destruct (mem m seen) eqn:Eseen.
    + destruct Hin as [H|H].
      * right. exists std, m, als. split; [left; reflexivity|auto].
      * destruct (IH seen p Hgr H) as [H'|[std' [m' [als' [H1 [H2 H3]]]]]]; [left; exact H'|].
        right. exists std', m', als'. split; [right; exact H1|auto].
    + destruct Hin as [H|H].
      * left. unfold all_binds. cbn [flat_map]. apply in_or_app. left.
        apply merged_binds. exists std, als. auto.
      * destruct (IH (m :: seen) p Hgr H) as [H'|[std' [m' [als' [H1 [H2 H3]]]]]].
        -- left. unfold all_binds. cbn [flat_map]. apply in_or_app. right. exact H'.
        -- unfold mem in H3. cbn [existsb] in H3. apply orb_true_iff in H3. destruct H3 as [H3|H3].
           ++ apply Nat.eqb_eq in H3. subst m'. left. unfold all_binds. cbn [flat_map].
              apply in_or_app. left. apply merged_binds. exists std', als'. split; [apply Hgr; exact H1|exact H2].
           ++ right. exists std', m', als'. split; [right; exact H1|auto].
Qed.

Lemma merge_group_binds : forall gr p,
  In p (all_binds (merge_group_from [] gr gr)) <-> In p (all_binds gr).
Proof.
  intros gr p. split.
  - apply merge_group_sub. apply incl_refl.
  - intros H. destruct (merge_group_sup gr gr [] p (incl_refl gr) H) as [H'|[std [m [als [_ [_ H3]]]]]];
      [exact H'|discriminate].
Qed.

Lemma all_binds_concat : forall (ls : list (list stmt)) (f : list stmt -> list stmt) p,
  (forall gr, In p (all_binds (f gr)) <-> In p (all_binds gr)) ->
  (In p (all_binds (flat_map f ls)) <-> In p (all_binds (concat ls))).
Proof.
  intros ls f p H. induction ls as [|gr ls IH]; cbn [flat_map concat]; [tauto|].
  unfold all_binds in *. rewrite !flat_map_app, !in_app_iff, IH, H. tauto.
Qed.

Theorem dup_from_same_binds : forall l, same_binds l (dup_from l).
Proof.
  intros l p. unfold dup_from. symmetry.
  rewrite (all_binds_concat (runs is_from l []) _ p).
  - rewrite runs_concat. cbn [rev app]. tauto.
  - intros gr. destruct gr as [|s gr']; [tauto|].
    destruct (is_from s); [apply merge_group_binds|tauto].
Qed.

Theorem dup_from_env : forall l a, coherent l = true -> env (dup_from l) a = env l a.
Proof. intros l a Hc. apply env_same_binds; [exact Hc|apply dup_from_same_binds]. Qed.

(* `from 0 import 2; from 4 import 2; from 0 import 2`: the third statement is merged into the first *)
Definition dup_from_witness : list stmt :=
  [SFrom false 0 [(2, None)]; SFrom false 4 [(2, None)]; SFrom false 0 [(2, None)]].
Theorem dup_from_refuted : exists l a, env (dup_from l) a <> env l a.
Proof. exists dup_from_witness, 2. vm_compute. discriminate. Qed.

(* non-vacuity: a coherent list on which every guarded rule does something (the two sort rules need no guard
   any more and leave this list alone: it imports module 10 twice; sort_example below is for them) *)
Definition coherent_example : list stmt :=
  [SFrom false 4 [(6, None); (2, Some 8)]; SFrom false 4 [(2, None)];
   SImport [(10, None, 10, true); (0, Some 12, 0, false)];
   SFrom false 0 [(2, Some 14)]; SImport [(10, None, 10, true)]].
Example coherent_example_ok :
  coherent coherent_example = true /\
  order_matters coherent_example = true /\ sort_stmts coherent_example = coherent_example /\
  dup_from coherent_example <> coherent_example /\
  dup_regular coherent_example <> coherent_example /\
  breakout coherent_example <> coherent_example /\
  remove_unused [2; 12] coherent_example <> coherent_example.
Proof. vm_compute. split; [reflexivity|]. split; [reflexivity|]. split; [reflexivity|]. repeat split; intro H; discriminate H. Qed.

(* a run the repaired sort rules do re-order: no name bound twice, no star; statements AND aliases move *)
Definition sort_example : list stmt :=
  [SFrom false 4 [(6, None); (2, Some 8)]; SImport [(10, Some 10, 10, true)]; SFrom false 0 [(2, Some 14)]].
Example sort_example_ok :
  order_matters sort_example = false /\
  sort_stmts sort_example = [SImport [(10, Some 10, 10, true)]; SFrom false 0 [(2, Some 14)]; SFrom false 4 [(6, None); (2, Some 8)]] /\
  sort_aliases (sort_stmts sort_example) =
    [SImport [(10, None, 10, true)]; SFrom false 0 [(2, Some 14)]; SFrom false 4 [(2, Some 8); (6, None)]].
Proof. vm_compute. repeat split; reflexivity. Qed.

(* =========================================================================================== *)
(* T18.1  star expansion and re-export redirection preserve `resolve`                            *)

(* ---- fuel: a result other than Timeout is stable *)
Lemma scan_mono : forall (rec rec' : modname -> name -> res) g m n bs,
  (forall m' x, rec m' x <> Timeout -> rec' m' x = rec m' x) ->
  scan rec g m n bs <> Timeout -> scan rec' g m n bs = scan rec g m n bs.
Proof.
  intros rec rec' g m n bs Hrec. induction bs as [|b bs IH]; intros Hnt; cbn [scan] in *; [reflexivity|].
  destruct b as [x|x|m' x a|m'|m' a d].
  - destruct (x =? n); [reflexivity|apply IH; exact Hnt].
  - destruct (x =? n); [reflexivity|apply IH; exact Hnt].
  - destruct (a =? n); [apply Hrec; exact Hnt|apply IH; exact Hnt].
  - destruct (find_mod g m') as [mi'|]; [|apply IH; exact Hnt].
    destruct (exported mi' n); [|apply IH; exact Hnt].
    destruct (rec m' n) as [t| |] eqn:E.
    + rewrite (Hrec m' n) by (rewrite E; discriminate). rewrite E. reflexivity.
    + rewrite (Hrec m' n) by (rewrite E; discriminate). rewrite E. apply IH. exact Hnt.
    + exfalso. apply Hnt. reflexivity.
  - destruct (a =? n); [reflexivity|apply IH; exact Hnt].
Qed.

Theorem resolve_mono : forall f g m n,
  resolve f g m n <> Timeout -> resolve (S f) g m n = resolve f g m n.
Proof.
  induction f as [|f IH]; intros g m n Hnt; [exfalso; apply Hnt; reflexivity|].
  cbn [resolve] in *. destruct (find_mod g m) as [mi|]; [|reflexivity].
  apply scan_mono; [|exact Hnt]. intros m' x H. apply IH. exact H.
Qed.

Lemma resolve_mono_plus : forall k f g m n,
  resolve f g m n <> Timeout -> resolve (k + f) g m n = resolve f g m n.
Proof.
  induction k as [|k IH]; intros f g m n H; [reflexivity|].
  cbn [plus]. rewrite resolve_mono; [apply IH; exact H|]. rewrite IH; exact H.
Qed.

(* ---- scanning depends on the resolver / graph only through the modules a body imports from *)
Lemma scan_ext : forall (rec rec' : modname -> name -> res) g g' m n bs,
  (forall b s, In b bs -> import_source b = Some s ->
               (forall x, rec' s x = rec s x) /\ find_mod g' s = find_mod g s) ->
  scan rec' g' m n bs = scan rec g m n bs.
Proof.
  intros rec rec' g g' m n bs. induction bs as [|b bs IH]; intros H; cbn [scan]; [reflexivity|].
  assert (IH' : scan rec' g' m n bs = scan rec g m n bs).
  { apply IH. intros b0 s Hin Hs. apply (H b0 s); [right; exact Hin|exact Hs]. }
  destruct b as [x|x|m' x a|m'|m' a d]; try (rewrite IH'; reflexivity).
  - destruct (H (From m' x a) m' (or_introl eq_refl) eq_refl) as [Hr _]. rewrite Hr, IH'. reflexivity.
  - destruct (H (Star m') m' (or_introl eq_refl) eq_refl) as [Hr Hf]. rewrite Hf, Hr, IH'. reflexivity.
Qed.

(* ---- the block of explicit imports a star is replaced with *)
Lemma scan_from_block : forall rec g c n m L X,
  scan rec g c n (map (fun x => From m x x) L ++ X) =
  if mem n L then rec m n else scan rec g c n X.
Proof.
  intros rec g c n m L X. induction L as [|x L IH]; cbn [map app scan]; [reflexivity|].
  unfold mem. cbn [existsb]. fold (mem n L). rewrite (Nat.eqb_sym n x).
  destruct (x =? n) eqn:E; cbn [orb]; [|exact IH].
  apply Nat.eqb_eq in E. subst. reflexivity.
Qed.

Lemma insert_nat_In : forall x l y, In y (insert_nat x l) <-> y = x \/ In y l.
Proof.
  intros x l y. induction l as [|z l IH]; cbn [insert_nat In]; [intuition|].
  destruct (x <=? z); cbn [In]; [intuition|]. rewrite IH. intuition.
Qed.

Lemma sort_nat_In : forall l y, In y (sort_nat l) <-> In y l.
Proof.
  intros l y. unfold sort_nat. induction l as [|x l IH]; cbn [fold_right In]; [tauto|].
  rewrite insert_nat_In, IH. intuition.
Qed.

Lemma mem_false_iff : forall n l, mem n l = false <-> ~ In n l.
Proof.
  intros n l. split.
  - intros H Hin. apply mem_In in Hin. rewrite H in Hin. discriminate.
  - intros H. destruct (mem n l) eqn:E; [|reflexivity]. exfalso. apply H. apply mem_In. exact E.
Qed.

Lemma dedup_In : forall l x, In x (dedup l) <-> In x l.
Proof.
  intros l x. induction l as [|y l IH]; cbn [dedup]; [tauto|].
  destruct (mem y l) eqn:E.
  - rewrite IH. split; [intros H; right; exact H|].
    intros [H|H]; [subst; apply mem_In; exact E|exact H].
  - cbn [In]. rewrite IH. tauto.
Qed.

(* Python's and the tool's opinion about one star import agree for the name n *)
Definition star_agrees (f : nat) (g : graph) (has : modname -> name -> bool) (n : name) (m : modname) : Prop :=
  has m n = py_has f g m n.

Lemma expand_rev_scan : forall f g c has n rbs pending,
  (forall m, In (Star m) rbs -> star_agrees f g has n m) ->
  In n pending ->
  scan (resolve f g) g c n rbs <> Timeout ->
  scan (resolve f g) g c n (expand_rev has rbs pending) = scan (resolve f g) g c n rbs.
Proof.
  intros f g c has n. induction rbs as [|b rbs IH]; intros pending Hag Hin Hnt; [reflexivity|].
  assert (Hag' : forall m, In (Star m) rbs -> star_agrees f g has n m).
  { intros m H. apply Hag. right. exact H. }
  destruct b as [x|x|m' x a|m'|m' a d]; cbn [expand_rev].
  - cbn [scan] in *. destruct (x =? n) eqn:E; [reflexivity|].
    apply IH; [exact Hag'|exact Hin|exact Hnt].
  - cbn [scan] in *. destruct (x =? n) eqn:E; [reflexivity|].
    apply IH; [exact Hag'|exact Hin|exact Hnt].
  - cbn [scan] in *. destruct (a =? n) eqn:E; [reflexivity|].
    apply IH; [exact Hag'|exact Hin|exact Hnt].
  - rewrite <- map_rev, scan_from_block.
    specialize (Hag m' (or_introl eq_refl)). unfold star_agrees, py_has in Hag.
    cbn [scan] in Hnt |- *.
    destruct (has m' n) eqn:Eh.
    + match goal with |- (if ?cnd then _ else _) = _ => assert (Hm : cnd = true) end.
      { apply mem_In. apply -> in_rev. apply sort_nat_In. apply filter_In. auto. }
      rewrite Hm. destruct (find_mod g m') as [mi'|]; [|discriminate].
      symmetry in Hag. apply andb_true_iff in Hag. destruct Hag as [Hex Hfound]. rewrite Hex.
      destruct (resolve f g m' n); try discriminate. reflexivity.
    + match goal with |- (if ?cnd then _ else _) = _ => assert (Hm : cnd = false) end.
      { apply mem_false_iff. intros H. apply (proj2 (in_rev _ _)) in H. apply (proj1 (sort_nat_In _ _)) in H.
        apply (proj1 (filter_In _ _ _)) in H. destruct H as [_ H]. rewrite Eh in H. discriminate. }
      rewrite Hm.
      assert (Hrest : In n (filter (fun n0 => negb (has m' n0)) pending)).
      { apply filter_In. split; [exact Hin|]. rewrite Eh. reflexivity. }
      destruct (find_mod g m') as [mi'|]; [|apply IH; assumption].
      destruct (exported mi' n); [|apply IH; assumption].
      cbn [andb] in Hag. destruct (resolve f g m' n) as [t| |]; cbn [is_found] in Hag.
      * discriminate.
      * apply IH; assumption.
      * exfalso. apply Hnt. reflexivity.
  - cbn [scan] in *. destruct (a =? n) eqn:E; [reflexivity|].
    apply IH; [exact Hag'|exact Hin|exact Hnt].
Qed.

(* ---- lifting to the graph: the client is not imported by anybody *)
Definition client_leaf (g : graph) (c : modname) : bool :=
  forallb (fun kv => forallb (fun b => match import_source b with
                                       | Some m => negb (m =? c)
                                       | None => true
                                       end) (body (snd kv))) g.

Lemma find_mod_In : forall g m mi, find_mod g m = Some mi -> In (m, mi) g.
Proof.
  induction g as [|[k v] g IH]; intros m mi H; cbn [find_mod] in H; [discriminate|].
  destruct (k =? m) eqn:E.
  - apply Nat.eqb_eq in E. inversion H. subst. left. reflexivity.
  - right. apply IH. exact H.
Qed.

Lemma find_update_other : forall g c mi' m, m <> c -> find_mod (update_mod g c mi') m = find_mod g m.
Proof.
  induction g as [|[k v] g IH]; intros c mi' m Hne; cbn [update_mod find_mod]; [reflexivity|].
  destruct (k =? c) eqn:Ec; cbn [find_mod].
  - apply Nat.eqb_eq in Ec. subst k. destruct (c =? m) eqn:Em; [|reflexivity].
    apply Nat.eqb_eq in Em. subst. exfalso. apply Hne. reflexivity.
  - destruct (k =? m); [reflexivity|]. apply IH. exact Hne.
Qed.

Lemma find_update_same : forall g c mi mi', find_mod g c = Some mi -> find_mod (update_mod g c mi') c = Some mi'.
Proof.
  induction g as [|[k v] g IH]; intros c mi mi' H; cbn [update_mod find_mod] in *; [discriminate|].
  destruct (k =? c) eqn:Ec; cbn [find_mod]; rewrite Ec; [reflexivity|]. apply (IH c mi). exact H.
Qed.

Lemma client_leaf_source : forall g c m mi b s,
  client_leaf g c = true -> find_mod g m = Some mi -> In b (body mi) -> import_source b = Some s -> s <> c.
Proof.
  intros g c m mi b s Hl Hf Hb Hs. unfold client_leaf in Hl. rewrite forallb_forall in Hl.
  specialize (Hl _ (find_mod_In _ _ _ Hf)). cbn [snd] in Hl. rewrite forallb_forall in Hl.
  specialize (Hl _ Hb). rewrite Hs in Hl. intros Heq. subst. rewrite Nat.eqb_refl in Hl. discriminate.
Qed.

Lemma resolve_update_other : forall g c mi', client_leaf g c = true ->
  forall f m n, m <> c -> resolve f (update_mod g c mi') m n = resolve f g m n.
Proof.
  intros g c mi' Hl. induction f as [|f IH]; intros m n Hne; [reflexivity|].
  cbn [resolve]. rewrite find_update_other by exact Hne.
  destruct (find_mod g m) as [mi|] eqn:Ef; [|reflexivity].
  apply scan_ext. intros b s Hb Hs. apply in_rev in Hb.
  assert (Hsc : s <> c) by exact (client_leaf_source g c m mi b s Hl Ef Hb Hs).
  split; [intros x; apply IH; exact Hsc|apply find_update_other; exact Hsc].
Qed.

Lemma expand_rev_sources : forall has rbs pending b' s,
  In b' (expand_rev has rbs pending) -> import_source b' = Some s ->
  exists b, In b rbs /\ import_source b = Some s.
Proof.
  intros has. induction rbs as [|b rbs IH]; intros pending b' s Hin Hs; [destruct Hin|].
  assert (Hcons : forall pend, In b' (b :: expand_rev has rbs pend) -> exists b0, In b0 (b :: rbs) /\ import_source b0 = Some s).
  { intros pend [H|H].
    - subst. exists b'. split; [left; reflexivity|exact Hs].
    - destruct (IH pend b' s H Hs) as [b0 [H1 H2]]. exists b0. split; [right; exact H1|exact H2]. }
  destruct b as [x|x|m' x a|m'|m' a d]; cbn [expand_rev] in Hin; try (apply (Hcons _ Hin)).
  apply in_app_or in Hin. destruct Hin as [H|H].
  - apply in_rev in H. apply in_map_iff in H. destruct H as [x [Hx _]]. subst b'. cbn [import_source] in Hs.
    exists (Star m'). split; [left; reflexivity|exact Hs].
  - destruct (IH _ b' s H Hs) as [b0 [H1 H2]]. exists b0. split; [right; exact H1|exact H2].
Qed.

(* boolean form of the guard: on every star import of the client, for every referenced name, the
   tool's test (trace_origin) and Python's star-import semantics give the same answer *)
Definition stars_agree (f F : nat) (g : graph) (bs : list binding) (used : list name) : bool :=
  forallb (fun b => match b with
                    | Star m => forallb (fun n => Bool.eqb (star_ok g m n && t_has F g m n) (py_has f g m n)) used
                    | _ => true
                    end) bs.

Theorem star_expansion_partial : forall f F g c mi used n,
  find_mod g c = Some mi ->
  client_leaf g c = true ->
  stars_agree f F g (body mi) used = true ->
  In n used ->
  resolve (S f) g c n <> Timeout ->
  resolve (S f) (update_mod g c (set_body mi (fix_starred F g (body mi) used))) c n = resolve (S f) g c n.
Proof.
  intros f F g c mi used n Hf Hl Hag Hn Hnt.
  cbn [resolve] in *. rewrite (find_update_same g c mi _ Hf). rewrite Hf in *. cbn [set_body body].
  unfold fix_starred. destruct (has_star (body mi)).
  - rewrite rev_involutive.
    set (has := fun m n0 => star_ok g m n0 && t_has F g m n0).
    rewrite (scan_ext (resolve f g) _ g _ c n).
    + apply expand_rev_scan; [| apply dedup_In; exact Hn | exact Hnt].
      intros m Hm. apply in_rev in Hm. unfold star_agrees, has.
      unfold stars_agree in Hag. rewrite forallb_forall in Hag. specialize (Hag _ Hm). cbn in Hag.
      rewrite forallb_forall in Hag. specialize (Hag _ Hn). apply eqb_prop in Hag. exact Hag.
    + intros b s Hb Hs. destruct (expand_rev_sources _ _ _ _ _ Hb Hs) as [b0 [Hb0 Hs0]].
      apply in_rev in Hb0.
      assert (Hsc : s <> c) by exact (client_leaf_source g c c mi b0 s Hl Hf Hb0 Hs0).
      split; [intros x; apply resolve_update_other; assumption|apply find_update_other; exact Hsc].
  - apply scan_ext. intros b s Hb Hs. apply in_rev in Hb.
    assert (Hsc : s <> c) by exact (client_leaf_source g c c mi b s Hl Hf Hb Hs).
    split; [intros x; apply resolve_update_other; assumption|apply find_update_other; exact Hsc].
Qed.

(* the guard is needed: module 10 contains `import 20.x` (binds the head 20, which trace_origin does
   not see); the client `from 10 import *` references 20 *)
Definition star_witness_graph : graph :=
  [(10, MkMod false None [Import 20 20 true]); (30, MkMod false None [Star 10])].
Theorem star_expansion_refuted : exists f F g c mi used n,
  find_mod g c = Some mi /\ client_leaf g c = true /\ In n used /\
  resolve (S f) g c n <> Timeout /\
  resolve (S f) (update_mod g c (set_body mi (fix_starred F g (body mi) used))) c n <> resolve (S f) g c n.
Proof.
  exists 5, 5, star_witness_graph, 30, (MkMod false None [Star 10]), [20], 20.
  vm_compute. repeat split; try discriminate. left. reflexivity.
Qed.

(* ---- re-export redirection *)
Definition py_match (f : nat) (g : graph) (n : name) (b : binding) : bool :=
  match b with
  | Star m' => py_has f g m' n
  | _ => binds b n
  end.

Definition bvalue (rec : modname -> name -> res) (c : modname) (n : name) (b : binding) : res :=
  match b with
  | Def x => Found (TObj c x)
  | Assign x => Found (TObj c x)
  | From m x _ => rec m x
  | Import m _ _ => Found (TMod m)
  | Star m => rec m n
  end.

(* Python's scan stops at the first (= last in file order) statement that provides n *)
Lemma scan_find : forall f g m n rbs,
  scan (resolve f g) g m n rbs <> Timeout ->
  scan (resolve f g) g m n rbs =
  match find (py_match f g n) rbs with
  | Some b => bvalue (resolve f g) m n b
  | None => Unbound
  end.
Proof.
  intros f g m n. induction rbs as [|b rbs IH]; intros Hnt; [reflexivity|].
  cbn [scan find] in *. destruct b as [x|x|m' x a|m'|m' a d]; cbn [py_match binds bvalue].
  - destruct (x =? n); [reflexivity|apply IH; exact Hnt].
  - destruct (x =? n); [reflexivity|apply IH; exact Hnt].
  - destruct (a =? n); [reflexivity|apply IH; exact Hnt].
  - unfold py_has. destruct (find_mod g m') as [mi'|]; [|apply IH; exact Hnt].
    destruct (exported mi' n); cbn [andb]; [|apply IH; exact Hnt].
    destruct (resolve f g m' n) as [t| |] eqn:E; cbn [is_found].
    + cbn [bvalue]. symmetry. exact E.
    + apply IH. exact Hnt.
    + exfalso. apply Hnt. reflexivity.
  - destruct (a =? n); [reflexivity|apply IH; exact Hnt].
Qed.

Lemma find_ext_in : forall X (p q : X -> bool) l, (forall x, In x l -> p x = q x) -> find p l = find q l.
Proof.
  intros X p q l. induction l as [|x l IH]; intros H; cbn [find]; [reflexivity|].
  rewrite (H x (or_introl eq_refl)). destruct (q x); [reflexivity|].
  apply IH. intros y Hy. apply H. right. exact Hy.
Qed.

(* a star-free statement list: the value of n is that of the first statement binding it *)
Lemma scan_nostar : forall rec g c n rbs,
  has_star rbs = false ->
  scan rec g c n rbs =
  match find (fun b => binds b n) rbs with
  | Some b => bvalue rec c n b
  | None => Unbound
  end.
Proof.
  intros rec g c n. induction rbs as [|b rbs IH]; intros Hs; [reflexivity|].
  unfold has_star in Hs. cbn [existsb] in Hs. apply orb_false_iff in Hs. destruct Hs as [Hb Hs].
  cbn [scan find]. destruct b as [x|x|m' x a|m'|m' a d]; cbn [binds bvalue]; try discriminate.
  - destruct (x =? n); [reflexivity|apply IH; exact Hs].
  - destruct (x =? n); [reflexivity|apply IH; exact Hs].
  - destruct (a =? n); [reflexivity|apply IH; exact Hs].
  - destruct (a =? n); [reflexivity|apply IH; exact Hs].
Qed.

Lemma count_binders_app : forall n l1 l2, count_binders n (l1 ++ l2) = count_binders n l1 + count_binders n l2.
Proof. intros n l1 l2. unfold count_binders. rewrite filter_app, app_length. reflexivity. Qed.

Lemma count_binders_rev : forall n l, count_binders n (rev l) = count_binders n l.
Proof.
  intros n l. induction l as [|b l IH]; [reflexivity|].
  cbn [rev]. rewrite count_binders_app, IH. unfold count_binders. cbn [filter].
  destruct (binds b n); cbn [length]; lia.
Qed.

Lemma count_zero_none : forall n l, count_binders n l = 0 -> forall b, In b l -> binds b n = false.
Proof.
  intros n l. induction l as [|b0 l IH]; intros H b Hin; [destruct Hin|].
  unfold count_binders in H. cbn [filter] in H. destruct (binds b0 n) eqn:E; [cbn [length] in H; lia|].
  destruct Hin as [Heq|Hin]; [subst; exact E|apply IH; assumption].
Qed.

(* with at most one binder, `find` returns THE binder wherever it stands *)
Lemma find_unique : forall n l b,
  count_binders n l <= 1 -> In b l -> binds b n = true -> find (fun b0 => binds b0 n) l = Some b.
Proof.
  intros n l. induction l as [|b0 l IH]; intros b Hc Hin Hb; [destruct Hin|].
  cbn [find]. unfold count_binders in Hc. cbn [filter] in Hc.
  destruct (binds b0 n) eqn:E.
  - cbn [length] in Hc. destruct Hin as [Heq|Hin]; [subst; reflexivity|].
    assert (Hz : count_binders n l = 0) by (unfold count_binders; lia).
    rewrite (count_zero_none n l Hz b Hin) in Hb. discriminate.
  - destruct Hin as [Heq|Hin]; [subst; rewrite Hb in E; discriminate|]. apply IH; assumption.
Qed.

Lemma find_none_count : forall n l, count_binders n l = 0 -> find (fun b0 => binds b0 n) l = None.
Proof.
  intros n l H. induction l as [|b0 l IH]; [reflexivity|]. cbn [find].
  rewrite (count_zero_none n _ H b0 (or_introl eq_refl)). apply IH.
  unfold count_binders in *. cbn [filter] in H. destruct (binds b0 n); [cbn [length] in H; lia|exact H].
Qed.

(* redirect1 keeps the local name *)
Lemma redirect1_binds : forall F std g b b' n, redirect1 F std g b = Some b' -> binds b' n = binds b n.
Proof.
  intros F std g b b' n H. destruct b as [x|x|m x a|m|m a d]; cbn [redirect1] in H; try discriminate.
  destruct (redirectable std g m) as [mi|]; [|discriminate].
  destruct (t_trace F g true mi x) as [[y|y|m2 x0 a0|m2|m2 a0 d0]|]; try discriminate;
    inversion H; subst; reflexivity.
Qed.

Lemma redirect1_nostar : forall F std g b b', redirect1 F std g b = Some b' ->
  match b' with Star _ => False | _ => True end.
Proof.
  intros F std g b b' H. destruct b as [x|x|m x a|m|m a d]; cbn [redirect1] in H; try discriminate.
  destruct (redirectable std g m) as [mi|]; [|discriminate].
  destruct (t_trace F g true mi x) as [[y|y|m2 x0 a0|m2|m2 a0 d0]|]; try discriminate;
    inversion H; subst; exact I.
Qed.

Definition phi (F : nat) (std : modname -> bool) (g : graph) (b : binding) : binding :=
  match redirect1 F std g b with Some b' => b' | None => b end.

Lemma before_from_split : forall bs, before_imports bs ++ from_first_import bs = bs.
Proof.
  induction bs as [|b bs IH]; [reflexivity|]. cbn [before_imports from_first_import].
  destruct (is_import b); [reflexivity|]. cbn [app]. rewrite IH. reflexivity.
Qed.

Lemma before_imports_stay : forall F std g bs, filter (stays F std g) (before_imports bs) = before_imports bs.
Proof.
  intros F std g. induction bs as [|b bs IH]; [reflexivity|]. cbn [before_imports].
  destruct (is_import b) eqn:E; [reflexivity|]. cbn [filter].
  assert (Hs : stays F std g b = true).
  { unfold stays. destruct b; cbn [is_import] in E; try discriminate; reflexivity. }
  rewrite Hs, IH. reflexivity.
Qed.

Lemma before_imports_moved : forall F std g bs, moved F std g (before_imports bs) = [].
Proof.
  intros F std g. induction bs as [|b bs IH]; [reflexivity|]. cbn [before_imports].
  destruct (is_import b) eqn:E; [reflexivity|]. unfold moved. cbn [flat_map]. fold (moved F std g (before_imports bs)).
  rewrite IH. destruct b; cbn [is_import] in E; try discriminate; reflexivity.
Qed.

Lemma moved_app : forall F std g l1 l2, moved F std g (l1 ++ l2) = moved F std g l1 ++ moved F std g l2.
Proof. intros. unfold moved. apply flat_map_app. Qed.

(* the rewritten client contains exactly phi b for every b, possibly in another order *)
Lemma fix_reimported_In : forall F std g bs b',
  In b' (fix_reimported F std g bs) <-> exists b, In b bs /\ phi F std g b = b'.
Proof.
  intros F std g bs b'. unfold fix_reimported. rewrite !in_app_iff.
  assert (Hm : forall l, In b' (moved F std g l) <-> exists b, In b l /\ redirect1 F std g b = Some b').
  { intros l. unfold moved. rewrite in_flat_map. split.
    - intros [b [Hb H]]. exists b. split; [exact Hb|]. destruct (redirect1 F std g b); [|destruct H].
      destruct H as [H|[]]. subst. reflexivity.
    - intros [b [Hb H]]. exists b. split; [exact Hb|]. rewrite H. left. reflexivity. }
  assert (Hsplit : forall b, In b bs <-> In b (before_imports bs) \/ In b (from_first_import bs)).
  { intros b. rewrite <- in_app_iff, before_from_split. tauto. }
  split.
  - intros [H|[H|H]].
    + exists b'. split; [apply Hsplit; left; exact H|]. unfold phi.
      rewrite <- (before_imports_stay F std g bs) in H. apply filter_In in H. destruct H as [_ H].
      unfold stays in H. destruct (redirect1 F std g b'); [discriminate|reflexivity].
    + apply Hm in H. destruct H as [b [Hb H]]. exists b. split; [exact Hb|]. unfold phi. rewrite H. reflexivity.
    + apply filter_In in H. destruct H as [Hb H]. exists b'. split; [apply Hsplit; right; exact Hb|].
      unfold phi, stays in *. destruct (redirect1 F std g b'); [discriminate|reflexivity].
  - intros [b [Hb Hphi]]. unfold phi in Hphi. destruct (redirect1 F std g b) as [b''|] eqn:E.
    + subst b''. right. left. apply Hm. exists b. auto.
    + subst b'. apply Hsplit in Hb. destruct Hb as [Hb|Hb]; [left; exact Hb|].
      right. right. apply filter_In. split; [exact Hb|]. unfold stays. rewrite E. reflexivity.
Qed.

Lemma count_moved_stays : forall F std g n l,
  count_binders n (moved F std g l) + count_binders n (filter (stays F std g) l) = count_binders n l.
Proof.
  intros F std g n. induction l as [|b l IH]; [reflexivity|].
  unfold moved. cbn [flat_map filter]. fold (moved F std g l). unfold stays at 1.
  destruct (redirect1 F std g b) as [b'|] eqn:E.
  - rewrite count_binders_app. unfold count_binders at 1. cbn [filter].
    rewrite (redirect1_binds F std g b b' n E).
    unfold count_binders at 3. cbn [filter]. fold (count_binders n l).
    destruct (binds b n); cbn [length]; unfold count_binders in *; lia.
  - cbn [app]. unfold count_binders at 2 3. cbn [filter].
    destruct (binds b n); cbn [length]; unfold count_binders in *; lia.
Qed.

Lemma fix_reimported_count : forall F std g n bs,
  count_binders n (fix_reimported F std g bs) = count_binders n bs.
Proof.
  intros F std g n bs. unfold fix_reimported. rewrite !count_binders_app.
  rewrite <- (before_from_split bs) at 2 4. rewrite moved_app, before_imports_moved. cbn [app].
  rewrite count_binders_app.
  rewrite <- (count_moved_stays F std g n (from_first_import bs)). lia.
Qed.

Lemma fix_reimported_nostar : forall F std g bs, has_star bs = false -> has_star (fix_reimported F std g bs) = false.
Proof.
  intros F std g bs H. unfold has_star in *. destruct (existsb _ (fix_reimported F std g bs)) eqn:E; [|reflexivity].
  apply existsb_exists in E. destruct E as [b' [Hin Hb']].
  apply fix_reimported_In in Hin. destruct Hin as [b [Hb Hphi]]. unfold phi in Hphi.
  destruct (redirect1 F std g b) as [b''|] eqn:Er.
  - subst b''. pose proof (redirect1_nostar F std g b b' Er) as Hn. destruct b'; try discriminate. destruct Hn.
  - subst b'. assert (Hex : existsb (fun b0 => match b0 with Star _ => true | _ => false end) bs = true).
    { apply existsb_exists. exists b. auto. }
    rewrite H in Hex. discriminate.
Qed.

(* the guard: for every redirected `from m import x`, the tool's trace of x in m and Python's scan of
   m agree on every statement of m *)
Definition redirect_agrees (f F : nat) (std : modname -> bool) (g : graph) (bs : list binding) : bool :=
  forallb (fun b => match b with
                    | From m x _ =>
                      match redirectable std g m with
                      | Some mi_m => forallb (fun b0 => Bool.eqb (t_match g (t_has F g) x b0) (py_match f g x b0)) (body mi_m)
                      | None => true
                      end
                    | _ => true
                    end) bs.

Lemma redirectable_find : forall std g m mi, redirectable std g m = Some mi -> find_mod g m = Some mi /\ has_all mi = None.
Proof.
  intros std g m mi H. unfold redirectable in H. destruct (std m); [discriminate|].
  destruct (find_mod g m) as [mi0|]; [|discriminate]. destruct (is_init mi0); [discriminate|].
  destruct (has_all mi0) eqn:Ea; [discriminate|]. inversion H. subst. auto.
Qed.

(* value of a redirected statement (one more unit of fuel on the new side) *)
Lemma redirect1_value : forall f F std g c b b' n,
  redirect1 F std g b = Some b' ->
  redirect_agrees f F std g [b] = true ->
  bvalue (resolve (S f) g) c n b <> Timeout ->
  bvalue (resolve (S f) g) c n b' = bvalue (resolve (S f) g) c n b.
Proof.
  intros f F std g c b b' n Hr Hag Hnt.
  destruct b as [x|x|m x a|m|m a d]; cbn [redirect1] in Hr; try discriminate.
  unfold redirect_agrees in Hag. cbn [forallb] in Hag. rewrite andb_true_r in Hag.
  destruct (redirectable std g m) as [mi|] eqn:Erd; [|discriminate].
  destruct (redirectable_find std g m mi Erd) as [Hfind Hall].
  cbn [bvalue] in *. cbn [resolve] in Hnt |- *. rewrite Hfind in *.
  unfold t_trace in Hr. unfold all_filter_ok in Hr. rewrite Hall in Hr. cbn [negb andb] in Hr.
  rewrite (find_ext_in _ _ (py_match f g x)) in Hr.
  2:{ intros b0 Hb0. apply in_rev in Hb0. rewrite forallb_forall in Hag. apply eqb_prop. apply Hag. exact Hb0. }
  rewrite (scan_find f g m x _ Hnt) in Hnt |- *.
  destruct (find (py_match f g x) (rev (body mi))) as [tb|]; [|discriminate].
  destruct tb as [y|y|m2 x0 a0|m2|m2 a0 d0]; try discriminate; inversion Hr; subst; cbn [bvalue] in *.
  - change (resolve (S f) g m2 x0 = resolve f g m2 x0). apply resolve_mono. exact Hnt.
  - change (resolve (S f) g m2 x = resolve f g m2 x). apply resolve_mono. exact Hnt.
  - reflexivity.
Qed.

Lemma redirect_agrees_In : forall f F std g bs b, redirect_agrees f F std g bs = true -> In b bs -> redirect_agrees f F std g [b] = true.
Proof.
  intros f F std g bs b H Hin. unfold redirect_agrees in *. rewrite forallb_forall in H.
  cbn [forallb]. rewrite (H b Hin). reflexivity.
Qed.

Lemma redirect1_source : forall F std g b b' s,
  redirect1 F std g b = Some b' -> import_source b' = Some s ->
  exists m mi b0, find_mod g m = Some mi /\ In b0 (body mi) /\ import_source b0 = Some s.
Proof.
  intros F std g b b' s Hr Hs. destruct b as [x|x|m x a|m|m a d]; cbn [redirect1] in Hr; try discriminate.
  destruct (redirectable std g m) as [mi|] eqn:Erd; [|discriminate].
  destruct (redirectable_find std g m mi Erd) as [Hfind _].
  unfold t_trace in Hr. destruct (true && negb (all_filter_ok mi x)); [discriminate|].
  destruct (find (t_match g (t_has F g) x) (rev (body mi))) as [tb|] eqn:Ef; [|discriminate].
  apply find_some in Ef. destruct Ef as [Hin _]. apply in_rev in Hin.
  destruct tb as [y|y|m2 x0 a0|m2|m2 a0 d0]; try discriminate; inversion Hr; subst; cbn [import_source] in Hs;
    try discriminate; inversion Hs; subst.
  - exists m, mi, (From s x0 a0). auto.
  - exists m, mi, (Star s). auto.
Qed.

Lemma has_star_rev : forall l, has_star (rev l) = has_star l.
Proof.
  intros l. unfold has_star. induction l as [|b l IH]; [reflexivity|].
  cbn [rev existsb]. rewrite existsb_app, IH. cbn [existsb]. rewrite orb_false_r. apply orb_comm.
Qed.

Theorem redirect_partial : forall f F std g c mi n,
  find_mod g c = Some mi ->
  client_leaf g c = true ->
  has_star (body mi) = false ->
  count_binders n (body mi) <= 1 ->
  redirect_agrees f F std g (body mi) = true ->
  resolve (S (S f)) g c n <> Timeout ->
  resolve (S (S f)) (update_mod g c (set_body mi (fix_reimported F std g (body mi)))) c n = resolve (S (S f)) g c n.
Proof.
  intros f F std g c mi n Hf Hl Hns Hc Hag Hnt.
  remember (S f) as f1 eqn:Ef1.
  cbn [resolve] in *. rewrite (find_update_same g c mi _ Hf). rewrite Hf in *. cbn [set_body body].
  set (bs := body mi) in *. set (bs' := fix_reimported F std g bs).
  (* the new body only imports from modules other than the client *)
  rewrite (scan_ext (resolve f1 g) _ g _ c n).
  2:{ intros b' s Hb' Hs. apply in_rev in Hb'. apply fix_reimported_In in Hb'.
      destruct Hb' as [b [Hb Hphi]]. unfold phi in Hphi.
      assert (Hsc : s <> c).
      { destruct (redirect1 F std g b) as [b''|] eqn:Er.
        - subst b''. destruct (redirect1_source F std g b b' s Er Hs) as [m [mi0 [b0 [H1 [H2 H3]]]]].
          exact (client_leaf_source g c m mi0 b0 s Hl H1 H2 H3).
        - subst b'. exact (client_leaf_source g c c mi b s Hl Hf Hb Hs). }
      split; [intros x; apply resolve_update_other; assumption|apply find_update_other; exact Hsc]. }
  rewrite (scan_nostar _ g c n (rev bs')).
  2:{ rewrite has_star_rev. apply fix_reimported_nostar. exact Hns. }
  rewrite (scan_nostar _ g c n (rev bs)) in Hnt |- *.
  2,3: rewrite has_star_rev; exact Hns.
  destruct (find (fun b => binds b n) (rev bs)) as [b|] eqn:Efind.
  - apply find_some in Efind. destruct Efind as [Hin Hb]. apply in_rev in Hin.
    assert (Hin' : In (phi F std g b) (rev bs')).
    { apply -> in_rev. apply fix_reimported_In. exists b. auto. }
    assert (Hb' : binds (phi F std g b) n = true).
    { unfold phi. destruct (redirect1 F std g b) as [b'|] eqn:Er; [|exact Hb].
      rewrite (redirect1_binds F std g b b' n Er). exact Hb. }
    rewrite (find_unique n (rev bs') (phi F std g b)); [| |exact Hin'|exact Hb'].
    2:{ rewrite count_binders_rev. unfold bs'. rewrite fix_reimported_count. exact Hc. }
    unfold phi. destruct (redirect1 F std g b) as [b'|] eqn:Er; [|reflexivity].
    subst f1. apply (redirect1_value f F std g c b b' n Er); [|exact Hnt].
    apply (redirect_agrees_In f F std g bs b Hag Hin).
  - rewrite find_none_count; [reflexivity|].
    rewrite count_binders_rev. unfold bs'. rewrite fix_reimported_count.
    destruct (count_binders n bs) as [|k] eqn:Ek; [reflexivity|].
    exfalso. unfold count_binders in Ek.
    destruct (filter (fun b => binds b n) bs) as [|b0 l0] eqn:Efl; [discriminate|].
    assert (Hb0 : In b0 (filter (fun b => binds b n) bs)) by (rewrite Efl; left; reflexivity).
    apply filter_In in Hb0. destruct Hb0 as [Hb0 Hbn].
    assert (Hfalse : binds b0 n = false).
    { apply (find_none _ _ Efind b0). apply -> in_rev. exact Hb0. }
    rewrite Hfalse in Hbn. discriminate.
Qed.

(* the guard on the number of binders is needed: module 6 re-exports `2` of module 0; the client
   `from 0 import 4 as 2; from 6 import 2` -- the redirected import is inserted in front *)
Definition redirect_witness_graph : graph :=
  [(0, MkMod false None [Assign 2; Assign 4]); (6, MkMod false None [From 0 2 2]);
   (8, MkMod false None [From 0 4 2; From 6 2 2])].
Theorem redirect_refuted : exists f F std g c mi n,
  find_mod g c = Some mi /\ client_leaf g c = true /\ has_star (body mi) = false /\
  redirect_agrees f F std g (body mi) = true /\
  resolve (S (S f)) g c n <> Timeout /\
  resolve (S (S f)) (update_mod g c (set_body mi (fix_reimported F std g (body mi)))) c n <> resolve (S (S f)) g c n.
Proof.
  exists 5, 5, (fun _ => false), redirect_witness_graph, 8, (MkMod false None [From 0 4 2; From 6 2 2]), 2.
  vm_compute. repeat split; discriminate.
Qed.

(* ---- non-vacuity: a package graph with a re-export chain of depth 3, __all__, an alias, a private
   name and two star imports, on which both rules fire and all guards hold.
   0 = ma: x(2) y(4) _u(5);  10 = mb: from ma import *, __all__ = [2];  20 = mc: from mb import x as z(6),
   w(8) = ..;  30 = md: from mc import z, from ma import *;  40 = client *)
Definition ex_graph : graph :=
  [(0, MkMod false None [Assign 2; Def 4; Assign 5]);
   (10, MkMod false (Some [2]) [Star 0]);
   (20, MkMod false None [From 10 2 6; Assign 8]);
   (30, MkMod false None [From 20 6 6; Star 0]);
   (40, MkMod false None [Star 30; Star 20; From 30 6 12])].
Definition ex_client : modinfo := MkMod false None [Star 30; Star 20; From 30 6 12].
Definition ex_used : list name := [2; 4; 6; 8; 12].

Example star_example :
  topo_ok ex_graph = true /\ loads 10 ex_graph = true /\
  find_mod ex_graph 40 = Some ex_client /\ client_leaf ex_graph 40 = true /\
  stars_agree 10 10 ex_graph (body ex_client) ex_used = true /\
  forallb (fun n => negb (res_eqb (resolve 11 ex_graph 40 n) Timeout)) ex_used = true /\
  fix_starred 10 ex_graph (body ex_client) ex_used =
    [From 30 2 2; From 30 4 4; From 20 6 6; From 20 8 8; From 30 6 12].
Proof. vm_compute. repeat split; reflexivity. Qed.

Definition ex_client2 : modinfo := MkMod false None [From 30 2 2; From 30 4 4; From 20 6 6; From 20 8 8; From 30 6 12].
Definition ex_graph2 : graph := update_mod ex_graph 40 ex_client2.
Example redirect_example :
  find_mod ex_graph2 40 = Some ex_client2 /\ client_leaf ex_graph2 40 = true /\
  has_star (body ex_client2) = false /\
  forallb (fun n => count_binders n (body ex_client2) <=? 1) ex_used = true /\
  redirect_agrees 10 10 (fun _ => false) ex_graph2 (body ex_client2) = true /\
  forallb (fun n => negb (res_eqb (resolve 12 ex_graph2 40 n) Timeout)) ex_used = true /\
  fix_reimported 10 (fun _ => false) ex_graph2 (body ex_client2) =
    [From 0 2 2; From 0 4 4; From 10 2 6; From 20 6 12; From 20 8 8].
Proof. vm_compute. repeat split; reflexivity. Qed.

(* ---- acyclic graphs: with fuel > number of modules, resolution never runs out of fuel *)
Lemma scan_no_timeout : forall (rec : modname -> name -> res) g m n bs,
  (forall b s, In b bs -> import_source b = Some s -> forall x, rec s x <> Timeout) ->
  scan rec g m n bs <> Timeout.
Proof.
  intros rec g m n. induction bs as [|b bs IH]; intros H; cbn [scan]; [discriminate|].
  assert (IH' : scan rec g m n bs <> Timeout).
  { apply IH. intros b0 s Hin Hs. apply (H b0 s); [right; exact Hin|exact Hs]. }
  destruct b as [x|x|m' x a|m'|m' a d].
  - destruct (x =? n); [discriminate|exact IH'].
  - destruct (x =? n); [discriminate|exact IH'].
  - destruct (a =? n); [|exact IH']. apply (H (From m' x a) m' (or_introl eq_refl) eq_refl).
  - destruct (find_mod g m'); [|exact IH']. destruct (exported m0 n); [|exact IH'].
    pose proof (H (Star m') m' (or_introl eq_refl) eq_refl n) as Hr.
    destruct (rec m' n); [discriminate|exact IH'|exfalso; apply Hr; reflexivity].
  - destruct (a =? n); [discriminate|exact IH'].
Qed.

Lemma topo_from_find : forall g seen, topo_from seen g = true ->
  forall k mi, In (k, mi) g -> find_mod g k = Some mi /\ mem k seen = false.
Proof.
  induction g as [|[k0 mi0] g IH]; intros seen Ht k mi Hin; [destruct Hin|].
  cbn [topo_from] in Ht. apply andb_true_iff in Ht. destruct Ht as [Ht Htl].
  apply andb_true_iff in Ht. destruct Ht as [Hk0 _]. apply negb_true_iff in Hk0.
  destruct Hin as [Heq|Hin].
  - inversion Heq. subst. cbn [find_mod]. rewrite Nat.eqb_refl. auto.
  - destruct (IH (k0 :: seen) Htl k mi Hin) as [Hf Hm].
    unfold mem in Hm. cbn [existsb] in Hm. apply orb_false_iff in Hm. destruct Hm as [Hne Hm].
    cbn [find_mod]. rewrite Nat.eqb_sym, Hne. auto.
Qed.

Lemma topo_no_timeout_aux : forall g0 suffix seen f,
  (forall k mi, In (k, mi) suffix -> find_mod g0 k = Some mi) ->
  topo_from seen suffix = true ->
  (forall m, mem m seen = true -> forall n, resolve f g0 m n <> Timeout) ->
  forall m, (mem m seen = true \/ In m (map fst suffix)) -> forall n, resolve (length suffix + f) g0 m n <> Timeout.
Proof.
  intros g0. induction suffix as [|[k mi] suffix IH]; intros seen f Hfind Ht Hseen m Hm n.
  - cbn [length plus]. destruct Hm as [Hm|[]]. apply Hseen. exact Hm.
  - cbn [topo_from] in Ht. apply andb_true_iff in Ht. destruct Ht as [Ht Htl].
    apply andb_true_iff in Ht. destruct Ht as [_ Hsrc]. rewrite forallb_forall in Hsrc.
    assert (Hk : forall n0, resolve (S f) g0 k n0 <> Timeout).
    { intros n0. cbn [resolve]. rewrite (Hfind k mi (or_introl eq_refl)).
      apply scan_no_timeout. intros b s Hb Hs x. apply in_rev in Hb. specialize (Hsrc b Hb).
      rewrite Hs in Hsrc. apply Hseen. exact Hsrc. }
    assert (Hseen' : forall m0, mem m0 (k :: seen) = true -> forall n0, resolve (S f) g0 m0 n0 <> Timeout).
    { intros m0 Hm0 n0. unfold mem in Hm0. cbn [existsb] in Hm0. apply orb_true_iff in Hm0.
      destruct Hm0 as [Hm0|Hm0].
      - apply Nat.eqb_eq in Hm0. subst. apply Hk.
      - rewrite resolve_mono; apply Hseen; exact Hm0. }
    replace (length ((k, mi) :: suffix) + f) with (length suffix + S f) by (cbn [length]; lia).
    apply (IH (k :: seen) (S f)); [| exact Htl | exact Hseen' |].
    + intros k0 mi0 Hin. apply Hfind. right. exact Hin.
    + destruct Hm as [Hm|Hm].
      * left. unfold mem. cbn [existsb]. fold (mem m seen). rewrite Hm. apply orb_true_r.
      * cbn [map fst In] in Hm. destruct Hm as [Hm|Hm]; [|right; exact Hm].
        subst. left. unfold mem. cbn [existsb]. rewrite Nat.eqb_refl. reflexivity.
Qed.

Lemma find_mod_None_notin : forall g m, find_mod g m = None -> ~ In m (map fst g).
Proof.
  induction g as [|[k v] g IH]; intros m H Hin; [destruct Hin|].
  cbn [find_mod] in H. destruct (k =? m) eqn:E; [discriminate|].
  destruct Hin as [Heq|Hin]; [cbn [fst] in Heq; subst; rewrite Nat.eqb_refl in E; discriminate|].
  exact (IH m H Hin).
Qed.

Theorem topo_no_timeout : forall g, topo_ok g = true ->
  forall m n, resolve (S (length g)) g m n <> Timeout.
Proof.
  intros g Ht m n. destruct (find_mod g m) as [mi|] eqn:Ef.
  - rewrite resolve_mono.
    + replace (length g) with (length g + 0) by lia.
      apply (topo_no_timeout_aux g g [] 0).
      * intros k mi0 Hin. apply (topo_from_find g [] Ht k mi0 Hin).
      * exact Ht.
      * intros m0 Hm0. discriminate.
      * right. apply in_map_iff. exists (m, mi). split; [reflexivity|apply find_mod_In; exact Ef].
    + replace (length g) with (length g + 0) by lia.
      apply (topo_no_timeout_aux g g [] 0).
      * intros k mi0 Hin. apply (topo_from_find g [] Ht k mi0 Hin).
      * exact Ht.
      * intros m0 Hm0. discriminate.
      * right. apply in_map_iff. exists (m, mi). split; [reflexivity|apply find_mod_In; exact Ef].
  - cbn [resolve]. rewrite Ef. discriminate.
Qed.

(* T18.1 with the acyclicity guard instead of the fuel hypothesis *)
Theorem star_expansion_acyclic : forall F g c mi used n,
  topo_ok g = true ->
  find_mod g c = Some mi ->
  client_leaf g c = true ->
  stars_agree (length g) F g (body mi) used = true ->
  In n used ->
  resolve (S (length g)) (update_mod g c (set_body mi (fix_starred F g (body mi) used))) c n =
  resolve (S (length g)) g c n.
Proof.
  intros F g c mi used n Ht Hf Hl Hag Hn.
  apply star_expansion_partial; try assumption. apply topo_no_timeout. exact Ht.
Qed.

Theorem redirect_acyclic : forall F std g c mi n,
  topo_ok g = true ->
  find_mod g c = Some mi ->
  client_leaf g c = true ->
  has_star (body mi) = false ->
  count_binders n (body mi) <= 1 ->
  redirect_agrees (length g) F std g (body mi) = true ->
  resolve (S (S (length g))) (update_mod g c (set_body mi (fix_reimported F std g (body mi)))) c n =
  resolve (S (S (length g))) g c n.
Proof.
  intros F std g c mi n Ht Hf Hl Hns Hc Hag.
  apply redirect_partial; try assumption.
  rewrite resolve_mono; apply topo_no_timeout; exact Ht.
Qed.

(* =========================================================================================== *)
(* The agreement guards follow from structural conditions on the graph                          *)

Definition no_dotted (g : graph) : bool :=
  forallb (fun kv => forallb (fun b => match b with Import _ _ true => false | _ => true end) (body (snd kv))) g.

(* every `from m import x` of every module finds x *)
Definition froms_found (f : nat) (g : graph) : bool :=
  forallb (fun kv => forallb (fun b => match b with
                                       | From m' x _ => is_found (resolve f g m' x)
                                       | _ => true
                                       end) (body (snd kv))) g.

Lemma resolve_det : forall a b g m n,
  resolve a g m n <> Timeout -> resolve b g m n <> Timeout -> resolve a g m n = resolve b g m n.
Proof.
  intros a b g m n Ha Hb. destruct (Nat.le_ge_cases a b) as [H|H].
  - replace b with ((b - a) + a) by lia. symmetry. apply resolve_mono_plus. exact Ha.
  - replace a with ((a - b) + b) by lia. apply resolve_mono_plus. exact Hb.
Qed.

Lemma existsb_rev' : forall X (p : X -> bool) l, existsb p (rev l) = existsb p l.
Proof.
  intros X p l. induction l as [|x l IH]; [reflexivity|].
  cbn [rev existsb]. rewrite existsb_app, IH. cbn [existsb]. rewrite orb_false_r. apply orb_comm.
Qed.

(* one module body: Python finds n iff some statement matches for the tool *)
Lemma scan_found_existsb : forall f g c n bs,
  (forall m' a, ~ In (Import m' a true) bs) ->
  (forall m' x a, In (From m' x a) bs -> is_found (resolve f g m' x) = true) ->
  (forall m', In (Star m') bs ->
              resolve f g m' n <> Timeout /\ star_ok g m' n && t_has f g m' n = py_has f g m' n) ->
  is_found (scan (resolve f g) g c n bs) = existsb (t_match g (t_has f g) n) bs.
Proof.
  intros f g c n. induction bs as [|b bs IH]; intros Hd Hf Hs; [reflexivity|].
  assert (IH' : is_found (scan (resolve f g) g c n bs) = existsb (t_match g (t_has f g) n) bs).
  { apply IH.
    - intros m' a H. apply (Hd m' a). right. exact H.
    - intros m' x a H. apply (Hf m' x a). right. exact H.
    - intros m' H. apply Hs. right. exact H. }
  cbn [scan existsb]. destruct b as [x|x|m' x a|m'|m' a d]; cbn [t_match].
  - destruct (x =? n); [reflexivity|exact IH'].
  - destruct (x =? n); [reflexivity|exact IH'].
  - destruct (a =? n); [|exact IH']. cbn [orb]. apply (Hf m' x a). left. reflexivity.
  - destruct (Hs m' (or_introl eq_refl)) as [Hnt Hag]. rewrite Hag. unfold py_has.
    destruct (find_mod g m') as [mi'|]; [|exact IH'].
    destruct (exported mi' n); cbn [andb]; [|exact IH'].
    destruct (resolve f g m' n) as [t| |]; cbn [is_found orb]; [reflexivity|exact IH'|exfalso; apply Hnt; reflexivity].
  - destruct d; [exfalso; apply (Hd m' a); left; reflexivity|]. cbn [negb andb].
    destruct (a =? n); [reflexivity|exact IH'].
Qed.

Lemma exported_split : forall g m mi n, find_mod g m = Some mi ->
  exported mi n = star_ok g m n && all_filter_ok mi n.
Proof.
  intros g m mi n Hf. unfold exported, star_ok, all_filter_ok. rewrite Hf.
  destruct (has_all mi); [reflexivity|]. rewrite andb_true_r. reflexivity.
Qed.

(* one module: agreement at fuel S f from agreement of its import sources at fuel f *)
Lemma module_agrees : forall f g m mi n,
  find_mod g m = Some mi ->
  (forall m' a, ~ In (Import m' a true) (body mi)) ->
  (forall m' x a, In (From m' x a) (body mi) -> is_found (resolve f g m' x) = true) ->
  (forall m', In (Star m') (body mi) ->
              resolve f g m' n <> Timeout /\ star_ok g m' n && t_has f g m' n = py_has f g m' n) ->
  star_ok g m n && t_has (S f) g m n = py_has (S f) g m n.
Proof.
  intros f g m mi n Hfind Hd Hf Hs. unfold py_has. cbn [t_has resolve]. rewrite Hfind.
  rewrite (exported_split g m mi n Hfind). rewrite <- andb_assoc. f_equal. f_equal.
  rewrite (scan_found_existsb f g m n (rev (body mi))).
  - rewrite existsb_rev'. reflexivity.
  - intros m' a H. apply in_rev in H. exact (Hd m' a H).
  - intros m' x a H. apply in_rev in H. exact (Hf m' x a H).
  - intros m' H. apply in_rev in H. exact (Hs m' H).
Qed.

Definition agree_inv (g0 : graph) (seen : list modname) (f : nat) : Prop :=
  forall m, mem m seen = true ->
    (forall n, resolve f g0 m n <> Timeout) /\
    (forall n, star_ok g0 m n && t_has f g0 m n = py_has f g0 m n) /\
    (forall mi b s, find_mod g0 m = Some mi -> In b (body mi) -> import_source b = Some s -> mem s seen = true).

Lemma froms_found_any : forall g F, froms_found F g = true ->
  forall m mi m' x a f, find_mod g m = Some mi -> In (From m' x a) (body mi) ->
  resolve F g m' x <> Timeout -> resolve f g m' x <> Timeout -> is_found (resolve f g m' x) = true.
Proof.
  intros g F HF m mi m' x a f Hfind Hin HntF Hntf. unfold froms_found in HF. rewrite forallb_forall in HF.
  specialize (HF _ (find_mod_In _ _ _ Hfind)). cbn [snd] in HF. rewrite forallb_forall in HF.
  specialize (HF _ Hin). cbn in HF. rewrite (resolve_det f F g m' x Hntf HntF). exact HF.
Qed.

Lemma no_dotted_body : forall g m mi, no_dotted g = true -> find_mod g m = Some mi ->
  forall m' a, ~ In (Import m' a true) (body mi).
Proof.
  intros g m mi H Hfind m' a Hin. unfold no_dotted in H. rewrite forallb_forall in H.
  specialize (H _ (find_mod_In _ _ _ Hfind)). cbn [snd] in H. rewrite forallb_forall in H.
  specialize (H _ Hin). discriminate.
Qed.

Lemma agree_step : forall g0 F seen f m mi,
  no_dotted g0 = true -> froms_found F g0 = true ->
  (forall m' x, resolve F g0 m' x <> Timeout) ->
  agree_inv g0 seen f ->
  find_mod g0 m = Some mi ->
  (forall b s, In b (body mi) -> import_source b = Some s -> mem s seen = true) ->
  (forall n, resolve (S f) g0 m n <> Timeout) /\
  (forall n, star_ok g0 m n && t_has (S f) g0 m n = py_has (S f) g0 m n).
Proof.
  intros g0 F seen f m mi Hnd HF HFnt Hinv Hfind Hsrc.
  split.
  - intros n. cbn [resolve]. rewrite Hfind. apply scan_no_timeout.
    intros b s Hb Hs x. apply in_rev in Hb. destruct (Hinv s (Hsrc b s Hb Hs)) as [H1 _]. apply H1.
  - intros n. apply (module_agrees f g0 m mi n Hfind).
    + exact (no_dotted_body g0 m mi Hnd Hfind).
    + intros m' x a Hin.
      apply (froms_found_any g0 F HF m mi m' x a f Hfind Hin (HFnt m' x)).
      destruct (Hinv m' (Hsrc (From m' x a) m' Hin eq_refl)) as [H1 _]. apply H1.
    + intros m' Hin. destruct (Hinv m' (Hsrc (Star m') m' Hin eq_refl)) as [H1 [H2 _]].
      split; [apply H1|apply H2].
Qed.

Lemma agree_aux : forall g0 F, no_dotted g0 = true -> froms_found F g0 = true ->
  (forall m' x, resolve F g0 m' x <> Timeout) ->
  forall suffix seen f,
  (forall k mi, In (k, mi) suffix -> find_mod g0 k = Some mi) ->
  topo_from seen suffix = true ->
  agree_inv g0 seen f ->
  forall m, (mem m seen = true \/ In m (map fst suffix)) ->
  forall n, star_ok g0 m n && t_has (length suffix + f) g0 m n = py_has (length suffix + f) g0 m n.
Proof.
  intros g0 F Hnd HF HFnt. induction suffix as [|[k mi] suffix IH]; intros seen f Hfind Ht Hinv m Hm n.
  - cbn [length plus]. destruct Hm as [Hm|[]]. destruct (Hinv m Hm) as [_ [H2 _]]. apply H2.
  - cbn [topo_from] in Ht. apply andb_true_iff in Ht. destruct Ht as [Ht Htl].
    apply andb_true_iff in Ht. destruct Ht as [_ Hsrc]. rewrite forallb_forall in Hsrc.
    assert (Hksrc : forall b s, In b (body mi) -> import_source b = Some s -> mem s seen = true).
    { intros b s Hb Hs. specialize (Hsrc b Hb). rewrite Hs in Hsrc. exact Hsrc. }
    assert (Hinv' : agree_inv g0 (k :: seen) (S f)).
    { intros m0 Hm0. unfold mem in Hm0. cbn [existsb] in Hm0. apply orb_true_iff in Hm0.
      assert (Hup : forall s, mem s seen = true -> mem s (k :: seen) = true).
      { intros s Hs. unfold mem. cbn [existsb]. fold (mem s seen). rewrite Hs. apply orb_true_r. }
      destruct Hm0 as [Hm0|Hm0].
      - apply Nat.eqb_eq in Hm0. subst m0.
        destruct (agree_step g0 F seen f k mi Hnd HF HFnt Hinv (Hfind k mi (or_introl eq_refl)) Hksrc) as [A1 A2].
        split; [exact A1|]. split; [exact A2|].
        intros mi0 b s Hf0 Hb Hs. rewrite (Hfind k mi (or_introl eq_refl)) in Hf0. inversion Hf0. subst mi0.
        apply Hup. exact (Hksrc b s Hb Hs).
      - fold (mem m0 seen) in Hm0. destruct (Hinv m0 Hm0) as [H1 [H2 H3]].
        destruct (find_mod g0 m0) as [mi0|] eqn:Ef0.
        + destruct (agree_step g0 F seen f m0 mi0 Hnd HF HFnt Hinv Ef0 (fun b s => H3 mi0 b s eq_refl)) as [A1 A2].
          split; [exact A1|]. split; [exact A2|].
          intros mi1 b s Hf1 Hb Hs. apply Hup. exact (H3 mi1 b s Hf1 Hb Hs).
        + split; [intros n0; cbn [resolve]; rewrite Ef0; discriminate|].
          split; [|intros mi1 b s Hf1; discriminate].
          intros n0. unfold star_ok, py_has. rewrite Ef0. reflexivity. }
    replace (length ((k, mi) :: suffix) + f) with (length suffix + S f) by (cbn [length]; lia).
    apply (IH (k :: seen) (S f)); [| exact Htl | exact Hinv' |].
    + intros k0 mi0 Hin. apply Hfind. right. exact Hin.
    + destruct Hm as [Hm|Hm].
      * left. unfold mem. cbn [existsb]. fold (mem m seen). rewrite Hm. apply orb_true_r.
      * cbn [map fst In] in Hm. destruct Hm as [Hm|Hm]; [|right; exact Hm].
        subst. left. unfold mem. cbn [existsb]. rewrite Nat.eqb_refl. reflexivity.
Qed.

(* on an acyclic graph without un-aliased dotted imports whose from-imports all find their name, the
   tool's "module m provides n" and Python's star-import semantics coincide for every module and name *)
Theorem tool_agrees_with_python : forall g,
  topo_ok g = true -> no_dotted g = true -> froms_found (S (length g)) g = true ->
  forall m n, star_ok g m n && t_has (length g) g m n = py_has (length g) g m n.
Proof.
  intros g Ht Hnd HF m n. destruct (find_mod g m) as [mi|] eqn:Ef.
  - replace (length g) with (length g + 0) by lia.
    apply (agree_aux g (S (length g)) Hnd HF (topo_no_timeout g Ht) g [] 0).
    + intros k mi0 Hin. apply (topo_from_find g [] Ht k mi0 Hin).
    + exact Ht.
    + intros m0 Hm0. discriminate.
    + right. apply in_map_iff. exists (m, mi). split; [reflexivity|apply find_mod_In; exact Ef].
  - unfold star_ok, py_has. rewrite Ef. reflexivity.
Qed.

Lemma stars_agree_structural : forall g bs used,
  topo_ok g = true -> no_dotted g = true -> froms_found (S (length g)) g = true ->
  stars_agree (length g) (length g) g bs used = true.
Proof.
  intros g bs used Ht Hnd HF. unfold stars_agree. apply forallb_forall. intros b _.
  destruct b; try reflexivity. apply forallb_forall. intros n _.
  rewrite (tool_agrees_with_python g Ht Hnd HF). apply eqb_reflx.
Qed.

Lemma redirect_agrees_structural : forall std g bs,
  topo_ok g = true -> no_dotted g = true -> froms_found (S (length g)) g = true ->
  redirect_agrees (length g) (length g) std g bs = true.
Proof.
  intros std g bs Ht Hnd HF. unfold redirect_agrees. apply forallb_forall. intros b _.
  destruct b as [x|x|m x a|m|m a d]; try reflexivity.
  destruct (redirectable std g m) as [mi|] eqn:Er; [|reflexivity].
  destruct (redirectable_find std g m mi Er) as [Hfind _].
  apply forallb_forall. intros b0 Hb0.
  destruct b0 as [y|y|m' y a'|m'|m' a' d']; cbn [t_match py_match binds]; try apply eqb_reflx.
  - rewrite (tool_agrees_with_python g Ht Hnd HF). apply eqb_reflx.
  - destruct d'; [exfalso; exact (no_dotted_body g m mi Hnd Hfind m' a' Hb0)|].
    cbn [negb andb]. apply eqb_reflx.
Qed.

(* T18.1 under purely structural guards *)
Theorem star_expansion_structural : forall g c mi used n,
  topo_ok g = true -> no_dotted g = true -> froms_found (S (length g)) g = true ->
  find_mod g c = Some mi ->
  client_leaf g c = true ->
  In n used ->
  resolve (S (length g)) (update_mod g c (set_body mi (fix_starred (length g) g (body mi) used))) c n =
  resolve (S (length g)) g c n.
Proof.
  intros g c mi used n Ht Hnd HF Hf Hl Hn.
  apply star_expansion_acyclic; try assumption. apply stars_agree_structural; assumption.
Qed.

Theorem redirect_structural : forall std g c mi n,
  topo_ok g = true -> no_dotted g = true -> froms_found (S (length g)) g = true ->
  find_mod g c = Some mi ->
  client_leaf g c = true ->
  has_star (body mi) = false ->
  count_binders n (body mi) <= 1 ->
  resolve (S (S (length g))) (update_mod g c (set_body mi (fix_reimported (length g) std g (body mi)))) c n =
  resolve (S (S (length g))) g c n.
Proof.
  intros std g c mi n Ht Hnd HF Hf Hl Hns Hc.
  apply redirect_acyclic; try assumption. apply redirect_agrees_structural; assumption.
Qed.

Example structural_example :
  topo_ok ex_graph = true /\ no_dotted ex_graph = true /\ froms_found (S (length ex_graph)) ex_graph = true /\
  topo_ok ex_graph2 = true /\ no_dotted ex_graph2 = true /\ froms_found (S (length ex_graph2)) ex_graph2 = true.
Proof. vm_compute. repeat split; reflexivity. Qed.
