(* K11 -- proofs about ImportsModel.v *)
From Coq Require Import List Arith Bool PeanoNat Lia Permutation.
Import ListNotations.
Require Import Pyrefact.ImportsModel.

Lemma lookup_last_app : forall l1 l2 a,
  lookup_last (l1 ++ l2) a =
  match lookup_last l2 a with Some t => Some t | None => lookup_last l1 a end.
Proof.
  induction l1 as [|[k t] l1 IH]; intros l2 a; cbn [app lookup_last].
  - destruct (lookup_last l2 a); reflexivity.
  - rewrite IH. destruct (lookup_last l2 a); [reflexivity|].
    destruct (lookup_last l1 a); reflexivity.
Qed.
