(* K5 -- theorems about IterModel.v: the classification of `for` iterables inside core.is_blocking is
   justified by the items the loop iterates over at run time. *)
From Coq Require Import List Bool ZArith.
Import ListNotations.
Require Import Pyrefact.FlowModel Pyrefact.FlowProofs Pyrefact.IterModel.

(* literal_value computes the run-time value: its items are the items the loop iterates over *)
Lemma lit_value_elements : forall x k l,
  lit_value x = Some (k, l) -> elements x = Some l /\ static_kind x = Some k.
Proof.
  induction x as [k0 vs | args | e IH | e IH | e IH | e IH | e IH | e IH | e IH | | e IH | a IHa b IHb | ];
    intros k l H; cbn [lit_value elements static_kind] in *.
  - destruct k0; inversion H; subst; split; reflexivity.
  - destruct (range_items args) as [r |]; [| discriminate]. inversion H; subst. split; reflexivity.
  - destruct (lit_value e) as [[k' l'] |]; [| discriminate]. cbn in H. inversion H; subst; clear H.
    destruct (IH _ _ eq_refl) as [E _]. rewrite E. split; reflexivity.
  - destruct (lit_value e) as [[k' l'] |]; [| discriminate].
    destruct (reversible k') eqn:R; [| discriminate]. inversion H; subst; clear H.
    destruct (IH _ _ eq_refl) as [E S]. rewrite S, R, E. split; reflexivity.
  - destruct (lit_value e) as [[k' l'] |]; [| discriminate]. cbn in H. inversion H; subst; clear H.
    destruct (IH _ _ eq_refl) as [E _]. rewrite E. split; reflexivity.
  - destruct (lit_value e) as [[k' l'] |]; [| discriminate]. cbn in H. inversion H; subst; clear H.
    destruct (IH _ _ eq_refl) as [E _]. rewrite E. split; reflexivity.
  - destruct (lit_value e) as [[k' l'] |]; [| discriminate]. cbn in H. inversion H; subst; clear H.
    destruct (IH _ _ eq_refl) as [E _]. rewrite E. split; reflexivity.
  - destruct (lit_value e) as [[k' l'] |]; [| discriminate]. cbn in H. inversion H; subst; clear H.
    destruct (IH _ _ eq_refl) as [E _]. rewrite E. split; reflexivity.
  - discriminate.
  - inversion H; subst. split; reflexivity.
  - destruct (lit_value e) as [[k' l'] |]; [| discriminate]. cbn in H. inversion H; subst; clear H.
    destruct (IH _ _ eq_refl) as [E _]. rewrite E. split; reflexivity.
  - destruct (lit_value a) as [[ka la] |]; [| discriminate].
    destruct (lit_value b) as [[kb lb] |]; [| discriminate]. cbn in H. inversion H; subst; clear H.
    destruct (IHa _ _ eq_refl) as [Ea _]. destruct (IHb _ _ eq_refl) as [Eb _].
    rewrite Ea, Eb. split; reflexivity.
  - discriminate.
Qed.

(* T16.7: a `for` iterable classified empty yields no item at run time (the premise of the IEmpty clause of
   FlowModel.outcomes) ... *)
Theorem classify_empty_sound : forall x, classify x = IEmpty -> elements x = Some [].
Proof.
  intros x H. unfold classify in H. destruct (lit_value x) as [[k l] |] eqn:E; [| discriminate].
  destruct l; [| discriminate]. exact (proj1 (lit_value_elements x k [] E)).
Qed.

(* ... and one classified non-empty yields at least one (the premise of the INonEmpty clause and of the scan
   of the loop body in is_blocking) *)
Theorem classify_nonempty_sound : forall x, classify x = INonEmpty -> exists v l, elements x = Some (v :: l).
Proof.
  intros x H. unfold classify in H. destruct (lit_value x) as [[k l] |] eqn:E; [| discriminate].
  destruct l as [| v l']; [discriminate |]. exists v, l'. exact (proj1 (lit_value_elements x k _ E)).
Qed.

(* hence: a `for` loop judged blocking really runs its body at least once and never completes normally *)
Theorem for_blocking_sound : forall x body orelse,
  is_blocking (SFor (classify x) body orelse) PNone = true ->
  (exists v l, elements x = Some (v :: l)) /\ o_n (outcomes false (SFor (classify x) body orelse)) = false.
Proof.
  intros x body orelse H. split.
  - apply classify_nonempty_sound. destruct (classify x) eqn:C; try reflexivity; discriminate.
  - exact (blocking_sound _ H).
Qed.

(* R16.7: deciding emptiness by the truth value of the object instead of by iterating is wrong:
   enumerate / zip / reversed objects are truthy even when they yield nothing *)
Theorem truthiness_test_refuted :
  exists x, classify_by_truthiness x = INonEmpty /\ elements x = Some [] /\
            is_blocking (SFor (classify_by_truthiness x) [SReturn] []) PNone = true.
Proof. exists (XEnumerate (XLit KTuple [])). repeat split. Qed.

(* the two tests agree on everything that is not an iterator object *)
Theorem truthiness_agrees_on_containers : forall x k l,
  lit_value x = Some (k, l) -> k <> OKIter -> classify_by_truthiness x = classify x.
Proof.
  intros x k l E Hk. unfold classify_by_truthiness, classify. rewrite E.
  destruct k; try congruence; destruct l; reflexivity.
Qed.

Example classify_examples :
  classify (XZip2 (XLit KStr [VChr 97; VChr 98]) (XRange [0%Z])) = IEmpty /\
  classify (XReversed (XSorted (XSet (XLit KList [VInt 2; VInt 1; VInt 2])))) = INonEmpty /\
  classify (XReversed (XEnumerate (XLit KList [VInt 1]))) = IUnknown /\
  classify (XIter (XLit KList [VInt 1])) = IUnknown.
Proof. repeat split. Qed.
