(* K11 -- import resolution: reference semantics of `import` over a finite package graph, and models
   of tracing.trace_origin / fix_starred_imports / fix_reimported_names (tracing.py) and of the
   import-statement rules of fixes.py (remove_unused_imports, _fix_duplicate_from_imports,
   _fix_duplicate_regular_imports, _breakout_stacked_imports, _sort_import_statements,
   _fix_imported_as_self_or_unsorted, _import_order_matters).  Models only; the proofs are in ImportsProofs.v.

   Names and module names are natural numbers from ONE id space: the harness sorts all strings of a
   case (identifiers and dotted module names) and gives the string of rank r the number
   2r + (1 if it starts with an underscore else 0), so the order of the numbers is the order of the
   strings (the sort keys of the rules compare strings) and ODD = private. *)
From Coq Require Import List Arith Bool PeanoNat.
Import ListNotations.

Definition name := nat.
Definition modname := nat.

Definition private (n : name) : bool := Nat.odd n.

Definition mem (n : nat) (l : list nat) : bool := existsb (Nat.eqb n) l.

(* ------------------------------------------------------------------------------------------- *)
(* 1. Package graph                                                                              *)

Inductive binding :=
| Def (n : name)                            (* def n / class n                                   *)
| Assign (n : name)                         (* n = <fresh object>                                *)
| From (m : modname) (n a : name)           (* from m import n as a      (a = n when no alias)   *)
| Star (m : modname)                        (* from m import *                                   *)
| Import (m : modname) (a : name) (dotted : bool).
   (* import m as a;  for an un-aliased `import p.q` the statement binds the head `p`: then
      m = the top-level package, a = its name and dotted = true;  plain `import p`: dotted = false *)

Record modinfo := MkMod {
  is_init : bool;                           (* the source file is an __init__.py                 *)
  has_all : option (list name);             (* __all__ = [..] / (..) at top level                *)
  body : list binding }.                    (* unconditional top-level statements, in file order *)

Definition graph := list (modname * modinfo).

Fixpoint find_mod (g : graph) (m : modname) : option modinfo :=
  match g with
  | [] => None
  | (k, mi) :: tl => if k =? m then Some mi else find_mod tl m
  end.

Fixpoint update_mod (g : graph) (m : modname) (mi : modinfo) : graph :=
  match g with
  | [] => []
  | (k, old) :: tl => if k =? m then (k, mi) :: tl else (k, old) :: update_mod tl m mi
  end.

Definition set_body (mi : modinfo) (b : list binding) : modinfo := MkMod (is_init mi) (has_all mi) b.

(* ------------------------------------------------------------------------------------------- *)
(* 2. Reference semantics (TRUSTED; validated against CPython by harness/c18.py)                 *)

Inductive target :=
| TObj (m : modname) (n : name)       (* the object the LAST def/assignment of n in m creates     *)
| TMod (m : modname).                 (* the module object m                                      *)

Inductive res := Found (t : target) | Unbound | Timeout.

(* what `from m import *` copies: __all__ if present, else the names without leading underscore *)
Definition exported (mi : modinfo) (n : name) : bool :=
  match has_all mi with
  | Some l => mem n l
  | None => negb (private n)
  end.

(* the value of n after executing the statements whose REVERSED list is bs (last binding wins) *)
Fixpoint scan (rec : modname -> name -> res) (g : graph) (m : modname) (n : name)
         (bs : list binding) : res :=
  match bs with
  | [] => Unbound
  | b :: tl =>
    match b with
    | Def x => if x =? n then Found (TObj m x) else scan rec g m n tl
    | Assign x => if x =? n then Found (TObj m x) else scan rec g m n tl
    | From m' x a => if a =? n then rec m' x else scan rec g m n tl
    | Import m' a _ => if a =? n then Found (TMod m') else scan rec g m n tl
    | Star m' =>
      match find_mod g m' with
      | None => scan rec g m n tl
      | Some mi' =>
        if exported mi' n
        then match rec m' n with
             | Unbound => scan rec g m n tl
             | r => r
             end
        else scan rec g m n tl
      end
    end
  end.

Fixpoint resolve (fuel : nat) (g : graph) (m : modname) (n : name) : res :=
  match fuel with
  | O => Timeout
  | S f =>
    match find_mod g m with
    | None => Unbound
    | Some mi => scan (resolve f g) g m n (rev (body mi))
    end
  end.

Definition is_found (r : res) : bool := match r with Found _ => true | _ => false end.

(* Python's answer to "does `from m import *` bind n": *)
Definition py_has (fuel : nat) (g : graph) (m : modname) (n : name) : bool :=
  match find_mod g m with
  | None => false
  | Some mi => exported mi n && is_found (resolve fuel g m n)
  end.

(* imports_of / acyclicity: every module imports only from modules listed EARLIER in the graph *)
Definition import_source (b : binding) : option modname :=
  match b with
  | From m _ _ => Some m
  | Star m => Some m
  | _ => None
  end.

Fixpoint topo_from (seen : list modname) (g : graph) : bool :=
  match g with
  | [] => true
  | (k, mi) :: tl =>
    negb (mem k seen) &&
    forallb (fun b => match import_source b with Some m => mem m seen | None => true end) (body mi) &&
    topo_from (k :: seen) tl
  end.
Definition topo_ok (g : graph) : bool := topo_from [] g.

(* every `from m import x` finds x, every name listed in __all__ is bound: the module loads *)
Definition binds (b : binding) (n : name) : bool :=
  match b with
  | Def x => x =? n
  | Assign x => x =? n
  | From _ _ a => a =? n
  | Import _ a _ => a =? n
  | Star _ => false
  end.

Definition loads_mod (fuel : nat) (g : graph) (m : modname) (mi : modinfo) : bool :=
  forallb (fun b => match b with From m' x _ => is_found (resolve fuel g m' x) | _ => true end) (body mi) &&
  match has_all mi with
  | Some l => forallb (fun n => is_found (resolve (S fuel) g m n)) l
  | None => true
  end.
Definition loads (fuel : nat) (g : graph) : bool :=
  forallb (fun kv => loads_mod fuel g (fst kv) (snd kv)) g.

(* ------------------------------------------------------------------------------------------- *)
(* 3. tracing.trace_origin as the code does it                                                  *)

(* the __all__ filter of trace_origin(.., __all__=True): tracing.py:228-255 *)
Definition all_filter_ok (mi : modinfo) (n : name) : bool :=
  match has_all mi with
  | Some l => mem n l
  | None => true
  end.

(* a star import of m' is looked into for n only if n has no leading underscore or m' defines
   __all__ (the repaired check in the star branch of trace_origin) *)
Definition star_ok (g : graph) (m' : modname) (n : name) : bool :=
  match find_mod g m' with
  | None => false
  | Some mi' => match has_all mi' with Some _ => true | None => negb (private n) end
  end.

(* does node b bind n according to the loop of trace_origin (rec answers the star case) *)
Definition t_match (g : graph) (rec : modname -> name -> bool) (n : name) (b : binding) : bool :=
  match b with
  | Def x => x =? n
  | Assign x => x =? n
  | From _ _ a => a =? n
  | Import _ a d => negb d && (a =? n)      (* `import p.q` is compared with the full dotted name *)
  | Star m' => star_ok g m' n && rec m' n
  end.

(* trace_origin(n, source of m, __all__=True) is not None;  fuel = recursion depth *)
Fixpoint t_has (fuel : nat) (g : graph) (m : modname) (n : name) : bool :=
  match fuel with
  | O => false
  | S f =>
    match find_mod g m with
    | None => false                        (* _trace_module_source_file returned None: skipped *)
    | Some mi => all_filter_ok mi n && existsb (t_match g (t_has f g) n) (body mi)
    end
  end.

(* the node trace_origin returns: the LAST matching one in line order *)
Definition t_trace (fuel : nat) (g : graph) (flag : bool) (mi : modinfo) (n : name) : option binding :=
  if flag && negb (all_filter_ok mi n) then None
  else find (t_match g (t_has fuel g) n) (rev (body mi)).

(* ------------------------------------------------------------------------------------------- *)
(* 4. tracing.fix_starred_imports (tracing.py:356-393)                                          *)

Fixpoint dedup (l : list nat) : list nat :=
  match l with
  | [] => []
  | x :: tl => if mem x tl then dedup tl else x :: dedup tl
  end.

Fixpoint insert_nat (x : nat) (l : list nat) : list nat :=
  match l with
  | [] => [x]
  | y :: tl => if x <=? y then x :: l else y :: insert_nat x tl
  end.
Definition sort_nat (l : list nat) : list nat := fold_right insert_nat [] l.

(* trace_origin on the client for a non-star node: does it bind n (t_match without the star case) *)
Definition t_binds (b : binding) (n : name) : bool := t_match [] (fun _ _ => false) n b.

(* Every referenced name is looked for in every star import of the client (after the round-4 repair:
   whatever else binds the name in the client does not matter -- the explicit import is put where
   the star import was, so later bindings still win).  Walk the client from its LAST statement: a
   pending name goes to the last star whose module has it; a star that gets no name is deleted.
   The result is in reversed order, like the input. *)
Fixpoint expand_rev (has : modname -> name -> bool) (rbs : list binding) (pending : list name)
  : list binding :=
  match rbs with
  | [] => []
  | Star m :: tl =>
    let mine := filter (has m) pending in
    let rest := filter (fun n => negb (has m n)) pending in
    rev (map (fun n => From m n n) (sort_nat mine)) ++ expand_rev has tl rest
  | b :: tl => b :: expand_rev has tl pending
  end.

Definition has_star (bs : list binding) : bool :=
  existsb (fun b => match b with Star _ => true | _ => false end) bs.

Definition fix_starred (fuel : nat) (g : graph) (bs : list binding) (used : list name) : list binding :=
  if has_star bs
  then rev (expand_rev (fun m n => star_ok g m n && t_has fuel g m n) (rev bs) (dedup used))
  else bs.

(* ------------------------------------------------------------------------------------------- *)
(* 5. tracing.fix_reimported_names (tracing.py:396-503)                                         *)

(* `from m import ..` is looked into only if m is a plain module without __all__ (l.416-438);
   std = the module name is in PYTHON_311_STDLIB *)
Definition redirectable (std : modname -> bool) (g : graph) (m : modname) : option modinfo :=
  if std m then None else
  match find_mod g m with
  | None => None
  | Some mi => if is_init mi then None else
               match has_all mi with Some _ => None | None => Some mi end
  end.

Definition redirect1 (fuel : nat) (std : modname -> bool) (g : graph) (b : binding) : option binding :=
  match b with
  | From m x a =>
    match redirectable std g m with
    | None => None
    | Some mi =>
      match t_trace fuel g true mi x with
      | Some (From m2 x0 _) => Some (From m2 x0 a)
      | Some (Star m2) => Some (From m2 x a)
      | Some (Import m2 _ d) => Some (Import m2 a d)
      | _ => None
      end
    end
  | _ => None
  end.

(* redirected aliases are inserted at the line of the FIRST import statement (statements before it
   stay in front), the rest stays in place *)
Definition is_import (b : binding) : bool :=
  match b with
  | Def _ => false
  | Assign _ => false
  | _ => true
  end.

Fixpoint before_imports (bs : list binding) : list binding :=
  match bs with
  | [] => []
  | b :: tl => if is_import b then [] else b :: before_imports tl
  end.
Fixpoint from_first_import (bs : list binding) : list binding :=
  match bs with
  | [] => []
  | b :: tl => if is_import b then bs else from_first_import tl
  end.

Definition moved (fuel : nat) (std : modname -> bool) (g : graph) (bs : list binding) : list binding :=
  flat_map (fun b => match redirect1 fuel std g b with Some b' => [b'] | None => [] end) bs.
Definition stays (fuel : nat) (std : modname -> bool) (g : graph) (b : binding) : bool :=
  match redirect1 fuel std g b with Some _ => false | None => true end.

Definition fix_reimported (fuel : nat) (std : modname -> bool) (g : graph) (bs : list binding)
  : list binding :=
  before_imports bs ++ moved fuel std g bs ++ filter (stays fuel std g) (from_first_import bs).

(* ------------------------------------------------------------------------------------------- *)
(* 6. Import statements of a client and their binding environment                                *)

(* from-alias: (original name, asname);  import-alias: (module, asname, head, std) where head is the
   name an un-aliased import binds (first component of the dotted module name) and std tells whether
   that head is in constants.PYTHON_311_STDLIB *)
Definition falias := (name * option name)%type.
Definition ialias := (modname * option name * name * bool)%type.
Definition imod (al : ialias) : modname := fst (fst (fst al)).
Definition ias (al : ialias) : option name := snd (fst (fst al)).
Definition ihead (al : ialias) : name := snd (fst al).
Definition istd (al : ialias) : bool := snd al.

Inductive stmt :=
| SFrom (std : bool) (m : modname) (als : list falias)
| SImport (als : list ialias).

(* symbolic target of a local name *)
Inductive itgt :=
| IAttr (m : modname) (x : name)       (* attribute x of module m          *)
| IMod (m : modname)                   (* the module m (import m as a)     *)
| IHead (h : name).                    (* the top-level package named h    *)

Definition itgt_eqb (a b : itgt) : bool :=
  match a, b with
  | IAttr m x, IAttr m' x' => (m =? m') && (x =? x')
  | IMod m, IMod m' => m =? m'
  | IHead h, IHead h' => h =? h'
  | _, _ => false
  end.

Definition fbound (al : falias) : name := match snd al with Some a => a | None => fst al end.
(* `import m as m` is the same statement as `import m` (the asname is an identifier, so m has no dot
   and is its own head): bound name and target are read off the normalised alias. *)
Definition ibound (al : ialias) : name :=
  match ias al with
  | Some a => if a =? imod al then ihead al else a
  | None => ihead al
  end.
Definition itarget (al : ialias) : itgt :=
  match ias al with
  | Some a => if a =? imod al then IHead (ihead al) else IMod (imod al)
  | None => IHead (ihead al)
  end.

(* the (local name, target) pairs a statement creates, in execution order *)
Definition stmt_binds (s : stmt) : list (name * itgt) :=
  match s with
  | SFrom _ m als => map (fun al => (fbound al, IAttr m (fst al))) als
  | SImport als => map (fun al => (ibound al, itarget al)) als
  end.
Definition all_binds (l : list stmt) : list (name * itgt) := flat_map stmt_binds l.

(* last binding wins *)
Fixpoint lookup_last (l : list (name * itgt)) (a : name) : option itgt :=
  match l with
  | [] => None
  | (k, t) :: tl => match lookup_last tl a with
                    | Some t' => Some t'
                    | None => if k =? a then Some t else None
                    end
  end.
Definition env (l : list stmt) (a : name) : option itgt := lookup_last (all_binds l) a.

(* guard: all bindings of one local name have the same target *)
Definition coherent_binds (l : list (name * itgt)) : bool :=
  forallb (fun p => forallb (fun q => negb (fst p =? fst q) || itgt_eqb (snd p) (snd q)) l) l.
Definition coherent (l : list stmt) : bool := coherent_binds (all_binds l).

(* ---- remove_unused_imports (fixes.py:195-293, after the `import a.b` repair):  an alias is kept
   iff the name it binds is used; a statement that loses an alias is re-emitted with its aliases
   sorted, a statement that loses all of them is deleted, an untouched statement stays as it is. *)

Definition opt_key (o : option name) : list nat := match o with None => [0] | Some a => [1; a] end.

Fixpoint lex_le (a b : list nat) : bool :=
  match a, b with
  | [], _ => true
  | _ :: _, [] => false
  | x :: a', y :: b' => if x <? y then true else if y <? x then false else lex_le a' b'
  end.

Fixpoint insert_by {X} (key : X -> list nat) (x : X) (l : list X) : list X :=
  match l with
  | [] => [x]
  | y :: tl => if lex_le (key x) (key y) then x :: l else y :: insert_by key x tl
  end.
(* stable insertion sort: fold from the right so that equal keys keep their order *)
Definition sort_by {X} (key : X -> list nat) (l : list X) : list X := fold_right (insert_by key) [] l.

Definition fkey (al : falias) : list nat := fst al :: opt_key (snd al).
Definition ikey (al : ialias) : list nat := imod al :: opt_key (ias al).

Definition remove_unused_stmt (used : list name) (s : stmt) : list stmt :=
  match s with
  | SFrom std m als =>
    let kept := filter (fun al => mem (fbound al) used) als in
    if length kept =? length als then [s]
    else match kept with [] => [] | _ => [SFrom std m (sort_by fkey kept)] end
  | SImport als =>
    let kept := filter (fun al => mem (ibound al) used) als in
    if length kept =? length als then [s]
    else match kept with [] => [] | _ => [SImport (sort_by ikey kept)] end
  end.
Definition remove_unused (used : list name) (l : list stmt) : list stmt :=
  flat_map (remove_unused_stmt used) l.

(* ---- normalisation `x as x` -> `x` used by every rule that re-emits aliases *)
Definition fnorm (al : falias) : falias :=
  match snd al with Some a => if a =? fst al then (fst al, None) else al | None => al end.
(* `import m as a` is `as self` when the asname is the module name itself (one id space) *)
Definition inorm (al : ialias) : ialias :=
  match ias al with
  | Some a => if a =? imod al then (imod al, None, ihead al, istd al) else al
  | None => al
  end.

Definition falias_eqb (a b : falias) : bool :=
  (fst a =? fst b) && match snd a, snd b with
                      | None, None => true
                      | Some x, Some y => x =? y
                      | _, _ => false
                      end.
Definition ialias_eqb (a b : ialias) : bool :=
  (imod a =? imod b) && (ihead a =? ihead b) && Bool.eqb (istd a) (istd b) &&
  match ias a, ias b with
  | None, None => true
  | Some x, Some y => x =? y
  | _, _ => false
  end.

Fixpoint dedup_by {X} (eqb : X -> X -> bool) (l : list X) : list X :=
  match l with
  | [] => []
  | x :: tl => if existsb (eqb x) tl then dedup_by eqb tl else x :: dedup_by eqb tl
  end.

(* ---- _fix_duplicate_from_imports (fixes.py:3590-3630) on ONE run of consecutive statements: runs
   of consecutive from-imports are the groups; in a group, all statements of one module are merged
   into the FIRST of them (set of normalised aliases, sorted), the others are deleted. *)

Definition is_from (s : stmt) : bool := match s with SFrom _ _ _ => true | _ => false end.

(* aliases of module m in the group gr *)
Definition group_aliases (m : modname) (gr : list stmt) : list falias :=
  flat_map (fun s => match s with SFrom _ m' als => if m' =? m then map fnorm als else [] | _ => [] end) gr.
Definition count_mod (m : modname) (gr : list stmt) : nat :=
  length (filter (fun s => match s with SFrom _ m' _ => m' =? m | _ => false end) gr).

(* process one group: seen = modules already emitted *)
Fixpoint merge_group_from (seen : list modname) (whole : list stmt) (gr : list stmt) : list stmt :=
  match gr with
  | [] => []
  | SFrom std m als :: tl =>
    if 2 <=? count_mod m whole then
      if mem m seen then merge_group_from seen whole tl
      else SFrom std m (sort_by fkey (dedup_by falias_eqb (group_aliases m whole)))
           :: merge_group_from (m :: seen) whole tl
    else SFrom std m als :: merge_group_from seen whole tl
  | s :: tl => s :: merge_group_from seen whole tl
  end.

(* split a statement list into maximal runs satisfying p / single other statements *)
Fixpoint runs {X} (p : X -> bool) (l : list X) (cur : list X) : list (list X) :=
  match l with
  | [] => match cur with [] => [] | _ => [rev cur] end
  | x :: tl =>
    if p x then runs p tl (x :: cur)
    else match cur with
         | [] => [x] :: runs p tl []
         | _ => rev cur :: [x] :: runs p tl []
         end
  end.

Definition dup_from (l : list stmt) : list stmt :=
  flat_map (fun gr => match gr with
                      | s :: _ => if is_from s then merge_group_from [] gr gr else gr
                      | [] => []
                      end) (runs is_from l []).

(* ---- _fix_duplicate_regular_imports (after the repair): walking one statement list, an import
   alias is dropped iff the name it binds is currently bound by an identical (normalised) alias *)

Definition cur_lookup (cur : list (name * option ialias)) (a : name) : option (option ialias) :=
  match find (fun kv => fst kv =? a) cur with Some kv => Some (snd kv) | None => None end.

Fixpoint dup_regular_aliases (cur : list (name * option ialias)) (als : list ialias)
  : list ialias * list (name * option ialias) :=
  match als with
  | [] => ([], cur)
  | al :: tl =>
    let k := inorm al in
    match cur_lookup cur (ibound al) with
    | Some (Some k') =>
      if ialias_eqb k k' then dup_regular_aliases cur tl
      else let '(r, c) := dup_regular_aliases ((ibound al, Some k) :: cur) tl in (k :: r, c)
    | _ => let '(r, c) := dup_regular_aliases ((ibound al, Some k) :: cur) tl in (k :: r, c)
    end
  end.

Fixpoint dup_regular_from (cur : list (name * option ialias)) (l : list stmt) : list stmt :=
  match l with
  | [] => []
  | SFrom std m als :: tl =>
    SFrom std m als :: dup_regular_from (map (fun al => (fbound al, None)) (rev als) ++ cur) tl
  | SImport als :: tl =>
    let '(kept, cur') := dup_regular_aliases cur als in
    if length kept =? length als then SImport als :: dup_regular_from cur' tl
    else match kept with
         | [] => dup_regular_from cur' tl
         | _ => SImport (sort_by ikey kept) :: dup_regular_from cur' tl
         end
  end.
Definition dup_regular (l : list stmt) : list stmt := dup_regular_from [] l.

(* ---- _breakout_stacked_imports: `import a, b` -> one statement per (sorted, distinct) alias *)
Definition breakout_stmt (s : stmt) : list stmt :=
  match s with
  | SImport als =>
    match als with
    | _ :: _ :: _ => map (fun al => SImport [inorm al]) (sort_by ikey (dedup_by ialias_eqb als))
    | _ => [s]
    end
  | _ => [s]
  end.
Definition breakout (l : list stmt) : list stmt := flat_map breakout_stmt l.

(* ---- fixes._import_order_matters(nodes) (repairs cc67280 / 95f12ea): the names the aliases of the statements
   bind -- `alias.asname or alias.name.split(".")[0]`, ONE count per alias -- hold "*" (a star import: the string
   "*" is given the number 0 = STAR by the harness, it sorts before every identifier) or some name more than
   once.  `import os.path` and `import os` both count for `os` (conservative).  The bound name of an alias is
   fbound / ibound (for an import alias ibound is `asname or head` whenever the alias is one Python can write:
   ibound_raw in ImportsProofs.v). *)
Definition STAR : name := 0.

Fixpoint has_dup (l : list nat) : bool :=
  match l with
  | [] => false
  | x :: tl => mem x tl || has_dup tl
  end.

Definition bound_names (l : list stmt) : list name := map fst (all_binds l).
Definition order_matters (l : list stmt) : bool := mem STAR (bound_names l) || has_dup (bound_names l).

(* ---- _sort_import_statements on ONE run of consecutive import statements: stable sort by
   _import_group_key; absolute imports only (level = 0, no __future__).  A run whose order could matter
   (order_matters) is left alone. *)
Definition flat_key (ls : list (list nat)) : list nat :=
  flat_map (fun l => map S l ++ [0]) ls.       (* order-preserving encoding of a tuple of tuples *)

Definition stmt_key (s : stmt) : list nat :=
  match s with
  | SFrom std m als =>
    flat_key [[if std then 0 else 1]; [1]; [1]; [S m];
              sort_nat (map fst als); sort_nat (map fbound als)]
  | SImport als =>
    flat_key [[if forallb istd als then 0 else 1]; [0]; [0]; [0];
              sort_nat (map imod als);
              sort_nat (map (fun al => match ias al with Some a => a | None => imod al end) als)]
  end.
(* the rule before cc67280: every run of two or more statements is sorted *)
Definition old_sort_stmts (l : list stmt) : list stmt :=
  match l with
  | _ :: _ :: _ => sort_by stmt_key l
  | _ => l
  end.
Definition sort_stmts (l : list stmt) : list stmt :=
  match l with
  | _ :: _ :: _ => if order_matters l then l else sort_by stmt_key l
  | _ => l
  end.

(* ---- _fix_imported_as_self_or_unsorted: aliases of every statement normalised and sorted, unless two aliases
   of the statement bind one name (or it is a star import): `not _import_order_matters([node])` *)
(* the rule before 95f12ea *)
Definition old_sort_aliases_stmt (s : stmt) : stmt :=
  match s with
  | SFrom std m als => SFrom std m (sort_by fkey (map fnorm als))
  | SImport als => SImport (sort_by ikey (map inorm als))
  end.
Definition old_sort_aliases (l : list stmt) : list stmt := map old_sort_aliases_stmt l.
Definition sort_aliases_stmt (s : stmt) : stmt :=
  if order_matters [s] then s else old_sort_aliases_stmt s.
Definition sort_aliases (l : list stmt) : list stmt := map sort_aliases_stmt l.

(* ------------------------------------------------------------------------------------------- *)
(* 7. Case checkers for the correspondence files generated by harness/c18.py                    *)

Definition target_eqb (a b : target) : bool :=
  match a, b with
  | TObj m n, TObj m' n' => (m =? m') && (n =? n')
  | TMod m, TMod m' => m =? m'
  | _, _ => false
  end.
Definition res_eqb (a b : res) : bool :=
  match a, b with
  | Found t, Found t' => target_eqb t t'
  | Unbound, Unbound => true
  | Timeout, Timeout => true
  | _, _ => false
  end.

Definition binding_eqb (a b : binding) : bool :=
  match a, b with
  | Def x, Def y => x =? y
  | Assign x, Assign y => x =? y
  | From m x a, From m' x' a' => (m =? m') && (x =? x') && (a =? a')
  | Star m, Star m' => m =? m'
  | Import m a d, Import m' a' d' => (m =? m') && (a =? a') && Bool.eqb d d'
  | _, _ => false
  end.

Fixpoint list_eqb {X} (eqb : X -> X -> bool) (a b : list X) : bool :=
  match a, b with
  | [], [] => true
  | x :: a', y :: b' => eqb x y && list_eqb eqb a' b'
  | _, _ => false
  end.

Definition stmt_eqb (a b : stmt) : bool :=
  match a, b with
  | SFrom s m als, SFrom s' m' als' => Bool.eqb s s' && (m =? m') && list_eqb falias_eqb als als'
  | SImport als, SImport als' => list_eqb ialias_eqb als als'
  | _, _ => false
  end.

Definition same_set {X} (eqb : X -> X -> bool) (a b : list X) : bool :=
  forallb (fun x => existsb (eqb x) b) a && forallb (fun x => existsb (eqb x) a) b.

(* resolve vs CPython: (module, name, expected) *)
Definition resolve_case_ok (fuel : nat) (g : graph) (c : modname * name * res) : bool :=
  let '(m, n, r) := c in res_eqb (resolve fuel g m n) r.

(* binding list of a rewritten client: same bindings as a multiset-free set and same last binder
   for every name in `names` *)
Fixpoint last_binder (rbs : list binding) (n : name) : option binding :=
  match rbs with
  | [] => None
  | b :: tl => if binds b n then Some b else last_binder tl n
  end.
Definition opt_binding_eqb (a b : option binding) : bool :=
  match a, b with
  | Some x, Some y => binding_eqb x y
  | None, None => true
  | _, _ => false
  end.
Definition bindings_agree (names : list name) (model impl : list binding) : bool :=
  same_set binding_eqb model impl &&
  forallb (fun n => opt_binding_eqb (last_binder (rev model) n) (last_binder (rev impl) n)) names.

Fixpoint iter {X} (k : nat) (f : X -> X) (x : X) : X :=
  match k with O => x | S k' => iter k' f (f x) end.

(* processing.fix runs a rule body up to 5 times *)
Definition FIX_ITER : nat := 5.

Definition starred_case_ok (fuel : nat) (g : graph) (c : list binding * list name * list binding) : bool :=
  let '(bs, used, impl) := c in
  bindings_agree used (fix_starred fuel g bs used) impl.

(* fix_reimported_names: the order in which several redirected statements are inserted at the first
   import line is an artefact of processing.fix; it is compared only where it can matter for a name
   that has ONE binder: the binder itself and the star imports that follow it. *)
Fixpoint stars_after (n : name) (rbs : list binding) (acc : list modname) : list modname :=
  match rbs with
  | [] => acc
  | b :: tl => if binds b n then acc
               else stars_after n tl (match b with Star m => m :: acc | _ => acc end)
  end.
Definition count_binders (n : name) (bs : list binding) : nat :=
  length (filter (fun b => binds b n) bs).
Definition bindings_agree_upto_order (names : list name) (model impl : list binding) : bool :=
  same_set binding_eqb model impl && (length model =? length impl) &&
  forallb (fun n => if count_binders n model =? 1
                    then opt_binding_eqb (last_binder (rev model) n) (last_binder (rev impl) n) &&
                         list_eqb Nat.eqb (stars_after n (rev model) []) (stars_after n (rev impl) [])
                    else true) names.

Definition reimported_case_ok (fuel : nat) (stdl : list modname) (g : graph)
           (c : list binding * list name * list binding) : bool :=
  let '(bs, names, impl) := c in
  bindings_agree_upto_order names (iter FIX_ITER (fix_reimported fuel (fun m => mem m stdl) g) bs) impl.

Inductive rule_id := RUnused | RDupFrom | RDupRegular | RBreakout | RSort | RSortAliases | RDupAll | RSortAll.

(* _fix_imported_attr_as_self on `import m as m` (single alias): the alias is normalised.  The other case of that
   rule, `import p.q as q` -> `from p import q`, needs the structure of dotted names and is not modelled: the
   harness does not generate it for the composite rule. *)
Definition attr_self_stmt (s : stmt) : stmt :=
  match s with
  | SImport [al] => SImport [inorm al]
  | _ => s
  end.

Definition run_rule (r : rule_id) (used : list name) (l : list stmt) : list stmt :=
  match r with
  | RUnused => remove_unused used l
  | RDupFrom => let l' := dup_from l in
                if list_eqb stmt_eqb l l' then l else dup_regular l'
  | RDupRegular => dup_regular l
  | RBreakout => breakout l
  | RSort => sort_stmts l
  | RSortAliases => sort_aliases l
  (* fixes.fix_duplicate_imports = _fix_imported_attr_as_self . _breakout_stacked_imports .
     _fix_duplicate_regular_imports . _fix_duplicate_from_imports (which itself ends with
     _fix_duplicate_regular_imports when it changed something) *)
  | RDupAll => let l' := dup_from l in
               let l1 := if list_eqb stmt_eqb l l' then l else dup_regular l' in
               map attr_self_stmt (breakout (dup_regular l1))
  (* fixes.sort_imports = _fix_imported_as_self_or_unsorted . _sort_import_statements (+ blank lines) *)
  | RSortAll => sort_aliases (sort_stmts l)
  end.

(* ordered = the output statement list must be equal; otherwise equal as a set of statements and
   same environment *)
Definition opt_itgt_eqb (a b : option itgt) : bool :=
  match a, b with
  | Some x, Some y => itgt_eqb x y
  | None, None => true
  | _, _ => false
  end.
Definition stmts_case_ok (c : rule_id * bool * list name * list stmt * list stmt) : bool :=
  let '(r, ordered, used, input, impl) := c in
  let model := run_rule r used input in
  if ordered then list_eqb stmt_eqb model impl
  else same_set stmt_eqb model impl &&
       forallb (fun p => opt_itgt_eqb (env model (fst p)) (env impl (fst p))) (all_binds input).
