(* MiniPy -- a small statement language with an executable, fuel-indexed big-step semantics and an
   opaque-call oracle.  Reference semantics for C02 (control-flow rules); a *definition* (trusted),
   validated against CPython by harness/c02.py on every run (printed programs run with scripted stubs).

   Expressions are abstract:
     - a test is a literal (Known b), an opaque call c(i, reads...) (Unknown) whose VALUE is drawn
       from the oracle at every evaluation, or `not t`;
     - an expression statement e(i, reads...) is an opaque event;
     - assignments/returns carry a constant, a variable or a test expression.
   Every evaluation of an opaque call appends an event (with the values of the variables it reads)
   to the trace; the trace IS the observable behaviour (standard output is a subsequence of it).
   No proofs in this file. *)
From Coq Require Import List Bool Arith.
Import ListNotations.

Definition var := nat.

(* values: booleans, and non-boolean objects of either truthiness (5, 0, '', None, ...) *)
Inductive val := VBool (b : bool) | VObj (truthy : bool) (n : nat).
Definition truthy (v : val) : bool := match v with VBool b => b | VObj t _ => t end.

Inductive test :=
| Known (b : bool)                       (* literal_value succeeds: True / False *)
| Unknown (i : nat) (rd : list var)      (* c(i, v_rd...) : value from the oracle, one draw per evaluation *)
| TNot (t : test).                       (* not t *)

Inductive rexpr :=
| RVal (v : val)                         (* constant *)
| RVar (x : var)                         (* variable read *)
| RTest (t : test).                      (* the test expression used as a value *)

Inductive iter :=
| IKnown (n : nat)                       (* literal tuple with n elements *)
| IUnknown (i : nat) (rd : list var).    (* it(i, v_rd...) : opaque generator; every next() draws from the oracle *)

Inductive head := HWhile (t : test) | HFor (it : iter).

Inductive stmt :=
| SPass
| SEv (i : nat) (rd : list var)          (* e(i, v_rd...) *)
| SAssign (x : var) (e : rexpr)
| SReturn (e : rexpr)
| SRaise
| SBreak
| SContinue
| SIf (t : test) (body orelse : list stmt)
| SLoop (h : head) (body orelse : list stmt).

Notation SWhile t := (SLoop (HWhile t)).
Notation SFor it := (SLoop (HFor it)).

Inductive event :=
| EvCall (i : nat) (args : list val)
| EvTest (i : nat) (args : list val)
| EvIter (i : nat) (args : list val)
| EvNext (i : nat).

(* environments: a list of values indexed by variable number; a variable beyond the end reads as the
   default value and is created (with default padding) by its first assignment.  The list representation
   makes `x = v; x = v` and the exchange of assignments to different variables syntactic identities. *)
Definition env := list val.
Definition dflt : val := VBool false.
Definition get (e : env) (x : var) : val := nth x e dflt.
(* s_tr is the trace, most recent event first *)
Record state := mkSt { s_env : env; s_pos : nat; s_tr : list event }.
Definition oracle := nat -> val.

Inductive outcome := Normal | Ret (v : val) | Exc | Brk | Cnt.
Definition res := (outcome * state)%type.

Fixpoint upd (e : env) (x : var) (v : val) : env :=
  match x, e with
  | O, [] => [v]
  | O, _ :: tl => v :: tl
  | S x', [] => dflt :: upd [] x' v
  | S x', a :: tl => a :: upd tl x' v
  end.
Definition set_var (x : var) (v : val) (st : state) : state :=
  mkSt (upd (s_env st) x v) (s_pos st) (s_tr st).
Definition emit (ev : event) (st : state) : state := mkSt (s_env st) (s_pos st) (ev :: s_tr st).
(* one oracle draw *)
Definition draw (o : oracle) (st : state) : val * state :=
  (o (s_pos st), mkSt (s_env st) (S (s_pos st)) (s_tr st)).

Fixpoint eval_test (o : oracle) (st : state) (t : test) : val * state :=
  match t with
  | Known b => (VBool b, st)
  | Unknown i rd => draw o (emit (EvTest i (map (get (s_env st)) rd)) st)
  | TNot t' => let (v, st') := eval_test o st t' in (VBool (negb (truthy v)), st')
  end.

Definition eval_rexpr (o : oracle) (st : state) (e : rexpr) : val * state :=
  match e with
  | RVal v => (v, st)
  | RVar x => (get (s_env st) x, st)
  | RTest t => eval_test o st t
  end.

(* run-time loop state *)
Inductive lkind := LWhile (t : test) | LCount (n : nat) | LGen (i : nat).

Definition enter (o : oracle) (st : state) (h : head) : state * lkind :=
  match h with
  | HWhile t => (st, LWhile t)
  | HFor (IKnown n) => (st, LCount n)
  | HFor (IUnknown i rd) => (emit (EvIter i (map (get (s_env st)) rd)) st, LGen i)
  end.

(* does the loop run one more iteration? *)
Definition loop_next (o : oracle) (st : state) (lk : lkind) : bool * state * lkind :=
  match lk with
  | LWhile t => let (v, st1) := eval_test o st t in (truthy v, st1, lk)
  | LCount O => (false, st, lk)
  | LCount (S n) => (true, st, LCount n)
  | LGen i => let (v, st1) := draw o (emit (EvNext i) st) in (truthy v, st1, lk)
  end.

Definition andthen (r : option res) (k : state -> option res) : option res :=
  match r with Some (Normal, st) => k st | _ => r end.

Definition loop_k (r : option res) (k : state -> option res) : option res :=
  match r with
  | Some (Normal, st) | Some (Cnt, st) => k st
  | Some (Brk, st) => Some (Normal, st)
  | _ => r
  end.

(* one statement, given the executors for blocks and loops (instantiated with the fuel-decremented
   recursive calls below) *)
Definition step1 (ex : state -> list stmt -> option res)
                 (lp : state -> lkind -> list stmt -> list stmt -> option res)
                 (o : oracle) (st : state) (s : stmt) : option res :=
  match s with
  | SPass => Some (Normal, st)
  | SEv i rd => Some (Normal, emit (EvCall i (map (get (s_env st)) rd)) st)
  | SAssign x e => let (v, st1) := eval_rexpr o st e in Some (Normal, set_var x v st1)
  | SReturn e => let (v, st1) := eval_rexpr o st e in Some (Ret v, st1)
  | SRaise => Some (Exc, st)
  | SBreak => Some (Brk, st)
  | SContinue => Some (Cnt, st)
  | SIf t b e => let (v, st1) := eval_test o st t in ex st1 (if truthy v then b else e)
  | SLoop h b e => let (st1, lk) := enter o st h in lp st1 lk b e
  end.

Fixpoint exec (f : nat) (o : oracle) (st : state) (p : list stmt) {struct f} : option res :=
  match f with
  | O => None
  | S f' =>
      match p with
      | [] => Some (Normal, st)
      | s :: rest =>
          andthen (step1 (exec f' o) (loop_ f' o) o st s) (fun st' => exec f' o st' rest)
      end
  end
with loop_ (f : nat) (o : oracle) (st : state) (lk : lkind) (b e : list stmt) {struct f} : option res :=
  match f with
  | O => None
  | S f' =>
      match loop_next o st lk with
      | (true, st1, lk') => loop_k (exec f' o st1 b) (fun st2 => loop_ f' o st2 lk' b e)
      | (false, st1, _) => exec f' o st1 e
      end
  end.

(* ---- observations ---- *)
Definition runs (o : oracle) (st : state) (p : list stmt) (r : res) : Prop :=
  exists f, exec f o st p = Some r.
Definition lruns (o : oracle) (st : state) (lk : lkind) (b e : list stmt) (r : res) : Prop :=
  exists f, loop_ f o st lk b e = Some r.

(* strong equivalence (a congruence): same result, including the environment, under every oracle,
   from every state; termination is preserved in both directions *)
Definition equiv (p q : list stmt) : Prop := forall o st r, runs o st p r <-> runs o st q r.

(* what a caller of the function can see: outcome (with the returned value), trace, oracle position *)
Definition obs (r : res) : outcome * nat * list event := (fst r, s_pos (snd r), s_tr (snd r)).
(* program (function body) equivalence: locals die with the frame *)
Definition obs_equiv (p q : list stmt) : Prop :=
  forall o st,
    (forall r, runs o st p r -> exists r', runs o st q r' /\ obs r = obs r') /\
    (forall r, runs o st q r -> exists r', runs o st p r' /\ obs r = obs r').

(* ---- decidable equalities (used by rule models and by the correspondence) ---- *)
Definition val_eqb (a b : val) : bool :=
  match a, b with
  | VBool x, VBool y => Bool.eqb x y
  | VObj t n, VObj u m => Bool.eqb t u && Nat.eqb n m
  | _, _ => false
  end.
Fixpoint list_eqb {A} (eqb : A -> A -> bool) (l m : list A) : bool :=
  match l, m with
  | [], [] => true
  | a :: l', b :: m' => eqb a b && list_eqb eqb l' m'
  | _, _ => false
  end.
Fixpoint test_eqb (a b : test) : bool :=
  match a, b with
  | Known x, Known y => Bool.eqb x y
  | Unknown i r, Unknown j s => Nat.eqb i j && list_eqb Nat.eqb r s
  | TNot x, TNot y => test_eqb x y
  | _, _ => false
  end.
Definition rexpr_eqb (a b : rexpr) : bool :=
  match a, b with
  | RVal x, RVal y => val_eqb x y
  | RVar x, RVar y => Nat.eqb x y
  | RTest x, RTest y => test_eqb x y
  | _, _ => false
  end.
Definition iter_eqb (a b : iter) : bool :=
  match a, b with
  | IKnown n, IKnown m => Nat.eqb n m
  | IUnknown i r, IUnknown j s => Nat.eqb i j && list_eqb Nat.eqb r s
  | _, _ => false
  end.
Definition head_eqb (a b : head) : bool :=
  match a, b with
  | HWhile t, HWhile u => test_eqb t u
  | HFor i, HFor j => iter_eqb i j
  | _, _ => false
  end.
Fixpoint stmt_eqb (a b : stmt) : bool :=
  let blk := fix blk (l m : list stmt) : bool :=
               match l, m with
               | [], [] => true
               | x :: l', y :: m' => stmt_eqb x y && blk l' m'
               | _, _ => false
               end in
  match a, b with
  | SPass, SPass | SRaise, SRaise | SBreak, SBreak | SContinue, SContinue => true
  | SEv i r, SEv j s => Nat.eqb i j && list_eqb Nat.eqb r s
  | SAssign x e, SAssign y g => Nat.eqb x y && rexpr_eqb e g
  | SReturn e, SReturn g => rexpr_eqb e g
  | SIf t b e, SIf u c g => test_eqb t u && blk b c && blk e g
  | SLoop h b e, SLoop k c g => head_eqb h k && blk b c && blk e g
  | _, _ => false
  end.
Definition prog_eqb (p q : list stmt) : bool := list_eqb stmt_eqb p q.

(* ---- canonical forms produced by the harness parser:  `not <literal>` is a literal,
        a literal test used as a value is a constant ---- *)
Fixpoint ctest (t : test) : test :=
  match t with
  | TNot t' => match ctest t' with Known b => Known (negb b) | u => TNot u end
  | _ => t
  end.
Definition crexpr (e : rexpr) : rexpr :=
  match e with
  | RTest t => match ctest t with Known b => RVal (VBool b) | u => RTest u end
  | _ => e
  end.
Definition chead (h : head) : head := match h with HWhile t => HWhile (ctest t) | _ => h end.
Fixpoint cstmt (s : stmt) : stmt :=
  match s with
  | SAssign x e => SAssign x (crexpr e)
  | SReturn e => SReturn (crexpr e)
  | SIf t b e => SIf (ctest t) (map cstmt b) (map cstmt e)
  | SLoop h b e => SLoop (chead h) (map cstmt b) (map cstmt e)
  | _ => s
  end.
Definition canon (p : list stmt) : list stmt := map cstmt p.

(* ---- plumbing for the semantics validation against CPython ---- *)
Definition oracle_of (script : list val) : oracle := fun n => nth n script (VBool false).
Definition env_of (init : list val) : env := init.
Definition event_eqb (a b : event) : bool :=
  match a, b with
  | EvCall i x, EvCall j y | EvTest i x, EvTest j y | EvIter i x, EvIter j y =>
      Nat.eqb i j && list_eqb val_eqb x y
  | EvNext i, EvNext j => Nat.eqb i j
  | _, _ => false
  end.
Definition outcome_eqb (a b : outcome) : bool :=
  match a, b with
  | Normal, Normal | Exc, Exc | Brk, Brk | Cnt, Cnt => true
  | Ret v, Ret w => val_eqb v w
  | _, _ => false
  end.
(* expected = None: CPython did not finish within its step budget (the program diverges) *)
Record sem_case := mkSem { sc_prog : list stmt; sc_init : list val; sc_script : list val;
                           sc_expect : option (outcome * list event * list val) }.
Definition sem_case_ok (fuel : nat) (nvars : nat) (c : sem_case) : bool :=
  match exec fuel (oracle_of (sc_script c)) (mkSt (env_of (sc_init c)) 0 []) (sc_prog c), sc_expect c with
  | None, None => true
  | Some (out, st), Some (out', tr, final) =>
      outcome_eqb out out' && list_eqb event_eqb (rev (s_tr st)) tr
      && list_eqb val_eqb (map (get (s_env st)) (seq 0 nvars)) final
  | _, _ => false
  end.
