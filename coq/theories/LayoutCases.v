(* K12 -- decoders and comparison functions for the generated correspondence case files of harness/c11.py
   (trusted harness code; no model, no proofs).  Texts travel as hex strings: two hex digits per code
   point below 256, `u` followed by six hex digits otherwise; masks as strings of 0/1. *)
From Coq Require Import List NArith Arith Bool String Ascii.
Import ListNotations.
Require Import Pyrefact.LayoutModel.
Open Scope string_scope.

Definition hexval (a : ascii) : N :=
  let n := N_of_ascii a in
  if N.leb 48 n && N.leb n 57 then n - 48 else if N.leb 97 n && N.leb n 102 then n - 87 else 0.

Fixpoint dec (s : string) : list N :=
  match s with
  | String "u" (String a (String b (String c (String d (String e (String f tl)))))) =>
      (((((hexval a * 16 + hexval b) * 16 + hexval c) * 16 + hexval d) * 16 + hexval e) * 16 + hexval f)%N :: dec tl
  | String a (String b tl) => (hexval a * 16 + hexval b)%N :: dec tl
  | _ => []
  end.

Fixpoint decmask (s : string) : list bool :=
  match s with
  | String a tl => (if Ascii.eqb a "1" then true else false) :: decmask tl
  | EmptyString => []
  end.

Fixpoint nlist_eqb (a b : list N) : bool :=
  match a, b with
  | [], [] => true
  | x :: a', y :: b' => N.eqb x y && nlist_eqb a' b'
  | _, _ => false
  end.
Fixpoint blist_eqb (a b : list bool) : bool :=
  match a, b with
  | [], [] => true
  | x :: a', y :: b' => Bool.eqb x y && blist_eqb a' b'
  | _, _ => false
  end.

Definition mk (cs : list N) (ms : list bool) : text := combine cs ms.
Definition run_stage (id : nat) (s : text) : text :=
  match id with
  | 0 => expandtabs4 s
  | 1 => rmspace s
  | 2 => sub1 s
  | 3 => sub2 s
  | 4 => sub3 s
  | 5 => blank_lines s
  | _ => prepass s
  end.

(* (stage, input text, input mask ("" = all false), expected text, expected mask or "-") *)
Definition stage_case := (nat * string * string * string * string)%type.
Definition stage_case_ok (c : stage_case) : bool :=
  let '(id, cs, ms, ecs, ems) := c in
  let cs := dec cs in
  let inp := match ms with EmptyString => untagged cs | _ => mk cs (decmask ms) end in
  let out := run_stage id inp in
  nlist_eqb (plain out) (dec ecs) &&
  (if String.eqb ems "-" then true else blist_eqb (map snd out) (decmask ems)).

(* guards: (which, text, mask, expected value) *)
Definition guard_case_ok (c : nat * string * string * bool) : bool :=
  let '(id, cs, ms, e) := c in
  let s := mk (dec cs) (decmask ms) in
  Bool.eqb (match id with 0 => g_tab s | 1 => g_trail s | _ => g_blank s end) e.

Definition lines_eqb (a b : list (list N)) : bool :=
  (List.length a =? List.length b)%nat && forallb (fun p => nlist_eqb (fst p) (snd p)) (combine a b).
Definition script_of (l : list (nat * string)) : script :=
  map (fun e => (match fst e with 0 => Keep | 1 => Add | 2 => Del | _ => Hint end, untagged (dec (snd e)))) l.
(* (script as (tag, line) list, expected lines) *)
Definition minimize_case_ok (c : list (nat * string) * list string) : bool :=
  lines_eqb (map plain (minimize_ws (script_of (fst c)))) (map dec (snd c)).

Definition mkP (a1 a2 a3 a4 b1 b2 b3 b4 : bool) (s e i : nat) : pair_info :=
  mkPair (mkKind a1 a2 a3 a4) (mkKind b1 b2 b3 b4) s e i.
Definition import_case_ok (c : string * list pair_info * string) : bool :=
  let '(cs, ps, e) := c in nlist_eqb (plain (import_spacing (untagged (dec cs)) ps)) (dec e).

(* 0 = Lt, 1 = Eq, 2 = Gt, 3 = TabError *)
Definition indent_case_ok (c : string * string * nat) : bool :=
  let '(a, b, e) := c in
  match indent_cmp (dec a) (dec b), e with
  | Some Lt, 0 | Some Eq, 1 | Some Gt, 2 | None, 3 => true
  | _, _ => false
  end.
