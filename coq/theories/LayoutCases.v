(* K12 -- decoders and comparison functions for the generated correspondence case files of harness/c11.py
   (trusted harness code; no model, no proofs).  Texts travel as hex strings: two hex digits per code
   point below 256, `u` followed by six hex digits otherwise; masks as strings of 0/1. *)
From Coq Require Import List NArith Arith Bool String Ascii.
Import ListNotations.
Require Import Pyrefact.LayoutModel.
Open Scope string_scope.

Definition hexval (a : ascii) : N :=
  let n := N_of_ascii a in
  if N.leb 48 n && N.leb n 57 then n - 48 else if N.leb 97 n && N.leb n 102 then n - 87 else 0.

Fixpoint dec (s : string) : list N :=
  match s with
  | String "u" (String a (String b (String c (String d (String e (String f tl)))))) =>
      (((((hexval a * 16 + hexval b) * 16 + hexval c) * 16 + hexval d) * 16 + hexval e) * 16 + hexval f)%N :: dec tl
  | String a (String b tl) => (hexval a * 16 + hexval b)%N :: dec tl
  | _ => []
  end.

Fixpoint decmask (s : string) : list bool :=
  match s with
  | String a tl => (if Ascii.eqb a "1" then true else false) :: decmask tl
  | EmptyString => []
  end.

Fixpoint nlist_eqb (a b : list N) : bool :=
  match a, b with
  | [], [] => true
  | x :: a', y :: b' => N.eqb x y && nlist_eqb a' b'
  | _, _ => false
  end.
Fixpoint blist_eqb (a b : list bool) : bool :=
  match a, b with
  | [], [] => true
  | x :: a', y :: b' => Bool.eqb x y && blist_eqb a' b'
  | _, _ => false
  end.

Definition mk (cs : list N) (ms : list bool) : text := combine cs ms.
Definition run_stage (id : nat) (s : text) : text :=
  match id with
  | 0 => expandtabs4 s
  | 1 => rmspace s
  | 2 => sub1 s
  | 3 => sub2 s
  | 4 => sub3 s
  | 5 => blank_lines s
  | _ => prepass s
  end.

(* (stage, input text, input mask ("" = all false), expected text, expected mask or "-") *)
Definition stage_case := (nat * string * string * string * string)%type.
Definition stage_case_ok (c : stage_case) : bool :=
  let '(id, cs, ms, ecs, ems) := c in
  let cs := dec cs in
  let inp := match ms with EmptyString => untagged cs | _ => mk cs (decmask ms) end in
  let out := run_stage id inp in
  nlist_eqb (plain out) (dec ecs) &&
  (if String.eqb ems "-" then true else blist_eqb (map snd out) (decmask ems)).

(* guards: (which, text, mask, expected value) *)
Definition guard_case_ok (c : nat * string * string * bool) : bool :=
  let '(id, cs, ms, e) := c in
  let s := mk (dec cs) (decmask ms) in
  Bool.eqb (match id with 0 => g_tab s | 1 => g_trail s | _ => g_blank s end) e.

Definition lines_eqb (a b : list (list N)) : bool :=
  (List.length a =? List.length b)%nat && forallb (fun p => nlist_eqb (fst p) (snd p)) (combine a b).
Definition script_of (l : list (nat * string)) : script :=
  map (fun e => (match fst e with 0 => Keep | 1 => Add | 2 => Del | _ => Hint end, untagged (dec (snd e)))) l.
(* (script as (tag, line) list, expected lines) *)
Definition minimize_case_ok (c : list (nat * string) * list string) : bool :=
  lines_eqb (map plain (minimize_ws (script_of (fst c)))) (map dec (snd c)).

Definition mkP (a1 a2 a3 a4 b1 b2 b3 b4 : bool) (s e i : nat) : pair_info :=
  mkPair (mkKind a1 a2 a3 a4) (mkKind b1 b2 b3 b4) s e i.
(* the ranges observed in the real run must also satisfy the guard of T11.1/T11.2 (import spacing) *)
Definition import_case_ok (c : string * list pair_info * string) : bool :=
  let '(cs, ps, e) := c in
  g_ranges (untagged (dec cs)) ps && nlist_eqb (plain (import_spacing (untagged (dec cs)) ps)) (dec e).

(* 0 = Lt, 1 = Eq, 2 = Gt, 3 = TabError *)
Definition indent_case_ok (c : string * string * nat) : bool :=
  let '(a, b, e) := c in
  match indent_cmp (dec a) (dec b), e with
  | Some Lt, 0 | Some Eq, 1 | Some Gt, 2 | None, 3 => true
  | _, _ => false
  end.

(* ---- compact encoding for long texts: ASCII bytes stand for themselves; byte 1 introduces six hex digits *)
Fixpoint dec2 (s : string) : list N :=
  match s with
  | String "001" (String a (String b (String c (String d (String e (String f tl)))))) =>
      (((((hexval a * 16 + hexval b) * 16 + hexval c) * 16 + hexval d) * 16 + hexval e) * 16 + hexval f)%N :: dec2 tl
  | String a tl => N_of_ascii a :: dec2 tl
  | EmptyString => []
  end.

(* run-length mask: lengths of alternating runs, starting with an unmasked run *)
Fixpoint rle (b : bool) (l : list nat) : list bool :=
  match l with
  | [] => []
  | n :: tl => repeat b n ++ rle (negb b) tl
  end.
Definition tagged (cs : list N) (m : option (list nat)) : text :=
  match m with Some l => mk cs (rle false l) | None => untagged cs end.
Definition mask_ok (out : text) (m : option (list nat)) : bool :=
  match m with Some l => blist_eqb (map snd out) (rle false l) | None => true end.

(* one module through the real pre-pass: s -expandtabs-> e -rmspace-> r -sub1-> b1 -sub2-> b2 -sub3-> b3,
   tokenize masks of s, e, r, b3 (None = does not tokenize), and the three guards evaluated in Python *)
Record chain := mkChain {
  c_s : string; c_e : string; c_r : string; c_b1 : string; c_b2 : string; c_b3 : string;
  c_ms : option (list nat); c_me : option (list nat); c_mr : option (list nat); c_mb : option (list nat);
  c_gtab : bool; c_gtrail : bool; c_gblank : bool }.
Definition chain_ok (c : chain) : bool :=
  let S := tagged (dec2 (c_s c)) (c_ms c) in
  let E := expandtabs4 S in
  let Ein := tagged (dec2 (c_e c)) (c_me c) in
  let R := rmspace Ein in
  let Rin := tagged (dec2 (c_r c)) (c_mr c) in
  let B1 := sub1 Rin in
  let B2 := sub2 B1 in
  let B3 := sub3 B2 in
  nlist_eqb (plain E) (dec2 (c_e c)) && mask_ok E (match c_ms c with Some _ => c_me c | None => None end) &&
  nlist_eqb (plain R) (dec2 (c_r c)) && mask_ok R (match c_me c with Some _ => c_mr c | None => None end) &&
  nlist_eqb (plain B1) (dec2 (c_b1 c)) && nlist_eqb (plain B2) (dec2 (c_b2 c)) &&
  nlist_eqb (plain B3) (dec2 (c_b3 c)) && mask_ok B3 (match c_mr c with Some _ => c_mb c | None => None end) &&
  nlist_eqb (plain (prepass S)) (dec2 (c_b3 c)) &&
  match c_ms c with Some _ => Bool.eqb (g_tab S) (c_gtab c) | None => true end &&
  match c_me c with Some _ => Bool.eqb (g_trail Ein) (c_gtrail c) | None => true end &&
  match c_mr c with Some _ => Bool.eqb (g_blank Rin) (c_gblank c) | None => true end.

(* a single stage on a long text (post-pass calls seen during the sweep) *)
Definition long_case_ok (c : nat * string * string) : bool :=
  let '(id, a, b) := c in nlist_eqb (plain (run_stage id (untagged (dec2 a)))) (dec2 b).

(* the 2nd / 3rd substitution and the whole blank-line function on a raw string *)
Definition raw_ok (c : string * string * string * string) : bool :=
  let '(s, o2, o3, ob) := c in
  let S := untagged (dec2 s) in
  nlist_eqb (plain (sub2 S)) (dec2 o2) && nlist_eqb (plain (sub3 S)) (dec2 o3) &&
  nlist_eqb (plain (blank_lines S)) (dec2 ob).

(* ---- fix_line_lengths' dedent / re-indent frame: (lines of the range, indent the code computed,
   lines after textwrap.dedent, lines handed to textwrap.indent, lines it returned); the last three are
   only there when the indent is positive *)
Require Import Pyrefact.FrameModel.
Definition frame_case_ok (c : list string * nat * list string * list string * list string) : bool :=
  let '(cur, n, ded, new, ind) := c in
  let cur := map dec2 cur in
  (level cur =? n)%nat &&
  (if (0 <? n)%nat then lines_eqb (dedent cur) (map dec2 ded) && lines_eqb (indent_by n (map dec2 new)) (map dec2 ind)
   else true).
