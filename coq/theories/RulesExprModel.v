(* C02, expression / collection tranche: value semantics of a Python expression fragment and faithful
   models of pyrefact's expression-level rewrite rules (pattern + side conditions + replacement).
   Models only; the proofs are in RulesExprProofs.v.  The semantics (eval, bapply, ...) is a trusted
   definition validated against CPython by harness/c02_expr.py; the rule models are validated against
   the real rule functions by the same harness. *)
From Coq Require Import List ZArith Bool Lia.
Import ListNotations.
Open Scope Z_scope.

(* ------------------------------------------------------------------------------------------- *)
(* Values *)

Inductive val :=
| VNone
| VBool (b : bool)
| VInt (z : Z)
| VStr (s : nat)                 (* string number s; 0 is the empty string; order of ids = string order *)
| VObj (o : nat)                 (* opaque object (identity o) whose __eq__ is defined by the world *)
| VTuple (l : list val)
| VList (l : list val)
| VSet (l : list val)            (* duplicate-free, in insertion order *)
| VDict (d : list (val * val))   (* insertion order, last write wins, first key object kept *)
| VIter (l : list val).          (* an iterator that will still yield l *)

Fixpoint val_eqb (a b : val) {struct a} : bool :=
  let leq := fix leq (x y : list val) : bool :=
    match x, y with
    | [], [] => true
    | p :: x', q :: y' => val_eqb p q && leq x' y'
    | _, _ => false
    end in
  match a, b with
  | VNone, VNone => true
  | VBool x, VBool y => Bool.eqb x y
  | VInt x, VInt y => Z.eqb x y
  | VStr x, VStr y => Nat.eqb x y
  | VObj x, VObj y => Nat.eqb x y
  | VTuple x, VTuple y => leq x y
  | VList x, VList y => leq x y
  | VSet x, VSet y => leq x y
  | VIter x, VIter y => leq x y
  | VDict x, VDict y =>
      (fix deq (x y : list (val * val)) : bool :=
         match x, y with
         | [], [] => true
         | (k, v) :: x', (k', v') :: y' => val_eqb k k' && val_eqb v v' && deq x' y'
         | _, _ => false
         end) x y
  | _, _ => false
  end.

Definition list_val_eqb (x y : list val) : bool := val_eqb (VList x) (VList y).

(* numeric view: bool is a subtype of int *)
Definition num (v : val) : option Z :=
  match v with
  | VBool b => Some (if b then 1 else 0)
  | VInt z => Some z
  | _ => None
  end.

(* hash/== normal form: True and 1 are the same key, also inside tuples *)
Fixpoint norm (v : val) : val :=
  match v with
  | VBool b => VInt (if b then 1 else 0)
  | VTuple l => VTuple (map norm l)
  | _ => v
  end.

Fixpoint hashable (v : val) : bool :=
  match v with
  | VNone | VBool _ | VInt _ | VStr _ | VObj _ => true
  | VTuple l => forallb hashable l
  | _ => false
  end.

Definition key_eqb (a b : val) : bool := val_eqb (norm a) (norm b).

Definition set_add (s : list val) (v : val) : list val :=
  if existsb (key_eqb v) s then s else s ++ [v].

Definition mkset (l : list val) : option val :=
  if forallb hashable l then Some (VSet (fold_left set_add l [])) else None.

Fixpoint dict_set (d : list (val * val)) (k v : val) : list (val * val) :=
  match d with
  | [] => [(k, v)]
  | (k', v') :: tl => if key_eqb k' k then (k', v) :: tl else (k', v') :: dict_set tl k v
  end.

Definition dict_update (d e : list (val * val)) : list (val * val) :=
  fold_left (fun d kv => dict_set d (fst kv) (snd kv)) e d.

(* what iter(v) yields *)
Definition items_of (v : val) : option (list val) :=
  match v with
  | VTuple l | VList l | VSet l | VIter l => Some l
  | VDict d => Some (map fst d)
  | _ => None
  end.

Definition truthy (v : val) : bool :=
  match v with
  | VNone => false
  | VBool b => b
  | VInt z => negb (z =? 0)
  | VStr s => negb (Nat.eqb s 0)
  | VObj _ => true
  | VTuple l | VList l | VSet l => match l with [] => false | _ => true end
  | VDict d => match d with [] => false | _ => true end
  | VIter _ => true
  end.

(* ordering: numbers among themselves, strings among themselves *)
Definition skey (v : val) : option (Z * Z) :=
  match v with
  | VBool b => Some (0, if b then 1 else 0)
  | VInt z => Some (0, z)
  | VStr s => Some (1, Z.of_nat s)
  | _ => None
  end.

Definition zk (v : val) : Z := match skey v with Some (_, z) => z | None => 0 end.
Definition cls (v : val) : Z := match skey v with Some (c, _) => c | None => -1 end.

Definition sortable (l : list val) : bool :=
  match l with
  | [] => true
  | x :: _ => (0 <=? cls x) && forallb (fun v => cls v =? cls x) l
  end.

(* stable insertion sort: x goes in front of the first element that is not smaller *)
Fixpoint insert (x : val) (l : list val) : list val :=
  match l with
  | [] => [x]
  | y :: tl => if zk x <=? zk y then x :: l else y :: insert x tl
  end.

Definition sort (l : list val) : list val := fold_right insert [] l.

(* sorted(l, reverse=r): CPython reverses, sorts stably, reverses *)
Definition py_sorted (r : bool) (l : list val) : option val :=
  if sortable l then Some (VList (if r then rev (sort (rev l)) else sort l)) else None.

Fixpoint sum_num (l : list val) : option Z :=
  match l with
  | [] => Some 0
  | v :: tl => match num v, sum_num tl with
               | Some a, Some b => Some (a + b)
               | _, _ => None
               end
  end.

Fixpoint enum_from (i : Z) (l : list val) : list val :=
  match l with
  | [] => []
  | x :: tl => VTuple [VInt i; x] :: enum_from (i + 1) tl
  end.

Fixpoint zip_cons (l : list val) (rs : list (list val)) : list (list val) :=
  match l, rs with
  | x :: l', r :: rs' => (x :: r) :: zip_cons l' rs'
  | _, _ => []
  end.

Fixpoint zipn (ls : list (list val)) : list (list val) :=
  match ls with
  | [] => []
  | l :: ls' => match ls' with
                | [] => map (fun x => [x]) l
                | _ => zip_cons l (zipn ls')
                end
  end.

Definition max_len (ls : list (list val)) : nat := fold_right (fun l m => Nat.max (length l) m) O ls.
Definition pad_to (n : nat) (l : list val) : list val := l ++ repeat VNone (n - length l).
Definition zip_longest (ls : list (list val)) : list (list val) :=
  zipn (map (pad_to (max_len ls)) ls).

Fixpoint all_items (vs : list val) : option (list (list val)) :=
  match vs with
  | [] => Some []
  | v :: tl => match items_of v, all_items tl with
               | Some l, Some ls => Some (l :: ls)
               | _, _ => None
               end
  end.

(* ------------------------------------------------------------------------------------------- *)
(* Builtins *)

Inductive bi :=
| BList | BTuple | BSet | BDict | BIter | BSorted | BReversed | BSum | BLen
| BEnumerate | BZip | BZipLongest (* itertools.zip_longest *) | BZipLongestBare (* zip_longest *)
| BChain (* itertools.chain *).

Definition bi_eqb (a b : bi) : bool :=
  match a, b with
  | BList, BList | BTuple, BTuple | BSet, BSet | BDict, BDict | BIter, BIter | BSorted, BSorted
  | BReversed, BReversed | BSum, BSum | BLen, BLen | BEnumerate, BEnumerate | BZip, BZip
  | BZipLongest, BZipLongest | BZipLongestBare, BZipLongestBare | BChain, BChain => true
  | _, _ => false
  end.

(* keyword names *)
Definition KReverse : nat := 0%nat.
Definition KKey : nat := 1%nat.
Definition KStart : nat := 2%nat.
Definition KStrict : nat := 3%nat.

(* the only keyword whose meaning is modelled: sorted(..., reverse=v) *)
Definition sorted_kws (kws : list (nat * val)) : option bool :=
  match kws with
  | [] => Some false
  | [(k, v)] => if Nat.eqb k KReverse then
                  match v with VBool b => Some b | VInt z => Some (negb (z =? 0)) | _ => None end
                else None
  | _ => None
  end.

Definition bapply (b : bi) (args : list val) (kws : list (nat * val)) : option val :=
  match b, args, kws with
  | BList, [], [] => Some (VList [])
  | BList, [v], [] => option_map VList (items_of v)
  | BTuple, [], [] => Some (VTuple [])
  | BTuple, [v], [] => option_map VTuple (items_of v)
  | BSet, [], [] => Some (VSet [])
  | BSet, [v], [] => match items_of v with Some l => mkset l | None => None end
  | BDict, [], [] => Some (VDict [])
  | BDict, [VDict d], [] => Some (VDict d)
  | BIter, [v], [] => option_map VIter (items_of v)
  | BSorted, [v], _ =>
      match sorted_kws kws, items_of v with
      | Some r, Some l => py_sorted r l
      | _, _ => None
      end
  | BReversed, [v], [] =>
      match v with
      | VList l | VTuple l => Some (VIter (rev l))
      | VDict d => Some (VIter (rev (map fst d)))
      | _ => None
      end
  | BSum, [v], [] => match items_of v with Some l => option_map VInt (sum_num l) | None => None end
  | BLen, [v], [] =>
      match v with
      | VIter _ => None
      | _ => option_map (fun l => VInt (Z.of_nat (length l))) (items_of v)
      end
  | BEnumerate, [v], [] => option_map (fun l => VIter (enum_from 0 l)) (items_of v)
  | BZip, _, [] => option_map (fun ls => VIter (map VTuple (zipn ls))) (all_items args)
  | BZipLongest, _, [] | BZipLongestBare, _, [] =>
      option_map (fun ls => VIter (map VTuple (zip_longest ls))) (all_items args)
  | BChain, _, [] => option_map (fun ls => VIter (concat ls)) (all_items args)
  | _, _, _ => None
  end.

(* ------------------------------------------------------------------------------------------- *)
(* Expressions (shaped like Python's ast: Starred / keyword / dict items are nodes) *)

Inductive atom := ANone | ABool (b : bool) | AInt (z : Z) | AStr (s : nat).

Definition val_of_atom (a : atom) : val :=
  match a with ANone => VNone | ABool b => VBool b | AInt z => VInt z | AStr s => VStr s end.

Inductive cmpop := Eq | NotEq | Lt | LtE | Gt | GtE | Is | IsNot | In | NotIn.
Inductive skind := KList | KTuple | KSet.
Inductive ckind := CList | CSet | CGen | CDict.
Inductive tgt := TName (x : nat) | TTup (xs : list nat).

Inductive expr :=
| EConst (a : atom)
| EName (x : nat)
| ECall (f : nat) (args : list expr)              (* call of an unknown (user) function *)
| EBi (b : bi) (args : list expr)                 (* builtin call; args may hold EStar and, last, EKw *)
| ESeq (k : skind) (elts : list expr)             (* display; elements may be EStar *)
| EDict (items : list expr)                       (* items are EKV k v or EDStar v *)
| ECmp (l : expr) (rest : list expr)              (* rest items are EOp op e *)
| ENot (e : expr)
| EComp (k : ckind) (elt : expr) (dval : expr) (t : tgt) (iter : expr) (ifs : list expr)
| EStar (e : expr)
| EKw (k : nat) (e : expr)
| EKV (k v : expr)
| EDStar (v : expr)
| EOp (o : cmpop) (e : expr).

Definition underscore : nat := 0%nat.

(* ------------------------------------------------------------------------------------------- *)
(* Evaluation *)

Definition trace := list (nat * list val).

Record world := {
  call_or : trace -> nat -> list val -> option val;   (* result of a user call; None = it raises *)
  eq_or : nat -> val -> val                           (* o.__eq__(other) for an opaque object *)
}.

Definition env := nat -> option val.
Definition upd (en : env) (x : nat) (v : val) : env :=
  fun y => if Nat.eqb y x then Some v else en y.

Fixpoint bind_names (xs : list nat) (vs : list val) (en : env) : option env :=
  match xs, vs with
  | [], [] => Some en
  | x :: xs', v :: vs' => bind_names xs' vs' (upd en x v)
  | _, _ => None
  end.

Definition bind (t : tgt) (v : val) (en : env) : option env :=
  match t with
  | TName x => Some (upd en x v)
  | TTup xs => match items_of v with Some vs => bind_names xs vs en | None => None end
  end.

(* == on values: default identity-or-structure, numbers by value; an opaque object decides itself *)
Definition py_eq (w : world) (a b : val) : val :=
  match a, b with
  | VObj o, _ => eq_or w o b
  | _, VObj o => eq_or w o a
  | _, _ => VBool (key_eqb a b)
  end.

Definition is_same (a b : val) : option bool :=
  match b with
  | VNone | VBool _ => Some (val_eqb a b)
  | _ => match a with
         | VNone | VBool _ => Some (val_eqb a b)
         | _ => None          (* identity of other values is not modelled *)
         end
  end.

Definition py_lt (a b : val) : option bool :=
  if (0 <=? cls a) && (cls a =? cls b) then Some (zk a <? zk b) else None.
Definition py_le (a b : val) : option bool :=
  if (0 <=? cls a) && (cls a =? cls b) then Some (zk a <=? zk b) else None.

Definition py_in (a c : val) : option bool :=
  match a, c with
  | VObj _, _ => None
  | _, VTuple l | _, VList l =>
      if existsb (fun v => match v with VObj _ => true | _ => false end) l then None
      else Some (existsb (key_eqb a) l)
  | _, VSet l =>          (* membership in a set hashes the candidate *)
      if existsb (fun v => match v with VObj _ => true | _ => false end) l || negb (hashable a) then None
      else Some (existsb (key_eqb a) l)
  | _, VDict d => if hashable a then Some (existsb (key_eqb a) (map fst d)) else None
  | _, _ => None
  end.

Definition cmp_sem (w : world) (o : cmpop) (a b : val) : option val :=
  match o with
  | Eq => Some (py_eq w a b)
  | NotEq => Some (VBool (negb (truthy (py_eq w a b))))   (* default __ne__ inverts __eq__ *)
  | Lt => option_map VBool (py_lt a b)
  | LtE => option_map VBool (py_le a b)
  | Gt => option_map VBool (py_lt b a)
  | GtE => option_map VBool (py_le b a)
  | Is => option_map VBool (is_same a b)
  | IsNot => option_map (fun r => VBool (negb r)) (is_same a b)
  | In => option_map VBool (py_in a b)
  | NotIn => option_map (fun r => VBool (negb r)) (py_in a b)
  end.

Definition finish_comp (k : ckind) (acc : list val) (dacc : list (val * val)) : option val :=
  match k with
  | CList => Some (VList acc)
  | CGen => Some (VIter acc)
  | CSet => mkset acc
  | CDict => Some (VDict dacc)
  end.

Fixpoint split_kws (vs : list (option nat * val)) : list val * list (nat * val) :=
  match vs with
  | [] => ([], [])
  | (None, v) :: tl => let '(a, k) := split_kws tl in (v :: a, k)
  | (Some n, v) :: tl => let '(a, k) := split_kws tl in (a, (n, v) :: k)
  end.

(* The list walkers of the evaluator, parametric in the evaluator of the members (open recursion). *)
Section Walkers.
  Variable ev : expr -> env -> trace -> option (val * trace).

  (* positional elements with star expansion, left to right *)
  Fixpoint eval_elts (en : env) (l : list expr) (tr : trace) : option (list val * trace) :=
    match l with
    | [] => Some ([], tr)
    | a :: tl =>
        match a with
        | EStar a' =>
            match ev a' en tr with
            | Some (v, tr1) =>
                match items_of v with
                | Some vs => match eval_elts en tl tr1 with
                             | Some (rest, tr2) => Some (vs ++ rest, tr2)
                             | None => None
                             end
                | None => None
                end
            | None => None
            end
        | _ =>
            match ev a en tr with
            | Some (v, tr1) => match eval_elts en tl tr1 with
                               | Some (rest, tr2) => Some (v :: rest, tr2)
                               | None => None
                               end
            | None => None
            end
        end
    end.

  (* call arguments: positional (star-expanded) and keyword, left to right *)
  Fixpoint eval_args (en : env) (l : list expr) (tr : trace) : option (list (option nat * val) * trace) :=
    match l with
    | [] => Some ([], tr)
    | a :: tl =>
        match a with
        | EKw k a' =>
            match ev a' en tr with
            | Some (v, tr1) => match eval_args en tl tr1 with
                               | Some (rest, tr2) => Some ((Some k, v) :: rest, tr2)
                               | None => None
                               end
            | None => None
            end
        | EStar a' =>
            match ev a' en tr with
            | Some (v, tr1) =>
                match items_of v with
                | Some vs => match eval_args en tl tr1 with
                             | Some (rest, tr2) => Some (map (fun x => (None, x)) vs ++ rest, tr2)
                             | None => None
                             end
                | None => None
                end
            | None => None
            end
        | _ =>
            match ev a en tr with
            | Some (v, tr1) => match eval_args en tl tr1 with
                               | Some (rest, tr2) => Some ((None, v) :: rest, tr2)
                               | None => None
                               end
            | None => None
            end
        end
    end.

  (* dict display: key then value, in order; ** merges a dict *)
  Fixpoint eval_items (en : env) (l : list expr) (d : list (val * val)) (tr : trace)
    : option (list (val * val) * trace) :=
    match l with
    | [] => Some (d, tr)
    | a :: tl =>
        match a with
        | EKV k v =>
            match ev k en tr with
            | Some (kv, tr1) =>
                match ev v en tr1 with
                | Some (vv, tr2) => if hashable kv then eval_items en tl (dict_set d kv vv) tr2 else None
                | None => None
                end
            | None => None
            end
        | EDStar v =>
            match ev v en tr with
            | Some (VDict d', tr1) => eval_items en tl (dict_update d d') tr1
            | _ => None
            end
        | _ => None
        end
    end.

  (* comparison chain a op b op c ...: short circuit, every operand evaluated at most once *)
  Fixpoint eval_chain (w : world) (en : env) (r : list expr) (lv : val) (tr : trace) : option (val * trace) :=
    match r with
    | [] => None
    | a :: tl =>
        match a with
        | EOp o a' =>
            match ev a' en tr with
            | Some (rv, tr1) =>
                match cmp_sem w o lv rv with
                | Some res =>
                    match tl with
                    | [] => Some (res, tr1)
                    | _ => if truthy res then eval_chain w en tl rv tr1 else Some (res, tr1)
                    end
                | None => None
                end
            | None => None
            end
        | _ => None
        end
    end.

  Fixpoint eval_conds (en : env) (cs : list expr) (tr : trace) : option (bool * trace) :=
    match cs with
    | [] => Some (true, tr)
    | c :: cs' =>
        match ev c en tr with
        | Some (cv, tr1) => if truthy cv then eval_conds en cs' tr1 else Some (false, tr1)
        | None => None
        end
    end.

  (* the loop of a one-generator comprehension over the values xs of its iterable *)
  Section Loop.
    Variables (k : ckind) (elt dval : expr) (t : tgt) (ifs : list expr) (en : env).
    Fixpoint comp_loop (xs : list val) (acc : list val) (dacc : list (val * val)) (tr : trace)
      : option (val * trace) :=
      match xs with
      | [] => match finish_comp k acc dacc with Some r => Some (r, tr) | None => None end
      | x :: xs' =>
          match bind t x en with
          | Some en' =>
              match eval_conds en' ifs tr with
              | Some (true, tr1) =>
                  match ev elt en' tr1 with
                  | Some (v, tr2) =>
                      match k with
                      | CDict =>
                          match ev dval en' tr2 with
                          | Some (dv, tr3) =>
                              if hashable v then comp_loop xs' acc (dict_set dacc v dv) tr3 else None
                          | None => None
                          end
                      | _ => comp_loop xs' (acc ++ [v]) dacc tr2
                      end
                  | None => None
                  end
              | Some (false, tr1) => comp_loop xs' acc dacc tr1
              | None => None
              end
          | None => None
          end
      end.
  End Loop.
End Walkers.

Fixpoint eval (w : world) (e : expr) (en : env) (tr : trace) {struct e} : option (val * trace) :=
  match e with
  | EConst a => Some (val_of_atom a, tr)
  | EName x => match en x with Some v => Some (v, tr) | None => None end
  | ECall f args =>
      match eval_elts (eval w) en args tr with
      | Some (vs, tr1) =>
          match call_or w tr1 f vs with
          | Some r => Some (r, tr1 ++ [(f, vs)])
          | None => None
          end
      | None => None
      end
  | EBi b args =>
      match eval_args (eval w) en args tr with
      | Some (vs, tr1) =>
          match bapply b (fst (split_kws vs)) (snd (split_kws vs)) with
          | Some r => Some (r, tr1)
          | None => None
          end
      | None => None
      end
  | ESeq k elts =>
      match eval_elts (eval w) en elts tr with
      | Some (vs, tr1) =>
          match k with
          | KList => Some (VList vs, tr1)
          | KTuple => Some (VTuple vs, tr1)
          | KSet => match mkset vs with Some s => Some (s, tr1) | None => None end
          end
      | None => None
      end
  | EDict items =>
      match eval_items (eval w) en items [] tr with
      | Some (d, tr1) => Some (VDict d, tr1)
      | None => None
      end
  | ECmp l rest =>
      match eval w l en tr with
      | Some (lv, tr0) => eval_chain (eval w) w en rest lv tr0
      | None => None
      end
  | ENot e1 =>
      match eval w e1 en tr with
      | Some (v, tr1) => Some (VBool (negb (truthy v)), tr1)
      | None => None
      end
  | EComp k elt dval t iter ifs =>
      match eval w iter en tr with
      | Some (itv, tr0) =>
          match items_of itv with
          | Some xs => comp_loop (eval w) k elt dval t ifs en xs [] [] tr0
          | None => None
          end
      | None => None
      end
  | EStar _ | EKw _ _ | EKV _ _ | EDStar _ | EOp _ _ => None
  end.

(* =========================================================================================== *)
(* Rule models.  Each rw_* mirrors what the generator of the real rule yields for the ROOT node of
   the expression (None / [] = the rule does not fire at the root).  Rewriting below the root is the
   same function applied to a subterm (the walker of the rule visits every node). *)

Definition is_star (e : expr) : bool := match e with EStar _ => true | _ => false end.
Definition is_kw (e : expr) : bool := match e with EKw _ _ => true | _ => false end.
Definition plain (e : expr) : bool := negb (is_star e) && negb (is_kw e).

(* stand-in for `not core.has_side_effect(e, safe_callables)` on the generated domain: names and
   constants have no effect, a call of an unknown function has one *)
Definition simple (e : expr) : bool :=
  match e with EConst _ | EName _ => true | _ => false end.

(* is the name `_` read anywhere (fixes._reads_underscore, on the whole file) *)
Fixpoint reads_us (e : expr) : bool :=
  match e with
  | EConst _ => false
  | EName x => Nat.eqb x underscore
  | ECall _ args | EBi _ args | ESeq _ args | EDict args => existsb reads_us args
  | ECmp l rest => reads_us l || existsb reads_us rest
  | ENot e1 | EStar e1 | EKw _ e1 | EDStar e1 | EOp _ e1 => reads_us e1
  | EKV k v => reads_us k || reads_us v
  | EComp _ elt dval _ iter ifs => reads_us elt || reads_us dval || reads_us iter || existsb reads_us ifs
  end.

(* ---- fixes.singleton_eq_comparison (repaired: only None) ---------------------------------- *)

Definition is_none_const (e : expr) : bool := match e with EConst ANone => true | _ => false end.

Definition singleton_item (it : expr) : expr * bool :=
  match it with
  | EOp Eq c => if is_none_const c then (EOp Is c, true) else (it, false)
  | EOp NotEq c => if is_none_const c then (EOp IsNot c, true) else (it, false)
  | _ => (it, false)
  end.

Definition rw_singleton (e : expr) : option expr :=
  match e with
  | ECmp l rest =>
      let r := map singleton_item rest in
      if existsb snd r then Some (ECmp l (map fst r)) else None
  | _ => None
  end.

(* the rule as it was before the repair (also True / False) -- kept for the refutation *)
Definition is_singleton_const (e : expr) : bool :=
  match e with EConst ANone | EConst (ABool _) => true | _ => false end.
Definition singleton_item_old (it : expr) : expr * bool :=
  match it with
  | EOp Eq c => if is_singleton_const c then (EOp Is c, true) else (it, false)
  | EOp NotEq c => if is_singleton_const c then (EOp IsNot c, true) else (it, false)
  | _ => (it, false)
  end.
Definition rw_singleton_old (e : expr) : option expr :=
  match e with
  | ECmp l rest =>
      let r := map singleton_item_old rest in
      if existsb snd r then Some (ECmp l (map fst r)) else None
  | _ => None
  end.

(* ---- equality of constants as dict keys (ast.Constant.value used as a dict key) ----------- *)

Definition akey (a : atom) : Z * Z :=
  match a with
  | ANone => (0, 0)
  | ABool b => (1, if b then 1 else 0)
  | AInt z => (1, z)
  | AStr s => (2, Z.of_nat s)
  end.
Definition atom_eqb (a b : atom) : bool :=
  (fst (akey a) =? fst (akey b)) && (snd (akey a) =? snd (akey b)).

(* ---- fixes.remove_duplicate_set_elts ------------------------------------------------------ *)

Fixpoint dedup_set_elts (seen : list atom) (l : list expr) : list expr :=
  match l with
  | [] => []
  | e :: tl =>
      match e with
      | EConst a => if existsb (atom_eqb a) seen then dedup_set_elts seen tl
                    else e :: dedup_set_elts (a :: seen) tl
      | _ => e :: dedup_set_elts seen tl
      end
  end.

Definition rw_dup_set (e : expr) : option expr :=
  match e with
  | ESeq KSet elts =>
      let r := dedup_set_elts [] elts in
      if (length r <? length elts)%nat then Some (ESeq KSet r) else None
  | _ => None
  end.

(* ---- fixes.remove_duplicate_dict_keys (repaired) ------------------------------------------ *)
(* Python computes all groups at once; the model handles the group of the head key, then the rest
   (same function: an accepted group only removes constant-keyed entries with effect-free values,
   which cannot change the verdict for another group; a rejected group is remembered in `seen`). *)

Definition is_key_of (a : atom) (it : expr) : bool :=
  match it with EKV (EConst a') _ => atom_eqb a' a | _ => false end.

(* split after the last entry with key a: (segment up to and including it, its value) *)
Fixpoint last_seg (a : atom) (l : list expr) : option (list expr * expr) :=
  match l with
  | [] => None
  | it :: tl =>
      match last_seg a tl with
      | Some (seg, vl) => Some (it :: seg, vl)
      | None => match it with
                | EKV (EConst a') v' => if atom_eqb a' a then Some ([it], v') else None
                | _ => None
                end
      end
  end.

Definition seg_item_ok (it : expr) : bool :=
  match it with EKV (EConst _) v => simple v | _ => false end.

Definition remove_key (a : atom) (l : list expr) : list expr :=
  filter (fun it => negb (is_key_of a it)) l.

Fixpoint dedup_dict_items (fuel : nat) (seen : list atom) (items : list expr) : list expr :=
  match fuel with
  | O => items
  | S fuel' =>
      match items with
      | [] => []
      | it :: tl =>
          match it with
          | EKV (EConst a) v =>
              if existsb (atom_eqb a) seen then it :: dedup_dict_items fuel' seen tl
              else match last_seg a tl with
                   | Some (seg, vl) =>
                       if simple v && forallb seg_item_ok seg
                       then EKV (EConst a) vl :: dedup_dict_items fuel' (a :: seen) (remove_key a tl)
                       else it :: dedup_dict_items fuel' (a :: seen) tl
                   | None => it :: dedup_dict_items fuel' (a :: seen) tl
                   end
          | _ => it :: dedup_dict_items fuel' seen tl
          end
      end
  end.

Definition rw_dup_dict (e : expr) : option expr :=
  match e with
  | EDict items =>
      let r := dedup_dict_items (length items) [] items in
      if (length r <? length items)%nat then Some (EDict r) else None
  | _ => None
  end.

(* ---- fixes.redundant_enumerate (repaired) ------------------------------------------------- *)
(* root : the whole expression of the file (the repaired rule looks for reads of `_` everywhere) *)

Definition rw_enumerate (root e : expr) : option expr :=
  if reads_us root then None else
  match e with
  | EComp k elt dval (TTup [u; x]) (EBi BEnumerate [it]) ifs =>
      if Nat.eqb u underscore && negb (is_kw it) then Some (EComp k elt dval (TName x) it ifs) else None
  | _ => None
  end.

(* ---- fixes.unused_zip_args (repaired) ----------------------------------------------------- *)

Definition is_zip (b : bi) : bool :=
  match b with BZip | BZipLongest | BZipLongestBare => true | _ => false end.

Fixpoint zip_keep (xs : list nat) (args : list expr) : list (nat * expr) * bool :=
  match xs, args with
  | x :: xs', a :: args' =>
      let '(kept, ch) := zip_keep xs' args' in
      if Nat.eqb x underscore && simple a then (kept, true) else ((x, a) :: kept, ch)
  | _, _ => ([], false)
  end.

Definition rw_zip (root e : expr) : option expr :=
  if reads_us root then None else
  match e with
  | EComp k elt dval (TTup xs) (EBi b args) ifs =>
      if is_zip b && forallb plain args then
        let '(kept, ch) := zip_keep xs args in
        if ch then
          match kept with
          | [] => match xs, args with
                  | x0 :: _, a0 :: _ => Some (EComp k elt dval (TName x0) a0 ifs)
                  | _, _ => None
                  end
          | [(x, a)] => Some (EComp k elt dval (TName x) a ifs)
          | _ => Some (EComp k elt dval (TTup (map fst kept)) (EBi b (map snd kept)) ifs)
          end
        else None
      else None
  | _ => None
  end.

(* ---- performance.remove_redundant_chained_calls (repaired) -------------------------------- *)

Definition redundant_inner (outer inner : bi) : bool :=
  match outer, inner with
  | BSorted, (BList | BSorted | BTuple | BIter | BReversed) => true
  | BList, (BList | BTuple | BIter) => true
  | BSet, (BSet | BList | BSorted | BTuple | BIter | BReversed) => true
  | BIter, BIter => true        (* 7f623fd: iter(list(x)) / iter(tuple(x)) go over a copy of x and stay *)
  | BTuple, (BList | BTuple | BIter) => true
  | BSum, (BList | BTuple | BIter | BSorted | BReversed) => true
  | _, _ => false
  end.

Definition is_outer (b : bi) : bool :=
  match b with BSorted | BList | BSet | BIter | BTuple | BSum => true | _ => false end.

(* skip every call that is redundant under `outer` (one plain argument, no keywords) *)
Fixpoint strip (outer : bi) (a : expr) : expr :=
  match a with
  | EBi inner [x] => if redundant_inner outer inner && plain x then strip outer x else a
  | _ => a
  end.

Definition expr_is_bi (e : expr) : option (bi * list expr) :=
  match e with EBi b args => Some (b, args) | _ => None end.

(* loop 1: outer(inner(x), kws) -> outer(x', kws) *)
Definition rw_chain1 (e : expr) : option expr :=
  match e with
  | EBi outer (a0 :: kws) =>
      if is_outer outer && forallb is_kw kws then
        match a0 with
        | EBi inner (x :: ikws) =>
            (* the walk template: inner is redundant, has exactly one positional argument *)
            if redundant_inner outer inner && negb (is_kw x) && forallb is_kw ikws then
              match ikws with
              | [] => if plain x then Some (EBi outer (strip outer x :: kws)) else None
              | _ => None       (* inner keywords: the strip loop does not move *)
              end
            else None
        | _ => None
        end
      else None
  | _ => None
  end.

(* loop 2: outer(inner(x, ...)) -> inner(x, ...) *)
Definition redundant_outer (inner outer : bi) : bool :=
  match inner, outer with
  | BSorted, BList | BList, BList | BSet, BSet | BIter, BIter | BTuple, BTuple => true
  | _, _ => false
  end.

Definition rw_chain2 (e : expr) : option expr :=
  match e with
  | EBi outer [a0] =>
      match a0 with
      | EBi inner (x :: ikws) =>
          if redundant_outer inner outer && negb (is_kw x) && forallb is_kw ikws then Some a0 else None
      | _ => None
      end
  | _ => None
  end.

(* loop 3: reversed(sorted(..., reverse=r)) -> sorted(..., reverse=not r), constant-folded *)
Fixpoint toggle_reverse (l : list expr) : list expr * bool :=
  match l with
  | [] => ([], false)
  | a :: tl =>
      match a with
      | EKw k v =>
          if Nat.eqb k KReverse then
            (match v with
             | EConst c => if truthy (val_of_atom c) then tl        (* not <truthy> = False: keyword deleted *)
                           else EKw k (EConst (ABool true)) :: tl
             | _ => EKw k (ENot v) :: tl
             end, true)
          else let '(r, f) := toggle_reverse tl in (a :: r, f)
      | _ => let '(r, f) := toggle_reverse tl in (a :: r, f)
      end
  end.

Definition rw_chain3 (e : expr) : option expr :=
  match e with
  | EBi BReversed (a0 :: okws) =>
      if forallb is_kw okws then
        match a0 with
        | EBi BSorted sargs =>
            let '(r, found) := toggle_reverse sargs in
            Some (EBi BSorted (if found then r else sargs ++ [EKw KReverse (EConst (ABool true))]))
        | _ => None
        end
      else None
  | _ => None
  end.

Definition opt_list {A} (o : option A) : list A := match o with Some x => [x] | None => [] end.

Definition rw_chained (e : expr) : list expr :=
  opt_list (rw_chain1 e) ++ opt_list (rw_chain2 e) ++ opt_list (rw_chain3 e).

(* ---- fixes.remove_redundant_chain_casts (repaired) ---------------------------------------- *)

Definition rw_chain_casts (e : expr) : option expr :=
  match e with
  | EBi outer [EBi BChain args] =>
      if forallb plain args then
        match outer, args with
        | BIter, [] => Some (EBi BIter [ESeq KTuple []])
        | BIter, _ => Some (EBi BChain args)
        | BSet, [] => Some (EBi BSet [])
        | BSet, _ => Some (ESeq KSet (map EStar args))
        | BList, _ => Some (ESeq KList (map EStar args))
        | BTuple, _ => Some (ESeq KTuple (map EStar args))
        | _, _ => None
        end
      else None
  | _ => None
  end.

(* ---- fixes.remove_redundant_comprehension_casts (repaired) -------------------------------- *)

Definition rw_comp_casts (e : expr) : option expr :=
  match e with
  | EBi f [EComp ck elt dval t it ifs] =>
      match f, ck with
      | BSet, (CList | CGen | CSet) => Some (EComp CSet elt dval t it ifs)
      | BList, (CList | CGen) => Some (EComp CList elt dval t it ifs)
      | BIter, CGen => Some (EComp CGen elt dval t it ifs)
      | BDict, CDict => Some (EComp CDict elt dval t it ifs)
      | BSet, CDict => if simple dval then Some (EComp CSet elt (EConst ANone) t it ifs) else None
      | _, _ => None
      end
  | _ => None
  end.

(* ---- fixes.replace_negated_numeric_comparison --------------------------------------------- *)

Definition negate_op (o : cmpop) : cmpop :=
  match o with
  | Eq => NotEq | NotEq => Eq | Lt => GtE | LtE => Gt | Gt => LtE | GtE => Lt
  | Is => IsNot | IsNot => Is | In => NotIn | NotIn => In
  end.

Definition set_like_op (o : cmpop) : bool :=
  match o with Eq | NotEq | Is | IsNot | In | NotIn => true | _ => false end.

Definition numeric_const (e : expr) : bool :=
  match e with EConst (AInt _) | EConst (ABool _) => true | _ => false end.

Definition rw_negated (e : expr) : option expr :=
  match e with
  | ENot (ECmp l [EOp o r]) =>
      if set_like_op o || numeric_const l || numeric_const r
      then Some (ECmp l [EOp (negate_op o) r]) else None
  | _ => None
  end.

(* ---- fixes.simplify_collection_unpacks (repaired) ----------------------------------------- *)

Definition is_display (e : expr) : bool :=
  match e with ESeq _ _ | EDict _ => true | _ => false end.

Definition kv_key (it : expr) : expr := match it with EKV k _ => k | _ => it end.
Definition kv_ok (it : expr) : bool := match it with EKV _ v => simple v | _ => false end.

Definition is_kset (k : skind) : bool := match k with KSet => true | _ => false end.

Fixpoint unpack_elts (k : skind) (l : list expr) : list expr * bool :=
  match l with
  | [] => ([], false)
  | e :: tl =>
      let '(r, ch) := unpack_elts k tl in
      match e with
      | EStar (ESeq KList inner) | EStar (ESeq KTuple inner) => (inner ++ r, true)
      | EStar (ESeq KSet inner) =>
          if is_kset k || ((length inner <=? 1)%nat && forallb (fun x => negb (is_star x)) inner)
          then (inner ++ r, true) else (e :: r, ch)
      | EStar (EDict items) =>
          if (is_kset k || (length items <=? 1)%nat) && forallb kv_ok items
          then (map kv_key items ++ r, true) else (e :: r, ch)
      | _ => (e :: r, ch)
      end
  end.

Definition rw_unpacks (e : expr) : option expr :=
  match e with
  | ESeq k elts =>
      let '(r, ch) := unpack_elts k elts in
      if ch then
        match k, r with
        | KSet, [] => Some (EBi BSet [])
        | _, _ => Some (ESeq k r)
        end
      else None
  | _ => None
  end.

(* ---- fixes.simplify_dict_unpacks ---------------------------------------------------------- *)

Fixpoint unpack_items (l : list expr) : list expr * bool :=
  match l with
  | [] => ([], false)
  | e :: tl =>
      let '(r, ch) := unpack_items tl in
      match e with
      | EDStar (EDict inner) => (inner ++ r, true)
      | _ => (e :: r, ch)
      end
  end.

Definition rw_dict_unpacks (e : expr) : option expr :=
  match e with
  | EDict items => let '(r, ch) := unpack_items items in if ch then Some (EDict r) else None
  | _ => None
  end.

(* ---- fixes.replace_functions_with_literals ------------------------------------------------ *)

Definition rw_literals (e : expr) : option expr :=
  match e with
  | EBi BList [] => Some (ESeq KList [])
  | EBi BTuple [] => Some (ESeq KTuple [])
  | EBi BDict [] => Some (EDict [])
  | EBi f [arg] =>
      match f, arg with
      | BList, ESeq KList _ | BList, EComp CList _ _ _ _ _ => Some arg
      | BList, ESeq KTuple elts => Some (ESeq KList elts)
      | BTuple, ESeq KTuple _ => Some arg
      | BTuple, ESeq KList elts => Some (ESeq KTuple elts)
      | BSet, ESeq KSet _ | BSet, EComp CSet _ _ _ _ _ => Some arg
      | BSet, ESeq KTuple elts | BSet, ESeq KList elts => Some (ESeq KSet elts)
      | BSet, EComp CGen elt dval t it ifs => Some (EComp CSet elt dval t it ifs)
      | BIter, EComp CGen _ _ _ _ _ => Some arg
      | _, _ => None
      end
  | _ => None
  end.

(* ---- fixes.replace_redundant_starred ------------------------------------------------------ *)

Definition rw_starred (e : expr) : option expr :=
  match e with
  | ESeq k [EStar (EComp ck elt dval t it ifs)] =>
      match ck with
      | CDict => None
      | _ => Some (EBi (match k with KList => BList | KTuple => BTuple | KSet => BSet end)
                       [EComp ck elt dval t it ifs])
      end
  | _ => None
  end.

(* =========================================================================================== *)
(* Decidable equality of terms, for the correspondence case files *)

Definition atom_eqb_strict (a b : atom) : bool :=
  match a, b with
  | ANone, ANone => true
  | ABool x, ABool y => Bool.eqb x y
  | AInt x, AInt y => Z.eqb x y
  | AStr x, AStr y => Nat.eqb x y
  | _, _ => false
  end.

Definition cmpop_eqb (a b : cmpop) : bool :=
  match a, b with
  | Eq, Eq | NotEq, NotEq | Lt, Lt | LtE, LtE | Gt, Gt | GtE, GtE | Is, Is | IsNot, IsNot | In, In
  | NotIn, NotIn => true
  | _, _ => false
  end.
Definition skind_eqb (a b : skind) : bool :=
  match a, b with KList, KList | KTuple, KTuple | KSet, KSet => true | _, _ => false end.
Definition ckind_eqb (a b : ckind) : bool :=
  match a, b with CList, CList | CSet, CSet | CGen, CGen | CDict, CDict => true | _, _ => false end.
Fixpoint nats_eqb (a b : list nat) : bool :=
  match a, b with
  | [], [] => true
  | x :: a', y :: b' => Nat.eqb x y && nats_eqb a' b'
  | _, _ => false
  end.
Definition tgt_eqb (a b : tgt) : bool :=
  match a, b with
  | TName x, TName y => Nat.eqb x y
  | TTup x, TTup y => nats_eqb x y
  | _, _ => false
  end.

Fixpoint expr_eqb (a b : expr) {struct a} : bool :=
  let leq := fix leq (x y : list expr) : bool :=
    match x, y with
    | [], [] => true
    | p :: x', q :: y' => expr_eqb p q && leq x' y'
    | _, _ => false
    end in
  match a, b with
  | EConst x, EConst y => atom_eqb_strict x y
  | EName x, EName y => Nat.eqb x y
  | ECall f x, ECall g y => Nat.eqb f g && leq x y
  | EBi f x, EBi g y => bi_eqb f g && leq x y
  | ESeq k x, ESeq k' y => skind_eqb k k' && leq x y
  | EDict x, EDict y => leq x y
  | ECmp l x, ECmp l' y => expr_eqb l l' && leq x y
  | ENot x, ENot y | EStar x, EStar y | EDStar x, EDStar y => expr_eqb x y
  | EKw k x, EKw k' y => Nat.eqb k k' && expr_eqb x y
  | EKV k v, EKV k' v' => expr_eqb k k' && expr_eqb v v'
  | EOp o x, EOp o' y => cmpop_eqb o o' && expr_eqb x y
  | EComp k e1 d1 t1 i1 c1, EComp k' e2 d2 t2 i2 c2 =>
      ckind_eqb k k' && expr_eqb e1 e2 && expr_eqb d1 d2 && tgt_eqb t1 t2 && expr_eqb i1 i2 && leq c1 c2
  | _, _ => false
  end.

Definition oexpr_eqb (a b : option expr) : bool :=
  match a, b with
  | Some x, Some y => expr_eqb x y
  | None, None => true
  | _, _ => false
  end.

Fixpoint lexpr_eqb (a b : list expr) : bool :=
  match a, b with
  | [], [] => true
  | x :: a', y :: b' => expr_eqb x y && lexpr_eqb a' b'
  | _, _ => false
  end.

(* rule ids used by the case files *)
Inductive rule := RSingleton | RDupSet | RDupDict | REnumerate | RZip | RChained | RChainCasts
                | RCompCasts | RNegated | RUnpacks | RDictUnpacks | RLiterals | RStarred.

Definition apply_rule (r : rule) (e : expr) : list expr :=
  match r with
  | RSingleton => opt_list (rw_singleton e)
  | RDupSet => opt_list (rw_dup_set e)
  | RDupDict => opt_list (rw_dup_dict e)
  | REnumerate => opt_list (rw_enumerate e e)
  | RZip => opt_list (rw_zip e e)
  | RChained => rw_chained e
  | RChainCasts => opt_list (rw_chain_casts e)
  | RCompCasts => opt_list (rw_comp_casts e)
  | RNegated => opt_list (rw_negated e)
  | RUnpacks => opt_list (rw_unpacks e)
  | RDictUnpacks => opt_list (rw_dict_unpacks e)
  | RLiterals => opt_list (rw_literals e)
  | RStarred => opt_list (rw_starred e)
  end.

(* a correspondence case: rule, input term, what the real generator yielded for the root *)
Definition rule_case_ok (c : rule * expr * list expr) : bool :=
  let '(r, e, out) := c in lexpr_eqb (apply_rule r e) out.

(* ---- semantics validation against CPython ------------------------------------------------- *)
(* the scripted world of the harness: user function f returns a value that depends on f and on the
   number of calls so far; object o is equal to None iff o is odd *)
Definition test_call (tr : trace) (f : nat) (args : list val) : option val :=
  match f with
  | 0%nat => Some (VInt (Z.of_nat (length tr)))
  | 1%nat => Some (VList [VInt 2; VBool true; VInt 1])
  | 2%nat => match args with [] => Some VNone | a :: _ => Some a end
  | 3%nat => None
  | _ => Some (VTuple [VInt (Z.of_nat f); VInt (Z.of_nat (length tr))])
  end.
Definition test_world : world :=
  {| call_or := test_call;
     eq_or := fun o v => match v with VNone => VBool (Nat.odd o) | VObj o' => VBool (Nat.eqb o o') | _ => VBool false end |}.

(* set-insensitive comparison of results: a set is compared as a set of (strictly equal) members *)
Fixpoint val_equiv (a b : val) {struct a} : bool :=
  let leq := fix leq (x y : list val) : bool :=
    match x, y with
    | [], [] => true
    | p :: x', q :: y' => val_equiv p q && leq x' y'
    | _, _ => false
    end in
  match a, b with
  | VSet x, VSet y => Nat.eqb (length x) (length y) && forallb (fun p => existsb (val_eqb p) y) x
  | VTuple x, VTuple y | VList x, VList y | VIter x, VIter y => leq x y
  | VDict x, VDict y =>
      (fix deq (x y : list (val * val)) : bool :=
         match x, y with
         | [], [] => true
         | (k, v) :: x', (k', v') :: y' => val_eqb k k' && val_equiv v v' && deq x' y'
         | _, _ => false
         end) x y
  | _, _ => val_eqb a b
  end.

Fixpoint trace_eqb (a b : trace) : bool :=
  match a, b with
  | [], [] => true
  | (f, x) :: a', (g, y) :: b' => Nat.eqb f g && list_val_eqb x y && trace_eqb a' b'
  | _, _ => false
  end.

Definition mkenv (l : list (nat * val)) : env :=
  fun x => match find (fun p => Nat.eqb (fst p) x) l with Some p => Some (snd p) | None => None end.

(* expected: None = raises; Some (value, trace) *)
Definition sem_case_ok (c : expr * list (nat * val) * option (val * trace)) : bool :=
  let '(e, bindings, expected) := c in
  match eval test_world e (mkenv bindings) [], expected with
  | Some (v, tr), Some (v', tr') => val_equiv v v' && trace_eqb tr tr'
  | None, None => true
  | _, _ => false
  end.

(* 0 = agree, 1 = disagree, 2 = the model gives no value (outside its domain) where CPython gives one *)
Definition sem_case_status (c : expr * list (nat * val) * option (val * trace)) : nat :=
  let '(e, bindings, expected) := c in
  match eval test_world e (mkenv bindings) [], expected with
  | Some (v, tr), Some (v', tr') => if val_equiv v v' && trace_eqb tr tr' then 0%nat else 1%nat
  | None, None => 0%nat
  | None, Some _ => 2%nat
  | Some _, None => 1%nat
  end.
