(* C02, tranche "idx", second part: proofs about RulesIdxInlModel (inline_math_comprehensions). *)
From Coq Require Import List ZArith Bool Lia.
From Pyrefact Require Import Base RulesPerfModel RulesPerfProofs RulesIdxInlModel.
Import ListNotations.
Open Scope Z_scope.

Section P.
Variable W : nat -> list Z.

(* a value that is a sequence whatever is appended to the lists of the store *)
Inductive stable_seq (ls : list (list Z)) : val -> bool -> list Z -> Prop :=
| SS_tup zs : stable_seq ls (VTup zs) true zs
| SS_new zs : stable_seq ls (VNewList zs) false zs
| SS_list l : (l < length ls)%nat -> stable_seq ls (VList l) false (nth l ls []).

Lemma stable_list_intro ls l zs : (l < length ls)%nat -> nth l ls [] = zs -> stable_seq ls (VList l) false zs.
Proof. intros H E; subst; constructor; exact H. Qed.

Lemma stable_as_seq h v t zs : stable_seq (lists h) v t zs -> as_seq h v = Some (t, zs).
Proof. intros H; inversion H; subst; reflexivity. Qed.

Lemma stable_ext ls ext v t zs : stable_seq ls v t zs -> stable_seq (ls ++ ext) v t zs.
Proof.
  intros H; inversion H; subst; try constructor.
  apply stable_list_intro; [rewrite app_length; lia|apply app_nth1; assumption].
Qed.

Lemma drain_seq h v t zs : as_seq h v = Some (t, zs) -> exists it, to_itref v = Some it /\ drain W h it = (zs, h).
Proof.
  intros H; destruct v; cbn [as_seq] in H; try discriminate; inversion H; subst; clear H;
    eexists; (split; [reflexivity|]); rewrite (drain_local W) by reflexivity; reflexivity.
Qed.

Lemma with_items_seq h v t zs k : as_seq h v = Some (t, zs) -> with_items W v h k = k zs h.
Proof.
  intros H; destruct (drain_seq _ _ _ _ H) as [it [E D]]. unfold with_items. rewrite E, D. reflexivity.
Qed.

Lemma call_list_seq h v t zs : as_seq h v = Some (t, zs) -> call W FList v h = Ok (VNewList zs) h.
Proof. intros H; destruct (drain_seq _ _ _ _ H) as [it [E D]]. unfold call. rewrite E, D. reflexivity. Qed.
Lemma call_tuple_seq h v t zs : as_seq h v = Some (t, zs) -> call W FTuple v h = Ok (VTup zs) h.
Proof. intros H; destruct (drain_seq _ _ _ _ H) as [it [E D]]. unfold call. rewrite E, D. reflexivity. Qed.

(* pe is what eval computes, and eval leaves the store alone *)
Lemma pe_eval en h e : forall r, pe en (lists h) e = Some r ->
  exists v, eval W en e h = Ok v h /\ stable_seq (lists h) v (fst r) (snd r).
Proof.
  induction e; intros r H; cbn [pe] in H; try discriminate.
  - destruct a as [z| |x]; try discriminate. cbn [eval atomv].
    destruct (lookup en x) as [v|]; [|discriminate]. destruct v; try discriminate.
    + inversion H; subst. eexists; split; [reflexivity|constructor].
    + destruct (Nat.ltb l (length (lists h))) eqn:L; [|discriminate]. inversion H; subst.
      eexists; split; [reflexivity|]. constructor. apply Nat.ltb_lt; exact L.
  - inversion H; subst. eexists; split; [reflexivity|constructor].
  - inversion H; subst. eexists; split; [reflexivity|constructor].
  - destruct f; try discriminate.
    + destruct (bound en N_LIST) eqn:B; [discriminate|].
      destruct (pe en (lists h) e) as [[t1 zs1]|]; [|discriminate]. inversion H; subst.
      destruct (IHe _ eq_refl) as [v1 [E1 S1]]. cbn [fst snd] in S1. apply stable_as_seq in S1.
      cbn [eval fn_name]. rewrite E1, B, (call_list_seq _ _ _ _ S1). eexists; split; [reflexivity|constructor].
    + destruct (bound en N_TUPLE) eqn:B; [discriminate|].
      destruct (pe en (lists h) e) as [[t1 zs1]|]; [|discriminate]. inversion H; subst.
      destruct (IHe _ eq_refl) as [v1 [E1 S1]]. cbn [fst snd] in S1. apply stable_as_seq in S1.
      cbn [eval fn_name]. rewrite E1, B, (call_tuple_seq _ _ _ _ S1). eexists; split; [reflexivity|constructor].
  - destruct (bound en N_SORTED) eqn:B; [discriminate|].
    destruct (pe en (lists h) e) as [[t1 zs1]|]; [|discriminate]. inversion H; subst.
    destruct (IHe _ eq_refl) as [v1 [E1 S1]]. cbn [fst snd] in S1. apply stable_as_seq in S1.
    cbn [eval]. rewrite E1, B, (with_items_seq _ _ _ _ _ S1). eexists; split; [reflexivity|constructor].
  - destruct (pe en (lists h) e) as [[t1 zs1]|]; [|discriminate]. inversion H; subst.
    destruct (IHe _ eq_refl) as [v1 [E1 S1]]. cbn [fst snd] in S1. apply stable_as_seq in S1.
    cbn [eval]. rewrite E1, (with_items_seq _ _ _ _ _ S1). eexists; split; [reflexivity|constructor].
Qed.

Lemma bound_agree en1 en2 n : lookup en2 n = lookup en1 n -> bound en2 n = bound en1 n.
Proof. intros H; unfold bound; rewrite H; reflexivity. Qed.

Lemma pe_agree en1 en2 ls ext e : forall r,
  (forall n, List.In n (enames e) -> lookup en2 n = lookup en1 n) ->
  pe en1 ls e = Some r -> pe en2 (ls ++ ext) e = Some r.
Proof.
  induction e; intros r Hn H; cbn [pe] in *; try discriminate.
  - destruct a as [z| |x]; try discriminate. rewrite (Hn x (or_introl eq_refl)).
    destruct (lookup en1 x) as [v|]; [|discriminate]. destruct v; try discriminate; [exact H|].
    destruct (Nat.ltb l (length ls)) eqn:L; [|discriminate]. apply Nat.ltb_lt in L.
    assert (L2 : Nat.ltb l (length (ls ++ ext)) = true) by (apply Nat.ltb_lt; rewrite app_length; lia).
    rewrite L2, app_nth1 by exact L. exact H.
  - exact H.
  - exact H.
  - cbn [enames] in Hn.
    assert (Hn' : forall n, List.In n (enames e) -> lookup en2 n = lookup en1 n) by (intros; apply Hn; right; assumption).
    destruct f; try discriminate.
    + rewrite (bound_agree en1 en2 N_LIST) by (apply Hn; left; reflexivity).
      destruct (bound en1 N_LIST); [discriminate|].
      destruct (pe en1 ls e) as [[t1 zs1]|]; [|discriminate]. rewrite (IHe _ Hn' eq_refl). exact H.
    + rewrite (bound_agree en1 en2 N_TUPLE) by (apply Hn; left; reflexivity).
      destruct (bound en1 N_TUPLE); [discriminate|].
      destruct (pe en1 ls e) as [[t1 zs1]|]; [|discriminate]. rewrite (IHe _ Hn' eq_refl). exact H.
  - cbn [enames] in Hn.
    assert (Hn' : forall n, List.In n (enames e) -> lookup en2 n = lookup en1 n).
    { intros n Hin; apply Hn; right; apply in_or_app; right; exact Hin. }
    rewrite (bound_agree en1 en2 N_SORTED) by (apply Hn; left; reflexivity).
    destruct (bound en1 N_SORTED); [discriminate|].
    destruct (pe en1 ls e) as [[t1 zs1]|]; [|discriminate]. rewrite (IHe _ Hn' eq_refl). exact H.
  - cbn [enames] in Hn.
    assert (Hn' : forall n, List.In n (enames e) -> lookup en2 n = lookup en1 n) by (intros; apply Hn; right; right; assumption).
    destruct (pe en1 ls e) as [[t1 zs1]|]; [|discriminate]. rewrite (IHe _ Hn' eq_refl). exact H.
Qed.

(* the statements in between *)
Lemma bindv_ext h v v' h' : bindv h v = (v', h') -> exists ext, lists h' = lists h ++ ext.
Proof.
  destruct v; cbn [bindv]; intros H; inversion H; subst; cbn [lists];
    try (exists []; rewrite app_nil_r; reflexivity). eexists; reflexivity.
Qed.

Lemma plain_eval en e h : plain e = true ->
  (exists v, eval W en e h = Ok v h) \/ (exists x, eval W en e h = Err x h).
Proof.
  destruct e; try discriminate; intros _; cbn [eval].
  - destruct (atomv en a); [left|right]; eexists; reflexivity.
  - left; eexists; reflexivity.
  - left; eexists; reflexivity.
Qed.

Lemma mem_in n l : mem n l = true <-> List.In n l.
Proof.
  unfold mem. rewrite existsb_exists. split.
  - intros [x [Hx E]]. apply Nat.eqb_eq in E; subst; exact Hx.
  - intros H; exists n; split; [exact H|apply Nat.eqb_refl].
Qed.

Lemma mid_step deps st en1 h1 o en2 h2 :
  mid_ok deps st = true -> exec_i W en1 st h1 = (o, en2, h2) ->
  (exists ext, lists h2 = lists h1 ++ ext) /\ (forall n, mem n deps = true -> lookup en2 n = lookup en1 n).
Proof.
  intros Hok H. destruct st as [s|]; [|discriminate]. destruct s as [w e|e|e|x a|x a]; try discriminate;
    cbn [mid_ok] in Hok; cbn [exec_i exec_simple] in H.
  - apply andb_true_iff in Hok; destruct Hok as [Hp Hw]. apply negb_true_iff in Hw.
    destruct (plain_eval en1 e h1 Hp) as [[v E]|[x E]]; rewrite E in H.
    + destruct (bindv h1 v) as [v' h'] eqn:B. inversion H; subst. split; [exact (bindv_ext _ _ _ _ B)|].
      intros n Hn. cbn [set_var lookup]. destruct (Nat.eqb n w) eqn:E2; [|reflexivity].
      apply Nat.eqb_eq in E2; subst n. congruence.
    + inversion H; subst. split; [exists []; rewrite app_nil_r; reflexivity|reflexivity].
  - destruct (plain_eval en1 e h1 Hok) as [[v E]|[x E]]; rewrite E in H; inversion H; subst;
      (split; [exists []; cbn [emit lists]; rewrite app_nil_r; reflexivity|reflexivity]).
Qed.

Lemma mid_run deps mid : forallb (mid_ok deps) mid = true -> forall en1 h1 o en2 h2,
  exec_ip W en1 mid h1 = (o, en2, h2) ->
  (exists ext, lists h2 = lists h1 ++ ext) /\ (forall n, mem n deps = true -> lookup en2 n = lookup en1 n).
Proof.
  induction mid as [|st t IH]; intros Hok en1 h1 o en2 h2 H; cbn [exec_ip] in H.
  - inversion H; subst. split; [exists []; rewrite app_nil_r; reflexivity|reflexivity].
  - cbn [forallb] in Hok. apply andb_true_iff in Hok; destruct Hok as [Hst Ht].
    destruct (exec_i W en1 st h1) as [[o1 en'] h'] eqn:E1.
    destruct (mid_step _ _ _ _ _ _ _ Hst E1) as [[ext1 L1] K1].
    destruct o1 as [ex|].
    + inversion H; subst. split; [exists ext1; exact L1|exact K1].
    + destruct (IH Ht _ _ _ _ _ H) as [[ext2 L2] K2]. split.
      * exists (ext1 ++ ext2). rewrite L2, L1, app_assoc. reflexivity.
      * intros n Hn. rewrite (K2 n Hn). exact (K1 n Hn).
Qed.

Lemma exec_ip_app en a b h :
  exec_ip W en (a ++ b) h
  = match exec_ip W en a h with
    | (Some ex, en', h') => (Some ex, en', h')
    | (None, en', h') => exec_ip W en' b h'
    end.
Proof.
  revert en h; induction a as [|st t IH]; intros en h; cbn [app exec_ip]; [reflexivity|].
  destruct (exec_i W en st h) as [[[ex|] en1] h1]; [reflexivity|apply IH].
Qed.

(* the step of the rule, from any state that meets the guard: y = V; mid; z = math(y)  vs  z = math(V) *)
Theorem inl_step_partial en h y v mid z ln post :
  step_ok en h y v mid = true ->
  exec_ip W en (IS (SAssign y v) :: mid ++ IMath z ln v :: post) h
  = exec_ip W en (IS (SAssign y v) :: mid ++ IMath z ln (EAtom (AVar y)) :: post) h.
Proof.
  unfold step_ok. intros H. apply andb_true_iff in H; destruct H as [H Hmid].
  apply andb_true_iff in H; destruct H as [Hpe Hy]. apply negb_true_iff in Hy.
  destruct (pe en (lists h) v) as [[t zs]|] eqn:Epe; [|discriminate].
  destruct (pe_eval _ _ _ _ Epe) as [v0 [Hev Hst]]. cbn [fst snd] in Hst.
  cbn [exec_ip exec_i exec_simple]. rewrite Hev.
  assert (Hb : exists vy h1 ext, bindv h v0 = (vy, h1) /\ lists h1 = lists h ++ ext /\ stable_seq (lists h1) vy t zs).
  { inversion Hst; subst.
    - exists (VTup zs), h, []. rewrite app_nil_r. repeat split; constructor.
    - exists (VList (length (lists h))), (mkHeap (lists h ++ [zs]) (iters h) (tr h)), [zs].
      split; [reflexivity|split; [reflexivity|]]. cbn [lists].
      apply stable_list_intro; [rewrite app_length; cbn; lia|apply nth_middle].
    - exists (VList l), h, []. rewrite app_nil_r. repeat split; constructor; assumption. }
  destruct Hb as [vy [h1 [ext1 [Hb [Hl1 Hs1]]]]]. rewrite Hb.
  rewrite !exec_ip_app.
  destruct (exec_ip W (set_var en y vy) mid h1) as [[o en2] h2] eqn:Emid.
  destruct o as [ex|]; [reflexivity|].
  destruct (mid_run _ _ Hmid _ _ _ _ _ Emid) as [[ext2 Hl2] Hlk].
  cbn [exec_ip exec_i].
  assert (E : math_eval W en2 ln v h2 = math_eval W en2 ln (EAtom (AVar y)) h2).
  { assert (Hpe2 : pe en2 (lists h2) v = Some (t, zs)).
    { rewrite Hl2, Hl1, <- app_assoc. apply pe_agree with (en1 := en); [|exact Epe].
      intros n Hn. rewrite Hlk.
      - cbn [set_var lookup]. destruct (Nat.eqb n y) eqn:E; [|reflexivity].
        apply Nat.eqb_eq in E; subst n. apply mem_in in Hn. congruence.
      - apply mem_in. right. exact Hn. }
    destruct (pe_eval _ _ _ _ Hpe2) as [v2 [Hev2 Hst2]]. cbn [fst snd] in Hst2.
    assert (Hsy : stable_seq (lists h2) vy t zs) by (rewrite Hl2; apply stable_ext; exact Hs1).
    assert (Hly : lookup en2 y = Some vy).
    { rewrite Hlk; [cbn [set_var lookup]; rewrite Nat.eqb_refl; reflexivity|]. apply mem_in. left. reflexivity. }
    unfold math_eval. rewrite Hev2. cbn [eval atomv]. rewrite Hly.
    apply stable_as_seq in Hst2. apply stable_as_seq in Hsy.
    destruct ln.
    - rewrite Hst2, Hsy. reflexivity.
    - rewrite (with_items_seq _ _ _ _ _ Hst2), (with_items_seq _ _ _ _ _ Hsy). reflexivity. }
  rewrite E. reflexivity.
Qed.

(* the same inside a module: whatever state the statements before reach must meet the guard *)
Theorem inl_partial pre y v mid z ln post :
  (forall en1 h1, exec_ip W [] pre empty_heap = (None, en1, h1) -> step_ok en1 h1 y v mid = true) ->
  run_i W (pre ++ IS (SAssign y v) :: mid ++ IMath z ln v :: post)
  = run_i W (pre ++ IS (SAssign y v) :: mid ++ IMath z ln (EAtom (AVar y)) :: post).
Proof.
  intros H. unfold run_i. rewrite !exec_ip_app.
  destruct (exec_ip W [] pre empty_heap) as [[[ex|] en1] h1] eqn:E; [reflexivity|].
  apply inl_step_partial. apply H. reflexivity.
Qed.
End P.

(* ------------------------------------------------------------------ witnesses *)
Definition vy : name := 8%nat.
Definition vz : name := 9%nat.
Definition va : name := 10%nat.
Definition vb : name := 11%nat.
Definition vw : name := 12%nat.
Definition use_sum : istmt := IMath vz false (EAtom (AVar vy)).
Definition print_z : istmt := IS (SPrint (EAtom (AVar vz))).
(* y = list(g0()); z = sum(y); print(z) *)
Definition p_twice : iprog := [IS (SAssign vy (ECall FList (EGen 0%nat))); use_sum; print_z].
(* b = g0(); y = list(b); z = sum(y); print(z) *)
Definition p_used_up : iprog :=
  [IS (SAssign vb (EGen 0%nat)); IS (SAssign vy (ECall FList (EAtom (AVar vb)))); use_sum; print_z].
(* a = [1, 2, 3]; b = a; y = [c for c in a]; b.append(4); z = sum(y); print(z) *)
Definition p_alias : iprog :=
  [IS (SAssign va (EDisp [1; 2; 3])); IS (SAssign vb (EAtom (AVar va))); IS (SAssign vy (EComp (EAtom (AVar va))));
   IS (SAppend vb (AInt 4)); use_sum; print_z].
(* a = [3, 1, 2]; y = sorted(a); w = 3; print(w); z = sum(y); print(z) *)
Definition p_fine_mid : iprog := [IS (SAssign vw (EAtom (AInt 3))); IS (SPrint (EAtom (AVar vw)))].
Definition p_fine : iprog :=
  IS (SAssign va (EDisp [3; 1; 2])) :: IS (SAssign vy (ESorted false (EAtom (AVar va)))) :: p_fine_mid ++ [use_sum; print_z].

(* F02idx-6, before 07a567e: the generator function is called, and its elements are pulled, twice; the repaired rule
   leaves the module alone *)
Theorem inl_before_07a567e_refuted :
  exists W p, inl p = p /\ obs (run_i W (inl_before_07a567e p)) <> obs (run_i W p).
Proof. exists W12, p_twice. split; [reflexivity|]. vm_compute. discriminate. Qed.
(* F02idx-7: the first evaluation used the iterator up: 0 is printed instead of 3 *)
Theorem inl_used_up_refuted : exists W p, obs (run_i W (inl p)) <> obs (run_i W p).
Proof. exists W12, p_used_up. vm_compute. discriminate. Qed.
(* before 13da1a3: the list is changed through another name in between; the repaired rule leaves the module alone *)
Theorem inl_before_13da1a3_refuted :
  exists W p, inl p = p /\ obs (run_i W (inl_before_13da1a3 p)) <> obs (run_i W p).
Proof. exists W12, p_alias. split; [reflexivity|]. vm_compute. discriminate. Qed.
