(* K10 -- theorems about SurfaceModel.v (C07, C08).  All unbounded: every module, every preserve set,
   every oracle (usage analysis / naming convention / replacement), every sequence of rules. *)
From Coq Require Import List Bool String Ascii Lia PeanoNat.
Import ListNotations.
Require Import Pyrefact.SurfaceModel.
Open Scope string_scope.
Open Scope list_scope.

(* ---------------------------------------------------------------------------------------------- *)
(* generic helpers *)

Lemma mem_In : forall n l, mem n l = true <-> In n l.
Proof.
  intros n l. unfold mem. rewrite existsb_exists. split.
  - intros [x [Hx He]]. apply String.eqb_eq in He. subst. exact Hx.
  - intros H. exists n. split; [exact H | apply String.eqb_refl].
Qed.

Lemma mem_app : forall n a b, mem n (a ++ b) = mem n a || mem n b.
Proof. intros. unfold mem. apply existsb_app. Qed.

Lemma mem_false_not_In : forall n l, mem n l = false -> ~ In n l.
Proof. intros n l H Hin. apply mem_In in Hin. congruence. Qed.

Lemma in_flat_map_intro : forall {A B} (f : A -> list B) l x y, In x l -> In y (f x) -> In y (flat_map f l).
Proof. intros. apply in_flat_map. exists x. auto. Qed.

(* induction principle for the nested type [target] *)
Section TargetInd.
  Variable Q : target -> Prop.
  Hypothesis HName : forall n, Q (TName n).
  Hypothesis HTuple : forall l, Forall Q l -> Q (TTuple l).
  Hypothesis HList : forall l, Forall Q l -> Q (TList l).
  Hypothesis HStar : forall t, Q t -> Q (TStarred t).
  Hypothesis HAttr : forall b a, Q (TAttr b a).
  Hypothesis HSub : forall b, Q (TSub b).
  Fixpoint target_ind' (t : target) : Q t :=
    match t with
    | TName n => HName n
    | TTuple l => HTuple l ((fix go (l : list target) : Forall Q l :=
                               match l with
                               | [] => Forall_nil Q
                               | x :: tl => Forall_cons x (target_ind' x) (go tl)
                               end) l)
    | TList l => HList l ((fix go (l : list target) : Forall Q l :=
                             match l with
                             | [] => Forall_nil Q
                             | x :: tl => Forall_cons x (target_ind' x) (go tl)
                             end) l)
    | TStarred t' => HStar t' (target_ind' t')
    | TAttr b a => HAttr b a
    | TSub b => HSub b
    end.
End TargetInd.

Lemma flat_map_ext_Forall : forall {A B} (f h : A -> list B) l,
  Forall (fun x => f x = h x) l -> flat_map f l = flat_map h l.
Proof.
  intros A B f h l H. induction H as [| x tl Hx _ IH]; cbn; [reflexivity | rewrite Hx, IH; reflexivity].
Qed.

(* ---------------------------------------------------------------------------------------------- *)
(* T07.0  the repaired target unpacking is complete; the pinned one was not *)

Theorem unpack_bound : forall t, unpack t = bound t.
Proof.
  induction t as [n | l IH | l IH | t IH | b a | b] using target_ind'; cbn; try reflexivity;
    try (apply flat_map_ext_Forall; exact IH); try exact IH.
Qed.

Theorem unpack_pinned_incomplete :
  exists t n, In n (bound t) /\ ~ In n (unpack_pinned t).
Proof.
  exists (TTuple [TName "c"; TStarred (TName "d")]), "d". split.
  - cbn. auto.
  - cbn. intros [H | []]. discriminate H.
Qed.

Lemma flat_unpack_bound : forall ts, flat_map unpack ts = flat_map bound ts.
Proof. intros. apply flat_map_ext. intros. apply unpack_bound. Qed.

Lemma item_assigned_binds : forall it n, In n (item_binds it) -> In n (item_assigned it) \/ (exists a, it = Def n a) \/ (exists b ms, it = Class n b ms).
Proof.
  intros it n H. destruct it as [d a | c b ms | ts | t hv | t | ns |]; cbn [item_binds item_assigned] in *.
  - destruct H as [H | []]. subst. right. left. eauto.
  - destruct H as [H | []]. subst. right. right. eauto.
  - left. change (In n (flat_map unpack ts)). rewrite flat_unpack_bound. exact H.
  - left. change (In n (unpack t)). destruct hv; [rewrite unpack_bound; exact H | destruct H].
  - left. change (In n (unpack t)). rewrite unpack_bound. exact H.
  - destruct H.
  - destruct H.
Qed.

Lemma member_bare_binds : forall mb n, In n (member_binds mb) -> In n (member_bare mb).
Proof.
  intros mb n H. destruct mb as [f st | c | ts | t hv | t |]; cbn [member_binds member_bare member_assigned] in *.
  - exact H.
  - exact H.
  - change (In n (flat_map unpack ts)). rewrite flat_unpack_bound. exact H.
  - change (In n (unpack t)). destruct hv; [rewrite unpack_bound; exact H | destruct H].
  - change (In n (unpack t)). rewrite unpack_bound. exact H.
  - exact H.
Qed.

(* ---------------------------------------------------------------------------------------------- *)
(* T07.1  every name of the property's surface is in the safe-mode preserve set *)

Theorem surface_top_in_safe_preserve :
  forall P m n, In n (top_surface m) -> In n (safe_preserve P m).
Proof.
  intros P m n H. unfold top_surface in H. apply in_flat_map in H. destruct H as [it [Hit Hn]].
  unfold safe_preserve. apply in_or_app. right.
  destruct (item_assigned_binds it n Hn) as [Ha | [[a Hd] | [b [ms Hc]]]].
  - apply in_or_app. right. apply in_or_app. right. apply in_or_app. right.
    unfold assignments. eapply in_flat_map_intro; eauto.
  - subst it. apply in_or_app. left. unfold defs. eapply in_flat_map_intro; [exact Hit | cbn; auto].
  - subst it. apply in_or_app. left. unfold defs. eapply in_flat_map_intro; [exact Hit | cbn; auto].
Qed.

Lemma member_surface_inv : forall m c f,
  In (c, f) (member_surface m) ->
  exists b ms mb, In (Class c b ms) m /\ In mb ms /\ In f (member_binds mb).
Proof.
  intros m c f H. unfold member_surface in H. apply in_flat_map in H. destruct H as [it [Hit Hp]].
  destruct it as [d a | c' b ms | ts | t hv | t | ns |]; cbn in Hp; try destruct Hp.
  apply in_map_iff in Hp. destruct Hp as [x [Hx Hin]]. inversion Hx; subst.
  apply in_flat_map in Hin. destruct Hin as [mb [Hmb Hf]]. exists b, ms, mb. auto.
Qed.

Theorem surface_member_in_safe_preserve :
  forall P m c f, In (c, f) (member_surface m) -> In c (safe_preserve P m) /\ In f (safe_preserve P m).
Proof.
  intros P m c f H. destruct (member_surface_inv m c f H) as [b [ms [mb [Hc [Hmb Hf]]]]].
  unfold safe_preserve. split.
  - apply in_or_app. right. apply in_or_app. left. unfold defs.
    eapply in_flat_map_intro; [exact Hc | cbn; auto].
  - apply in_or_app. right. apply in_or_app. right. apply in_or_app. right. apply in_or_app. left.
    unfold class_members. eapply in_flat_map_intro; [exact Hc |]. cbn.
    eapply in_flat_map_intro; [exact Hmb | apply member_bare_binds; exact Hf].
Qed.

(* R07.1 (pinned tree, repaired by F07-1 / F07-2): the surface was NOT inside the preserve set, and
   the naming rule's guard was false on members of top-level classes *)
Theorem surface_not_in_pinned_preserve :
  (exists m n, In n (top_surface m) /\ ~ In n (safe_preserve_pinned [] m)) /\
  (exists m c f, In (c, f) (member_surface m) /\
                 g_align (safe_preserve_pinned [] m) (SMDef c false f false) = false).
Proof.
  split.
  - exists [Assign [TTuple [TName "c"; TStarred (TName "d")]]], "d". split.
    + cbn. auto.
    + cbn. intros [H | []]; discriminate H.
  - exists [Class "A" false [MDef "myMethod" false]], "A", "myMethod". split.
    + cbn. auto.
    + vm_compute. reflexivity.
Qed.

(* ---------------------------------------------------------------------------------------------- *)
(* T07.2 / T08.3  what a guard protects survives the rule, for every oracle *)

Section Survive.
Variable g : guard.
Variable P : list name.
Variable o : oracle.

Lemma rn_target_keeps : forall gv i j t n,
  In n (bound t) -> gv n = true -> In n (bound (rn_target o gv i j t)).
Proof.
  intros gv i j t. induction t as [x | l IH | l IH | t IH | b a | b] using target_ind'; intros n Hn Hg; cbn in *.
  - destruct Hn as [Hn | []]. subst x. rewrite Hg. rewrite andb_false_r. cbn. auto.
  - apply in_flat_map in Hn. destruct Hn as [x [Hx Hn]].
    rewrite Forall_forall in IH. apply in_flat_map. exists (rn_target o gv i j x). split.
    + apply in_map. exact Hx.
    + apply IH; assumption.
  - apply in_flat_map in Hn. destruct Hn as [x [Hx Hn]].
    rewrite Forall_forall in IH. apply in_flat_map. exists (rn_target o gv i j x). split.
    + apply in_map. exact Hx.
    + apply IH; assumption.
  - apply IH; assumption.
  - destruct Hn.
  - destruct Hn.
Qed.

Lemma rn_targets_keep : forall gv i j ts n,
  In n (flat_map bound ts) -> gv n = true -> In n (flat_map bound (map (rn_target o gv i j) ts)).
Proof.
  intros gv i j ts n Hn Hg. apply in_flat_map in Hn. destruct Hn as [t [Ht Hn]].
  apply in_flat_map. exists (rn_target o gv i j t). split; [apply in_map; exact Ht | apply rn_target_keeps; assumption].
Qed.

Lemma guarded_not_all_unguarded : forall gv ns n, In n ns -> gv n = true -> all_unguarded gv ns = false.
Proof.
  intros gv ns n Hin Hg. unfold all_unguarded. destruct (forallb _ ns) eqn:E; [| reflexivity].
  rewrite forallb_forall in E. specialize (E n Hin). rewrite Hg in E. discriminate E.
Qed.

Lemma protected_item_survives : forall i it n,
  In n (protected_item g P it) -> In n (top_surface (apply_item g P o i it)).
Proof.
  intros i it n H. unfold top_surface.
  destruct it as [d a | c b ms | ts | t hv | t | ns |]; cbn [protected_item item_binds] in H.
  - destruct (g P (SDef d a)) eqn:E; [| destruct H]. cbn [apply_item]. rewrite E, andb_false_r. cbn. rewrite ?app_nil_r. exact H.
  - destruct (g P (SClass c b)) eqn:E; [| destruct H]. cbn [apply_item]. rewrite E, andb_false_r. cbn. rewrite ?app_nil_r. exact H.
  - apply filter_In in H. destruct H as [Hn Hg]. cbn [apply_item].
    rewrite (guarded_not_all_unguarded _ _ n Hn Hg), andb_false_r. cbn. rewrite ?app_nil_r.
    apply rn_targets_keep; assumption.
  - apply filter_In in H. destruct H as [Hn Hg]. cbn [apply_item]. destruct hv; [| destruct Hn].
    rewrite (guarded_not_all_unguarded _ _ n Hn Hg), andb_false_r. cbn. rewrite ?app_nil_r.
    apply rn_target_keeps; assumption.
  - apply filter_In in H. destruct H as [Hn Hg]. cbn [apply_item].
    rewrite (guarded_not_all_unguarded _ _ n Hn Hg), andb_false_r. cbn. rewrite ?app_nil_r.
    apply rn_target_keeps; assumption.
  - cbn in H. destruct H.
  - cbn in H. destruct H.
Qed.

Lemma top_surface_app : forall a b, top_surface (a ++ b) = top_surface a ++ top_surface b.
Proof. intros. unfold top_surface. apply flat_map_app. Qed.
Lemma member_surface_app : forall a b, member_surface (a ++ b) = member_surface a ++ member_surface b.
Proof. intros. unfold member_surface. apply flat_map_app. Qed.

Lemma protected_top_survives_from : forall m i n,
  In n (protected_top g P m) -> In n (top_surface (apply_from g P o i m)).
Proof.
  induction m as [| it tl IH]; intros i n H; cbn in H.
  - destruct H.
  - cbn [apply_from]. rewrite !top_surface_app. apply in_app_or in H. destruct H as [H | H].
    + apply in_or_app. right. apply in_or_app. left. apply protected_item_survives. exact H.
    + apply in_or_app. right. apply in_or_app. right. apply IH. exact H.
Qed.

Theorem protected_top_survives : forall m n,
  In n (protected_top g P m) -> In n (top_surface (apply_rule g P o m)).
Proof. intros. apply protected_top_survives_from. assumption. Qed.

(* members *)
Lemma protected_member_survives : forall i c b j mb f,
  In f (protected_member g P c b mb) -> In f (flat_map member_binds (apply_member g P o i c b j mb)).
Proof.
  intros i c b j mb f H.
  destruct mb as [x st | x | ts | t hv | t |]; cbn [protected_member member_binds] in H.
  - destruct (g P (SMDef c b x st)) eqn:E; [| destruct H]. cbn [apply_member]. rewrite E, andb_false_r. cbn. exact H.
  - destruct (g P (SMClass c b x)) eqn:E; [| destruct H]. cbn [apply_member]. rewrite E, andb_false_r. cbn. exact H.
  - apply filter_In in H. destruct H as [Hn Hg]. cbn [apply_member].
    rewrite (guarded_not_all_unguarded _ _ f Hn Hg), andb_false_r. cbn. rewrite ?app_nil_r.
    apply rn_targets_keep; assumption.
  - apply filter_In in H. destruct H as [Hn Hg]. cbn [apply_member]. destruct hv; [| destruct Hn].
    rewrite (guarded_not_all_unguarded _ _ f Hn Hg), andb_false_r. cbn. rewrite ?app_nil_r.
    apply rn_target_keeps; assumption.
  - apply filter_In in H. destruct H as [Hn Hg]. cbn [apply_member].
    rewrite (guarded_not_all_unguarded _ _ f Hn Hg), andb_false_r. cbn. rewrite ?app_nil_r.
    apply rn_target_keeps; assumption.
  - cbn in H. destruct H.
Qed.

Lemma protected_members_survive_list : forall i c b ms j f,
  In f (flat_map (protected_member g P c b) ms) ->
  In f (flat_map member_binds (apply_members g P o i c b j ms)).
Proof.
  induction ms as [| mb tl IH]; intros j f H; cbn in H.
  - destruct H.
  - cbn [apply_members]. rewrite flat_map_app. apply in_app_or in H. destruct H as [H | H].
    + apply in_or_app. left. apply protected_member_survives. exact H.
    + apply in_or_app. right. apply IH. exact H.
Qed.

Lemma protected_item_members_survive : forall i it p,
  In p (protected_item_members g P it) -> In p (member_surface (apply_item g P o i it)).
Proof.
  intros i it p H. destruct it as [d a | c b ms | ts | t hv | t | ns |]; cbn in H; try destruct H.
  destruct (g P (SClass c b)) eqn:E; [| destruct H].
  cbn [apply_item]. rewrite E, andb_false_r. unfold member_surface. cbn. rewrite ?app_nil_r.
  apply in_map_iff in H. destruct H as [f [Hp Hf]]. subst p.
  apply in_map. apply protected_members_survive_list. exact Hf.
Qed.

Lemma protected_members_survive_from : forall m i p,
  In p (protected_members g P m) -> In p (member_surface (apply_from g P o i m)).
Proof.
  induction m as [| it tl IH]; intros i p H; cbn in H.
  - destruct H.
  - cbn [apply_from]. rewrite !member_surface_app. apply in_app_or in H. destruct H as [H | H].
    + apply in_or_app. right. apply in_or_app. left. apply protected_item_members_survive. exact H.
    + apply in_or_app. right. apply in_or_app. right. apply IH. exact H.
Qed.

Theorem protected_members_survive : forall m p,
  In p (protected_members g P m) -> In p (member_surface (apply_rule g P o m)).
Proof. intros. apply protected_members_survive_from. assumption. Qed.
End Survive.

(* ---------------------------------------------------------------------------------------------- *)
(* a preserved name is protected by the guard of every rule *)

Definition top_guarded (g : guard) (P : list name) (n : name) : Prop :=
  (forall a, g P (SDef n a) = true) /\ (forall b, g P (SClass n b) = true) /\ g P (SVar n) = true.
Definition member_guarded (g : guard) (P : list name) (c f : name) : Prop :=
  (forall b, g P (SClass c b) = true) /\
  (forall b st, g P (SMDef c b f st) = true) /\ (forall b, g P (SMClass c b f) = true) /\
  (forall b, g P (SMVar c b f) = true).

Lemma key_top_guarded : forall r P n, key_top P n = true -> top_guarded (rule_guard r) P n.
Proof.
  intros r P n H. unfold key_top in H. apply andb_prop in H. destruct H as [Hm Hu].
  destruct r; unfold top_guarded; (split; [| split]); intros; cbn; rewrite ?Hm, ?Hu, ?orb_true_r; reflexivity.
Qed.

Lemma key_member_guarded : forall r P c f, key_member P c f = true -> member_guarded (rule_guard r) P c f.
Proof.
  intros r P c f H. unfold key_member in H.
  apply andb_prop in H. destruct H as [H Hfu]. apply andb_prop in H. destruct H as [H Hf].
  apply andb_prop in H. destruct H as [Hc Hcu].
  destruct r; unfold member_guarded; (split; [| split; [| split]]); intros; cbn;
    rewrite ?Hc, ?Hcu, ?Hf, ?Hfu, ?orb_true_r; reflexivity.
Qed.

Lemma guarded_protected_top : forall g P m n,
  In n (top_surface m) -> top_guarded g P n -> In n (protected_top g P m).
Proof.
  intros g P m n H [Hd [Hc Hv]]. unfold top_surface in H. apply in_flat_map in H.
  destruct H as [it [Hit Hn]]. unfold protected_top. apply in_flat_map. exists it. split; [exact Hit |].
  destruct it as [d a | c b ms | ts | t hv | t | ns |]; cbn [protected_item item_binds] in *.
  - destruct Hn as [Hn | []]. subst d. rewrite Hd. cbn. auto.
  - destruct Hn as [Hn | []]. subst c. rewrite Hc. cbn. auto.
  - apply filter_In. auto.
  - apply filter_In. auto.
  - apply filter_In. auto.
  - destruct Hn.
  - destruct Hn.
Qed.

Lemma guarded_protected_member : forall g P m c f,
  In (c, f) (member_surface m) -> member_guarded g P c f -> In (c, f) (protected_members g P m).
Proof.
  intros g P m c f H [Hc [Hd [Hn Hv]]].
  destruct (member_surface_inv m c f H) as [b [ms [mb [Hcl [Hmb Hf]]]]].
  unfold protected_members. apply in_flat_map. exists (Class c b ms). split; [exact Hcl |].
  cbn. rewrite Hc. apply in_map. apply in_flat_map. exists mb. split; [exact Hmb |].
  destruct mb as [x st | x | ts | t hv | t |]; cbn [protected_member member_binds] in *.
  - destruct Hf as [Hf | []]. subst x. rewrite Hd. cbn. auto.
  - destruct Hf as [Hf | []]. subst x. rewrite Hn. cbn. auto.
  - apply filter_In. auto.
  - apply filter_In. auto.
  - apply filter_In. auto.
  - destruct Hf.
Qed.

(* "every preserved definition survives" as a relation between the module before and after *)
Definition keeps (P : list name) (m m' : module) : Prop :=
  (forall n, In n (top_surface m) -> key_top P n = true -> In n (top_surface m')) /\
  (forall c f, In (c, f) (member_surface m) -> key_member P c f = true -> In (c, f) (member_surface m')).

(* T07.2 = T08.3: one rule, any preserve set, any oracle *)
Theorem rule_keeps : forall r P o m, keeps P m (apply_rule (rule_guard r) P o m).
Proof.
  intros r P o m. split.
  - intros n Hn Hk. apply protected_top_survives. apply guarded_protected_top; [exact Hn |].
    apply key_top_guarded. exact Hk.
  - intros c f Hn Hk. apply protected_members_survive. apply guarded_protected_member; [exact Hn |].
    apply key_member_guarded. exact Hk.
Qed.

(* T07.3 (local form): the invariant is closed under composition ... *)
Lemma keeps_refl : forall P m, keeps P m m.
Proof. intros. split; auto. Qed.
Lemma keeps_trans : forall P m1 m2 m3, keeps P m1 m2 -> keeps P m2 m3 -> keeps P m1 m3.
Proof.
  intros P m1 m2 m3 [T1 M1] [T2 M2]. split.
  - intros n Hn Hk. apply T2; [apply T1 |]; assumption.
  - intros c f Hn Hk. apply M2; [apply M1 |]; assumption.
Qed.

(* ... so every sequence of rule applications, each with its own oracle, keeps every preserved definition *)
Theorem run_rules_keeps : forall P rs m, keeps P m (run_rules P rs m).
Proof.
  intros P rs. induction rs as [| [r o] tl IH]; intros m; cbn [run_rules].
  - apply keeps_refl.
  - eapply keeps_trans; [apply rule_keeps | apply IH].
Qed.

(* ---------------------------------------------------------------------------------------------- *)
(* T07  safe mode: the public surface survives every sequence of the deleting/renaming rules, except
   definitions named `_` (F07-3) *)

Theorem safe_mode_keeps_surface :
  forall P m rs,
    let P' := safe_preserve P m in
    (forall n, In n (top_surface m) -> n <> "_" -> In n (top_surface (run_rules P' rs m))) /\
    (forall c f, In (c, f) (member_surface m) -> c <> "_" -> f <> "_" ->
                 In (c, f) (member_surface (run_rules P' rs m))).
Proof.
  intros P m rs P'. destruct (run_rules_keeps P' rs m) as [T M]. split.
  - intros n Hn Hu. apply T; [exact Hn |]. unfold key_top. apply andb_true_intro. split.
    + apply mem_In. apply surface_top_in_safe_preserve. exact Hn.
    + unfold is_us. apply negb_true_iff. apply String.eqb_neq. exact Hu.
  - intros c f Hn Hc Hf. apply M; [exact Hn |].
    destruct (surface_member_in_safe_preserve P m c f Hn) as [Ic If].
    unfold key_member, is_us. repeat (apply andb_true_intro; split).
    + apply mem_In. exact Ic.
    + apply negb_true_iff. apply String.eqb_neq. exact Hc.
    + apply mem_In. exact If.
    + apply negb_true_iff. apply String.eqb_neq. exact Hf.
Qed.

(* the `_` oracle: deletes statement 0 *)
Definition o_delete_first : oracle :=
  {| victim := fun i _ _ => Nat.eqb i 0; svictim := fun i _ => Nat.eqb i 0; fresh := fun _ _ n => n;
     repl := fun _ => []; mrepl := fun _ _ => []; extra := fun _ => []; restatic := fun _ _ b => b |}.

Definition o_delete_second_member : oracle :=
  {| victim := fun _ j _ => Nat.eqb j 2; svictim := fun _ j => Nat.eqb j 2; fresh := fun _ _ n => n;
     repl := fun _ => []; mrepl := fun _ _ => []; extra := fun _ => []; restatic := fun _ _ b => b |}.

(* R07  the full property is refuted: a definition named `_` is in the surface and in the preserve set
   and is deleted by rules that take no preserve argument (F07-3, documented `_` convention) *)
Theorem safe_mode_underscore_refuted :
  exists m o r,
    In "_" (top_surface m) /\ In "_" (safe_preserve [] m) /\
    ~ In "_" (top_surface (apply_rule (rule_guard r) (safe_preserve [] m) o m)).
Proof.
  exists [Assign [TName "_"]; Def "f" false], o_delete_first, RPointless. split; [| split].
  - cbn. auto.
  - cbn. auto.
  - vm_compute. intros [H | []]. discriminate H.
Qed.

(* R07.5 (hunt C07-0, repaired): the pinned delete_unreachable_code took no preserve set -- a member of a
   top-level class that is in the safe preserve set was unguarded *)
Theorem unreachable_pinned_unguarded :
  exists m c f, In (c, f) (member_surface m) /\ In f (safe_preserve [] m) /\
                g_unreachable_pinned (safe_preserve [] m) (SMVar c false f) = false /\
                ~ In (c, f) (member_surface (apply_rule g_unreachable_pinned (safe_preserve [] m) o_delete_second_member m)).
Proof.
  exists [Class "A" false [MOther; MAssign [TName "y"]]], "A", "y". split; [| split; [| split]].
  - cbn. auto.
  - cbn. auto.
  - vm_compute. reflexivity.
  - vm_compute. intros [].
Qed.

(* ---------------------------------------------------------------------------------------------- *)
(* C08 *)

(* T08.1  module-attribute / attribute access *)
Theorem attr_access_collected :
  forall f b d, In (OAttr b d) (f_occs f) -> In d (used_names f).
Proof.
  intros f b d H. unfold used_names. apply in_or_app. right.
  eapply in_flat_map_intro; [exact H |]. cbn. auto.
Qed.

(* T08.2  from-import (any alias, used or not) -- F08-1 *)
Theorem from_import_collected :
  forall f a, In a (f_imports f) -> i_from a = true -> i_name a <> "*" -> In (i_name a) (used_names f).
Proof.
  intros f a H Hf Hs. unfold used_names. apply in_or_app. left. unfold from_names.
  eapply in_flat_map_intro; [exact H |]. rewrite Hf. apply String.eqb_neq in Hs. rewrite Hs. cbn. auto.
Qed.

(* round 4: keyword names, members of client subclasses, __all__ under a starred import, mangled names *)
Theorem keyword_collected : forall f a, In (OKeyword a) (f_occs f) -> In a (used_names f).
Proof.
  intros f a H. unfold used_names. apply in_or_app. right. eapply in_flat_map_intro; [exact H | cbn; auto].
Qed.

Theorem submember_collected : forall f n, In (OSubMember n) (f_occs f) -> In n (used_names f).
Proof.
  intros f n H. unfold used_names. apply in_or_app. right. eapply in_flat_map_intro; [exact H | cbn; auto].
Qed.

Theorem star_import_keeps_all :
  forall f a, In a (f_imports f) -> i_from a = true -> i_name a = "*" -> In "__all__" (used_names f).
Proof.
  intros f a H Hf Hs. unfold used_names. apply in_or_app. left. unfold from_names.
  eapply in_flat_map_intro; [exact H |]. rewrite Hf, Hs. cbn. auto.
Qed.

Lemma prefix_us : forall s, prefix "_" (String "_" s) = true.
Proof.
  intros s. cbn [prefix]. destruct (ascii_dec "_" "_") as [_ | Hne]; [destruct s; reflexivity | congruence].
Qed.

Lemma dunder_suffixes_app : forall n x i,
  2 <= i + String.length x -> prefix "__" n = true -> 3 <= String.length n ->
  In n (dunder_suffixes i (x ++ n)%string).
Proof.
  intros n x. induction x as [| a x IH]; intros i Hi Hp Hl.
  - cbn [String.append]. destruct n as [| c tl]; [cbn in Hl; inversion Hl |].
    cbn [dunder_suffixes]. apply in_or_app. left.
    cbn [String.length] in Hi. rewrite PeanoNat.Nat.add_0_r in Hi.
    apply PeanoNat.Nat.leb_le in Hi. apply PeanoNat.Nat.leb_le in Hl. rewrite Hi, Hp, Hl. cbn. auto.
  - cbn [String.append dunder_suffixes]. apply in_or_app. right. apply IH; try assumption.
    cbn [String.length] in Hi. rewrite <- plus_n_Sm in Hi. exact Hi.
Qed.

(* `obj._C__n` in a preserved file protects the private member `__n` (source spelling) of class C *)
Theorem mangled_access_collected :
  forall f b c n, In (OAttr b ("_" ++ c ++ n)%string) (f_occs f) ->
                  1 <= String.length c -> prefix "__" n = true -> 3 <= String.length n ->
                  In n (used_names f).
Proof.
  intros f b c n H Hc Hp Hl. unfold used_names. apply in_or_app. right.
  eapply in_flat_map_intro; [exact H |]. cbn [occ_names]. right. apply in_or_app. left.
  unfold unmangled. change ("_" ++ c ++ n)%string with (String "_" (c ++ n)%string).
  rewrite prefix_us. change (String "_" (c ++ n)%string) with (String "_" c ++ n)%string.
  apply dunder_suffixes_app; [cbn [String.length plus]; lia | exact Hp | exact Hl].
Qed.

(* T08.2b  names used under a starred import -- F08-4 *)
Theorem star_import_collected :
  forall f a n, In a (f_imports f) -> i_name a = "*" -> i_as a = None -> In (OName n) (f_occs f) ->
                In n (used_names f).
Proof.
  intros f a n H Hn Ha Ho. unfold used_names. apply in_or_app. right.
  eapply in_flat_map_intro; [exact Ho |]. cbn.
  assert (Hs : mem "*" (imported_names f) = true).
  { apply mem_In. unfold imported_names. apply in_map_iff. exists a. rewrite Ha. auto. }
  rewrite Hs, orb_true_r. cbn. auto.
Qed.

(* used names of another file reach the per-file preserve set *)
Theorem used_names_in_file_preserve :
  forall files self ns f d, In (ns, f) files -> ns <> self -> In d (used_names f) ->
                            In d (file_preserve files self).
Proof.
  intros files self ns f d H Hne Hd. unfold file_preserve.
  eapply in_flat_map_intro; [exact H |]. cbn. apply String.eqb_neq in Hne. rewrite Hne. exact Hd.
Qed.

(* what the formatted file itself uses is irrelevant for its own preserve set: the file's own entry is
   skipped, nothing is subtracted (seeded regression C08-a replaced this by a set difference) *)
Theorem own_names_irrelevant :
  forall files self f, file_preserve ((self, f) :: files) self = file_preserve files self.
Proof. intros. unfold file_preserve. cbn. rewrite String.eqb_refl. reflexivity. Qed.

(* R08.2 (pinned tree, repaired by F08-1): a name that is only from-imported was not collected *)
Theorem from_import_not_collected_pinned :
  exists f a, In a (f_imports f) /\ i_from a = true /\ ~ In (i_name a) (used_names_pinned f).
Proof.
  exists {| f_imports := [{| i_from := true; i_name := "helper"; i_as := None |}]; f_occs := [] |},
         {| i_from := true; i_name := "helper"; i_as := None |}.
  cbn. repeat split; auto.
Qed.

(* T08  end to end: a definition of the library that a preserved client reaches by attribute access
   or from-import survives every sequence of rules run with the library's per-file preserve set
   (for a member: when its class is reached too) *)
Theorem cross_file_top_survives :
  forall files self ns f d rs lib,
    In (ns, f) files -> ns <> self -> In d (used_names f) -> d <> "_" ->
    In d (top_surface lib) ->
    In d (top_surface (run_rules (file_preserve files self) rs lib)).
Proof.
  intros files self ns f d rs lib H Hne Hd Hu Hs.
  destruct (run_rules_keeps (file_preserve files self) rs lib) as [T _]. apply T; [exact Hs |].
  unfold key_top, is_us. apply andb_true_intro. split.
  - apply mem_In. eapply used_names_in_file_preserve; eauto.
  - apply negb_true_iff. apply String.eqb_neq. exact Hu.
Qed.

Theorem cross_file_member_survives :
  forall files self ns f c d rs lib,
    In (ns, f) files -> ns <> self -> In c (used_names f) -> In d (used_names f) -> c <> "_" -> d <> "_" ->
    In (c, d) (member_surface lib) ->
    In (c, d) (member_surface (run_rules (file_preserve files self) rs lib)).
Proof.
  intros files self ns f c d rs lib H Hne Hc Hd Hcu Hdu Hs.
  destruct (run_rules_keeps (file_preserve files self) rs lib) as [_ M]. apply M; [exact Hs |].
  unfold key_member, is_us. repeat (apply andb_true_intro; split).
  - apply mem_In. eapply used_names_in_file_preserve; eauto.
  - apply negb_true_iff. apply String.eqb_neq. exact Hcu.
  - apply mem_In. eapply used_names_in_file_preserve; eauto.
  - apply negb_true_iff. apply String.eqb_neq. exact Hdu.
Qed.

(* R08.3 (F08-3, listed): a preserved METHOD name does not keep its unpreserved class alive *)
Theorem preserved_member_of_unpreserved_class_refuted :
  exists P m o c f,
    In f P /\ In (c, f) (member_surface m) /\
    ~ In (c, f) (member_surface (apply_rule g_delete_unused P o m)).
Proof.
  exists ["m"], [Class "A" false [MDef "m" false]], o_delete_first, "A", "m". split; [| split].
  - cbn. auto.
  - cbn. auto.
  - vm_compute. intros [].
Qed.

(* R08.4 (pinned tree, repaired by F08-2): the two-step path method -> static function -> deletion.
   A preserved static method of a preserved class was unguarded in move_staticmethod_static_scope *)
Theorem move_static_pinned_unguarded :
  exists P c f, In c P /\ In f P /\ g_move_static_pinned P (SMDef c false f true) = false.
Proof. exists ["A"; "foo"], "A", "foo". cbn. auto. Qed.

(* the two-step path on the repaired guards: the unused-self method is made static, the static method
   is a candidate for moving, the moved function for deletion -- with the name preserved none happens *)
Definition o_all : oracle :=
  {| victim := fun _ _ _ => true; svictim := fun _ _ => true; fresh := fun _ _ _ => "renamed";
     repl := fun _ => []; mrepl := fun _ _ => []; extra := fun _ => []; restatic := fun _ _ _ => true |}.

Example two_step_path :
  let m := [Class "A" false [MDef "foo" false; MDef "bar" false]; Def "unused" false] in
  let m' := run_rules ["A"; "foo"] [(RSelfCls, o_all); (RMoveStatic, o_all); (RDeleteUnused, o_all); (RAlign, o_all)] m in
  member_surface m' = [("A", "foo")] /\ top_surface m' = ["A"].
Proof. vm_compute. auto. Qed.
