(* K8b -- proofs about AuxStateModel.v: a registry keyed by the identity of cached objects is invisible
   (results are history independent) when its entries die with the cached object (WeakSet), for every
   allocator that never hands out a live address, every capacity >= 1 and every history; with entries that
   outlive eviction (set of id()) and address reuse it is refuted at the real capacity. *)
From Coq Require Import List Arith Bool Lia.
Import ListNotations.
Require Import Pyrefact.CacheModel Pyrefact.AuxStateModel.

Section Lists.
Context {A : Type}.

Lemma in_firstn (n : nat) : forall (l : list A) x, In x (firstn n l) -> In x l.
Proof.
  induction n as [|n IH]; intros [|z tl] x; cbn; try tauto.
  intros [H|H]; [now left | right; auto].
Qed.

Lemma in_skipn (n : nat) : forall (l : list A) x, In x (skipn n l) -> In x l.
Proof.
  induction n as [|n IH]; intros [|z tl] x; cbn; try tauto.
  intros H. right. auto.
Qed.

End Lists.

Section Generic.
Context {A B : Type}.
Variable f : A -> B.

Lemma nodup_map_inj (l : list A) x y : NoDup (map f l) -> In x l -> In y l -> f x = f y -> x = y.
Proof.
  induction l as [|z tl IH]; cbn; [tauto|].
  intros ND Hx Hy E. inversion ND as [|? ? Hn ND']; subst.
  destruct Hx as [Hx|Hx]; destruct Hy as [Hy|Hy]; subst.
  - reflexivity.
  - exfalso. apply Hn. rewrite E. now apply in_map.
  - exfalso. apply Hn. rewrite <- E. now apply in_map.
  - now apply IH.
Qed.

Lemma nodup_map_filter (p : A -> bool) (l : list A) : NoDup (map f l) -> NoDup (map f (filter p l)).
Proof.
  induction l as [|z tl IH]; cbn; [auto|].
  intros ND. inversion ND as [|? ? Hn ND']; subst.
  destruct (p z); cbn; [|auto].
  constructor; [|auto]. intros H. apply Hn. apply in_map_iff in H. destruct H as [w [E Hw]].
  apply filter_In in Hw. apply in_map_iff. exists w. tauto.
Qed.

Lemma nodup_map_firstn (n : nat) : forall l, NoDup (map f l) -> NoDup (map f (firstn n l)).
Proof.
  induction n as [|n IH]; intros [|z tl] ND; cbn; try constructor.
  - inversion ND as [|? ? Hn ND']; subst. intros H. apply Hn. apply in_map_iff in H.
    destruct H as [w [E Hw]]. apply in_map_iff. exists w. split; [exact E | eapply in_firstn; eauto].
  - inversion ND; auto.
Qed.

Lemma firstn_skipn_disjoint (n : nat) : forall l x y,
  NoDup (map f l) -> In x (firstn n l) -> In y (skipn n l) -> f x <> f y.
Proof.
  induction n as [|n IH]; intros [|z tl] x y; cbn; try tauto.
  intros ND Hx Hy. inversion ND as [|? ? Hn ND']; subst. destruct Hx as [Hx|Hx].
  - subst. intros E. apply Hn. rewrite E. apply in_map. eapply in_skipn; eauto.
  - eapply IH; eauto.
Qed.
End Generic.

Lemma memb_in a l : memb a l = true <-> In a l.
Proof.
  unfold memb. rewrite existsb_exists. split.
  - intros [x [Hx E]]. apply Nat.eqb_eq in E. now subst.
  - intros H. exists a. split; [auto | apply Nat.eqb_refl].
Qed.

Lemma alookup_in s cch a : alookup s cch = Some a -> In (s, a) cch.
Proof.
  induction cch as [|[k v] tl IH]; cbn; [discriminate|]. destruct (Nat.eqb k s) eqn:E.
  - intros H; inversion H; subst. apply Nat.eqb_eq in E; subst. now left.
  - intros H; right; auto.
Qed.

Lemma alookup_none s cch : alookup s cch = None -> ~ In s (map fst cch).
Proof.
  induction cch as [|[k v] tl IH]; cbn; [tauto|]. destruct (Nat.eqb k s) eqn:E; [discriminate|].
  intros H [H1|H1].
  - subst. rewrite Nat.eqb_refl in E. discriminate.
  - now apply IH.
Qed.

(* ------------------------------------------------------------------------------------------- *)
(* WeakSet design: entries are removed when the cached object is evicted *)
Section WeakDesign.
Variable binds : nat -> bool.
Variable alloc : list nat -> nat.
Hypothesis alloc_fresh : forall live, ~ In (alloc live) live.
Variable c : nat.                                      (* capacity S c >= 1 *)

Notation parse := (aparse binds alloc (S c) true).
Notation query := (aquery binds alloc (S c) true).
Notation run := (arun binds alloc (S c) true).

(* resident sources and their addresses are distinct; the registry holds exactly the addresses of the
   resident trees whose source binds the name *)
Record AInv (st : astate) : Prop := {
  inv_keys : NoDup (map fst (acache st));
  inv_addrs : NoDup (map snd (acache st));
  inv_aux_live : forall a, In a (aaux st) -> exists s, In (s, a) (acache st) /\ binds s = true;
  inv_live_aux : forall s a, In (s, a) (acache st) -> binds s = true -> In a (aaux st) }.

Lemma afresh_inv : AInv afresh.
Proof. constructor; cbn; try constructor; intros; tauto. Qed.

Lemma parse_inv s st : AInv st ->
  AInv (snd (parse s st)) /\ In (s, fst (parse s st)) (acache (snd (parse s st))).
Proof.
  intros [HK HA H2 H3]. unfold aparse.
  destruct (alookup s (acache st)) as [a|] eqn:L; cbn [fst snd acache aaux firstn skipn].
  - (* hit: move to front *)
    pose proof (alookup_in _ _ _ L) as Hin.
    split; [|now left].
    constructor; cbn [acache aaux map fst snd].
    + constructor.
      * intros H. apply in_map_iff in H. destruct H as [[k v] [E Hw]]. cbn in E; subst.
        apply filter_In in Hw. destruct Hw as [_ Hw]. cbn in Hw. rewrite Nat.eqb_refl in Hw. discriminate.
      * apply nodup_map_filter. exact HK.
    + constructor.
      * intros H. apply in_map_iff in H. destruct H as [[k v] [E Hw]]. cbn in E; subst.
        apply filter_In in Hw. destruct Hw as [Hw Hk]. cbn in Hk.
        assert (E : (k, a) = (s, a))
          by (apply (nodup_map_inj snd (acache st)); [exact HA | exact Hw | exact Hin | reflexivity]).
        inversion E; subst. rewrite Nat.eqb_refl in Hk. discriminate.
      * apply nodup_map_filter. exact HA.
    + intros a0 Ha0. destruct (H2 a0 Ha0) as [s0 [Hs0 Hb]]. exists s0. split; [|exact Hb].
      destruct (Nat.eqb s0 s) eqn:E.
      * apply Nat.eqb_eq in E; subst. left.
        apply (nodup_map_inj fst (acache st)); [exact HK | exact Hin | exact Hs0 | reflexivity].
      * right. apply filter_In. split; [exact Hs0 | cbn; now rewrite E].
    + intros s0 a0 [E|Hin0] Hb.
      * inversion E; subst. eapply H3; eauto.
      * apply filter_In in Hin0. eapply H3; [apply Hin0 | exact Hb].
  - (* miss: allocate while the residents are alive, insert, evict, drop the evicted addresses *)
    set (a := alloc (map snd (acache st))).
    assert (Hfresh : ~ In a (map snd (acache st))) by apply alloc_fresh.
    pose proof (alookup_none _ _ L) as Hnk.
    split; [|now left].
    set (aux1 := if binds s then a :: aaux st else aaux st).
    set (dropped := map snd (skipn c (acache st))).
    constructor; cbn [acache aaux map fst snd].
    + constructor.
      * intros H. apply Hnk. apply in_map_iff in H. destruct H as [w [E Hw]]. apply in_map_iff.
        exists w. split; [exact E | eapply in_firstn; eauto].
      * apply nodup_map_firstn. exact HK.
    + constructor.
      * intros H. apply Hfresh. apply in_map_iff in H. destruct H as [w [E Hw]]. apply in_map_iff.
        exists w. split; [exact E | eapply in_firstn; eauto].
      * apply nodup_map_firstn. exact HA.
    + intros a0 Ha0. apply filter_In in Ha0. destruct Ha0 as [Ha0 Hnd].
      apply negb_true_iff in Hnd.
      assert (Hcase : (binds s = true /\ a0 = a) \/ In a0 (aaux st)).
      { unfold aux1 in Ha0. destruct (binds s) eqn:Bs; [|right; exact Ha0].
        destruct Ha0 as [E|H]; [left; auto | right; exact H]. }
      destruct Hcase as [[Bs E]|Hold].
      * subst a0. exists s. split; [now left | exact Bs].
      * destruct (H2 a0 Hold) as [s0 [Hs0 Hb]]. exists s0. split; [|exact Hb]. right.
        rewrite <- (firstn_skipn c (acache st)) in Hs0. apply in_app_or in Hs0.
        destruct Hs0 as [H|H]; [exact H|].
        exfalso. assert (Hd : In a0 dropped) by (unfold dropped; apply in_map_iff; exists (s0, a0); auto).
        apply memb_in in Hd. congruence.
    + intros s0 a0 [E|Hin0] Hb.
      * inversion E; subst s0 a0. apply filter_In. split.
        -- unfold aux1. rewrite Hb. now left.
        -- apply negb_true_iff. destruct (memb a dropped) eqn:M; [|reflexivity]. exfalso.
           apply memb_in in M. unfold dropped in M. apply in_map_iff in M. destruct M as [w [E' Hw]].
           apply Hfresh. apply in_map_iff. exists w. split; [exact E' | eapply in_skipn; eauto].
      * apply filter_In. split.
        -- assert (Hold : In a0 (aaux st)) by (eapply H3; [eapply in_firstn; eauto | exact Hb]).
           unfold aux1. destruct (binds s); [now right | exact Hold].
        -- apply negb_true_iff. destruct (memb a0 dropped) eqn:M; [|reflexivity]. exfalso.
           apply memb_in in M. unfold dropped in M. apply in_map_iff in M.
           destruct M as [[k v] [E' Hw]]. cbn in E'; subst v.
           apply (firstn_skipn_disjoint snd c (acache st) (s0, a0) (k, a0) HA Hin0 Hw). reflexivity.
Qed.

Lemma query_correct s st : AInv st -> fst (query s st) = negb (binds s) /\ AInv (snd (query s st)).
Proof.
  intros I. pose proof (parse_inv s st I) as [I' Hin]. unfold aquery.
  destruct (parse s st) as [a st'] eqn:P. cbn [fst snd] in *.
  split; [|exact I']. f_equal.
  destruct (binds s) eqn:Bs.
  - apply memb_in. eapply inv_live_aux; eauto.
  - destruct (memb a (aaux st')) eqn:M; [|reflexivity]. apply memb_in in M.
    destruct (inv_aux_live _ I' a M) as [s0 [Hs0 Hb]].
    assert (E : (s0, a) = (s, a))
      by (apply (nodup_map_inj snd (acache st')); [apply I' | exact Hs0 | exact Hin | reflexivity]).
    inversion E; subst. congruence.
Qed.

Lemma run_inv h : forall st, AInv st -> AInv (run h st).
Proof.
  induction h as [|s tl IH]; intros st I; [exact I|].
  unfold arun in *. cbn [fold_left]. apply IH. now apply query_correct.
Qed.

(* the registry is invisible: whatever was parsed before, the call folds exactly when the source does not
   bind the name -- its result in the fresh process *)
Theorem aux_weak_history_independent (h : list nat) (s : nat) :
  fst (query s (run h afresh)) = negb (binds s)
  /\ fst (query s (run h afresh)) = fst (query s afresh).
Proof.
  pose proof (query_correct s (run h afresh) (run_inv h afresh afresh_inv)) as [E _].
  pose proof (query_correct s afresh afresh_inv) as [E0 _].
  split; congruence.
Qed.
End WeakDesign.

(* ------------------------------------------------------------------------------------------- *)
(* the allocator of the refutation is one the theorem above covers *)
Lemma first_free_fresh cands live d : ~ In d live -> ~ In (first_free cands live d) live.
Proof.
  induction cands as [|x tl IH]; cbn; [auto|]. intros Hd. destruct (memb x live) eqn:M; [auto|].
  intros H. apply memb_in in H. congruence.
Qed.

Lemma alloc_least_fresh live : ~ In (alloc_least live) live.
Proof.
  apply first_free_fresh. intros H.
  pose proof (proj1 (list_max_le live (list_max live)) (le_n _)) as F.
  rewrite Forall_forall in F. apply F in H. lia.
Qed.

Theorem aux_weak_least_independent (binds : nat -> bool) (c : nat) (h : list nat) (s : nat) :
  fst (aquery binds alloc_least (S c) true s (arun binds alloc_least (S c) true h afresh))
  = fst (aquery binds alloc_least (S c) true s afresh).
Proof. apply (aux_weak_history_independent binds alloc_least alloc_least_fresh c h s). Qed.

(* ------------------------------------------------------------------------------------------- *)
(* set-of-id() design: refuted at the real capacity with the same allocator *)
Theorem aux_id_design_refuted :
  exists (binds : nat -> bool) (h : list nat) (s : nat),
    fst (aquery binds alloc_least PARSE_MAXSIZE false s (arun binds alloc_least PARSE_MAXSIZE false h afresh))
    <> fst (aquery binds alloc_least PARSE_MAXSIZE false s afresh).
Proof. exists binds_only_0, refuting_history, refuting_probe. vm_compute. discriminate. Qed.

(* ... and it holds under the guard "no source of the history binds the name" (what every test without a
   binder in its history sees) *)
Section IdDesign.
Variable binds : nat -> bool.
Variable alloc : list nat -> nat.
Variable cap : nat.

Notation query := (aquery binds alloc cap false).
Notation run := (arun binds alloc cap false).

Definition no_binder (h : list nat) : bool := forallb (fun s => negb (binds s)) h.

Definition IInv (st : astate) : Prop :=
  aaux st = [] /\ forall k a, In (k, a) (acache st) -> binds k = false.

Lemma id_step s st : IInv st -> binds s = false -> IInv (snd (query s st)).
Proof.
  intros [Hx Hc] Bs. unfold aquery, aparse.
  destruct (alookup s (acache st)) as [a|] eqn:L; cbn [fst snd acache aaux]; split; cbn [acache aaux].
  - exact Hx.
  - intros k v [E|H]; [inversion E; subst; exact Bs|]. apply filter_In in H. eapply Hc. apply H.
  - rewrite Bs. exact Hx.
  - intros k v H. apply in_firstn in H. destruct H as [E|H]; [inversion E; subst; exact Bs|].
    eapply Hc; eauto.
Qed.

Lemma id_run h : forall st, IInv st -> no_binder h = true -> IInv (run h st).
Proof.
  induction h as [|s tl IH]; intros st I G; [exact I|].
  unfold no_binder in G. cbn [forallb] in G. apply andb_true_iff in G. destruct G as [Bs G].
  apply negb_true_iff in Bs. unfold arun in *. cbn [fold_left]. apply IH; [|exact G].
  now apply id_step.
Qed.

Lemma id_query s st : IInv st -> fst (query s st) = negb (binds s).
Proof.
  intros [Hx Hc]. unfold aquery, aparse.
  destruct (alookup s (acache st)) as [a|] eqn:L; cbn [fst snd acache aaux].
  - rewrite Hx. cbn. apply alookup_in in L. now rewrite (Hc _ _ L).
  - rewrite Hx. destruct (binds s); cbn; [now rewrite Nat.eqb_refl | reflexivity].
Qed.

Theorem aux_id_design_partial (h : list nat) (s : nat) :
  no_binder h = true ->
  fst (query s (run h afresh)) = negb (binds s)
  /\ fst (query s (run h afresh)) = fst (query s afresh).
Proof.
  intros G. assert (I0 : IInv afresh) by (split; [reflexivity | intros k a []]).
  rewrite (id_query s _ (id_run h afresh I0 G)), (id_query s afresh I0). split; reflexivity.
Qed.
End IdDesign.

(* non-vacuity: the guard holds for a history with eviction; the refuting history, run in the WeakSet
   design, gives the fresh-process result *)
Example no_binder_example : no_binder binds_only_0 (seq 1 150) = true.
Proof. vm_compute. reflexivity. Qed.

Example refuting_history_weak_ok :
  fst (aquery binds_only_0 alloc_least PARSE_MAXSIZE true refuting_probe
         (arun binds_only_0 alloc_least PARSE_MAXSIZE true refuting_history afresh)) = true
  /\ fst (aquery binds_only_0 alloc_least PARSE_MAXSIZE false refuting_probe
         (arun binds_only_0 alloc_least PARSE_MAXSIZE false refuting_history afresh)) = false.
Proof. vm_compute. split; reflexivity. Qed.
