(* K6 -- the checkers of BoolEquivModel.v are sound (and the truth-level ones complete).
   T17.11  equiv_dec_sound / equiv_dec_complete        propositional truth table
   T17.11a rep_points_suffice                          the points c-1, c, c+1 (and 0) decide all integers
   T17.11b equiv_dec_arith_sound / _complete           truth equivalence over the integers
   T17.11c vequiv_dec_sound                            value equivalence over the integers
   R17.12  truth_not_value                             `(a and b) or (a and not b)` vs `a` *)
From Coq Require Import List ZArith Bool Lia ZifyBool.
Import ListNotations.
Require Import Pyrefact.BoundModel Pyrefact.BoolEquivModel.
Open Scope Z_scope.

(* ---------------- propositional layer ---------------- *)
Section PropProofs.
Variable A : Type.
Variable aeqb : A -> A -> bool.
Hypothesis aeqb_spec : forall a b, aeqb a b = true <-> a = b.

Lemma memb_In : forall a l, memb aeqb a l = true <-> In a l.
Proof.
  intros a l. unfold memb. rewrite existsb_exists. split.
  - intros [b [Hb Heq]]. apply aeqb_spec in Heq. subst. exact Hb.
  - intros H. exists a. split; [exact H | apply aeqb_spec; reflexivity].
Qed.

Lemma dedup_In : forall a l, In a (dedup aeqb l) <-> In a l.
Proof.
  intros a l. induction l as [|b tl IH]; cbn [dedup]; [tauto|].
  destruct (memb aeqb b tl) eqn:Hm.
  - rewrite IH. cbn [In]. split; [tauto|].
    intros [H|H]; [subst; apply memb_In; exact Hm | exact H].
  - cbn [In]. rewrite IH. tauto.
Qed.

Lemma val_of_filter : forall (v : A -> bool) l a, In a l -> val_of aeqb (filter v l) a = v a.
Proof.
  intros v l a Ha. unfold val_of. destruct (v a) eqn:Hv.
  - apply memb_In. apply filter_In. split; assumption.
  - destruct (memb aeqb a (filter v l)) eqn:Hm; [|reflexivity].
    apply memb_In in Hm. apply filter_In in Hm. destruct Hm as [_ Hm]. congruence.
Qed.
End PropProofs.

Lemma filter_in_subsets : forall {A} (p : A -> bool) l, In (filter p l) (subsets l).
Proof.
  intros A p l. induction l as [|a tl IH]; cbn [filter subsets]; [left; reflexivity|].
  apply in_or_app. destruct (p a).
  - left. apply in_map. exact IH.
  - right. exact IH.
Qed.

Lemma peval_ext : forall {A} (v w : A -> bool) f,
  (forall a, In a (atoms f) -> v a = w a) -> peval v f = peval w f.
Proof.
  intros A v w f. induction f as [a|b|f IH|f1 IH1 f2 IH2|f1 IH1 f2 IH2]; cbn [peval atoms]; intros H.
  - apply H. left. reflexivity.
  - reflexivity.
  - rewrite IH by exact H. reflexivity.
  - rewrite IH1, IH2; [reflexivity| |]; intros a Ha; apply H; apply in_or_app; [right|left]; exact Ha.
  - rewrite IH1, IH2; [reflexivity| |]; intros a Ha; apply H; apply in_or_app; [right|left]; exact Ha.
Qed.

Section PropDecision.
Variable A : Type.
Variable aeqb : A -> A -> bool.
Hypothesis aeqb_spec : forall a b, aeqb a b = true <-> a = b.

(* T17.11 soundness: an accepted pair has the same truth value under EVERY valuation of the atoms *)
Theorem equiv_dec_sound : forall f g : pform A,
  equiv_dec aeqb f g = true -> forall v, peval v f = peval v g.
Proof.
  intros f g H v. unfold equiv_dec in H. rewrite forallb_forall in H.
  set (L := table_atoms aeqb f g) in *.
  specialize (H (filter v L) (filter_in_subsets v L)). unfold agree_on in H. apply eqb_prop in H.
  rewrite (peval_ext v (val_of aeqb (filter v L)) f), (peval_ext v (val_of aeqb (filter v L)) g);
    [exact H| |].
  - intros a Ha. symmetry. apply (val_of_filter A aeqb aeqb_spec).
    apply (dedup_In A aeqb aeqb_spec). apply in_or_app. right. exact Ha.
  - intros a Ha. symmetry. apply (val_of_filter A aeqb aeqb_spec).
    apply (dedup_In A aeqb aeqb_spec). apply in_or_app. left. exact Ha.
Qed.

(* T17.11 completeness: a rejected pair differs under some valuation *)
Theorem equiv_dec_complete : forall f g : pform A,
  (forall v, peval v f = peval v g) -> equiv_dec aeqb f g = true.
Proof.
  intros f g H. unfold equiv_dec. apply forallb_forall. intros U _. unfold agree_on.
  rewrite H. apply eqb_reflx.
Qed.

Lemma forallb_false_witness : forall {X} (p : X -> bool) l,
  forallb p l = false -> exists x, In x l /\ p x = false.
Proof.
  intros X p l. induction l as [|a tl IH]; cbn [forallb]; intros H; [discriminate|].
  destruct (p a) eqn:Hp.
  - destruct (IH H) as [x [Hx Hpx]]. exists x. split; [right; exact Hx | exact Hpx].
  - exists a. split; [left; reflexivity | exact Hp].
Qed.

Theorem equiv_dec_rejects : forall f g : pform A,
  equiv_dec aeqb f g = false -> exists v, peval v f <> peval v g.
Proof.
  intros f g H. unfold equiv_dec in H. apply forallb_false_witness in H.
  destruct H as [U [_ HU]]. exists (val_of aeqb U). unfold agree_on in HU.
  apply eqb_false_iff in HU. exact HU.
Qed.
End PropDecision.

(* ---------------- atoms of Python conditions over the integers ---------------- *)
Lemma bop_eqb_true : forall a b, bop_eqb a b = true <-> a = b.
Proof. intros [] []; cbn [bop_eqb]; split; intros H; try reflexivity; discriminate H. Qed.

Lemma atom_eqb_spec : forall a b, atom_eqb a b = true <-> a = b.
Proof.
  intros [x|x o c f|i] [y|y p d g|j]; cbn [atom_eqb]; split; intros H; try discriminate H.
  - apply Nat.eqb_eq in H. subst. reflexivity.
  - inversion H. apply Nat.eqb_refl.
  - rewrite !andb_true_iff in H. destruct H as [[[H1 H2] H3] H4].
    apply Nat.eqb_eq in H1. apply bop_eqb_true in H2. apply Z.eqb_eq in H3. apply eqb_prop in H4.
    subst. reflexivity.
  - inversion H. subst. rewrite Nat.eqb_refl, Z.eqb_refl, eqb_reflx.
    rewrite (proj2 (bop_eqb_true p p) eq_refl). reflexivity.
  - apply Nat.eqb_eq in H. subst. reflexivity.
  - inversion H. apply Nat.eqb_refl.
Qed.

Lemma Zeqb_spec' : forall a b : Z, (a =? b) = true <-> a = b.
Proof. intros. apply Z.eqb_eq. Qed.
Lemma Neqb_spec' : forall a b : nat, Nat.eqb a b = true <-> a = b.
Proof. intros. apply Nat.eqb_eq. Qed.

(* T17.11 instantiated: propositional equivalence implies truth equivalence over the integers *)
Theorem equiv_dec_truth : forall f g : form,
  equiv_dec atom_eqb f g = true -> forall rho sigma, teval rho sigma f = teval rho sigma g.
Proof.
  intros f g H rho sigma. unfold teval. apply (equiv_dec_sound atom atom_eqb atom_eqb_spec). exact H.
Qed.

(* ---- representative points ---- *)
Lemma same_side_spec : forall r x c, same_side r x c = true <-> (r ?= c) = (x ?= c).
Proof.
  intros r x c. unfold same_side.
  destruct (r ?= c), (x ?= c); split; intros H; try reflexivity; discriminate H.
Qed.

Ltac solve_cmp :=
  first [ apply Z.compare_lt_iff; lia | apply Z.compare_gt_iff; lia | apply Z.compare_eq_iff; lia | lia ].

Lemma rep_exists : forall C x,
  exists r, In r (points C) /\ Forall (fun c => (r ?= c) = (x ?= c)) C.
Proof.
  induction C as [|d C IH]; intros x.
  - exists 0. split; [left; reflexivity | constructor].
  - destruct (IH x) as [r [Hin Hall]].
    assert (Hpts : forall z, In z (points C) -> In z (points (d :: C))).
    { intros z [Hz|Hz]; [left; exact Hz|]. right. cbn [flat_map]. apply in_or_app. right. exact Hz. }
    assert (Hd : forall z, z = d - 1 \/ z = d \/ z = d + 1 -> In z (points (d :: C))).
    { intros z Hz. right. cbn [flat_map]. apply in_or_app. left. cbn [In].
      destruct Hz as [Hz|[Hz|Hz]]; subst; tauto. }
    destruct (Z.compare_spec x d) as [Hxd|Hxd|Hxd].
    + exists d. split; [apply Hd; tauto|]. subst x. apply Forall_forall. intros c _. reflexivity.
    + destruct (Z.ltb_spec r d) as [Hrd|Hrd].
      * exists r. split; [apply Hpts; exact Hin|]. constructor; [|exact Hall].
        rewrite (proj2 (Z.compare_lt_iff r d)) by lia. symmetry. solve_cmp.
      * exists (d - 1). split; [apply Hd; tauto|]. constructor.
        -- rewrite (proj2 (Z.compare_lt_iff x d)) by lia. solve_cmp.
        -- eapply Forall_impl; [|exact Hall]. cbn beta. intros c Hc.
           destruct (Z.compare_spec x c) as [H1|H1|H1]; destruct (Z.compare_spec r c) as [H2|H2|H2];
             try discriminate Hc; solve_cmp.
    + destruct (Z.ltb_spec d r) as [Hrd|Hrd].
      * exists r. split; [apply Hpts; exact Hin|]. constructor; [|exact Hall].
        rewrite (proj2 (Z.compare_gt_iff r d)) by lia. symmetry. solve_cmp.
      * exists (d + 1). split; [apply Hd; tauto|]. constructor.
        -- rewrite (proj2 (Z.compare_gt_iff x d)) by lia. solve_cmp.
        -- eapply Forall_impl; [|exact Hall]. cbn beta. intros c Hc.
           destruct (Z.compare_spec x c) as [H1|H1|H1]; destruct (Z.compare_spec r c) as [H2|H2|H2];
             try discriminate Hc; solve_cmp.
Qed.

Lemma rep_spec : forall C x,
  In (rep C x) (points C) /\ Forall (fun c => (rep C x ?= c) = (x ?= c)) C.
Proof.
  intros C x. unfold rep.
  destruct (find (fun r => forallb (same_side r x) C) (points C)) as [r|] eqn:Hf.
  - apply find_some in Hf. destruct Hf as [Hin Hall]. split; [exact Hin|].
    rewrite forallb_forall in Hall. apply Forall_forall. intros c Hc. apply same_side_spec.
    apply Hall. exact Hc.
  - exfalso. destruct (rep_exists C x) as [r [Hin Hall]].
    pose proof (find_none _ _ Hf r Hin) as Hn. cbn beta in Hn.
    rewrite <- not_true_iff_false in Hn. apply Hn. apply forallb_forall. intros c Hc.
    apply same_side_spec. rewrite Forall_forall in Hall. apply Hall. exact Hc.
Qed.

Lemma cmp_sem_side : forall op x y c, (x ?= c) = (y ?= c) -> cmp_sem op x c = cmp_sem op y c.
Proof.
  intros op x y c H.
  destruct (Z.compare_spec x c), (Z.compare_spec y c); try discriminate H;
    destruct op; cbn [cmp_sem]; lia.
Qed.

Lemma cmp_sem_side_fl : forall op x y c, (x ?= c) = (y ?= c) -> cmp_sem op c x = cmp_sem op c y.
Proof.
  intros op x y c H.
  destruct (Z.compare_spec x c), (Z.compare_spec y c); try discriminate H;
    destruct op; cbn [cmp_sem]; lia.
Qed.

Lemma atom_truth_rep : forall C rho sigma a,
  incl (atom_consts a) C ->
  atom_truth (fun x => rep C (rho x)) sigma a = atom_truth rho sigma a.
Proof.
  intros C rho sigma a Hc. destruct a as [x|x op c fl|i]; cbn [atom_truth atom_consts] in *.
  - destruct (rep_spec C (rho x)) as [_ Hall]. rewrite Forall_forall in Hall.
    specialize (Hall 0 (Hc 0 (or_introl eq_refl))).
    destruct (Z.compare_spec (rep C (rho x)) 0), (Z.compare_spec (rho x) 0); try discriminate Hall; lia.
  - destruct (rep_spec C (rho x)) as [_ Hall]. rewrite Forall_forall in Hall.
    specialize (Hall c (Hc c (or_introl eq_refl))).
    destruct fl; [apply cmp_sem_side_fl | apply cmp_sem_side]; exact Hall.
  - reflexivity.
Qed.

Lemma atom_in_flat : forall {X} (k : atom -> list X) (f : form) a x,
  In a (atoms f) -> In x (k a) -> In x (flat_map k (atoms f)).
Proof. intros X k f a x Ha Hx. apply in_flat_map. exists a. split; assumption. Qed.

Lemma teval_rep : forall C rho sigma (f : form),
  incl (consts f) C -> teval (fun x => rep C (rho x)) sigma f = teval rho sigma f.
Proof.
  intros C rho sigma f Hc. unfold teval. apply peval_ext. intros a Ha. apply atom_truth_rep.
  intros z Hz. apply Hc. unfold consts. eapply atom_in_flat; eassumption.
Qed.

(* T17.11a two conditions whose atoms are `x op c`, `c op x` or a bare name agree on ALL integer
   valuations as soon as they agree on the valuations that send every variable to 0 or to one of
   the points c-1, c, c+1 of a constant c occurring in them. *)
Theorem rep_points_suffice : forall (f g : form) C,
  incl (consts f ++ consts g) C ->
  (forall rho sigma, (forall x, In (rho x) (points C)) -> teval rho sigma f = teval rho sigma g) ->
  forall rho sigma, teval rho sigma f = teval rho sigma g.
Proof.
  intros f g C Hc H rho sigma.
  rewrite <- (teval_rep C rho sigma f), <- (teval_rep C rho sigma g).
  - apply H. intros x. apply rep_spec.
  - intros z Hz. apply Hc. apply in_or_app. right. exact Hz.
  - intros z Hz. apply Hc. apply in_or_app. left. exact Hz.
Qed.

(* ---- the enumeration covers every valuation up to the truth of the atoms ---- *)
Lemma lookup_map : forall (h : nat -> Z) V x,
  In x V -> lookup (map (fun y => (y, h y)) V) x = h x.
Proof.
  intros h V x. induction V as [|a tl IH]; cbn [map lookup In]; intros H; [contradiction|].
  destruct (Nat.eqb_spec x a) as [E|E]; [subst; reflexivity|].
  apply IH. destruct H as [H|H]; [congruence | exact H].
Qed.

Lemma in_assignments : forall (h : nat -> Z) P V,
  (forall x, In x V -> In (h x) P) -> In (map (fun y => (y, h y)) V) (assignments V P).
Proof.
  intros h P V. induction V as [|x tl IH]; intros H; cbn [map assignments]; [left; reflexivity|].
  apply in_flat_map. exists (h x). split; [apply H; left; reflexivity|].
  apply in_map. apply IH. intros y Hy. apply H. right. exact Hy.
Qed.

Lemma grid_covers : forall (f g : form) rho sigma,
  exists pt, In pt (grid f g) /\
    forall a, In a (atoms f ++ atoms g) ->
      atom_truth (lookup (fst pt)) (mem_nat (snd pt)) a = atom_truth rho sigma a.
Proof.
  intros f g rho sigma. unfold grid.
  set (C := dedup Z.eqb (consts f ++ consts g)).
  set (P := dedup Z.eqb (points C)).
  set (V := dedup Nat.eqb (vars f ++ vars g)).
  set (O := dedup Nat.eqb (opqs f ++ opqs g)).
  set (rho' := fun x => rep C (rho x)).
  exists (map (fun y => (y, rho' y)) V, filter sigma O). split.
  - apply in_prod.
    + apply in_assignments. intros x _. apply (dedup_In Z Z.eqb Zeqb_spec'). apply rep_spec.
    + apply filter_in_subsets.
  - intros a Ha. cbn [fst snd].
    assert (HV : forall x, In x (atom_vars a) -> In x V).
    { intros x Hx. apply (dedup_In nat Nat.eqb Neqb_spec'). unfold vars. rewrite <- flat_map_app.
      apply in_flat_map. exists a. split; assumption. }
    assert (HO : forall i, In i (atom_opqs a) -> In i O).
    { intros i Hi. apply (dedup_In nat Nat.eqb Neqb_spec'). unfold opqs. rewrite <- flat_map_app.
      apply in_flat_map. exists a. split; assumption. }
    assert (HC : incl (atom_consts a) C).
    { intros z Hz. apply (dedup_In Z Z.eqb Zeqb_spec'). unfold consts. rewrite <- flat_map_app.
      apply in_flat_map. exists a. split; assumption. }
    rewrite <- (atom_truth_rep C rho sigma a HC). fold rho'.
    destruct a as [x|x op c fl|i]; cbn [atom_truth atom_vars atom_opqs] in *.
    + rewrite lookup_map by (apply HV; left; reflexivity). reflexivity.
    + rewrite lookup_map by (apply HV; left; reflexivity). reflexivity.
    + apply (val_of_filter nat Nat.eqb Neqb_spec'). apply HO. left. reflexivity.
Qed.

(* T17.11b truth equivalence over the integers: sound and complete *)
Theorem equiv_dec_arith_sound : forall f g : form,
  equiv_dec_arith f g = true -> forall rho sigma, teval rho sigma f = teval rho sigma g.
Proof.
  intros f g H rho sigma. unfold equiv_dec_arith in H. rewrite forallb_forall in H.
  destruct (grid_covers f g rho sigma) as [pt [Hin Hat]].
  specialize (H pt Hin). unfold truth_agree in H. apply eqb_prop in H. unfold teval in *.
  rewrite <- (peval_ext (atom_truth (lookup (fst pt)) (mem_nat (snd pt))) (atom_truth rho sigma) f),
          <- (peval_ext (atom_truth (lookup (fst pt)) (mem_nat (snd pt))) (atom_truth rho sigma) g).
  - exact H.
  - intros a Ha. apply Hat. apply in_or_app. right. exact Ha.
  - intros a Ha. apply Hat. apply in_or_app. left. exact Ha.
Qed.

Theorem equiv_dec_arith_complete : forall f g : form,
  (forall rho sigma, teval rho sigma f = teval rho sigma g) -> equiv_dec_arith f g = true.
Proof.
  intros f g H. unfold equiv_dec_arith. apply forallb_forall. intros pt _. unfold truth_agree.
  rewrite H. apply eqb_reflx.
Qed.

(* ---- values ---- *)
Lemma truthy_veval : forall rho sigma f, truthy (veval rho sigma f) = teval rho sigma f.
Proof.
  intros rho sigma f. unfold teval.
  induction f as [a|b|f IH|f1 IH1 f2 IH2|f1 IH1 f2 IH2]; cbn [veval peval].
  - destruct a; reflexivity.
  - reflexivity.
  - cbn [truthy]. rewrite IH. reflexivity.
  - rewrite <- IH1, <- IH2. destruct (truthy (veval rho sigma f1)) eqn:E; [reflexivity | exact E].
  - rewrite <- IH1, <- IH2. destruct (truthy (veval rho sigma f1)) eqn:E; [exact E | reflexivity].
Qed.

Lemma veval_decode : forall rho sigma f, veval rho sigma f = decode rho (seval rho sigma f).
Proof.
  intros rho sigma f.
  induction f as [a|b|f IH|f1 IH1 f2 IH2|f1 IH1 f2 IH2]; cbn [veval seval].
  - destruct a as [x|x op c fl|i]; cbn [atom_val decode]; try reflexivity.
    destruct (Z.eqb_spec (rho x) 0) as [E|E]; cbn [decode]; [rewrite E|]; reflexivity.
  - reflexivity.
  - cbn [decode]. rewrite truthy_veval. reflexivity.
  - rewrite truthy_veval. destruct (teval rho sigma f1); assumption.
  - rewrite truthy_veval. destruct (teval rho sigma f1); assumption.
Qed.

Lemma seval_ext : forall rho sigma rho' sigma' (f : form),
  (forall a, In a (atoms f) -> atom_truth rho sigma a = atom_truth rho' sigma' a) ->
  seval rho sigma f = seval rho' sigma' f.
Proof.
  intros rho sigma rho' sigma' f.
  induction f as [a|b|f IH|f1 IH1 f2 IH2|f1 IH1 f2 IH2]; cbn [seval atoms]; intros H.
  - specialize (H a (or_introl eq_refl)). destruct a as [x|x op c fl|i]; cbn [atom_truth] in *.
    + destruct (rho x =? 0), (rho' x =? 0); cbn [negb] in H; try reflexivity; discriminate H.
    + rewrite H. reflexivity.
    + rewrite H. reflexivity.
  - reflexivity.
  - unfold teval. rewrite (peval_ext _ _ f H). reflexivity.
  - unfold teval. rewrite (peval_ext (atom_truth rho sigma) (atom_truth rho' sigma') f1)
      by (intros a Ha; apply H; apply in_or_app; left; exact Ha).
    rewrite IH1, IH2; [reflexivity| |]; intros a Ha; apply H; apply in_or_app; [right|left]; exact Ha.
  - unfold teval. rewrite (peval_ext (atom_truth rho sigma) (atom_truth rho' sigma') f1)
      by (intros a Ha; apply H; apply in_or_app; left; exact Ha).
    rewrite IH1, IH2; [reflexivity| |]; intros a Ha; apply H; apply in_or_app; [right|left]; exact Ha.
Qed.

Lemma sel_eqb_true : forall a b, sel_eqb a b = true -> a = b.
Proof.
  intros [x|x|] [y|y|]; cbn [sel_eqb]; intros H; try discriminate H; try reflexivity.
  - apply eqb_prop in H. subst. reflexivity.
  - apply Nat.eqb_eq in H. subst. reflexivity.
Qed.

(* T17.11c an accepted pair has the same VALUE (Python's `and` / `or` / `not`, integer valued
   names) under every integer valuation and every interpretation of the opaque operands *)
Theorem vequiv_dec_sound : forall f g : form,
  vequiv_dec f g = true -> forall rho sigma, veval rho sigma f = veval rho sigma g.
Proof.
  intros f g H rho sigma. unfold vequiv_dec in H. rewrite forallb_forall in H.
  destruct (grid_covers f g rho sigma) as [pt [Hin Hat]].
  specialize (H pt Hin). unfold value_agree in H. apply sel_eqb_true in H.
  rewrite !veval_decode. f_equal.
  rewrite <- (seval_ext (lookup (fst pt)) (mem_nat (snd pt)) rho sigma f),
          <- (seval_ext (lookup (fst pt)) (mem_nat (snd pt)) rho sigma g).
  - exact H.
  - intros a Ha. apply Hat. apply in_or_app. right. exact Ha.
  - intros a Ha. apply Hat. apply in_or_app. left. exact Ha.
Qed.

(* value equivalence implies truth equivalence *)
Theorem vequiv_dec_truth : forall f g : form,
  vequiv_dec f g = true -> forall rho sigma, teval rho sigma f = teval rho sigma g.
Proof.
  intros f g H rho sigma. rewrite <- !truthy_veval. rewrite (vequiv_dec_sound f g H). reflexivity.
Qed.

(* without bare names every sub-expression is a bool: the value IS the truth value *)
Lemma names_free_value : forall rho sigma f,
  names_free f = true -> veval rho sigma f = VB (teval rho sigma f).
Proof.
  intros rho sigma f. unfold teval.
  induction f as [a|b|f IH|f1 IH1 f2 IH2|f1 IH1 f2 IH2]; cbn [names_free veval peval]; intros H.
  - destruct a; [discriminate H | reflexivity | reflexivity].
  - reflexivity.
  - rewrite IH by exact H. reflexivity.
  - apply andb_true_iff in H. destruct H as [H1 H2]. rewrite IH1, IH2 by assumption. cbn [truthy].
    destruct (peval (atom_truth rho sigma) f1); reflexivity.
  - apply andb_true_iff in H. destruct H as [H1 H2]. rewrite IH1, IH2 by assumption. cbn [truthy].
    destruct (peval (atom_truth rho sigma) f1); reflexivity.
Qed.

Theorem names_free_truth_is_value : forall f g : form,
  names_free f = true -> names_free g = true -> equiv_dec_arith f g = true ->
  forall rho sigma, veval rho sigma f = veval rho sigma g.
Proof.
  intros f g Hf Hg H rho sigma. rewrite !names_free_value by assumption.
  rewrite (equiv_dec_arith_sound f g H). reflexivity.
Qed.

(* R17.12 truth equivalence is NOT value equivalence when bare names are operands:
   `(a and b) or (a and not b)` and `a` (what the sympy rule makes of it) have the same truth value
   under every valuation, yet for a = 2, b = 3 the first is 3 and the second is 2. *)
Definition r1712_in : form :=
  POr (PAnd (PAtom (AName 0)) (PAtom (AName 1))) (PAnd (PAtom (AName 0)) (PNot (PAtom (AName 1)))).
Definition r1712_out : form := PAtom (AName 0).

Theorem truth_not_value :
  equiv_dec atom_eqb r1712_in r1712_out = true /\
  vequiv_dec r1712_in r1712_out = false /\
  exists rho sigma, veval rho sigma r1712_in <> veval rho sigma r1712_out.
Proof.
  split; [vm_compute; reflexivity|]. split; [vm_compute; reflexivity|].
  exists (fun x => match x with O => 2 | _ => 3 end), (fun _ => false).
  vm_compute. discriminate.
Qed.

(* non-vacuity: a mixed formula the arithmetic checker accepts and the propositional one cannot *)
Example arith_example :
  let f : form := PAnd (PAtom (ACmp 0 BGt 1 false)) (POr (PAtom (ACmp 0 BGt 0 false)) (PAtom (AOpq 0))) in
  let g : form := PAtom (ACmp 0 BGe 2 false) in
  equiv_dec atom_eqb f g = false /\ equiv_dec_arith f g = true /\ vequiv_dec f g = true.
Proof. vm_compute. repeat split; reflexivity. Qed.

Print Assumptions equiv_dec_sound.
Print Assumptions equiv_dec_arith_sound.
Print Assumptions vequiv_dec_sound.
Print Assumptions truth_not_value.
