(* K7 -- model of the drivers of pyrefact/main.py:
     format_code (wrapper) + _format_code (the pipeline), _multi_run_fixes (as a straight-line list of stages),
     format_file (268-293), format_files (296-373),
   and of the validity guards of processing._apply_rewrites (733-747) / _replace_nodes (476-495)
   in a form that is parametric in the text-level rewriting.
   Mirrors the code as it is.  Every stage is an arbitrary function (Section variable); the model
   computes the resulting text AND the trace of stage applications, which is what the
   correspondence compares with the real driver run over scripted fake stages.
   No proofs in this file. *)
From Coq Require Import List Arith Bool.
Import ListNotations.

(* Identity of a stage application of format_code, in source order. *)
Inductive stage :=
| StExpandtabs                      (* main.py:170  source.expandtabs(4) *)
| StRmspace                         (* 171, 258     rmspace.format_str *)
| StBlankLines                      (* 172          fixes.fix_too_many_blank_lines *)
| StDedent                          (* 183          textwrap.dedent *)
| StAddImports                      (* 204, 251     fixes.add_missing_imports *)
| StSingleRun (keep_imports : bool) (* 207-220      processing.chain((...)) ; 2 or 4 rules *)
| StMulti (i : nat)                 (* 75-154       i-th statement of _multi_run_fixes *)
| StOverusedConstant (root_is_static : bool)  (* 234 *)
| StSimplifyAssign                  (* 235 *)
| StAlignNames                      (* 248 *)
| StRemoveUnusedImports             (* 253 *)
| StSortImports                     (* 255 *)
| StLineLengths                     (* 257 *)
| StIndent (n : nat)                (* 261          textwrap.indent(source, " " * n) *)
| StMinWs.                          (* 263          processing.minimize_whitespace_line_differences *)

Section Driver.
Variable St : Type.                         (* source texts *)
Variable eqb : St -> St -> bool.            (* str equality (set membership of content_history) *)
Variable Pres : Type.                       (* the preserve collection *)

Variable skip_file : St -> bool.            (* re.findall("# pyrefact: skip_file", source) non-empty *)
Variable is_blank : St -> bool.             (* not source.strip() *)
Variable valid : St -> bool.                (* core.is_valid_python *)
Variable indent_level : St -> nat.          (* formatting.indentation_level *)
Variable surface : Pres -> St -> Pres.      (* safe: preserve | defs | class_funcs | class_members | assignments *)

Variable app : stage -> Pres -> St -> St.   (* what each stage does; arbitrary *)
Variable minws : St -> St -> St.            (* minimize_whitespace_line_differences(original, source)[0] *)

(* the wrapper main.format_code around main._format_code (final line break handling) *)
Variable is_empty : St -> bool.             (* not source *)
Variable terminated : St -> bool.           (* source[-1] in "\r\n" *)
Variable add_nl : St -> St.                 (* source + "\n" *)
Variable ends_lf : St -> bool.              (* the final line break may be dropped: formatted.endswith("\n") and
                                               formatted[:-1] does not end in a backslash followed by a line break
                                               (there it ends the statement: fix a529c0f); for an unterminated s,
                                               ends_lf (add_nl s) holds, as T04.8' assumes *)
Variable drop_last : St -> St.              (* formatted[:-1] *)

Variable n_multi : nat.                     (* number of statements of _multi_run_fixes *)
Variable max_file_passes : nat.             (* MAX_FILE_PASSES *)

Definition mem (x : St) (h : list St) : bool := existsb (eqb x) h.

(* a text together with the (reversed) trace of the stage applications performed so far *)
Definition tstate := (St * list stage)%type.

Definition run1 (p : Pres) (st : stage) (x : tstate) : tstate :=
  (app st p (fst x), st :: snd x).

(* _multi_run_fixes: the n_multi stages, in order, each applied once *)
Definition multi_run (p : Pres) (x : tstate) : tstate :=
  fold_left (fun x i => run1 p (StMulti i) x) (seq 0 n_multi) x.

(* The history loop (main.py:225-232 and 240-245), generic in the step function:
     for _ in range(1, 1 + N): x = f(x); if key(x) in history: break; history.add(key(x))
   returns the final state, the final history and whether it stopped on a history hit. *)
Section HLoop.
Variable X : Type.
Variable key : X -> St.
Variable f : X -> X.
Fixpoint hloop (n : nat) (hist : list St) (x : X) : X * list St * bool :=
  match n with
  | O => (x, hist, false)
  | S n' => let x' := f x in
            if mem (key x') hist then (x', hist, true)
            else hloop n' (key x' :: hist) x'
  end.
End HLoop.

(* main.py:167-187.  Result: the state so far and, when formatting goes on, (original_source,
   minimum_indent). *)
Definition pre_gate (p0 : Pres) (s0 : St) : tstate * option (St * nat) :=
  if skip_file s0 then ((s0, []), None) else
  let x := run1 p0 StBlankLines (run1 p0 StRmspace (run1 p0 StExpandtabs (s0, []))) in
  if is_blank (fst x) then (x, None) else
  let original := fst x in
  let v := valid original in
  let mi := if v then 0 else indent_level original in
  let x := if v then x else run1 p0 StDedent x in
  if negb (valid (fst x)) then (x, None) else (x, Some (original, mi)).

(* main.py:189-201 *)
Definition eff_preserve (safe : bool) (p0 : Pres) (x : tstate) : Pres :=
  if safe then surface p0 (fst x) else p0.

(* main.py:203-265 *)
Definition post_gate (keep_imports : bool) (p : Pres) (original : St) (mi : nat) (x : tstate) : tstate :=
  let top := mi =? 0 in
  let x := if top then run1 p StAddImports x else x in
  let x := run1 p (StSingleRun keep_imports) x in
  let '(x, hist, _) := hloop tstate fst (multi_run p) max_file_passes [fst x] x in
  let x := run1 p StSimplifyAssign (run1 p (StOverusedConstant top) x) in
  let x := if mem (fst x) hist then x
           else fst (fst (hloop tstate fst (multi_run p) max_file_passes hist x)) in
  let x := if top then run1 p StAlignNames x else x in
  let x := if top
           then (let x := run1 p StAddImports x in
                 if keep_imports then x else run1 p StRemoveUnusedImports x)
           else x in
  let x := run1 p StRmspace (run1 p StLineLengths (run1 p StSortImports x)) in
  let x := if top then x else run1 p (StIndent mi) x in
  (minws original (fst x), StMinWs :: snd x).

Definition format_code_run (safe keep_imports : bool) (p0 : Pres) (s0 : St) : tstate :=
  match pre_gate p0 s0 with
  | (x, None) => x
  | (x, Some (original, mi)) => post_gate keep_imports (eff_preserve safe p0 x) original mi x
  end.

Definition format_code_model (safe keep_imports : bool) (p0 : Pres) (s0 : St) : St :=
  fst (format_code_run safe keep_imports p0 s0).

Definition format_code_trace (safe keep_imports : bool) (p0 : Pres) (s0 : St) : list stage :=
  rev (snd (format_code_run safe keep_imports p0 s0)).

(* the preserve collection handed to the stages, None when format_code returns early *)
Definition model_preserve (safe : bool) (p0 : Pres) (s0 : St) : option Pres :=
  match pre_gate p0 s0 with
  | (x, None) => None
  | (x, Some _) => Some (eff_preserve safe p0 x)
  end.

(* main.format_code: a non-empty source whose last character is not a line break is formatted with
   "\n" appended (rules may insert statements after the last line), and the line break is removed
   from the result again; everything else goes straight to _format_code (the model above). *)
Definition needs_nl (s : St) : bool := negb (is_empty s) && negb (terminated s).

Definition format_code_outer_run (safe keep_imports : bool) (p0 : Pres) (s : St) : tstate :=
  if needs_nl s
  then let x := format_code_run safe keep_imports p0 (add_nl s) in
       ((if ends_lf (fst x) then drop_last (fst x) else fst x), snd x)
  else format_code_run safe keep_imports p0 s.

Definition format_code_outer (safe keep_imports : bool) (p0 : Pres) (s : St) : St :=
  fst (format_code_outer_run safe keep_imports p0 s).

Definition outer_preserve (safe : bool) (p0 : Pres) (s : St) : option Pres :=
  model_preserve safe p0 (if needs_nl s then add_nl s else s).

(* the trace-free reading of the multi-run phase, used by the cycle-cut theorems *)
Definition multi_fun (p : Pres) (s : St) : St :=
  fold_left (fun s i => app (StMulti i) p s) (seq 0 n_multi) s.

(* ---------------------------------------------------------------------------------------- *)
(* format_file (main.py:268-293): read, format, write guard.  Result: (content afterwards,
   return value / "a write happened"). *)
Definition write_guard (c c' : St) : bool :=
  negb (eqb c' c) && (valid c' || negb (valid c)).

Definition format_file_model (F : St -> St) (c : St) : St * bool :=
  let c' := F c in
  if write_guard c c' then (c', true) else (c, false).

(* ---------------------------------------------------------------------------------------- *)
(* processing._apply_rewrites / _replace_nodes: the validity guards, parametric in how the
   candidate text is produced (cand = all the _do_rewrite calls) and in the string-restoration
   functions (restore = _substitute_original_strings ; _substitute_original_fstrings). *)
Definition guarded_pass (cand : St -> St) (restore : St -> St -> St) (s : St) : St :=
  let new := cand s in
  if negb (valid new) then s
  else let new' := restore s new in
       if negb (valid new') then s else new'.

Definition guarded_once (cand : St -> St) (s : St) : St :=     (* _replace_nodes *)
  let new := cand s in if negb (valid new) then s else new.

(* processing.fix / chain: history = {source}, never extended (as SchedModel.fix_loop) *)
Fixpoint fix_loop_g (pass : St -> St) (n : nat) (orig cur : St) : St :=
  match n with
  | O => cur
  | S n' => let cur' := pass cur in
            if eqb cur' orig then cur' else fix_loop_g pass n' orig cur'
  end.
Definition fix_model (pass : St -> St) (max_iter : nat) (s : St) : St := fix_loop_g pass max_iter s s.

End Driver.

(* ---------------------------------------------------------------------------------------- *)
(* format_files (main.py:296-373).  A file is (identity, content); `ff id c` is format_file on that
   file: (content afterwards, changed).  Folders are handled per pass:
     files_to_format = files of the folders with (changes and passes_left > 0);
     if none: break;   results = starmap(format_file, files_to_format)   [abstracted as map]
     every folder: (changes, passes_left) := (any(result of its files, default False), passes_left - 1) *)
Section Files.
Variable C : Type.                       (* file contents *)
Variable Fid : Type.                     (* file identity (path) *)
Variable ff : Fid -> C -> C * bool.

Definition file := (Fid * C)%type.
Record folder := mkFolder { f_files : list file; f_changes : bool; f_left : nat }.

Definition active (d : folder) : bool := f_changes d && (0 <? f_left d).

Definition format_one (x : file) : file * bool :=
  let r := ff (fst x) (snd x) in ((fst x, fst r), snd r).

Definition pass_folder (d : folder) : folder :=
  if active d
  then let rs := map format_one (f_files d) in
       mkFolder (map fst rs) (existsb snd rs) (f_left d - 1)
  else mkFolder (f_files d) false (f_left d - 1).

(* ids handed to the pool in one pass *)
Definition pass_ids (ds : list folder) : list Fid :=
  flat_map (fun d => if active d then map fst (f_files d) else []) ds.

Fixpoint passes (n : nat) (ds : list folder) : list folder * list (list Fid) :=
  match n with
  | O => (ds, [])
  | S n' => if existsb active ds
            then let '(ds', tr) := passes n' (map pass_folder ds) in (ds', pass_ids ds :: tr)
            else (ds, [])
  end.

Definition init_folder (max_passes : nat) (fs : list file) : folder := mkFolder fs true max_passes.

Definition format_files_model (max_passes : nat) (folders : list (list file))
  : list folder * list (list Fid) :=
  passes max_passes (map (init_folder max_passes) folders).

(* return value since feb2676: any_changes, the disjunction of any(results) over the passes that ran.
   any(results) of a pass = some folder's new `changes` flag (inactive folders get False). *)
Fixpoint passes_any (n : nat) (ds : list folder) : bool :=
  match n with
  | O => false
  | S n' => if existsb active ds
            then existsb f_changes (map pass_folder ds) || passes_any n' (map pass_folder ds)
            else false
  end.

Definition format_files_result (max_passes : nat) (folders : list (list file)) : bool :=
  passes_any max_passes (map (init_folder max_passes) folders).

(* the return value before feb2676: any(changes for changes, _ in module_changes_pass_counts.values()),
   i.e. only whether the LAST pass of some folder changed something (kept for old_result_refuted) *)
Definition format_files_last_flags (max_passes : nat) (folders : list (list file)) : bool :=
  existsb f_changes (fst (format_files_model max_passes folders)).

(* one folder on its own: the reading that the bookkeeping theorem compares against *)
Fixpoint folder_run (n : nat) (fs : list file) : list file * bool * nat :=
  match n with
  | O => (fs, true, O)
  | S n' => let rs := map format_one fs in
            if existsb snd rs
            then let '(fs', ch, k) := folder_run n' (map fst rs) in (fs', ch, S k)
            else (map fst rs, false, 1)
  end.

End Files.

Arguments mkFolder {C Fid}.
Arguments f_files {C Fid}.
Arguments f_changes {C Fid}.
Arguments f_left {C Fid}.

(* ---------------------------------------------------------------------------------------- *)
(* Concrete instance used by the correspondence: texts are numbered states of a finite universe,
   every scripted stage is a lookup table (out-of-range = identity). *)
Definition tbl := list nat.
Definition tapp (t : tbl) (s : nat) : nat := nth s t s.
Definition tbool (t : list bool) (s : nat) : bool := nth s t false.

Record drv_case := mkDrv {
  d_safe : bool; d_keep : bool;
  d_p0 : list nat;                 (* user supplied preserve (codes) *)
  d_input : nat;
  d_skip : list bool;              (* per state: carries the skip_file marker *)
  d_blank : list bool;
  d_valid : list bool;
  d_indent : list nat;             (* indentation_level per state *)
  d_surface : list (list nat);     (* module-level names of each state (codes) *)
  d_tabs : tbl; d_rmspace : tbl; d_blanklines : tbl; d_dedent : tbl; d_addimp : tbl;
  d_single_keep : tbl; d_single_all : tbl;
  d_multi : list (nat * tbl);      (* (position, table): all other multi stages are the identity *)
  d_multi_pres : list (nat * tbl); (* (position, table used instead when name 10*s+1 of the state is preserved) *)
  d_overused_static : tbl; d_overused_nonstatic : tbl; d_simplify : tbl; d_align : tbl;
  d_remove_unused : tbl; d_sort : tbl; d_linelen : tbl; d_indent_t : tbl;
  d_minws : list tbl;              (* indexed by original, then by source *)
  d_terminated : list bool; d_add_nl : tbl; d_ends_lf : list bool; d_drop_last : tbl;
  d_n_multi : nat; d_passes : nat;
  d_multi_codes : list nat;        (* code of the function called at each position of _multi_run_fixes *)
  (* observed on the implementation: *)
  d_exp_out : nat; d_exp_trace : list nat; d_exp_pres : option (list nat)
}.

Fixpoint assoc_tbl (i : nat) (l : list (nat * tbl)) : option tbl :=
  match l with
  | [] => None
  | (j, t) :: tl => if i =? j then Some t else assoc_tbl i tl
  end.

Fixpoint insert_nat (x : nat) (l : list nat) : list nat :=
  match l with
  | [] => [x]
  | y :: tl => if x <? y then x :: l else if x =? y then l else y :: insert_nat x tl
  end.
Definition sort_nodup (l : list nat) : list nat := fold_right insert_nat [] l.

Definition case_app (c : drv_case) (st : stage) (p : list nat) (s : nat) : nat :=
  match st with
  | StExpandtabs => tapp (d_tabs c) s
  | StRmspace => tapp (d_rmspace c) s
  | StBlankLines => tapp (d_blanklines c) s
  | StDedent => tapp (d_dedent c) s
  | StAddImports => tapp (d_addimp c) s
  | StSingleRun true => tapp (d_single_keep c) s
  | StSingleRun false => tapp (d_single_all c) s
  | StMulti i =>
      match assoc_tbl i (d_multi_pres c) with
      | Some t => if existsb (Nat.eqb (10 * s + 1)) p then tapp t s
                  else match assoc_tbl i (d_multi c) with Some t' => tapp t' s | None => s end
      | None => match assoc_tbl i (d_multi c) with Some t' => tapp t' s | None => s end
      end
  | StOverusedConstant true => tapp (d_overused_static c) s
  | StOverusedConstant false => tapp (d_overused_nonstatic c) s
  | StSimplifyAssign => tapp (d_simplify c) s
  | StAlignNames => tapp (d_align c) s
  | StRemoveUnusedImports => tapp (d_remove_unused c) s
  | StSortImports => tapp (d_sort c) s
  | StLineLengths => tapp (d_linelen c) s
  | StIndent _ => tapp (d_indent_t c) s
  | StMinWs => s
  end.

Definition case_run (c : drv_case) : nat * list stage :=
  format_code_outer_run nat Nat.eqb (list nat)
    (tbool (d_skip c)) (tbool (d_blank c)) (tbool (d_valid c)) (fun s => nth s (d_indent c) 0)
    (fun p s => sort_nodup (p ++ nth s (d_surface c) []))
    (case_app c) (fun o s => tapp (nth o (d_minws c) []) s)
    (fun _ => false) (fun s => nth s (d_terminated c) true) (tapp (d_add_nl c))
    (fun s => nth s (d_ends_lf c) true) (tapp (d_drop_last c))
    (d_n_multi c) (d_passes c) (d_safe c) (d_keep c) (sort_nodup (d_p0 c)) (d_input c).

Definition case_pres (c : drv_case) : option (list nat) :=
  outer_preserve nat (list nat)
    (tbool (d_skip c)) (tbool (d_blank c)) (tbool (d_valid c)) (fun s => nth s (d_indent c) 0)
    (fun p s => sort_nodup (p ++ nth s (d_surface c) []))
    (case_app c)
    (fun _ => false) (fun s => nth s (d_terminated c) true) (tapp (d_add_nl c))
    (d_safe c) (sort_nodup (d_p0 c)) (d_input c).

(* numeric code of a stage application, as the tracing harness numbers the real calls *)
Definition stage_code (multi_codes : list nat) (st : stage) : nat :=
  match st with
  | StExpandtabs => 1 | StRmspace => 2 | StBlankLines => 3 | StDedent => 4 | StAddImports => 5
  | StSingleRun true => 6 | StSingleRun false => 7
  | StMulti i => nth i multi_codes 0
  | StOverusedConstant true => 8 | StOverusedConstant false => 9
  | StSimplifyAssign => 10 | StAlignNames => 11 | StRemoveUnusedImports => 12
  | StSortImports => 13 | StLineLengths => 14 | StMinWs => 15
  | StIndent n => 1000 + n
  end.

Definition case_trace (c : drv_case) : list nat :=
  map (stage_code (d_multi_codes c)) (rev (snd (case_run c))).

Fixpoint nats_eqb (a b : list nat) : bool :=
  match a, b with
  | [], [] => true
  | x :: a', y :: b' => (x =? y) && nats_eqb a' b'
  | _, _ => false
  end.

Definition onats_eqb (a b : option (list nat)) : bool :=
  match a, b with
  | None, None => true
  | Some x, Some y => nats_eqb x y
  | _, _ => false
  end.

(* the observed trace is written with one token (500) per complete pass of _multi_run_fixes *)
Definition expand_trace (multi_codes tr : list nat) : list nat :=
  flat_map (fun c => if c =? 500 then multi_codes else [c]) tr.

Definition drv_case_ok (c : drv_case) : bool :=
  (fst (case_run c) =? d_exp_out c)
  && nats_eqb (case_trace c) (expand_trace (d_multi_codes c) (d_exp_trace c))
  && onats_eqb (case_pres c) (d_exp_pres c).

(* format_file cases: one row of the decision table *)
Record file_case := mkFileCase {
  fc_changed : bool;        (* format_code's result differs from the content *)
  fc_valid_new : bool; fc_valid_old : bool;
  fc_exp_written : bool;    (* observed: bytes/mtime changed to the new text *)
  fc_exp_return : bool
}.
(* contents: 0 = initial, 1 = the formatted text (when it differs) *)
Definition file_case_ok (c : file_case) : bool :=
  let F := fun s : nat => if fc_changed c then 1 else s in
  let valid := fun s : nat => if s =? 0 then fc_valid_old c else fc_valid_new c in
  let r := format_file_model nat Nat.eqb valid F 0 in
  Bool.eqb (snd r) (fc_exp_return c) && Bool.eqb (fst r =? 1) (fc_exp_written c)
  && (fc_changed c || negb (fc_exp_written c)).

(* format_files cases: contents are states, every file has its own transition table;
   format_file on a file = (table lookup, changed) with a scripted "refuse to write" mask. *)
Record files_case := mkFilesCase {
  fs_max_passes : nat;
  fs_folders : list (list (nat * nat));      (* (file id, initial content) per folder *)
  fs_tables : list tbl;                      (* per file id: content transition *)
  fs_exp_final : list (nat * nat);           (* (file id, final content), sorted by id *)
  fs_exp_passes : list (list nat);           (* ids formatted in each pass, sorted *)
  fs_exp_result : bool
}.

Definition files_ff (c : files_case) (id s : nat) : nat * bool :=
  let s' := tapp (nth id (fs_tables c) []) s in (s', negb (s' =? s)).

Fixpoint pairs_eqb (a b : list (nat * nat)) : bool :=
  match a, b with
  | [], [] => true
  | (x1, x2) :: a', (y1, y2) :: b' => (x1 =? y1) && (x2 =? y2) && pairs_eqb a' b'
  | _, _ => false
  end.

Fixpoint insert_pair (x : nat * nat) (l : list (nat * nat)) : list (nat * nat) :=
  match l with
  | [] => [x]
  | y :: tl => if fst x <? fst y then x :: l else y :: insert_pair x tl
  end.

Fixpoint lists_eqb (a b : list (list nat)) : bool :=
  match a, b with
  | [], [] => true
  | x :: a', y :: b' => nats_eqb x y && lists_eqb a' b'
  | _, _ => false
  end.

Definition files_case_ok (c : files_case) : bool :=
  let r := format_files_model nat nat (files_ff c) (fs_max_passes c) (fs_folders c) in
  pairs_eqb (fold_right insert_pair [] (flat_map f_files (fst r))) (fs_exp_final c)
  && lists_eqb (map sort_nodup (snd r)) (fs_exp_passes c)
  && Bool.eqb (format_files_result nat nat (files_ff c) (fs_max_passes c) (fs_folders c)) (fs_exp_result c).

(* guarded pass / fix loop cases (fault injection into processing.fix / chain / sub) *)
Record guard_case := mkGuardCase {
  g_cand : tbl; g_valid : list bool; g_restore : list tbl;  (* restore indexed by src then new *)
  g_max_iter : nat; g_start : nat; g_exp : nat
}.
Definition guard_case_ok (c : guard_case) : bool :=
  let valid := tbool (g_valid c) in
  let pass := guarded_pass nat valid (tapp (g_cand c)) (fun s n => tapp (nth s (g_restore c) []) n) in
  fix_model nat Nat.eqb pass (g_max_iter c) (g_start c) =? g_exp c.

(* ---------------------------------------------------------------------------------------- *)
(* fixes._orelse_preferred_as_body (the orientation heuristic of swap_if_else / early_return /
   early_continue): it only looks at a summary of each branch. *)
Record branch := mkBranch {
  br_all_pass : bool;      (* all(isinstance(node, ast.Pass) for node in branch) *)
  br_blocking : bool;      (* any(core.is_blocking(node) for node in branch) *)
  br_branches : nat;       (* _count_branches(branch) = 1 + number of nested ifs *)
  br_len : nat;            (* len(branch) *)
  br_first_exit : bool     (* isinstance(branch[0], (Return, Continue, Break)) *)
}.

Definition orelse_preferred (body orelse : branch) : bool :=
  if br_all_pass body then true
  else if br_all_pass orelse then false
  else if br_blocking body && negb (br_blocking orelse) then false
  else if br_blocking orelse && negb (br_blocking body) then true
  else if br_blocking orelse && br_blocking body && (2 * br_branches orelse <=? br_branches body) then true
  else br_first_exit orelse && (3 <? br_len body).

(* structural facts of a summary that comes from a real statement list *)
Definition branch_wf (b : branch) : bool :=
  (1 <=? br_len b) && (1 <=? br_branches b)
  && (negb (br_first_exit b) || br_blocking b)                       (* an exit statement blocks *)
  && (negb (br_all_pass b) || (negb (br_blocking b) && negb (br_first_exit b) && (br_branches b =? 1))).
(* no statement follows a leading return/continue/break (delete_unreachable_code runs earlier in
   every pass of _multi_run_fixes) *)
Definition no_dead_code (b : branch) : bool :=
  negb (br_first_exit b) || ((br_len b =? 1) && (br_branches b =? 1)).

Record orient_case := mkOrient { oc_body : branch; oc_orelse : branch; oc_exp : bool }.
Definition orient_case_ok (c : orient_case) : bool :=
  Bool.eqb (orelse_preferred (oc_body c) (oc_orelse c)) (oc_exp c)
  && branch_wf (oc_body c) && branch_wf (oc_orelse c).

Fixpoint bad_idx_from {X} (ok : X -> bool) (i : nat) (l : list X) : list nat :=
  match l with
  | [] => []
  | c :: tl => if ok c then bad_idx_from ok (S i) tl else i :: bad_idx_from ok (S i) tl
  end.
Definition bad_idx {X} (ok : X -> bool) (l : list X) : list nat := bad_idx_from ok O l.

(* ---------------------------------------------------------------------------------------- *)
(* Round 5 (seed C04-d): which constants symbolic_math.simplify_boolean_expressions collects as
   BOUNDS of an operand (symbolic_math.py, `if not isinstance(right, (int, float, bool)): continue`).
   Everything collected for one operand is afterwards compared pairwise with <, <=, >, >= on the raw
   Python values, without any try/except: the isinstance guard is what makes those comparisons total. *)
Inductive bkind := BkInt | BkFloat | BkBool | BkStr | BkBytes | BkNone | BkTuple | BkComplex.

Definition bkind_eqb (a b : bkind) : bool :=
  match a, b with
  | BkInt, BkInt | BkFloat, BkFloat | BkBool, BkBool | BkStr, BkStr | BkBytes, BkBytes | BkNone, BkNone
  | BkTuple, BkTuple | BkComplex, BkComplex => true
  | _, _ => false
  end.

(* the guard of the implementation: the kinds of constants admitted as bounds *)
Definition bound_admitted (k : bkind) : bool :=
  match k with BkInt | BkFloat | BkBool => true | _ => false end.

(* Reference semantics (a DEFINITION, validated against CPython by harness/c04.py): `a < b` returns
   a value, for ALL constants a of kind k1 and b of kind k2 (tuples: (1, 'a') < (1, 2) raises) *)
Definition orderable (k1 k2 : bkind) : bool :=
  match k1, k2 with
  | (BkInt | BkFloat | BkBool), (BkInt | BkFloat | BkBool) => true
  | BkStr, BkStr => true
  | BkBytes, BkBytes => true
  | _, _ => false
  end.

(* the bounds the analysis keeps for one operand, and the totality of its pairwise comparisons *)
Definition collected_bounds (ks : list bkind) : list bkind := filter bound_admitted ks.
Definition comparisons_total (ks : list bkind) : bool :=
  forallb (fun a => forallb (orderable a) ks) ks.

Inductive kind_case :=
  | AdmitCase (k : bkind) (takes_part : bool)          (* observed: two bounds of kind k are (not) reduced *)
  | OrderCase (k1 k2 : bkind) (always_defined : bool). (* observed on CPython: a < b never raises *)
Definition kind_case_ok (c : kind_case) : bool :=
  match c with
  | AdmitCase k b => Bool.eqb (bound_admitted k) b
  | OrderCase k1 k2 b => Bool.eqb (orderable k1 k2) b
  end.
