(* K13 -- a precedence grammar of Python expressions: printing as ast.unparse does (parentheses
   from the precedence of the context), a fuel-driven precedence-climbing parser following CPython's
   grammar on this fragment, and the two ways of instantiating a template: textually (what
   core.format_template does: the text of the template with every {{x}} replaced by the unparsed
   binding) and at tree level.  Works on tokens; tokenisation is done (and trusted) harness-side.
   No proofs in this file. *)
From Coq Require Import List Arith Bool.
Import ListNotations.

Inductive uop := UNeg | UNot.
Inductive bop := BMul | BAdd | BLt | BAnd | BOr.

Inductive expr :=
| Atom (n : nat)                 (* a name / number *)
| Hole (x : nat)                 (* a wildcard {{x}} (templates only) *)
| Un (u : uop) (e : expr)        (* -e, not e *)
| Bin (o : bop) (a b : expr)     (* a * b, a + b, a < b, a and b, a or b (binary BoolOp / Compare) *)
| Call (f : nat) (a : expr).     (* f(a) *)

Inductive token :=
| TAtom (n : nat) | THole (x : nat)
| TMinus | TNot | TStar | TPlus | TLess | TAnd | TOr | TLp | TRp.

(* ast._Precedence restricted to the operators of the fragment:
   0 TEST  1 OR  2 AND  3 NOT  4 CMP  5 ARITH  6 TERM  7 FACTOR  8 ATOM *)
Definition blvl (o : bop) : nat :=
  match o with BOr => 1 | BAnd => 2 | BLt => 4 | BAdd => 5 | BMul => 6 end.
Definition ulvl (u : uop) : nat := match u with UNot => 3 | UNeg => 7 end.

Definition prec (e : expr) : nat :=
  match e with
  | Atom _ | Hole _ | Call _ _ => 8
  | Un u _ => ulvl u
  | Bin o _ _ => blvl o
  end.

(* the precedence ast.unparse sets for the operands:
   BinOp (left-assoc): left = own, right = next;  Compare: both next;
   BoolOp: the i-th value is printed at own + i  (visit_BoolOp's increasing_level_traverse) *)
Definition lprint (o : bop) : nat :=
  match o with BOr => 2 | BAnd => 3 | BLt => 5 | BAdd => 5 | BMul => 6 end.
Definition rprint (o : bop) : nat :=
  match o with BOr => 3 | BAnd => 4 | BLt => 5 | BAdd => 6 | BMul => 7 end.

Definition tok_of_bop (o : bop) : token :=
  match o with BMul => TStar | BAdd => TPlus | BLt => TLess | BAnd => TAnd | BOr => TOr end.
Definition tok_of_uop (u : uop) : token := match u with UNeg => TMinus | UNot => TNot end.

(* ast.unparse: require_parens(precedence of the node) against the precedence of the context *)
Fixpoint up (lvl : nat) (e : expr) : list token :=
  let body :=
    match e with
    | Atom n => [TAtom n]
    | Hole x => [THole x]
    | Un u a => tok_of_uop u :: up (ulvl u) a
    | Bin o a b => up (lprint o) a ++ tok_of_bop o :: up (rprint o) b
    | Call f a => TAtom f :: TLp :: up 0 a ++ [TRp]
    end in
  if prec e <? lvl then TLp :: body ++ [TRp] else body.

Definition unparse (e : expr) : list token := up 0 e.

(* ------------------------------------------------------------------------------------------ *)
(* parser: CPython's grammar on the fragment
     disjunction: conjunction ('or' conjunction)*      conjunction: inversion ('and' inversion)*
     inversion: 'not' inversion | comparison           comparison: sum ('<' sum)*
     sum: sum '+' term | term      term: term '*' factor | factor      factor: '-' factor | primary
     primary: NAME '(' disjunction ')' | NAME | '(' disjunction ')'
   An n-ary `or`/`and` and a chained comparison are single nodes in Python's ast; they have no
   counterpart in [expr], so the parser answers None (= "outside the fragment") for them. *)
Inductive kind := KPass | KPrefix (u : uop) | KBin (o : bop) | KAtom.

Definition kind_of (lvl : nat) : kind :=
  match lvl with
  | 0 => KPass
  | 1 => KBin BOr
  | 2 => KBin BAnd
  | 3 => KPrefix UNot
  | 4 => KBin BLt
  | 5 => KBin BAdd
  | 6 => KBin BMul
  | 7 => KPrefix UNeg
  | _ => KAtom
  end.

Definition nonassoc (o : bop) : bool :=
  match o with BOr | BAnd | BLt => true | BAdd | BMul => false end.

Definition tok_eqb (a b : token) : bool :=
  match a, b with
  | TAtom n, TAtom m => Nat.eqb n m
  | THole n, THole m => Nat.eqb n m
  | TMinus, TMinus | TNot, TNot | TStar, TStar | TPlus, TPlus | TLess, TLess
  | TAnd, TAnd | TOr, TOr | TLp, TLp | TRp, TRp => true
  | _, _ => false
  end.

Inductive mode :=
| L (lvl : nat)                            (* parse one expression of this level *)
| Loop (o : bop) (acc : expr) (k : nat).   (* after [k] operators of this level: more operands? *)

Fixpoint P (fuel : nat) (m : mode) (ts : list token) : option (expr * list token) :=
  match fuel with
  | O => None
  | S f =>
    match m with
    | L lvl =>
        match kind_of lvl with
        | KPass => P f (L (S lvl)) ts
        | KPrefix u =>
            match ts with
            | t :: r =>
                if tok_eqb t (tok_of_uop u)
                then match P f (L lvl) r with
                     | Some (e, r') => Some (Un u e, r')
                     | None => None
                     end
                else P f (L (S lvl)) ts
            | [] => None
            end
        | KBin o =>
            match P f (L (S lvl)) ts with
            | Some (a, r) => P f (Loop o a 0) r
            | None => None
            end
        | KAtom =>
            match ts with
            | TAtom n :: TLp :: r =>
                match P f (L 0) r with
                | Some (a, TRp :: r') => Some (Call n a, r')
                | _ => None
                end
            | TAtom n :: r => Some (Atom n, r)
            | THole x :: r => Some (Hole x, r)
            | TLp :: r =>
                match P f (L 0) r with
                | Some (a, TRp :: r') => Some (a, r')
                | _ => None
                end
            | _ => None
            end
        end
    | Loop o acc k =>
        match ts with
        | t :: r =>
            if tok_eqb t (tok_of_bop o)
            then if nonassoc o && (0 <? k) then None
                 else match P f (L (S (blvl o))) r with
                      | Some (b, r') => P f (Loop o (Bin o acc b) (S k)) r'
                      | None => None
                      end
            else Some (acc, ts)
        | [] => Some (acc, [])
        end
    end
  end.

Definition parse_fuel (ts : list token) : nat := 40 * length ts + 40.

Definition parse (ts : list token) : option expr :=
  match P (parse_fuel ts) (L 0) ts with
  | Some (e, []) => Some e
  | _ => None
  end.

(* ------------------------------------------------------------------------------------------ *)
(* template instantiation *)
Fixpoint inst_tree (rho : nat -> expr) (t : expr) : expr :=
  match t with
  | Atom n => Atom n
  | Hole x => rho x
  | Un u a => Un u (inst_tree rho a)
  | Bin o a b => Bin o (inst_tree rho a) (inst_tree rho b)
  | Call f a => Call f (inst_tree rho a)
  end.

(* core.format_template: the template's text with {{x}} replaced by unparse(binding) *)
Definition inst_tokens (rho : nat -> expr) (ts : list token) : list token :=
  flat_map (fun t => match t with THole x => unparse (rho x) | _ => [t] end) ts.

Definition inst_text (rho : nat -> expr) (t : expr) : list token := inst_tokens rho (unparse t).

(* every binding's top operator binds at least as tightly as the context of its hole *)
Fixpoint safe_at (rho : nat -> expr) (lvl : nat) (t : expr) : bool :=
  match t with
  | Atom _ => true
  | Hole x => lvl <=? prec (rho x)
  | Un u a => safe_at rho (ulvl u) a
  | Bin o a b => safe_at rho (lprint o) a && safe_at rho (rprint o) b
  | Call _ a => safe_at rho 0 a
  end.

Definition safe (rho : nat -> expr) (t : expr) : bool := safe_at rho 0 t.

(* ------------------------------------------------------------------------------------------ *)
(* equality tests for the correspondence *)
Definition uop_eqb (a b : uop) : bool :=
  match a, b with UNeg, UNeg | UNot, UNot => true | _, _ => false end.
Definition bop_eqb (a b : bop) : bool :=
  match a, b with
  | BMul, BMul | BAdd, BAdd | BLt, BLt | BAnd, BAnd | BOr, BOr => true
  | _, _ => false
  end.

Fixpoint expr_eqb (a b : expr) : bool :=
  match a, b with
  | Atom n, Atom m => Nat.eqb n m
  | Hole n, Hole m => Nat.eqb n m
  | Un u x, Un v y => uop_eqb u v && expr_eqb x y
  | Bin o x1 x2, Bin q y1 y2 => bop_eqb o q && expr_eqb x1 y1 && expr_eqb x2 y2
  | Call f x, Call g y => Nat.eqb f g && expr_eqb x y
  | _, _ => false
  end.

Fixpoint toks_eqb (a b : list token) : bool :=
  match a, b with
  | [], [] => true
  | x :: a', y :: b' => tok_eqb x y && toks_eqb a' b'
  | _, _ => false
  end.

Definition oexpr_eqb (a b : option expr) : bool :=
  match a, b with
  | None, None => true
  | Some x, Some y => expr_eqb x y
  | _, _ => false
  end.

Definition rho_of (l : list expr) (x : nat) : expr := nth x l (Atom 0).

(* correspondence cases:
   CUnparse e toks          ast.unparse (tokenised) of the tree e
   CParse toks r            CPython's parser on the token string: r = Some tree | None (SyntaxError or
                            a tree outside the fragment)
   CInst t binds toks       core.format_template on the template text with these bindings (tokenised) *)
Inductive expr_case :=
| CUnparse (e : expr) (toks : list token)
| CParse (toks : list token) (r : option expr)
| CInst (t : expr) (binds : list expr) (toks : list token).

Definition expr_case_ok (c : expr_case) : bool :=
  match c with
  | CUnparse e toks => toks_eqb (unparse e) toks
  | CParse toks r => oexpr_eqb (parse toks) r
  | CInst t binds toks => toks_eqb (inst_text (rho_of binds) t) toks
  end.
