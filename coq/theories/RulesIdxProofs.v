(* C02, tranche "idx": proofs about RulesIdxModel (replace_subscript_looping, simplify_transposes). *)
From Coq Require Import List ZArith Bool Lia.
From Pyrefact Require Import Base RulesIdxModel.
Import ListNotations.
Open Scope Z_scope.

(* ------------------------------------------------------------------ mapM / seq *)
Lemma mapM_ext_in : forall {A B} (f g : A -> res B) l,
  (forall a, List.In a l -> f a = g a) -> mapM f l = mapM g l.
Proof.
  intros A B f g l; induction l as [|a t IH]; intros H; cbn [mapM]; [reflexivity|].
  rewrite (H a (or_introl eq_refl)), IH; [reflexivity|].
  intros b Hb; apply H; right; exact Hb.
Qed.

Lemma mapM_map : forall {A B C} (f : B -> res C) (h : A -> B) l, mapM f (map h l) = mapM (fun a => f (h a)) l.
Proof.
  intros A B C f h l; induction l as [|a t IH]; cbn [mapM map]; [reflexivity|].
  rewrite IH; reflexivity.
Qed.

Lemma mapM_seq_nth : forall {B} (F : option val -> res B) (l : list val),
  mapM (fun k => F (nth_error l k)) (seq 0 (length l)) = mapM (fun a => F (Some a)) l.
Proof.
  intros B F l; induction l as [|a t IH]; [reflexivity|].
  cbn [length seq]. rewrite <- seq_shift. cbn [mapM nth_error].
  rewrite mapM_map. cbn [nth_error]. rewrite IH. reflexivity.
Qed.

Lemma mapM_ok_id : forall {A} (f : A -> res A) l, (forall a, f a = Ok a) -> mapM f l = Ok l.
Proof.
  intros A f l H; induction l as [|a t IH]; [reflexivity|]. cbn [mapM]. rewrite H, IH. reflexivity.
Qed.

Lemma map_seq_nth : forall {A} (l : list A) d, map (fun j => nth j l d) (seq 0 (length l)) = l.
Proof.
  intros A l d; induction l as [|a t IH]; [reflexivity|].
  cbn [length seq]. rewrite <- seq_shift. cbn [map nth]. rewrite map_map. cbn [nth]. rewrite IH. reflexivity.
Qed.

(* ------------------------------------------------------------------ replace_subscript_looping *)
Lemma beval_agree : forall en1 en2 h b,
  (forall w, mentions w b = true -> lookup en1 w = lookup en2 w) -> beval en1 h b = beval en2 h b.
Proof.
  intros en1 en2 h b; induction b as [|z|v|a IHa c IHc|a IHa|a IHa c IHc]; intros H; cbn [beval]; try reflexivity.
  - rewrite (H v); [reflexivity|]. cbn [mentions]. apply Nat.eqb_refl.
  - rewrite IHa, IHc; [reflexivity| |]; intros w Hw; apply H; cbn [mentions]; rewrite Hw; auto using orb_true_r.
  - rewrite IHa; [reflexivity|]. exact H.
  - rewrite IHa, IHc; [reflexivity| |]; intros w Hw; apply H; cbn [mentions]; rewrite Hw; auto using orb_true_r.
Qed.

Lemma beval_set_unmentioned : forall en v a h b, mentions v b = false -> beval (set_var en v a) h b = beval en h b.
Proof.
  intros en v a h b Hm; apply beval_agree; intros w Hw. cbn [set_var lookup].
  destruct (Nat.eqb w v) eqn:E; [|reflexivity].
  apply Nat.eqb_eq in E; subst w. rewrite Hm in Hw; discriminate.
Qed.

Lemma beval_fill : forall en v b,
  beval en (Err NameErr) (fill (BVar v) b)
  = beval en (match lookup en v with Some a => Ok a | None => Err NameErr end) b.
Proof.
  intros en v b; induction b as [|z|w|a IHa c IHc|a IHa|a IHa c IHc]; cbn [fill beval]; try reflexivity.
  - rewrite IHa, IHc; reflexivity.
  - rewrite IHa; reflexivity.
  - rewrite IHa, IHc; reflexivity.
Qed.

Lemma join_gt_l : forall x i, join x i <> x. Proof. intros; unfold join; lia. Qed.
Lemma join_gt_r : forall x i, join x i <> i. Proof. intros; unfold join; lia. Qed.

(* the two comprehensions over a list l of elements, once the bound names are out of the way *)
Lemma sub_loop_eq : forall en x i b (l : list val) vx,
  x <> i -> lookup en x = Some vx -> (forall k, getitem vx k = of_nth (nth_error l k)) ->
  mentions i b = false -> mentions (join x i) b = false ->
  mapM (fun k => beval (set_var en i (VInt (Z.of_nat k))) (hole (set_var en i (VInt (Z.of_nat k))) x k) b)
       (seq 0 (length l))
  = mapM (fun a => beval (set_var en (join x i) a) (Err NameErr) (fill (BVar (join x i)) b)) l.
Proof.
  intros en x i b l vx Hxi Hx Hget Hi Hj.
  rewrite (mapM_ext_in _ (fun k => (fun o => beval en (of_nth o) b) (nth_error l k))).
  2:{ intros k _. cbv zeta. rewrite beval_set_unmentioned by exact Hi.
      unfold hole. cbn [set_var lookup].
      destruct (Nat.eqb x i) eqn:E; [apply Nat.eqb_eq in E; contradiction|].
      rewrite Hx, Hget. reflexivity. }
  rewrite (mapM_seq_nth (fun o => beval en (of_nth o) b)).
  apply mapM_ext_in; intros a _.
  rewrite beval_fill. cbn [set_var lookup]. rewrite Nat.eqb_refl.
  rewrite beval_set_unmentioned by exact Hj. reflexivity.
Qed.

Lemma mentions_bnames v b : mentions v b = true -> List.In v (bnames b).
Proof.
  induction b as [|z|w|a IHa c IHc|a IHa|a IHa c IHc]; cbn [mentions bnames]; intros H; try discriminate.
  - apply Nat.eqb_eq in H; left; symmetry; exact H.
  - apply in_or_app. apply orb_true_iff in H; destruct H as [H|H]; [left; apply IHa|right; apply IHc]; exact H.
  - apply IHa; exact H.
  - apply in_or_app. apply orb_true_iff in H; destruct H as [H|H]; [left; apply IHa|right; apply IHc]; exact H.
Qed.

Theorem sub_root_partial : forall en used x i b,
  x <> i -> seq_like (lookup en x) = true ->
  (memn (join x i) used = false -> mentions (join x i) b = false) ->
  eval en (sub_root false false used x i b) = eval en (ESub x i b).
Proof.
  intros en used x i b Hxi Hs Hc.
  assert (Hfire : mentions i b = false -> mentions (join x i) b = false ->
                  eval en (EFor (join x i) x (fill (BVar (join x i)) b)) = eval en (ESub x i b)).
  { intros Hi Hj. cbn [eval]. cbv zeta.
    destruct (lookup en x) as [vx|] eqn:Hx; [|reflexivity].
    destruct vx as [z|l|l|l|kv]; cbn [items vlen]; try reflexivity; try (cbn [seq_like] in Hs; discriminate).
    - rewrite (sub_loop_eq en x i b l (VList l)); auto.
    - rewrite (sub_loop_eq en x i b l (VTup l)); auto. }
  assert (Hg : forall b', Nat.eqb (holes b') 1 && (false || negb (mentions i b')) && (false || negb (memn (join x i) used)) = true ->
                          mentions i b' = false /\ memn (join x i) used = false).
  { intros b' G. apply andb_true_iff in G; destruct G as [G G2]. apply andb_true_iff in G; destruct G as [_ G1].
    cbn [orb] in G1, G2. apply negb_true_iff in G1, G2. split; assumption. }
  unfold sub_root. destruct b as [|z|v|a c|a|a c].
  - (* the simple case: list(x) *)
    specialize (Hfire eq_refl eq_refl). rewrite <- Hfire. cbn [eval fill].
    destruct (lookup en x) as [vx|] eqn:Hx; [|reflexivity].
    destruct (items vx) as [l|]; [|reflexivity].
    assert (E : mapM (fun a => beval (set_var en (join x i) a) (Err NameErr) (BVar (join x i))) l = Ok l).
    { apply mapM_ok_id. intros a. cbn [beval set_var lookup]. rewrite Nat.eqb_refl. reflexivity. }
    rewrite E. reflexivity.
  - reflexivity.
  - cbn [holes]. reflexivity.
  - match goal with |- eval en (if ?g then _ else _) = _ => destruct g eqn:G end; [|reflexivity].
    destruct (Hg _ G) as [G1 G2]. exact (Hfire G1 (Hc G2)).
  - match goal with |- eval en (if ?g then _ else _) = _ => destruct g eqn:G end; [|reflexivity].
    destruct (Hg _ G) as [G1 G2]. exact (Hfire G1 (Hc G2)).
  - match goal with |- eval en (if ?g then _ else _) = _ => destruct g eqn:G end; [|reflexivity].
    destruct (Hg _ G) as [G1 G2]. exact (Hfire G1 (Hc G2)).
Qed.

Theorem sub_partial : forall en used e, covers used e = true -> sub_ok en e = true -> eval en (sub used e) = eval en e.
Proof.
  intros en used e; induction e as [x|x i b|v x b|e1 IH|e1 IH|e1 IH|e1 IH]; intros Hc H;
    unfold sub, covers in *; cbn [sub_with eval sub_ok names_e] in *; try reflexivity; try (rewrite (IH Hc H); reflexivity).
  apply andb_true_iff in H; destruct H as [H1 H2].
  apply negb_true_iff in H1. apply Nat.eqb_neq in H1.
  apply (sub_root_partial en used x i b H1 H2).
  intros Hm. destruct (mentions (join x i) b) eqn:M; [|reflexivity].
  apply mentions_bnames in M. rewrite forallb_forall in Hc.
  rewrite (Hc (join x i)) in Hm; [discriminate|]. right; right; exact M.
Qed.

(* the element IS x[i] and x holds a list or a tuple: the result is exactly list(x), a new list of the same elements *)
Theorem sub_simple_value : forall en used x i l,
  x <> i -> (lookup en x = Some (VList l) \/ lookup en x = Some (VTup l)) ->
  eval en (ESub x i BHole) = Ok (VList l) /\ eval en (sub used (ESub x i BHole)) = Ok (VList l).
Proof.
  intros en used x i l Hxi H.
  assert (E : eval en (sub used (ESub x i BHole)) = Ok (VList l)).
  { unfold sub; cbn [sub_with sub_root eval]. destruct H as [H|H]; rewrite H; reflexivity. }
  split; [|exact E].
  rewrite <- E. symmetry. unfold sub; cbn [sub_with]. apply sub_root_partial; [exact Hxi| |reflexivity].
  destruct H as [H|H]; rewrite H; reflexivity.
Qed.

(* witnesses *)
Definition en_dict : env := [(0%nat, VDict [(1, VInt 5)])].
Definition en_iter : env := [(0%nat, VIter [VInt 5; VInt 6])].
Definition en_capture : env := [(0%nat, VList [VInt 1; VInt 2]); (join 0%nat 1%nat, VInt 10)].
Definition en_list : env := [(0%nat, VList [VInt 1; VInt 2])].
Definition e_simple : expr := ESub 0%nat 1%nat BHole.
Definition e_capture : expr := ESub 0%nat 1%nat (BAdd BHole (BVar (join 0%nat 1%nat))).
Definition e_index : expr := ESub 0%nat 1%nat (BAdd BHole (BVar 1%nat)).
Definition used_of (en : env) (e : expr) : list name := map fst en ++ names_e e.

(* a dictionary: x[i] looks a KEY up, iteration yields the keys; an iterator: len(x) is a TypeError, list(x) is not *)
Theorem sub_refuted : exists en used e, covers used e = true /\ eval en (sub used e) <> eval en e.
Proof. exists en_dict, (used_of en_dict e_simple), e_simple. split; [reflexivity|]. vm_compute. discriminate. Qed.
Theorem sub_iterator_refuted :
  exists en used e, covers used e = true /\ eval en e = Err TypeErr /\ exists v, eval en (sub used e) = Ok v.
Proof.
  exists en_iter, (used_of en_iter e_simple), e_simple. split; [reflexivity|]. split; [reflexivity|].
  eexists; vm_compute; reflexivity.
Qed.
(* before 63d3448: the new name x_i hides a variable of that name the element mentions; the repaired rule leaves the
   witness alone *)
Theorem sub_before_63d3448_refuted :
  exists en used e, covers used e = true /\ sub used e = e /\ eval en (sub_before_63d3448 used e) <> eval en e.
Proof.
  exists en_capture, (used_of en_capture e_capture), e_capture. split; [reflexivity|]. split; [reflexivity|].
  vm_compute. discriminate.
Qed.
(* before b71cf14: the index is used on its own and no longer bound *)
Theorem sub_before_b71cf14_refuted :
  exists en used e, covers used e = true /\ sub used e = e /\ eval en (sub_before_b71cf14 used e) <> eval en e.
Proof.
  exists en_list, (used_of en_list e_index), e_index. split; [reflexivity|]. split; [reflexivity|].
  vm_compute. discriminate.
Qed.

(* ------------------------------------------------------------------ simplify_transposes *)
Lemma mapO_items_tup : forall T : list (list val), mapO items (map VTup T) = Some T.
Proof. induction T as [|t T IH]; [reflexivity|]. cbn [map mapO items]. rewrite IH. reflexivity. Qed.

Lemma rows_of_zip : forall T, rows_of (VIter (map VTup T)) = Some T.
Proof. intros; unfold rows_of; cbn [items]. apply mapO_items_tup. Qed.

Lemma minlen_const : forall (T : list (list val)) n,
  T <> [] -> (forall t, List.In t T -> length t = n) -> minlen T = n.
Proof.
  intros T n HT H. destruct T as [|r t]; [contradiction|]. cbn [minlen].
  assert (Hr : length r = n) by (apply H; left; reflexivity). rewrite Hr.
  assert (Ht : forall t', List.In t' t -> length t' = n) by (intros; apply H; right; assumption).
  clear H Hr HT. induction t as [|a t IH]; [reflexivity|]. cbn [fold_right].
  rewrite IH by (intros; apply Ht; right; assumption).
  rewrite (Ht a (or_introl eq_refl)). apply Nat.min_id.
Qed.

Lemma nth_col : forall rows j k, nth k (col rows j) dflt = nth j (nth k rows []) dflt.
Proof.
  intros rows j k. unfold col.
  transitivity (nth k (map (fun r : list val => nth j r dflt) rows) ((fun r : list val => nth j r dflt) [])).
  - destruct j; reflexivity.
  - exact (map_nth (fun r : list val => nth j r dflt) rows [] k).
Qed.

(* transposing twice a list of rows that all have the same positive length *)
Lemma zipn_zipn_rect : forall rows, rect rows = true -> zipn (zipn rows) = rows.
Proof.
  intros rows Hr. destruct rows as [|r t]; [reflexivity|].
  cbn [rect] in Hr. apply andb_true_iff in Hr; destruct Hr as [Hc Ht].
  apply negb_true_iff in Hc. apply Nat.eqb_neq in Hc.
  set (c := length r) in *. set (rows := r :: t) in *.
  assert (Hall : forall r', List.In r' rows -> length r' = c).
  { intros r' [E|Hin]; [subst r'; reflexivity|].
    rewrite forallb_forall in Ht. apply Nat.eqb_eq. exact (Ht r' Hin). }
  assert (Hm : minlen rows = c) by (apply minlen_const; [discriminate|exact Hall]).
  assert (HT : zipn rows = map (col rows) (seq 0 c)) by (unfold zipn; rewrite Hm; reflexivity).
  assert (Hm2 : minlen (zipn rows) = length rows).
  { apply minlen_const.
    - rewrite HT. destruct c; [contradiction|]. cbn [seq map]. discriminate.
    - intros t' Hin. rewrite HT in Hin. apply in_map_iff in Hin. destruct Hin as [j [E _]]. subst t'.
      unfold col. apply map_length. }
  unfold zipn at 1. rewrite Hm2.
  transitivity (map (fun k => nth k rows []) (seq 0 (length rows))); [|apply map_seq_nth].
  apply map_ext_in; intros k Hk. apply in_seq in Hk.
  unfold col at 1. rewrite HT. rewrite map_map.
  rewrite (map_ext _ (fun j => nth j (nth k rows []) dflt)) by (intros j; apply nth_col).
  assert (Hl : length (nth k rows []) = c) by (apply Hall; apply nth_In; lia).
  rewrite <- Hl. apply map_seq_nth.
Qed.

(* under 'rows of': [list(r) for r in zip( *zip( *e))] = [list(r) for r in e] when e is rectangular (or an error) *)
Theorem transp_rows_partial : forall en e,
  transp_ok (eval en e) = true -> eval en (ERows (EZip (EZip e))) = eval en (ERows e).
Proof.
  intros en e H. cbn [eval]. destruct (eval en e) as [v|x]; [|reflexivity].
  cbn [transp_ok] in H. destruct (rows_of v) as [rows|]; [|reflexivity].
  rewrite !rows_of_zip. rewrite (zipn_zipn_rect rows H). reflexivity.
Qed.

(* whatever e is, zip( *e) has rectangular rows, so three transpositions are one: the rule is exact on
   zip( *zip( *zip( *e))) -> zip( *e) *)
Lemma rect_zipn : forall rows, rect (zipn rows) = true.
Proof.
  intros rows. unfold zipn. destruct (minlen rows) as [|m] eqn:Hm; [reflexivity|].
  destruct rows as [|r t]; [discriminate|].
  cbn [seq map rect]. apply andb_true_iff; split.
  - unfold col. rewrite map_length. reflexivity.
  - apply forallb_forall. intros t' Hin. apply in_map_iff in Hin. destruct Hin as [j [E _]]. subst t'.
    unfold col. rewrite !map_length. apply Nat.eqb_refl.
Qed.

Theorem transp_triple : forall en e, eval en (EZip (EZip (EZip e))) = eval en (EZip e).
Proof.
  intros en e. cbn [eval]. destruct (eval en e) as [v|x]; [|reflexivity].
  destruct (rows_of v) as [rows|]; [|reflexivity].
  rewrite !rows_of_zip. rewrite (zipn_zipn_rect _ (rect_zipn rows)). reflexivity.
Qed.

Theorem transp_triple_is_rule : forall e, transp (EZip (EZip (EZip (EVar e)))) = EZip (EVar e).
Proof. reflexivity. Qed.

(* witnesses: the TYPE of the result (a list of lists became an iterator of tuples), ragged rows, rows of length 0 *)
Definition m22 : val := VList [VList [VInt 1; VInt 2]; VList [VInt 3; VInt 4]].
Definition ragged : val := VList [VList [VInt 1; VInt 2]; VList [VInt 3]].
Definition empties : val := VList [VList []; VList []].
Theorem transp_refuted : exists en e, transp_ok (eval en (EVar 0%nat)) = true /\ eval en (transp e) <> eval en e.
Proof. exists [(0%nat, m22)], (EListOf (EZip (EZip (EVar 0%nat)))). split; [reflexivity|]. vm_compute. discriminate. Qed.
Theorem transp_len_refuted : exists en e v, eval en e = Err TypeErr /\ eval en (transp e) = Ok v.
Proof. exists [(0%nat, m22)], (ELen (EZip (EZip (EVar 0%nat)))). eexists. split; vm_compute; reflexivity. Qed.
Theorem transp_ragged_refuted : exists en e, eval en (transp (ERows (EZip (EZip e)))) <> eval en (ERows (EZip (EZip e))).
Proof. exists [(0%nat, ragged)], (EVar 0%nat). vm_compute. discriminate. Qed.
Theorem transp_empty_rows_refuted : exists en e, eval en (transp (ERows (EZip (EZip e)))) <> eval en (ERows (EZip (EZip e))).
Proof. exists [(0%nat, empties)], (EVar 0%nat). vm_compute. discriminate. Qed.
