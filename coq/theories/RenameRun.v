(* Runner for the correspondence of RenameModel.v with fixes.py (no theorem depends on this file). *)
From Coq Require Import List NArith ZArith Bool.
Import ListNotations.
Require Import Pyrefact.NamingModel Pyrefact.RenameModel.

Definition pair_eqb (a b : nat * ident) : bool := Nat.eqb (fst a) (fst b) && text_eqb (snd a) (snd b).
Definition subset (a b : list (nat * ident)) : bool := forallb (fun x => existsb (pair_eqb x) b) a.

(* case = (preserve, module abstraction, what the implementation yielded) *)
Definition align_case_ok (c : list ident * modl * list (nat * ident)) : bool :=
  let '(preserve, m, want) := c in
  let got := map (fun e : entry => (fst (fst e), snd e)) (align preserve m) in
  wf_modl m && subset got want && subset want got && Nat.eqb (length got) (length want).

(* uses_of alone: case = (scope id, node id, module, ids the implementation yielded) *)
Definition target_of_id (m : modl) (n : nat) : option target :=
  match find (fun o => Nat.eqb (o_id o) n) (occs m) with
  | Some o => Some (target_of_occ o)
  | None => match find (fun d => Nat.eqb (d_id d) n) (defs m) with
            | Some d => Some (target_of_def d)
            | None => None
            end
  end.
Definition uses_case_ok (c : nat * nat * modl * list nat) : bool :=
  let '(sc, n, m, want) := c in
  match target_of_id m n with
  | None => false
  | Some t =>
      let got := map o_id (uses_of sc t m) in
      forallb (fun x => existsb (Nat.eqb x) want) got && forallb (fun x => existsb (Nat.eqb x) got) want
      && Nat.eqb (length got) (length want)
  end.

Fixpoint list_eqb (a b : list ident) : bool :=
  match a, b with
  | [], [] => true
  | x :: a', y :: b' => text_eqb x y && list_eqb a' b'
  | _, _ => false
  end.
