(* C03 -- Valid Python in, valid Python out; never write a broken file.
   Property theorems only; every proof is `exact <lemma>`; Print Assumptions under each. *)
From Coq Require Import List Arith Bool.
Import ListNotations.
Require Import Pyrefact.SchedModel Pyrefact.SchedProofs Pyrefact.DriverModel Pyrefact.DriverProofs.
Require Import Pyrefact.RemoveNodesModel Pyrefact.RemoveNodesProofs.
Require Import PyrefactGen.Tables.

(* T03.1 every @processing.fix rule, chain, sub and subn maps valid text to valid text, whatever
   the rule yields, whatever _do_rewrite (cand) and the string restoration (restore) compute, for
   every max_iter and every validity predicate. *)
Theorem T03_1_fix_rule_preserves_validity :
  forall (St : Type) (eqb : St -> St -> bool) (valid : St -> bool)
         (cand : St -> St) (restore : St -> St -> St) (max_iter : nat) (s : St),
    valid s = true ->
    valid (fix_model St eqb (guarded_pass St valid cand restore) max_iter s) = true.
Proof. exact fix_rule_preserves_validity. Qed.
Print Assumptions T03_1_fix_rule_preserves_validity.

(* T03.1' ... and whatever the input, the result is the input text itself or a valid text *)
Theorem T03_1_fix_rule_rollback :
  forall (St : Type) (eqb : St -> St -> bool) (valid : St -> bool)
         (cand : St -> St) (restore : St -> St -> St) (max_iter : nat) (s : St),
    let r := fix_model St eqb (guarded_pass St valid cand restore) max_iter s in
    r = s \/ valid r = true.
Proof. exact fix_rule_rollback. Qed.
Print Assumptions T03_1_fix_rule_rollback.

(* T03.1'' the same statement on the scheduler model of C10 (T10.5 lifted through T10.7):
   sched = any function from the source to the scheduled rewrites *)
Theorem T03_1_sched_fix_preserves_validity :
  forall (A : Type) (valid : list A -> bool) (restore : list A -> list A -> list A)
         (src_eqb : list A -> list A -> bool) (sched : list A -> list (range * list A))
         (max_iter : nat) (src : list A),
    valid src = true ->
    valid (fix_wrapper A (fun s => apply_rewrites A valid restore s (sched s)) src_eqb max_iter src) = true.
Proof. exact sched_fix_preserves_validity. Qed.
Print Assumptions T03_1_sched_fix_preserves_validity.

(* T03.1''' _replace_nodes (used by alter_code and the string restoration) has the same guard *)
Theorem T03_1_replace_nodes_preserves_validity :
  forall (St : Type) (valid : St -> bool) (cand : St -> St) (s : St),
    valid s = true -> valid (guarded_once St valid cand s) = true.
Proof. exact guarded_once_valid. Qed.
Print Assumptions T03_1_replace_nodes_preserves_validity.

(* T03.4 processing.remove_nodes (empty-body detection inserting 'pass'): for every text, keep mask
   and set of pass positions that are ascending and >= 2 apart, inside the text and on removed
   characters (structural facts of the first half of remove_nodes, re-checked on every
   correspondence case), the character loop emits every kept character, in order, and exactly one
   "pass\n" at the first-child position of every emptied body.  (Holds since the repair F03-2;
   before it the two characters after a pass position were dropped.) *)
Theorem T03_4_remove_nodes_exact :
  forall (A : Type) (PASS : list A) (src : list A) (keep : list bool) (ps : list nat),
    length keep = length src -> gaps_ok ps = true -> in_range (length src) ps = true ->
    on_removed keep ps = true ->
    remove_nodes_model A PASS src keep ps = rn_ideal A PASS (in_list ps) 0 src keep.
Proof. exact remove_nodes_exact. Qed.
Print Assumptions T03_4_remove_nodes_exact.

(* T03.2 write guard of format_file: the complete decision table ... *)
Theorem T03_2_format_file_decision_table :
  forall (St : Type) (eqb : St -> St -> bool) (valid : St -> bool) (F : St -> St) (c : St),
    let c' := F c in
    format_file_model St eqb valid F c =
      if eqb c' c then (c, false)
      else if valid c' then (c', true)
      else if valid c then (c, false)
      else (c', true).
Proof. exact format_file_decision. Qed.
Print Assumptions T03_2_format_file_decision_table.

(* ... a valid file is never replaced by an invalid one, whatever format_code returns ... *)
Theorem T03_2_never_writes_broken_file :
  forall (St : Type) (eqb : St -> St -> bool) (valid : St -> bool) (F : St -> St) (c : St),
    valid c = true -> valid (fst (format_file_model St eqb valid F c)) = true.
Proof. exact format_file_never_breaks. Qed.
Print Assumptions T03_2_never_writes_broken_file.

(* ... and a file whose formatted text equals its content is not rewritten *)
Theorem T03_2_no_write_when_unchanged :
  forall (St : Type) (eqb : St -> St -> bool), (forall a b, eqb a b = true <-> a = b) ->
  forall (valid : St -> bool) (F : St -> St) (c : St),
    F c = c -> format_file_model St eqb valid F c = (c, false).
Proof. exact format_file_no_write_when_unchanged. Qed.
Print Assumptions T03_2_no_write_when_unchanged.

(* T03.3 pipeline invariant: every reflexive-transitive relation respected by every stage is
   respected by format_code, in every option combination, for every number of multi-run stages
   and every pass budget. *)
Theorem T03_3_pipeline_invariant :
  forall (St : Type) (eqb : St -> St -> bool) (Pres : Type)
         (skip_file is_blank valid : St -> bool) (indent_level : St -> nat)
         (surface : Pres -> St -> Pres) (app : stage -> Pres -> St -> St) (minws : St -> St -> St)
         (n_multi max_file_passes : nat) (R : St -> St -> Prop),
    (forall s, R s s) -> (forall a b c, R a b -> R b c -> R a c) ->
    (forall st p s, R s (app st p s)) -> (forall o s, R s (minws o s)) ->
    forall safe keep p0 s0,
      R s0 (format_code_model St eqb Pres skip_file is_blank valid indent_level surface app minws
                              n_multi max_file_passes safe keep p0 s0).
Proof. exact pipeline_invariant. Qed.
Print Assumptions T03_3_pipeline_invariant.

(* T03.3' the same for the public entry point main.format_code, which wraps _format_code: a source
   without a final line break is formatted with "\n" appended and the line break removed again *)
Theorem T03_3_pipeline_invariant_entry_point :
  forall (St : Type) (eqb : St -> St -> bool) (Pres : Type)
         (skip_file is_blank valid : St -> bool) (indent_level : St -> nat)
         (surface : Pres -> St -> Pres) (app : stage -> Pres -> St -> St) (minws : St -> St -> St)
         (is_empty terminated : St -> bool) (add_nl : St -> St) (ends_lf : St -> bool) (drop_last : St -> St)
         (n_multi max_file_passes : nat) (R : St -> St -> Prop),
    (forall s, R s s) -> (forall a b c, R a b -> R b c -> R a c) ->
    (forall st p s, R s (app st p s)) -> (forall o s, R s (minws o s)) ->
    (forall s, R s (add_nl s)) -> (forall s, R s (drop_last s)) ->
    forall safe keep p0 s0,
      R s0 (format_code_outer St eqb Pres skip_file is_blank valid indent_level surface app minws
                              is_empty terminated add_nl ends_lf drop_last
                              n_multi max_file_passes safe keep p0 s0).
Proof. exact pipeline_invariant_outer. Qed.
Print Assumptions T03_3_pipeline_invariant_entry_point.

(* T03.3 instantiated with "valid in => valid out": the full-strength statement for format_code is
   REFUTED in the model as soon as a whitespace pre-pass may break validity (no gate follows it on
   the early-return path) ... *)
Theorem T03_3_format_code_valid_refuted :
  exists (app : stage -> unit -> bool -> bool),
    let valid := fun s : bool => s in
    (forall st p s, post_stage st = true -> valid s = true -> valid (app st p s) = true)
    /\ valid true = true
    /\ valid (format_code_model bool Bool.eqb unit (fun _ => false) (fun _ => false) valid
                (fun _ => 0) (fun p _ => p) app (fun _ s => s) 3 25 false false tt true) = false.
Proof. exact format_code_valid_refuted. Qed.
Print Assumptions T03_3_format_code_valid_refuted.

(* ... and holds under the boolean guard "the three pre-passes keep the input valid", given that
   the stages after the gate preserve validity (T03.1 for the @fix stages; explicit hypotheses for
   the direct-edit stages, see design/C03.md) *)
Theorem T03_3_format_code_valid_partial :
  forall (St : Type) (eqb : St -> St -> bool) (Pres : Type)
         (skip_file is_blank valid : St -> bool) (indent_level : St -> nat)
         (surface : Pres -> St -> Pres) (app : stage -> Pres -> St -> St) (minws : St -> St -> St)
         (n_multi max_file_passes : nat),
    (forall st p s, post_stage st = true -> valid s = true -> valid (app st p s) = true) ->
    (forall o s, valid s = true -> valid (minws o s) = true) ->
    forall safe keep p0 s0,
      valid s0 = true -> valid (pre_text St Pres app p0 s0) = true ->
      valid (format_code_model St eqb Pres skip_file is_blank valid indent_level surface app minws
                               n_multi max_file_passes safe keep p0 s0) = true.
Proof. exact format_code_valid_partial. Qed.
Print Assumptions T03_3_format_code_valid_partial.

(* non-vacuity of the partial theorem: an instance with 3 multi stages where the hypotheses hold,
   stages really change the text, and the guard is met *)
Example T03_3_partial_example :
  let app := fun (st : stage) (_ : unit) (s : nat) =>
               match st with StMulti 1 => if s =? 0 then 2 else s | StSortImports => s + 2 | _ => s end in
  format_code_run nat Nat.eqb unit (fun _ => false) (fun _ => false) (fun s => negb (s =? 1))
                  (fun _ => 0) (fun p _ => p) app (fun _ s => s) 3 MAX_FILE_PASSES false false tt 0
  = (4, rev [StExpandtabs; StRmspace; StBlankLines; StAddImports; StSingleRun false;
             StMulti 0; StMulti 1; StMulti 2; StMulti 0; StMulti 1; StMulti 2;
             StOverusedConstant true; StSimplifyAssign; StAlignNames; StAddImports;
             StRemoveUnusedImports; StSortImports; StLineLengths; StRmspace; StMinWs]).
Proof. vm_compute. reflexivity. Qed.
