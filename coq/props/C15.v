(* C15 -- Compile-time constant evaluation agrees with Python.
   Property theorems only; every proof is `exact <lemma>`; Print Assumptions under each.
   [lv]   = LitValModel.lv, the model of core.literal_value (after the fix commits F15-1..3);
   [eval] = PyValModel.eval, the reference semantics (a definition, validated against CPython). *)
From Coq Require Import List ZArith Bool String.
Import ListNotations.
Require Import Pyrefact.Ops PyrefactGen.Tables PyrefactGen.TablesC15.
Require Import Pyrefact.PyValModel Pyrefact.LitValModel Pyrefact.LitValProofs.
Open Scope Z_scope.

(* T15.0 the regenerated constants.COMPARISON_OPERATORS maps every operator token to the Python
   function the reference semantics gives it (re-checked against the live table on every run). *)
Theorem T15_0_operator_table_binop : forall o, table_fn (OB o) = Some (binop_fn o).
Proof. exact table_binop. Qed.
Print Assumptions T15_0_operator_table_binop.

Theorem T15_0_operator_table_cmpop : forall o, table_fn (OC o) = Some (cmpop_fn o).
Proof. exact table_cmpop. Qed.
Print Assumptions T15_0_operator_table_cmpop.

(* T15.1 soundness, full strength: for EVERY expression of the fragment (any depth, any operand
   lists, names, calls with and without keywords, method calls) and every binding of the variables
   in scope: when literal_value returns a value, Python's evaluation returns exactly that value
   (so it neither raises nor reaches an unmodelled/effectful call). *)
Theorem T15_1_known_is_python_value : forall env e v, lv e = LKnown v -> eval env e = Val v.
Proof. exact lv_sound. Qed.
Print Assumptions T15_1_known_is_python_value.

(* T15.1b an expression whose evaluation raises is never given a value. *)
Theorem T15_1b_raising_is_not_known : forall env e k, eval env e = Exc k -> forall v, lv e <> LKnown v.
Proof. exact lv_raise_not_known. Qed.
Print Assumptions T15_1b_raising_is_not_known.

(* T15.1c a known value does not depend on the variables in scope. *)
Theorem T15_1c_known_is_closed : forall e v env1 env2, lv e = LKnown v -> eval env1 e = eval env2 e.
Proof. exact lv_known_closed. Qed.
Print Assumptions T15_1c_known_is_closed.

(* T15.2 exactness on the operator fragment (literals under not / and / or / chained comparisons /
   binary operators, any depth): literal_value returns exactly Python's VALUE (the deciding operand
   of and/or, the bool of a comparison chain), says "unknown" exactly when evaluation raises, and no
   exception escapes. *)
Theorem T15_2_operator_fragment_exact : forall env e, frag e = true -> lv e = wrap (eval env e).
Proof. exact frag_exact. Qed.
Print Assumptions T15_2_operator_fragment_exact.

(* non-trivial inputs meeting the hypotheses *)
Example ex_known : lv (EBool true [EConst (VInt 1); EBin BAdd (EConst (VStr [97])) (EConst (VStr [98]))])
                   = LKnown (VStr [97; 98]).
Proof. vm_compute. reflexivity. Qed.
Example ex_frag : frag (ECmp (EConst (VInt 0)) [(CLt, EBin BFloorDiv (EConst (VInt 1)) (EConst (VInt 0))); (CLt, EConst (VInt 2))]) = true.
Proof. reflexivity. Qed.
Example ex_raise_unknown : lv (ECmp (EConst (VInt 0)) [(CLt, EBin BFloorDiv (EConst (VInt 1)) (EConst (VInt 0))); (CLt, EConst (VInt 2))]) = LUnknown.
Proof. vm_compute. reflexivity. Qed.
(* the witnesses of the repaired defects *)
Example ex_F15_1 : lv (EBin BDiv (EConst (VInt 1)) (EConst (VInt 0))) = LUnknown.
Proof. vm_compute. reflexivity. Qed.
Example ex_F15_2 : lv (ECall "sorted" [EList [EConst (VInt 2); EConst (VInt 1); EConst (VInt 3)]] [("reverse"%string, EConst (VBool true))]) = LUnknown.
Proof. vm_compute. reflexivity. Qed.
Example ex_F15_3 : lv (ECall "print" [EConst (VStr [120])] []) = LUnknown.
Proof. vm_compute. reflexivity. Qed.
