(* C15 -- Compile-time constant evaluation agrees with Python.
   Property theorems only; every proof is `exact <lemma>`; Print Assumptions under each. *)
From Coq Require Import List ZArith Bool String.
Import ListNotations.
Require Import Pyrefact.Ops PyrefactGen.Tables PyrefactGen.TablesC15.
Require Import Pyrefact.PyValModel Pyrefact.LitValModel Pyrefact.LitValProofs.
Open Scope Z_scope.

Theorem T15_0_operator_table_binop : forall o, table_fn (OB o) = Some (binop_fn o).
Proof. exact table_binop. Qed.
Print Assumptions T15_0_operator_table_binop.

Theorem T15_0_operator_table_cmpop : forall o, table_fn (OC o) = Some (cmpop_fn o).
Proof. exact table_cmpop. Qed.
Print Assumptions T15_0_operator_table_cmpop.
