(* C15 -- Compile-time constant evaluation agrees with Python.
   Property theorems only; every proof is `exact <lemma>`; Print Assumptions under each.
   [lv]   = LitValModel.lv, the model of core.literal_value (after the fix commits F15-1..3);
   [eval] = PyValModel.eval, the reference semantics (a definition, validated against CPython). *)
From Coq Require Import List ZArith Bool String.
Import ListNotations.
Require Import Pyrefact.Ops PyrefactGen.Tables PyrefactGen.TablesC15.
Require Import Pyrefact.PyValModel Pyrefact.LitValModel Pyrefact.LitValProofs.
Require Import Pyrefact.LitValRbModel Pyrefact.LitValRbProofs.
Require Import Pyrefact.BoolRwModel Pyrefact.ConstFoldModel Pyrefact.ConstFoldProofs.
Open Scope Z_scope.

(* T15.0 the regenerated constants.COMPARISON_OPERATORS maps every operator token to the Python
   function the reference semantics gives it (re-checked against the live table on every run). *)
Theorem T15_0_operator_table_binop : forall o, table_fn (OB o) = Some (binop_fn o).
Proof. exact table_binop. Qed.
Print Assumptions T15_0_operator_table_binop.

Theorem T15_0_operator_table_cmpop : forall o, table_fn (OC o) = Some (cmpop_fn o).
Proof. exact table_cmpop. Qed.
Print Assumptions T15_0_operator_table_cmpop.

(* T15.0c the regenerated constants.PURE_BUILTIN_FUNCTIONS (the only functions literal_value may call
   at refactoring time) stays inside the trusted list of pure builtins. *)
Theorem T15_0c_only_pure_builtins_called :
  forall f, In f PURE_BUILTIN_FUNCTIONS -> In f KNOWN_PURE /\ In f BUILTIN_FUNCTIONS.
Proof. exact pure_table_ok. Qed.
Print Assumptions T15_0c_only_pure_builtins_called.

(* T15.1 soundness, full strength: for EVERY expression of the fragment (any depth, any operand
   lists, names, calls with and without keywords, method calls) and every binding of the variables
   in scope: when literal_value returns a value, Python's evaluation returns exactly that value
   (so it neither raises nor reaches an unmodelled/effectful call). *)
Theorem T15_1_known_is_python_value : forall env e v, lv e = LKnown v -> eval env e = Val v.
Proof. exact lv_sound. Qed.
Print Assumptions T15_1_known_is_python_value.

(* T15.1b an expression whose evaluation raises is never given a value. *)
Theorem T15_1b_raising_is_not_known : forall env e k, eval env e = Exc k -> forall v, lv e <> LKnown v.
Proof. exact lv_raise_not_known. Qed.
Print Assumptions T15_1b_raising_is_not_known.

(* T15.1c a known value does not depend on the variables in scope. *)
Theorem T15_1c_known_is_closed : forall e v env1 env2, lv e = LKnown v -> eval env1 e = eval env2 e.
Proof. exact lv_known_closed. Qed.
Print Assumptions T15_1c_known_is_closed.

(* T15.2 exactness on the operator fragment (literals under not / and / or / chained comparisons /
   binary operators / calls of whitelisted builtins without keywords, any depth): literal_value returns
   exactly Python's VALUE (the deciding operand of and/or, the bool of a comparison chain), says
   "unknown" exactly when evaluation raises, and no exception escapes. *)
Theorem T15_2_operator_fragment_exact : forall env e, frag e = true -> lv e = wrap (eval env e).
Proof. exact frag_exact. Qed.
Print Assumptions T15_2_operator_fragment_exact.

(* T15.3 never a crash: for every expression, no exception escapes from literal_value (every class the
   evaluated operators, builtins and methods raise derives from Exception, which the wrapper turns
   into "unknown"). *)
Theorem T15_3_never_a_crash : forall e k, lv e <> LCrash k.
Proof. exact lv_no_crash. Qed.
Print Assumptions T15_3_never_a_crash.

(* T15.4 the consumers.  One unit of fuel = one executed statement; [exec] gives the opaque events
   executed and how execution ends (normally / raising k), [rest] is any continuation. *)
(* remove_dead_ifs on `if` / `while`: the program with the node replaced does exactly what the
   original does (same events, same outcome), one step shorter *)
Theorem T15_4a_remove_dead_ifs_stmt : forall env s ss, dead_if s = Some ss ->
  forall fuel rest, exec env (S fuel) (s :: rest) = exec env fuel (ss ++ rest).
Proof. exact dead_if_sound. Qed.
Print Assumptions T15_4a_remove_dead_ifs_stmt.

(* ... also with the `elif` guard of the rule (an `if` written as elif is never replaced) *)
Theorem T15_4a_remove_dead_ifs_elif_guard : forall env is_elif s ss, dead_if_src is_elif s = Some ss ->
  forall fuel rest, exec env (S fuel) (s :: rest) = exec env fuel (ss ++ rest).
Proof. exact dead_if_src_sound. Qed.
Print Assumptions T15_4a_remove_dead_ifs_elif_guard.

(* delete_unreachable_code, If / While branch *)
Theorem T15_4b_delete_unreachable_if : forall env s ss, unreachable_if s = Some ss ->
  forall fuel rest, exec env (S fuel) (s :: rest) = exec env (S fuel) (ss ++ rest) \/
                    exec env (S fuel) (s :: rest) = exec env fuel (ss ++ rest).
Proof. exact unreachable_if_sound. Qed.
Print Assumptions T15_4b_delete_unreachable_if.

(* remove_dead_ifs on a conditional expression *)
Theorem T15_4c_fold_ifexp : forall env e e', fold_ifexp e = Some e' -> eval env e = eval env e'.
Proof. exact fold_ifexp_sound. Qed.
Print Assumptions T15_4c_fold_ifexp.

(* simplify_boolean_expressions: `not <constant>` and single-operator comparison folding *)
Theorem T15_4d_fold_comparison : forall env e e', fold_bool_expr e = Some e' -> eval env e = eval env e'.
Proof. exact fold_bool_expr_sound. Qed.
Print Assumptions T15_4d_fold_comparison.

(* T15.5 remove_redundant_boolop_values with the mask computed by literal_value: for operand lists
   of every length whose operands evaluate to Python values ws, the kept operands yield the same
   VALUE (not only the same truth), and every operand the tool could not evaluate is evaluated
   exactly when it was before. *)
Theorem T15_5_redundant_operands_values :
  forall env isand es ws ids,
    Forall2 (fun e w => eval env e = Val w) es ws ->
    List.length ids = List.length ws -> NoDup ids -> es <> [] ->
    let mask := mask_of es in
    let ops := combine ids ws in
    let kept := keep (redundant isand mask) ops in
    kept <> [] /\
    fst (bool_val val truthy isand kept) = fst (bool_val val truthy isand ops) /\
    forall i, nth_error mask i = Some Unknown -> forall id, nth_error ids i = Some id ->
      (In id (snd (bool_val val truthy isand kept)) <-> In id (snd (bool_val val truthy isand ops))).
Proof. exact redundant_values_sound. Qed.
Print Assumptions T15_5_redundant_operands_values.

(* T15.6 (hunt C15-5 / C06-1) a special method of a constant is never evaluated: its value may depend on
   the hash seed or the platform ('abc'.__hash__(), (1).__sizeof__()). *)
Theorem T15_6_special_methods_unknown :
  forall r m args kws, is_dunder m = true -> lv (EMeth r m args kws) = LUnknown.
Proof. exact dunder_unknown. Qed.
Print Assumptions T15_6_special_methods_unknown.

(* T15.7 (round 5, seed C15-d) literal_value is a function of (expression, names the file rebinds) ONLY.
   [lv_rb rb] = LitValRbModel.lv_rb, the evaluator on a file that binds the names [rb] (guards of 415ff77 and
   82d6460); [eval_rb rb] = the reference semantics of a program that rebinds [rb] (a call through a rebound name
   may do anything: no claim).  The harness compares every result of the real code -- first call of a process or
   after other files -- with [lv_rb rb e] (harness/c15_history.py). *)
(* a file that rebinds nothing: the model all theorems above are about *)
Theorem T15_7a_nothing_rebound_is_lv : forall e, lv_rb [] e = lv e.
Proof. exact lv_rb_nil. Qed.
Print Assumptions T15_7a_nothing_rebound_is_lv.

Theorem T15_7a_nothing_rebound_is_eval : forall env e, eval_rb [] env e = eval env e.
Proof. exact eval_rb_nil. Qed.
Print Assumptions T15_7a_nothing_rebound_is_eval.

(* soundness under rebinding, full strength: a value returned on a file that rebinds [rb] is Python's value in
   every program that rebinds [rb], whatever it binds the names to -- no call through a rebound name is reached *)
Theorem T15_7b_known_is_python_value_under_rebinding :
  forall rb env e v, lv_rb rb e = LKnown v -> eval_rb rb env e = Val v.
Proof. exact lv_rb_sound. Qed.
Print Assumptions T15_7b_known_is_python_value_under_rebinding.

(* a direct call of a name the file binds never has a known value *)
Theorem T15_7c_rebound_call_unknown : forall rb f args kws v,
  mem_str f rb = true -> lv_rb rb (ECall f args kws) <> LKnown v.
Proof. exact rebound_call_unknown. Qed.
Print Assumptions T15_7c_rebound_call_unknown.

(* the rebound set is a real argument: len('a') is 1 where len is left alone and unknown where the file defines
   len, so a result remembered by expression alone is wrong in one of the two files *)
Theorem T15_7d_result_depends_on_rebound_set :
  lv_rb [] len_a = LKnown (VInt 1) /\ lv_rb ["len"%string] len_a = LUnknown /\ lv len_a = LKnown (VInt 1).
Proof. exact lv_rb_depends_on_rebound_set. Qed.
Print Assumptions T15_7d_result_depends_on_rebound_set.

(* non-trivial inputs meeting the hypotheses *)
Example ex_rb_known : lv_rb ["len"%string] (EBool true [EConst (VInt 0); ECall "len" [EConst (VStr [97])] []]) = LKnown (VInt 0).
Proof. vm_compute. reflexivity. Qed.
Example ex_dead_if : dead_if (SIf (ECmp (EConst (VInt 1)) [(CLt, EConst (VInt 2))]) [SAtom 1] [SAtom 2]) = Some [SAtom 1].
Proof. vm_compute. reflexivity. Qed.
Example ex_while_else_kept : dead_if (SWhile (EConst (VInt 0)) [SAtom 1] [SAtom 2]) = None.
Proof. vm_compute. reflexivity. Qed.
Example ex_mask : mask_of [EConst (VInt 0); EName "x"; EBin BAdd (EConst (VInt 1)) (EConst (VInt 1))] = [Falsy; Unknown; Truthy].
Proof. vm_compute. reflexivity. Qed.
Example ex_known : lv (EBool true [EConst (VInt 1); EBin BAdd (EConst (VStr [97])) (EConst (VStr [98]))])
                   = LKnown (VStr [97; 98]).
Proof. vm_compute. reflexivity. Qed.
Example ex_frag : frag (ECmp (EConst (VInt 0)) [(CLt, EBin BFloorDiv (EConst (VInt 1)) (EConst (VInt 0))); (CLt, EConst (VInt 2))]) = true.
Proof. reflexivity. Qed.
Example ex_frag_call : frag (ECall "len" [EBin BAdd (EList [EConst (VInt 1)]) (EList [])] []) = true.
Proof. vm_compute. reflexivity. Qed.
Example ex_raise_unknown : lv (ECmp (EConst (VInt 0)) [(CLt, EBin BFloorDiv (EConst (VInt 1)) (EConst (VInt 0))); (CLt, EConst (VInt 2))]) = LUnknown.
Proof. vm_compute. reflexivity. Qed.
(* the witnesses of the repaired defects *)
Example ex_F15_1 : lv (EBin BDiv (EConst (VInt 1)) (EConst (VInt 0))) = LUnknown.
Proof. vm_compute. reflexivity. Qed.
Example ex_F15_2 : lv (ECall "sorted" [EList [EConst (VInt 2); EConst (VInt 1); EConst (VInt 3)]] [("reverse"%string, EConst (VBool true))]) = LUnknown.
Proof. vm_compute. reflexivity. Qed.
Example ex_F15_3 : lv (ECall "print" [EConst (VStr [120])] []) = LUnknown.
Proof. vm_compute. reflexivity. Qed.
