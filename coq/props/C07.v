(* C07 -- Safe mode never removes or renames a module's public surface.
   Property theorems only; every proof is `exact <lemma>`; Print Assumptions under each. *)
From Coq Require Import List Bool String.
Import ListNotations.
Require Import Pyrefact.SurfaceModel Pyrefact.SurfaceProofs.
Open Scope string_scope.
Open Scope list_scope.

(* T07.0 the repaired parsing._unpack_ast_target returns exactly the names a target binds
   (reference [bound], validated against CPython's symtable), for every target of every depth. *)
Theorem T07_0_unpack_complete : forall t, unpack t = bound t.
Proof. exact unpack_bound. Qed.
Print Assumptions T07_0_unpack_complete.

(* T07.1 every name of the property's surface is in the preserve set safe mode computes. *)
Theorem T07_1_surface_top_preserved :
  forall P m n, In n (top_surface m) -> In n (safe_preserve P m).
Proof. exact surface_top_in_safe_preserve. Qed.
Print Assumptions T07_1_surface_top_preserved.

Theorem T07_1_surface_member_preserved :
  forall P m c f, In (c, f) (member_surface m) -> In c (safe_preserve P m) /\ In f (safe_preserve P m).
Proof. exact surface_member_in_safe_preserve. Qed.
Print Assumptions T07_1_surface_member_preserved.

(* R07.1 on the pinned tree (before fixes F07-1, F07-2) the inclusion failed: starred/list targets were
   not collected and members were stored as `Class.method` only, which the naming rule does not test. *)
Theorem R07_1_pinned_surface_not_preserved :
  (exists m n, In n (top_surface m) /\ ~ In n (safe_preserve_pinned [] m)) /\
  (exists m c f, In (c, f) (member_surface m) /\
                 g_align (safe_preserve_pinned [] m) (SMDef c false f false) = false).
Proof. exact surface_not_in_pinned_preserve. Qed.
Print Assumptions R07_1_pinned_surface_not_preserved.

(* T07.2 for each of the seven deleting/renaming rules, every preserve set and EVERY oracle (usage
   analysis, naming convention, replacement): the definitions the rule's guards protect survive. *)
Theorem T07_2_protected_top_survives :
  forall r P o m n, In n (protected_top (rule_guard r) P m) ->
                    In n (top_surface (apply_rule (rule_guard r) P o m)).
Proof. intros r. exact (protected_top_survives (rule_guard r)). Qed.
Print Assumptions T07_2_protected_top_survives.

Theorem T07_2_protected_members_survive :
  forall r P o m p, In p (protected_members (rule_guard r) P m) ->
                    In p (member_surface (apply_rule (rule_guard r) P o m)).
Proof. intros r. exact (protected_members_survive (rule_guard r)). Qed.
Print Assumptions T07_2_protected_members_survive.

(* ... and a definition whose name (for a member: class name and member name) is in `preserve` and is
   not `_` is protected by the guard of every rule. *)
Theorem T07_2_rule_keeps_preserved : forall r P o m, keeps P m (apply_rule (rule_guard r) P o m).
Proof. exact rule_keeps. Qed.
Print Assumptions T07_2_rule_keeps_preserved.

(* T07.3 (local composition) every sequence of rule applications, each with its own oracle. *)
Theorem T07_3_pipeline_keeps_preserved : forall P rs m, keeps P m (run_rules P rs m).
Proof. exact run_rules_keeps. Qed.
Print Assumptions T07_3_pipeline_keeps_preserved.

(* T07 (partial: names other than `_`) safe mode keeps the whole public surface through every
   sequence of the modelled rules. *)
Theorem T07_safe_mode_partial :
  forall P m rs,
    let P' := safe_preserve P m in
    (forall n, In n (top_surface m) -> n <> "_" -> In n (top_surface (run_rules P' rs m))) /\
    (forall c f, In (c, f) (member_surface m) -> c <> "_" -> f <> "_" ->
                 In (c, f) (member_surface (run_rules P' rs m))).
Proof. exact safe_mode_keeps_surface. Qed.
Print Assumptions T07_safe_mode_partial.

(* the guard of the partial theorem is satisfiable on a non-trivial module *)
Example T07_partial_nontrivial :
  let m := [Assign [TTuple [TName "c"; TStarred (TName "dD")]];
            Class "MyClass" false [MAssign [TName "myAttr"]; MDef "myMethod" false; MDef "stat" true];
            Def "unusedFunc" false] in
  let m' := run_rules (safe_preserve [] m)
              [(RUndefine, o_all); (RPointless, o_all); (RDeleteUnused, o_all); (RSelfCls, o_all);
               (RMoveStatic, o_all); (RDuplicate, o_all); (RAlign, o_all); (RUnreachable, o_all)] m in
  top_surface m' = top_surface m /\ member_surface m' = member_surface m.
Proof. vm_compute. auto. Qed.

(* R07.5 (hunt C07-0) the pinned delete_unreachable_code (no preserve parameter) left class members that
   follow a blocking statement unguarded; repaired: RUnreachable is now one of the rules of T07.2/T07.3. *)
Theorem R07_5_pinned_unreachable_unguarded :
  exists m c f, In (c, f) (member_surface m) /\ In f (safe_preserve [] m) /\
                g_unreachable_pinned (safe_preserve [] m) (SMVar c false f) = false /\
                ~ In (c, f) (member_surface (apply_rule g_unreachable_pinned (safe_preserve [] m) o_delete_second_member m)).
Proof. exact unreachable_pinned_unguarded. Qed.
Print Assumptions R07_5_pinned_unreachable_unguarded.

(* R07 the full property is refuted by the `_` convention (finding F07-3). *)
Theorem R07_underscore_refuted :
  exists m o r,
    In "_" (top_surface m) /\ In "_" (safe_preserve [] m) /\
    ~ In "_" (top_surface (apply_rule (rule_guard r) (safe_preserve [] m) o m)).
Proof. exact safe_mode_underscore_refuted. Qed.
Print Assumptions R07_underscore_refuted.

(* ---- round 5 (seed C07-d): the surface is the FINAL ENVIRONMENT of the module body, not the set of stored
   names.  [run] (SurfaceEnvModel.v) is the reference semantics of binding events (bind / annotate-only /
   require / unbind), validated against exec() on the re-binding family by harness/c07_env.py. *)
Require Import Pyrefact.SurfaceEnvModel Pyrefact.SurfaceEnvProofs.

(* T07.6 a transformation that leaves the sub-sequence of events about preserved names untouched keeps, for
   every preserved name, whether it is bound at the end of the module body. *)
Theorem T07_6_final_env_partial : forall P evs evs' e e',
  proj P evs = proj P evs' -> run_from [] evs = Some e -> run_from [] evs' = Some e' ->
  forall n, mem n P = true -> mem n e = mem n e'.
Proof. exact proj_eq_final_env. Qed.
Print Assumptions T07_6_final_env_partial.

(* T07.7 a rule that only removes statements that mention no preserved name keeps the domain of the final
   environment on the preserved names; the preserved part of its output runs without NameError. *)
Theorem T07_7_removal_keeps_final_env : forall P keep b e,
  only_unpreserved_removed P keep b = true -> run b = Some e ->
  run_from [] (proj P (List.concat (select keep b))) = Some (restrict P e) /\
  (forall e', run (select keep b) = Some e' -> forall n, mem n P = true -> mem n e = mem n e').
Proof. exact removal_keeps_final_env. Qed.
Print Assumptions T07_7_removal_keeps_final_env.

(* T07.8 ... and the output still imports when every name an augmented assignment / del demands is preserved. *)
Theorem T07_8_removal_keeps_import : forall P keep b e,
  only_unpreserved_removed P keep b = true -> demands_in P (List.concat b) = true -> run b = Some e ->
  exists e', run (select keep b) = Some e' /\ forall n, mem n P = true -> mem n e = mem n e'.
Proof. exact removal_keeps_import. Qed.
Print Assumptions T07_8_removal_keeps_import.

(* R07.6 "the set of stored names is kept => the surface is kept" is refuted: annotation-only re-declaration
   (X undefined afterwards) and del + re-binding (the output does not import). *)
Theorem R07_6_name_set_reading_refuted :
  (exists b keep e e', incl_b (stored_names b) (stored_names (select keep b)) = true /\
      run b = Some e /\ run (select keep b) = Some e' /\ mem X e = true /\ mem X e' = false) /\
  (exists b keep e, incl_b (stored_names b) (stored_names (select keep b)) = true /\
      run b = Some e /\ mem X e = true /\ run (select keep b) = None).
Proof. exact name_set_reading_refuted. Qed.
Print Assumptions R07_6_name_set_reading_refuted.

(* T07.9 the set reading of T07.1-T07.3 is exact where nothing unbinds: every name of [top_surface] is bound
   at the end of a module of the [item] language (no del) that imports. *)
Theorem T07_9_surface_in_final_env : forall m e, run (module_events m) = Some e ->
  forall n, In n (top_surface m) -> In n e.
Proof. exact surface_in_final_env. Qed.
Print Assumptions T07_9_surface_in_final_env.
