(* C02 -- Every individual rewrite rule preserves program behaviour.
   Property theorems only; every proof is `exact <lemma>`; Print Assumptions under each.
   One module per tranche (the tranches define their own MiniPy fragments with overlapping names):
   Flow = control-flow rules (MiniPyModel / RulesFlowModel);
   Expr = expression / collection rules (RulesExprModel). *)
From Coq Require Import List Bool Arith.
From Coq Require ZArith Lia Permutation.
Require Pyrefact.RulesExprModel Pyrefact.RulesExprProofs.
Require Pyrefact.MiniPyModel Pyrefact.MiniPyProofs Pyrefact.RulesFlowModel Pyrefact.RulesFlowProofs
        Pyrefact.RulesFlowProofs2.

Module Flow.
Import ListNotations.
Import Pyrefact.MiniPyModel Pyrefact.MiniPyProofs Pyrefact.RulesFlowModel Pyrefact.RulesFlowProofs
       Pyrefact.RulesFlowProofs2.

(* T02.0  core.is_blocking (as modelled on the fragment) is sound for the executable semantics: a block
   with a blocking statement never completes normally, whatever the oracle answers. *)
Theorem T02_0_blocking_sound :
  forall b, anyb b = true ->
  forall o st out st', runs o st b (out, st') -> out <> Normal.
Proof. exact anyb_blocks. Qed.
Print Assumptions T02_0_blocking_sound.

(* T02.1  fixes.remove_dead_ifs (If/While part, after repairs 7d823f2, f407b92): for every program, every
   oracle and every initial state the result runs to the same outcome, trace and environment. *)
Theorem T02_1_remove_dead_ifs_preserves :
  forall p, equiv p (remove_dead_ifs_model p).
Proof. exact remove_dead_ifs_preserves. Qed.
Print Assumptions T02_1_remove_dead_ifs_preserves.

(* T02.2  fixes.remove_redundant_else *)
Theorem T02_2_remove_redundant_else_preserves :
  forall p, equiv p (remove_redundant_else_model p).
Proof. exact remove_redundant_else_preserves. Qed.
Print Assumptions T02_2_remove_redundant_else_preserves.

(* T02.3  fixes.fix_if_return (after repair 4486780): `if c: return True / return False` -> `return c` when c is
   a negation (a bool already), else `return bool(c)` (MiniPy: `not not c`); the mirrored form -> `return not c`.
   Every program, the returned VALUE included.  The rule before the repair returned the value of c instead of
   its truth value (finding F02-8, now fixed): pinned as old_*_refuted / old_*_partial (conditions syntactically
   boolean). *)
Theorem T02_3_fix_if_return_preserves :
  forall p, equiv p (fix_if_return_model p).
Proof. exact fix_if_return_preserves. Qed.
Print Assumptions T02_3_fix_if_return_preserves.

Example T02_3_nontrivial :
  fix_if_return_model [SIf (Unknown 1 []) [SReturn (RVal (VBool true))] []; SReturn (RVal (VBool false))]
    = [SReturn (RTest (TBool (Unknown 1 [])))] /\
  fix_if_return_model [SEv 1 []; SIf (TNot (Unknown 1 [0])) [SReturn (RVal (VBool true))] []; SReturn (RVal (VBool false))]
    = [SEv 1 []; SReturn (RTest (TNot (Unknown 1 [0])))].
Proof. exact fix_if_return_nontrivial. Qed.

Theorem T02_3_old_fix_if_return_refuted :
  exists p, ~ obs_equiv p (old_fix_if_return_model p).
Proof. exact old_fix_if_return_refuted. Qed.
Print Assumptions T02_3_old_fix_if_return_refuted.

Theorem T02_3_old_fix_if_return_partial :
  forall p, fir_safe (fuel_of p) p = true -> equiv p (old_fix_if_return_model p).
Proof. exact old_fix_if_return_partial. Qed.
Print Assumptions T02_3_old_fix_if_return_partial.

(* T02.4  fixes.fix_if_assign (after repairs 4e708bf, 4486780): `v = c` for a negation, else `v = bool(c)`; the
   mirrored form -> `v = not c`.  Every program, the assigned VALUE included (finding F02-9, now fixed, pinned). *)
Theorem T02_4_fix_if_assign_preserves :
  forall p, equiv p (fix_if_assign_model p).
Proof. exact fix_if_assign_preserves. Qed.
Print Assumptions T02_4_fix_if_assign_preserves.

Example T02_4_nontrivial :
  fix_if_assign_model
    [SIf (Unknown 1 []) [SAssign 0 (RVal (VBool true))] [SAssign 0 (RVal (VBool false))]; SReturn (RVar 0)]
  = [SAssign 0 (RTest (TBool (Unknown 1 []))); SReturn (RVar 0)] /\
  fix_if_assign_model
    [SIf (TNot (Unknown 1 [])) [SAssign 0 (RVal (VBool true))] [SAssign 0 (RVal (VBool false))];
     SIf (Unknown 2 []) [SAssign 1 (RVal (VBool false))] [SAssign 1 (RVal (VBool true))]]
  = [SAssign 0 (RTest (TNot (Unknown 1 []))); SAssign 1 (RTest (TNot (Unknown 2 [])))].
Proof. exact fix_if_assign_nontrivial. Qed.

Theorem T02_4_old_fix_if_assign_refuted :
  exists p, ~ obs_equiv p (old_fix_if_assign_model p).
Proof. exact old_fix_if_assign_refuted. Qed.
Print Assumptions T02_4_old_fix_if_assign_refuted.

Theorem T02_4_old_fix_if_assign_partial :
  forall p, fia_safe (fuel_of p) p = true -> equiv p (old_fix_if_assign_model p).
Proof. exact old_fix_if_assign_partial. Qed.
Print Assumptions T02_4_old_fix_if_assign_partial.

(* T02.5  fixes.swap_if_else (explicit and implicit forms, all heuristics, the 5-pass driver): sound for
   every program; the negation it builds is the exact complement on truthiness and performs the same
   oracle draws / events. *)
Theorem T02_5_swap_if_else_preserves :
  forall p, equiv p (swap_if_else_model p).
Proof. exact swap_if_else_preserves. Qed.
Print Assumptions T02_5_swap_if_else_preserves.

Theorem T02_5_negate_complements :
  forall t o st,
    truthy (fst (eval_test o st (negate t))) = negb (truthy (fst (eval_test o st t)))
    /\ snd (eval_test o st (negate t)) = snd (eval_test o st t).
Proof. exact negate_complements. Qed.
Print Assumptions T02_5_negate_complements.

(* T02.6  fixes.delete_unreachable_code (after repairs d6620b5, 7d823f2), on top of T02.0 *)
Theorem T02_6_delete_unreachable_code_preserves :
  forall p, equiv p (delete_unreachable_code_model p).
Proof. exact delete_unreachable_code_preserves. Qed.
Print Assumptions T02_6_delete_unreachable_code_preserves.

(* T02.7  fixes.early_return: the rewritten function body is indistinguishable for every caller (same
   outcome and returned value, same trace, same oracle position); only the dead local environment
   differs (the assignment to the returned variable is gone). *)
Theorem T02_7_early_return_preserves :
  forall p, obs_equiv p (early_return_model p).
Proof. exact early_return_preserves. Qed.
Print Assumptions T02_7_early_return_preserves.

(* T02.8  fixes.early_continue (both forms, after repair 437984f) *)
Theorem T02_8_early_continue_preserves :
  forall p, equiv p (early_continue_model p).
Proof. exact early_continue_preserves. Qed.
Print Assumptions T02_8_early_continue_preserves.

(* T02.9  fixes.breakout_common_code_in_ifs (finding F02-20): moving the common FIRST statement of both
   branches in front of the `if` reorders it with the evaluation of the test: refuted.  Sound for every
   program in which each statement moved before an `if` commutes with the tests it passes (literal test, or
   a constant assignment to a variable the test does not read); moves of a common LAST statement behind the
   `if` (decisions B, D, E of the rule) need no side condition and are covered by the same theorem. *)
Theorem T02_9_breakout_common_code_refuted :
  exists p, ~ obs_equiv p (breakout_common_code_model p).
Proof. exact breakout_common_code_refuted. Qed.
Print Assumptions T02_9_breakout_common_code_refuted.

Theorem T02_9_breakout_common_code_partial :
  forall p, bc_safe p = true -> equiv p (breakout_common_code_model p).
Proof. exact breakout_common_code_partial. Qed.
Print Assumptions T02_9_breakout_common_code_partial.

Example T02_9_partial_nontrivial_tail :
  let p := [SIf (Unknown 1 [0]) [SEv 2 []; SEv 1 [0]] [SEv 3 []; SEv 1 [0]]; SEv 4 []] in
  bc_safe p = true /\ breakout_common_code_model p = [SIf (Unknown 1 [0]) [SEv 2 []] [SEv 3 []]; SEv 1 [0]; SEv 4 []].
Proof. exact breakout_partial_nontrivial_tail. Qed.

Example T02_9_partial_nontrivial_head :
  let p := [SIf (Unknown 1 [1]) [SAssign 0 (RVal (VBool true)); SEv 2 [0]] [SAssign 0 (RVal (VBool true)); SEv 3 [0]]] in
  bc_safe p = true /\
  breakout_common_code_model p = [SAssign 0 (RVal (VBool true)); SIf (Unknown 1 [1]) [SEv 2 [0]] [SEv 3 [0]]].
Proof. exact breakout_partial_nontrivial_head. Qed.

(* T02.10  fixes.move_before_loop (on loops with straight-line bodies, after repairs d47dff7, eeaceb7, 6970620;
   finding F02-22): refuted for a loop that may run zero times.  Sound when every loop out of which something is
   moved certainly runs at least once (`for` over a non-empty literal, `while <truthy literal>`), the moved
   statement assigns a constant and its variable is assigned nowhere else in the body.  Before d47dff7 the rule
   also moved a variable that is read and assigned again later in the body (F02-11, fixed): the old output is
   pinned as not equivalent, the repaired rule refuses that loop. *)
Theorem T02_10_move_before_loop_refuted :
  exists p, ~ obs_equiv p (move_before_loop_model p).
Proof. exact move_before_loop_refuted. Qed.
Print Assumptions T02_10_move_before_loop_refuted.

Theorem T02_10_old_move_before_loop_refuted_reassigned :
  ~ obs_equiv mbl_witness_reassigned mbl_witness_reassigned_old_output
  /\ move_before_loop_model mbl_witness_reassigned = mbl_witness_reassigned.
Proof. exact old_move_before_loop_refuted_reassigned. Qed.
Print Assumptions T02_10_old_move_before_loop_refuted_reassigned.

Theorem T02_10_move_before_loop_partial :
  forall p, mbl_safe (fuel_of p) p = true -> equiv p (move_before_loop_model p).
Proof. exact move_before_loop_partial. Qed.
Print Assumptions T02_10_move_before_loop_partial.

Example T02_10_partial_nontrivial :
  let p := [SLoop (HFor (IKnown 3)) [SEv 1 [1]; SAssign 0 (RVal (VObj true 0)); SEv 2 [0]] []; SEv 3 [0]] in
  mbl_safe (fuel_of p) p = true /\
  move_before_loop_model p =
    [SAssign 0 (RVal (VObj true 0)); SLoop (HFor (IKnown 3)) [SEv 1 [1]; SEv 2 [0]] []; SEv 3 [0]].
Proof. exact move_before_loop_partial_nontrivial. Qed.

(* T02.11  independence from the scheduling of processing.fix (which sites are rewritten in which pass, in which
   order, how many passes): every program reachable from p by applying the unconditional local rewrites
   (dead if/while, redundant else, if/else swap with negated test, deletion after a blocking statement,
   moving a common last statement behind the `if`, appending `continue`) at ANY positions of the tree, in any
   order, any number of times -- and backwards -- is equivalent to p. *)
Theorem T02_11_any_schedule_sound :
  forall p q, ctx local_rule p q -> equiv p q.
Proof. exact any_schedule_sound. Qed.
Print Assumptions T02_11_any_schedule_sound.

End Flow.

Module Expr.
Import ZArith Lia Permutation.
Import ListNotations.
Import Pyrefact.RulesExprModel Pyrefact.RulesExprProofs.
Open Scope Z_scope.


(* ===== C02, expression / collection tranche (theories/RulesExprModel.v, RulesExprProofs.v) =====
   needs:  Require Import Pyrefact.RulesExprModel Pyrefact.RulesExprProofs.
   eval w e en tr = Some (value, trace') | None (raises); a world w fixes the results of all user calls and
   the __eq__ of opaque objects; every theorem quantifies over all worlds, environments and traces. *)

(* fixes.singleton_eq_comparison (repaired: None only) *)
Theorem T02x_singleton_sound : forall w e e',
  (forall o, eq_or w o VNone = VBool false) ->
  rw_singleton e = Some e' ->
  forall en tr, eval w e' en tr = eval w e en tr.
Proof. exact singleton_sound. Qed.
Print Assumptions T02x_singleton_sound.

Theorem T02x_singleton_refuted_custom_eq :
  exists w e e' en, rw_singleton e = Some e' /\ eval w e' en [] <> eval w e en [].
Proof. exact singleton_refuted_custom_eq. Qed.
Print Assumptions T02x_singleton_refuted_custom_eq.

Theorem T02x_singleton_old_refuted :
  exists e e' en, rw_singleton_old e = Some e' /\
    (forall w, eval w e en [] = Some (VBool true, [])) /\ (forall w, eval w e' en [] = Some (VBool false, [])).
Proof. exact singleton_old_refuted. Qed.
Print Assumptions T02x_singleton_old_refuted.

(* fixes.remove_duplicate_set_elts *)
Theorem T02x_dup_set_sound : forall w e e',
  rw_dup_set e = Some e' -> forall en tr, eval w e' en tr = eval w e en tr.
Proof. exact dup_set_sound. Qed.
Print Assumptions T02x_dup_set_sound.

(* fixes.remove_duplicate_dict_keys (repaired) *)
Theorem T02x_dup_dict_sound : forall w e e',
  rw_dup_dict e = Some e' -> forall en tr r, eval w e en tr = Some r -> eval w e' en tr = Some r.
Proof. exact dup_dict_sound. Qed.
Print Assumptions T02x_dup_dict_sound.

(* the dict law behind it: writes to a key that is already present can be hoisted *)
Theorem T02x_dict_update_hoist : forall k ps E, dict_has E k = true ->
  dict_update E ps = dict_update (match lastv k ps with Some x => dict_set E k x | None => E end) (filt k ps).
Proof. exact dict_update_hoist. Qed.
Print Assumptions T02x_dict_update_hoist.

(* fixes.redundant_enumerate (repaired) *)
Theorem T02x_enumerate_sound : forall w e e',
  rw_enumerate e e = Some e' ->
  (match e with EComp _ _ _ _ (EBi _ [it]) _ => is_star it = false | _ => True end) ->
  forall en tr, eval w e' en tr = eval w e en tr.
Proof. exact enumerate_sound. Qed.
Print Assumptions T02x_enumerate_sound.

(* the frame lemma behind it: an expression that never reads `_` does not depend on its binding *)
Theorem T02x_underscore_frame : forall w e, reads_us e = false ->
  forall en1 en2, agree_off en1 en2 -> forall tr, eval w e en1 tr = eval w e en2 tr.
Proof. exact frame. Qed.
Print Assumptions T02x_underscore_frame.

(* fixes.unused_zip_args (repaired): refuted in general, right for equal lengths *)
Theorem T02x_zip_refuted :
  exists e e' en, rw_zip e e = Some e' /\
    forall w, eval w e en [] = Some (VList [], []) /\ eval w e' en [] = Some (VList [VInt 1], []).
Proof. exact zip_refuted. Qed.
Print Assumptions T02x_zip_refuted.

Theorem T02x_zip2_partial : forall w k elt dval x a b ifs,
  let e := EComp k elt dval (TTup [underscore; x]) (EBi BZip [a; b]) ifs in
  let e' := EComp k elt dval (TName x) b ifs in
  reads_us e = false -> simple a = true -> plain b = true -> Nat.eqb x underscore = false ->
  rw_zip e e = Some e' /\
  forall en tr va tra vb tr1,
    eval w a en tr = Some (va, tra) -> eval w b en tr = Some (vb, tr1) -> same_len va vb = true ->
    eval w e' en tr = eval w e en tr.
Proof. exact zip2_partial. Qed.
Print Assumptions T02x_zip2_partial.

(* performance.remove_redundant_chained_calls (repaired) *)
Theorem T02x_chain1_exact : forall w e e',
  rw_chain1 e = Some e' ->
  (match e with EBi outer (a0 :: _) => strip_exact outer a0 | _ => false end) = true ->
  forall en tr r, eval w e en tr = Some r -> eval w e' en tr = Some r.
Proof. exact chain1_exact. Qed.
Print Assumptions T02x_chain1_exact.

Theorem T02x_chain1_sorted_partial : forall w inner x kws,
  inner = BReversed \/ inner = BSorted -> plain x = true -> forallb is_kw kws = true ->
  forall en tr v tr1, eval w x en tr = Some (v, tr1) -> items_indist v = true ->
  forall r, eval w (EBi BSorted (EBi inner [x] :: kws)) en tr = Some r ->
            eval w (EBi BSorted (x :: kws)) en tr = Some r.
Proof. exact chain1_sorted_partial. Qed.
Print Assumptions T02x_chain1_sorted_partial.

Theorem T02x_chain1_sorted_reversed_refuted :
  exists e e' en, rw_chain1 e = Some e' /\
    forall w, eval w e en [] = Some (VList [VInt 1; VBool true], []) /\
              eval w e' en [] = Some (VList [VBool true; VInt 1], []).
Proof. exact chain1_sorted_reversed_refuted. Qed.
Print Assumptions T02x_chain1_sorted_reversed_refuted.

Theorem T02x_chain1_set_reversed_refuted :
  exists e e' en, rw_chain1 e = Some e' /\
    forall w, eval w e en [] = Some (VSet [VInt 1], []) /\ eval w e' en [] = Some (VSet [VBool true], []).
Proof. exact chain1_set_reversed_refuted. Qed.
Print Assumptions T02x_chain1_set_reversed_refuted.

(* the list laws behind them *)
Theorem T02x_sort_perm_invariant : forall l l', Permutation l l' -> indist l -> sort l = sort l'.
Proof. exact sort_perm_inv. Qed.
Print Assumptions T02x_sort_perm_invariant.

Theorem T02x_sort_idempotent : forall l, sort (sort l) = sort l.
Proof. exact sort_sort. Qed.
Print Assumptions T02x_sort_idempotent.

Theorem T02x_sum_perm_invariant : forall l l', Permutation l l' -> sum_num l = sum_num l'.
Proof. exact sum_num_perm. Qed.
Print Assumptions T02x_sum_perm_invariant.

Theorem T02x_set_idempotent : forall l s, mkset l = Some (VSet s) -> mkset s = Some (VSet s).
Proof. exact mkset_idem. Qed.
Print Assumptions T02x_set_idempotent.

Theorem T02x_chain2_sound : forall w e e',
  rw_chain2 e = Some e' -> forall en tr r, eval w e en tr = Some r -> eval w e' en tr = Some r.
Proof. exact chain2_sound. Qed.
Print Assumptions T02x_chain2_sound.

Theorem T02x_chain3_refuted_type : forall w x en tr r t r' t', plain x = true ->
  eval w (rev_sorted x) en tr = Some (r, t) -> eval w (sorted_rev x) en tr = Some (r', t') -> r <> r'.
Proof. exact chain3_refuted_type. Qed.
Print Assumptions T02x_chain3_refuted_type.

Theorem T02x_chain3_partial_items : forall w x en tr v tr1 r t, plain x = true ->
  eval w x en tr = Some (v, tr1) -> items_indist v = true ->
  eval w (rev_sorted x) en tr = Some (r, t) ->
  exists r', eval w (sorted_rev x) en tr = Some (r', t) /\ items_of r' = items_of r.
Proof. exact chain3_partial_items. Qed.
Print Assumptions T02x_chain3_partial_items.

Theorem T02x_chain3_refuted_stability :
  exists x en, plain x = true /\
    forall w, eval w (rev_sorted x) en [] = Some (VIter [VInt 1; VBool true], []) /\
              eval w (sorted_rev x) en [] = Some (VList [VBool true; VInt 1], []).
Proof. exact chain3_refuted_stability. Qed.
Print Assumptions T02x_chain3_refuted_stability.

(* fixes.remove_redundant_chain_casts / remove_redundant_comprehension_casts (repaired) *)
Theorem T02x_chain_casts_sound : forall w e e',
  rw_chain_casts e = Some e' -> forall en tr r, eval w e en tr = Some r -> eval w e' en tr = Some r.
Proof. exact chain_casts_sound. Qed.
Print Assumptions T02x_chain_casts_sound.

Theorem T02x_comp_casts_sound : forall w e e',
  rw_comp_casts e = Some e' ->
  (match e with EBi BSet [EComp CDict _ _ _ _ _] => false | _ => true end) = true ->
  forall en tr, eval w e' en tr = eval w e en tr.
Proof. exact comp_casts_sound. Qed.
Print Assumptions T02x_comp_casts_sound.

(* fixes.replace_negated_numeric_comparison *)
Theorem T02x_negated_sound : forall w e e', bool_eq w ->
  rw_negated e = Some e' -> forall en tr, eval w e' en tr = eval w e en tr.
Proof. exact negated_sound. Qed.
Print Assumptions T02x_negated_sound.

(* fixes.replace_functions_with_literals, fixes.replace_redundant_starred *)
Theorem T02x_literals_sound : forall w e e',
  rw_literals e = Some e' -> forall en tr, eval w e' en tr = eval w e en tr.
Proof. exact literals_sound. Qed.
Print Assumptions T02x_literals_sound.

Theorem T02x_starred_sound : forall w e e',
  rw_starred e = Some e' -> forall en tr, eval w e' en tr = eval w e en tr.
Proof. exact starred_sound. Qed.
Print Assumptions T02x_starred_sound.

(* fixes.simplify_dict_unpacks, fixes.simplify_collection_unpacks (repaired) *)
Theorem T02x_dict_unpacks_sound : forall w e e',
  rw_dict_unpacks e = Some e' -> forall en tr r, eval w e en tr = Some r -> eval w e' en tr = Some r.
Proof. exact dict_unpacks_sound. Qed.
Print Assumptions T02x_dict_unpacks_sound.

Theorem T02x_unpacks_sound : forall w e e',
  rw_unpacks e = Some e' -> forall en tr r, eval w e en tr = Some r -> eval w e' en tr = Some r.
Proof. exact unpacks_sound. Qed.
Print Assumptions T02x_unpacks_sound.

(* the set / dict laws behind them *)
Theorem T02x_set_absorb : forall l acc s,
  fold_left set_add (fold_left set_add l acc) s = fold_left set_add l (fold_left set_add acc s).
Proof. exact set_absorb. Qed.
Print Assumptions T02x_set_absorb.

Theorem T02x_dict_merge : forall d'' d d0, wfd d0 ->
  dict_update d (dict_update d0 d'') = dict_update (dict_update d d0) d''.
Proof. exact update_update. Qed.
Print Assumptions T02x_dict_merge.

(* set({k: v for ...}) -> {k for ...} (the remaining case of remove_redundant_comprehension_casts) *)
Theorem T02x_comp_casts_set_dict : forall w elt dval t it ifs,
  simple dval = true ->
  rw_comp_casts (EBi BSet [EComp CDict elt dval t it ifs]) = Some (EComp CSet elt (EConst ANone) t it ifs) /\
  forall en tr r, eval w (EBi BSet [EComp CDict elt dval t it ifs]) en tr = Some r ->
                  eval w (EComp CSet elt (EConst ANone) t it ifs) en tr = Some r.
Proof. exact comp_casts_set_dict. Qed.
Print Assumptions T02x_comp_casts_set_dict.

(* congruence: a rule that is right at the root and yields proper expressions is right when applied
   bottom-up at every node (rw_all), as the walker of the real rule does *)
Theorem T02x_lift_sound : forall w (rw : expr -> option expr),
  (forall a a', rw a = Some a' ->
     wrapper a' = false /\ forall en tr r, eval w a en tr = Some r -> eval w a' en tr = Some r) ->
  forall e en tr r, eval w e en tr = Some r -> eval w (rw_all (lift rw) e) en tr = Some r.
Proof. exact lift_sound. Qed.
Print Assumptions T02x_lift_sound.

Theorem T02x_dup_set_everywhere : forall w e en tr r,
  eval w e en tr = Some r -> eval w (rw_all (lift rw_dup_set) e) en tr = Some r.
Proof. exact dup_set_everywhere. Qed.
Print Assumptions T02x_dup_set_everywhere.

Theorem T02x_dup_dict_everywhere : forall w e en tr r,
  eval w e en tr = Some r -> eval w (rw_all (lift rw_dup_dict) e) en tr = Some r.
Proof. exact dup_dict_everywhere. Qed.
Print Assumptions T02x_dup_dict_everywhere.

Theorem T02x_unpacks_everywhere : forall w e en tr r,
  eval w e en tr = Some r -> eval w (rw_all (lift rw_unpacks) e) en tr = Some r.
Proof. exact unpacks_everywhere. Qed.
Print Assumptions T02x_unpacks_everywhere.

Theorem T02x_dict_unpacks_everywhere : forall w e en tr r,
  eval w e en tr = Some r -> eval w (rw_all (lift rw_dict_unpacks) e) en tr = Some r.
Proof. exact dict_unpacks_everywhere. Qed.
Print Assumptions T02x_dict_unpacks_everywhere.

End Expr.

(* =========================================================================================== *)
(* Comp = loop -> comprehension rules (RulesCompModel / RulesCompProofs).  Values, worlds and traces
   are those of the Expr tranche; statements run by `exec_block : world -> list st -> env -> trace ->
   option (env * trace)` (None = an exception).  `site_rel w Tg before after`: every run of `before`
   that terminates normally is matched by a run of `after` with the same trace and the same final
   environment outside the names in Tg (the loop variables, which a comprehension does not bind).
   needs:  Require Pyrefact.RulesCompModel Pyrefact.RulesCompProofs. *)
Require Pyrefact.RulesCompModel Pyrefact.RulesCompProofs.

Module Comp.
Import ZArith.
Import ListNotations.
Import Pyrefact.RulesExprModel Pyrefact.RulesCompModel Pyrefact.RulesCompProofs.

(* T02c.0  an expression only depends on the names it mentions; code that does not read the names in D
   (in the sense of fixes._is_read_after_loop) cannot tell two environments apart that differ on D only *)
Theorem T02c_frame : forall w e en1 en2 tr,
  (forall y, mentions y e = true -> en1 y = en2 y) -> eval w e en1 tr = eval w e en2 tr.
Proof. exact eval_frame. Qed.
Print Assumptions T02c_frame.

Theorem T02c_dead_variables : forall w l D en1 en2 tr, dead_blk D l -> agree_on (SD D) en1 en2 ->
  ex_rel D (exec_block w l en1 tr) (exec_block w l en2 tr).
Proof. exact exec_block_dead. Qed.
Print Assumptions T02c_dead_variables.

(* T02c.1  a for / if nest of any depth that appends to x  ~  the list comprehension with the same clauses,
   for every start value l0 of x (guard: nothing in the nest mentions x, x is no loop variable, every
   expression only reads loop variables that an enclosing for has bound: top_scoped) *)
Theorem T02c_list_nest : forall w x cl e l0 en tr el' tr',
  nest_guard x [] cl [e] = true ->
  exec_block w (build cl [SMeth (RName x) MAppend e]) (upd en x (VList l0)) tr = Some (el', tr') ->
  exists acc,
    eval w (XComp CList e dummy (map (gen_of true) cl)) en tr = Some (VList acc, tr')
    /\ el' x = Some (VList (l0 ++ acc))
    /\ (forall y, y <> x -> memn y (clause_targets cl) = false -> el' y = en y).
Proof. exact list_nest_sound. Qed.
Print Assumptions T02c_list_nest.

Theorem T02c_set_nest : forall w x cl e s0 en tr el' tr',
  nest_guard x [] cl [e] = true ->
  exec_block w (build cl [SMeth (RName x) MAdd e]) (upd en x (VSet s0)) tr = Some (el', tr') ->
  exists acc,
    eval w (XComp CSet e dummy (map (gen_of true) cl)) en tr = Some (VSet (fold_left set_add acc []), tr')
    /\ el' x = Some (VSet (fold_left set_add acc s0))
    /\ (forall y, y <> x -> memn y (clause_targets cl) = false -> el' y = en y).
Proof. exact set_nest_sound. Qed.
Print Assumptions T02c_set_nest.

Theorem T02c_sum_nest : forall w x cl e o z0 en tr el' tr',
  (o = OAdd \/ o = OSub) ->
  nest_guard x [] cl [e] = true ->
  exec_block w (build cl [SAug x o e]) (upd en x (VInt z0)) tr = Some (el', tr') ->
  exists s,
    eval w (XBi BSum [XComp CGen e dummy (map (gen_of true) cl)]) en tr = Some (VInt s, tr')
    /\ el' x = Some (VInt (sgn o z0 s))
    /\ (forall y, y <> x -> memn y (clause_targets cl) = false -> el' y = en y).
Proof. exact sum_nest_sound. Qed.
Print Assumptions T02c_sum_nest.

(* T02c.2  fixes.replace_for_loops_with_set_list_comp (repaired: 1afd4ce 2b2a2c8 fc76563 cb1c1c8 c45a7c4):
   whenever the model of the rule rewrites `x = <start>; for ...` (append / add / += / -=), the result runs
   like the original, up to the loop variables; and with any code behind it that the rule's own condition
   dead_after accepts *)
Theorem T02c_setlist_site : forall w after s1 s2 s',
  site_setlist after s1 s2 = Some s' -> site_scoped s1 s2 = true ->
  forall en tr en1 tr1, exec_block w [s1; s2] en tr = Some (en1, tr1) ->
  exists en2, exec_block w [s'] en tr = Some (en2, tr1)
    /\ forall y, memn y (site_targets s2) = false -> en1 y = en2 y.
Proof. exact setlist_site_sound. Qed.
Print Assumptions T02c_setlist_site.

Theorem T02c_setlist_in_context : forall w s1 s2 s' rest,
  site_setlist (fun n => blk_rd n rest) s1 s2 = Some s' -> site_scoped s1 s2 = true ->
  site_rel w (site_targets s2) (s1 :: s2 :: rest) (s' :: rest).
Proof. exact setlist_in_context. Qed.
Print Assumptions T02c_setlist_in_context.

(* without the scoping guard (finding F02comp-6): `for b in b` inside the nest *)
Theorem T02c_setlist_scope_refuted :
  exists w s' en tr r, site_setlist no_after (fst scope_prog) (snd scope_prog) = Some s'
    /\ exec_block w [fst scope_prog; snd scope_prog] en tr = Some r /\ exec_block w [s'] en tr = None.
Proof. exact setlist_scope_refuted. Qed.
Print Assumptions T02c_setlist_scope_refuted.

Example T02c_setlist_guard_example :
  site_scoped (fst good_prog) (snd good_prog) = true
  /\ site_setlist no_after (fst good_prog) (snd good_prog)
     = Some (SAssign 1 (XComp CList (XCall 0 [XName 2; XName 4]) dummy
                          [XGen (TName 2) (XName 8) [XCall 4 [XName 2]];
                           XGen (TName 4) (XCall 5 [XName 2]) [XName 4]])).
Proof. exact setlist_guard_example. Qed.

(* full equality of the final environments fails: the loop variable is gone (why the rule needs dead_after) *)
Theorem T02c_setlist_leak_refuted :
  exists w s1 s2 s' en tr en1 en2 tr1 tr2, site_setlist no_after s1 s2 = Some s'
    /\ exec_block w [s1; s2] en tr = Some (en1, tr1) /\ exec_block w [s'] en tr = Some (en2, tr2)
    /\ en1 2%nat <> en2 2%nat.
Proof. exact setlist_leak_refuted. Qed.
Print Assumptions T02c_setlist_leak_refuted.

(* T02c.2d  fixes.replace_for_loops_with_dict_comp (repaired: 1afd4ce 2b2a2c8 fc76563 9a002ae), every start
   form ({}, {**a, **b}, other displays, a dict comprehension): d[k] = v evaluates v before k, the comprehension k
   before v, so the rule (and the theorem) wants one of them without calls of unknown functions *)
Theorem T02c_dict_nest : forall w x cl k v d0 en tr el' tr',
  nest_guard x [] cl [k; v] = true -> effect k && effect v = false ->
  exec_block w (build cl [SSetItem x k v]) (upd en x (VDict d0)) tr = Some (el', tr') ->
  exists dc,
    eval w (XComp CDict k v (map (gen_of true) cl)) en tr = Some (VDict dc, tr')
    /\ el' x = Some (VDict (dict_update d0 dc))
    /\ (forall y, y <> x -> memn y (clause_targets cl) = false -> el' y = en y).
Proof. exact dict_nest_sound. Qed.
Print Assumptions T02c_dict_nest.

Theorem T02c_dictcomp_site : forall w after s1 s2 s',
  site_dictcomp after s1 s2 = Some s' -> site_scoped s1 s2 = true ->
  forall en tr en1 tr1, exec_block w [s1; s2] en tr = Some (en1, tr1) ->
  exists en2, exec_block w [s'] en tr = Some (en2, tr1)
    /\ forall y, memn y (site_targets s2) = false -> en1 y = en2 y.
Proof. exact dictcomp_site_sound. Qed.
Print Assumptions T02c_dictcomp_site.

Theorem T02c_dictcomp_in_context : forall w s1 s2 s' rest,
  site_dictcomp (fun n => blk_rd n rest) s1 s2 = Some s' -> site_scoped s1 s2 = true ->
  site_rel w (site_targets s2) (s1 :: s2 :: rest) (s' :: rest).
Proof. exact dictcomp_in_context. Qed.
Print Assumptions T02c_dictcomp_in_context.

(* the rule before 9a002ae: key and value both call an unknown function -> the calls change places *)
Theorem T02c_dictcomp_order_refuted :
  exists w s1 s2 s' en tr r r', site_dictcomp_old s1 s2 = Some s'
    /\ exec_block w [s1; s2] en tr = Some r /\ exec_block w [s'] en tr = Some r' /\ snd r <> snd r'.
Proof. exact dictcomp_order_refuted. Qed.
Print Assumptions T02c_dictcomp_order_refuted.

(* T02c.3  fixes.replace_listcomp_append_with_plus / replace_setcomp_add_with_union (both forms) *)
Theorem T02c_fold_site : forall w is_set after s1 s2 s',
  site_fold is_set after s1 s2 = Some s' ->
  (match s1 with SAssign _ value => fold_typed is_set s2 value | _ => false end) = true ->
  forall en tr en1 tr1, exec_block w [s1; s2] en tr = Some (en1, tr1) ->
  exists en2, exec_block w [s'] en tr = Some (en2, tr1)
    /\ forall y, memn y (match s2 with SFor t _ _ _ => tnames t | _ => [] end) = false -> en1 y = en2 y.
Proof. exact fold_site_sound. Qed.
Print Assumptions T02c_fold_site.

Theorem T02c_fold_in_context : forall w is_set s1 s2 s' rest,
  site_fold is_set (fun n => blk_rd n rest) s1 s2 = Some s' ->
  (match s1 with SAssign _ value => fold_typed is_set s2 value | _ => false end) = true ->
  site_rel w (match s2 with SFor t _ _ _ => tnames t | _ => [] end) (s1 :: s2 :: rest) (s' :: rest).
Proof. exact fold_in_context. Qed.
Print Assumptions T02c_fold_in_context.

(* finding F02comp-4: v = 1 + 2; for i in []: v.append(i) *)
Theorem T02c_plus_refuted :
  exists w s1 s2 s' en tr r, site_fold false no_after s1 s2 = Some s'
    /\ exec_block w [s1; s2] en tr = Some r /\ exec_block w [s'] en tr = None.
Proof. exact plus_refuted. Qed.
Print Assumptions T02c_plus_refuted.

(* T02c.4  fixes.replace_nested_loops_with_set_list_comp (repaired: 198a69c 93d9c07 c431d63) *)
Theorem T02c_nested_loops_site : forall w fresh after s s',
  site_nested fresh after s = Some s' -> nested_guard fresh s = true ->
  forall x l0 en tr en1 tr1, nested_receiver s = Some x -> en x = Some (VList l0) ->
  exec_block w [s] en tr = Some (en1, tr1) ->
  exists en2, exec_block w [s'] en tr = Some (en2, tr1)
    /\ forall y, memn y (nested_dead s) = false -> en1 y = en2 y.
Proof. exact nested_site_sound. Qed.
Print Assumptions T02c_nested_loops_site.

Theorem T02c_nested_loops_in_context : forall w fresh s s' rest x l0,
  site_nested fresh (fun n => blk_rd n rest) s = Some s' -> nested_guard fresh s = true ->
  nested_receiver s = Some x ->
  forall en tr en1 tr1, en x = Some (VList l0) ->
  exec_block w (s :: rest) en tr = Some (en1, tr1) ->
  exists en2, exec_block w (s' :: rest) en tr = Some (en2, tr1)
    /\ forall y, memn y (nested_dead s) = false -> en1 y = en2 y.
Proof. exact nested_in_context. Qed.
Print Assumptions T02c_nested_loops_in_context.

(* finding F02comp-3: x unbound and the loop does not run *)
Theorem T02c_nested_loops_refuted :
  exists w s s' en tr r, site_nested 1000 no_after s = Some s'
    /\ exec_block w [s] en tr = Some r /\ exec_block w [s'] en tr = None.
Proof. exact nested_loops_refuted. Qed.
Print Assumptions T02c_nested_loops_refuted.

(* T02c.5  fixes.remove_redundant_comprehensions (repaired: 668bf19): list / set / generator form *)
Theorem T02c_redundant : forall w e e' en tr,
  rw_redundant e = Some e' -> (match e with XComp CDict _ _ _ => false | _ => true end) = true ->
  eval w e' en tr = eval w e en tr.
Proof. exact redundant_seq_sound. Qed.
Print Assumptions T02c_redundant.

(* the dict form on a mapping (finding F02-49) *)
Theorem T02c_redundant_dict_refuted :
  exists w e e' en tr r r', rw_redundant e = Some e' /\ eval w e en tr = Some r /\ eval w e' en tr = Some r' /\ r <> r'.
Proof. exact redundant_dict_refuted. Qed.
Print Assumptions T02c_redundant_dict_refuted.

(* T02c.6  fixes.replace_map_lambda_with_comp / replace_filter_lambda_with_comp (repaired: abb6f9f) *)
Theorem T02c_map : forall w e e' en tr, rw_map e = Some e' -> eval w e' en tr = eval w e en tr.
Proof. exact map_sound. Qed.
Print Assumptions T02c_map.

Theorem T02c_filter : forall w e e' en tr, rw_filter e = Some e' -> eval w e' en tr = eval w e en tr.
Proof. exact filter_sound. Qed.
Print Assumptions T02c_filter.

Theorem T02c_filter_old_refuted :
  exists w e e' en tr, rw_filter_old e = Some e' /\ eval w e' en tr <> eval w e en tr.
Proof. exact filter_old_refuted. Qed.
Print Assumptions T02c_filter_old_refuted.

(* T02c.7  fixes.merge_chained_comps / merge_nested_comprehensions: the call order changes (findings
   F02comp-1, F02comp-2) *)
Theorem T02c_chained_refuted :
  exists w e e' en tr r r', rw_chained e = Some e' /\ eval w e en tr = Some r /\ eval w e' en tr = Some r' /\ r <> r'.
Proof. exact chained_refuted. Qed.
Print Assumptions T02c_chained_refuted.

(* ... and is unchanged when the inner conditions make no unknown calls (list / generator in the same kind) *)
Theorem T02c_chained_partial : forall w e e' en tr,
  rw_chained e = Some e' -> chained_guard e = true -> eval w e' en tr = eval w e en tr.
Proof. exact chained_partial. Qed.
Print Assumptions T02c_chained_partial.

Example T02c_chained_guard_example :
  let e := XComp CList (XCall 0 [XName 2]) dummy
             [XGen (TName 2) (XComp CList (XName 2) dummy [XGen (TName 2) (XName 8) [XName 2; XNot (XName 3)]])
                [XCall 4 [XName 2]]] in
  chained_guard e = true
  /\ rw_chained e = Some (XComp CList (XCall 0 [XName 2]) dummy
                            [XGen (TName 2) (XName 8) [XName 2; XNot (XName 3); XCall 4 [XName 2]]]).
Proof. exact chained_guard_example. Qed.

(* merge_nested_comprehensions where no renaming is needed (inner target = outer target, one inner clause) *)
Theorem T02c_nested_comps_partial : forall w e e' en tr,
  rw_nested e = Some e' -> nested_guard_same e = true -> eval w e' en tr = eval w e en tr.
Proof. exact nested_partial. Qed.
Print Assumptions T02c_nested_comps_partial.

Theorem T02c_nested_comps_refuted :
  exists w e e' en tr r r', rw_nested e = Some e' /\ eval w e en tr = Some r /\ eval w e' en tr = Some r' /\ r <> r'.
Proof. exact nested_refuted. Qed.
Print Assumptions T02c_nested_comps_refuted.

(* f6bcd55: an eager list / set / dict comprehension is never merged into a (lazy) generator expression *)
Theorem T02c_nested_comps_gen_eager_kept : forall elt dval x ik y idval igens,
  ik <> CGen -> rw_nested (XComp CGen elt dval [XGen (TName x) (XComp ik (XName y) idval igens) []]) = None.
Proof. exact nested_gen_eager_kept. Qed.
Print Assumptions T02c_nested_comps_gen_eager_kept.

End Comp.


(* ------------------------------------------------------------------------------------------- *)
(* statement-merging / collection-literal tranche (design/C02_coll.md) *)
Require Pyrefact.RulesCollModel Pyrefact.RulesCollProofs.

Module Coll.
Import ZArith.
Import ListNotations.
Import Pyrefact.RulesExprModel Pyrefact.RulesCollModel Pyrefact.RulesCollProofs.

(* One fold of `x = <display>` and the statements filling x (the five merge rules, as repaired): every
   run of the original block that terminates normally is a run of the merged block with the same
   outcome, the same variables (type, element / key order, surviving key object), the same trace.
   Opaque callees may read any variable but x. *)
Theorem T02l_merge_window_sound : forall W r s0 x k ps mods more rest q res,
  blind W x ->
  init_of r s0 = Some (x, k, ps) -> mods_of r x mods = Some more ->
  exec_block W (s0 :: mods ++ rest) q = Some res ->
  exec_block W (SAssign x (display k (ps ++ more)) :: rest) q = Some res.
Proof. exact merge_window_sound. Qed.
Print Assumptions T02l_merge_window_sound.

(* the whole pass of a merge rule over a statement list (all transactions) *)
Theorem T02l_merge_block_sound : forall W r b q res,
  (forall x, blind W x) ->
  exec_block W b q = Some res -> exec_block W (merge_block r b) q = Some res.
Proof. exact merge_block_sound. Qed.
Print Assumptions T02l_merge_block_sound.

Example T02l_merge_block_example :
  merge_block MCollAdd
    [SAssign 1 (ESeq KList [EConst (AInt 1)]); SMeth 1 MAppend [ECall 0 []];
     SMeth 1 MExtend [ESeq KTuple [EName 2; EStar (EName 3)]]; SMeth 1 MAppend [EName 1]; SExpr (EName 1)]
  = [SAssign 1 (ESeq KList [EConst (AInt 1); ECall 0 []; EName 2; EStar (EName 3)]);
     SMeth 1 MAppend [EName 1]; SExpr (EName 1)].
Proof. reflexivity. Qed.

(* without `blind`: a callee that reads the collection being built (finding F02coll-1) *)
Theorem T02l_merge_refuted_global_reader :
  exists W r b q res, exec_block W b q = Some res /\ merge_block r b <> b /\
                      exec_block W (merge_block r b) q <> Some res.
Proof. exact merge_refuted_global_reader. Qed.
Print Assumptions T02l_merge_refuted_global_reader.

(* the rules before the repairs F02coll-4 / F02coll-5 (closed worlds) *)
Theorem T02l_merge_old_refuted_self_read :
  exists r b q res, exec_block (fun _ => test_world) b q = Some res /\
                    exec_block (fun _ => test_world) (scan_old r None b) q <> Some res.
Proof. exact merge_old_refuted_self_read. Qed.
Print Assumptions T02l_merge_old_refuted_self_read.

Theorem T02l_merge_old_refuted_order :
  exists r b q res, exec_block (fun _ => test_world) b q = Some res /\
                    exec_block (fun _ => test_world) (scan_old r None b) q <> Some res.
Proof. exact merge_old_refuted_order. Qed.
Print Assumptions T02l_merge_old_refuted_order.

(* the side conditions of the repaired rules: frame and purity *)
Theorem T02l_frame : forall x w e, mentions x e = false ->
  forall en1 en2, (forall y, y <> x -> en1 y = en2 y) -> forall tr, eval w e en1 tr = eval w e en2 tr.
Proof. exact frame_x. Qed.
Print Assumptions T02l_frame.

Theorem T02l_pure_eval : forall w e, pure e = true ->
  forall en tr, eval w e en tr = match eval w e en [] with Some (v, _) => Some (v, tr) | None => None end.
Proof. exact pure_eval. Qed.
Print Assumptions T02l_pure_eval.

(* fixes.breakout_starred_args (repaired) *)
Theorem T02l_starargs_sound : forall w e e' en tr r,
  rw_starargs e = Some e' -> eval w e en tr = Some r -> eval w e' en tr = Some r.
Proof. exact starargs_sound. Qed.
Print Assumptions T02l_starargs_sound.

Theorem T02l_starargs_old_refuted :
  exists e e' en, eval test_world e en [] <> None /\ eval test_world e' en [] <> eval test_world e en [] /\
    e = ECall 4 [EStar (ESeq KSet [EStar (EName 2)])] /\ e' = ECall 4 [EStar (EName 2)].
Proof. exact starargs_old_refuted. Qed.
Print Assumptions T02l_starargs_old_refuted.

(* fixes.simplify_assign_immediate_return, on nested blocks: same returned value and trace *)
Theorem T02l_immret_sound : forall W body q,
  ret_rel (exec_block W body q) (exec_block W (rw_immret body) q).
Proof. exact rw_immret_sound. Qed.
Print Assumptions T02l_immret_sound.

(* fixes.replace_with_filter: same outcome, trace and variables except the loop variable (F02-47); since 295ec41
   (the template back end indents compound statements) also for loops whose body statement is an if / for
   (rw_filter_old, the rule before that repair, is the restriction to simple body statements) *)
Theorem T02l_filter_sound : forall W s s' q, (forall x, blind W x) -> rw_filter s = Some s' ->
  exists x, res_rel x (exec_stmt W s q) (exec_stmt W s' q).
Proof. exact filter_sound. Qed.
Print Assumptions T02l_filter_sound.

Theorem T02l_filter_old_sub : forall s s', rw_filter_old s = Some s' -> rw_filter s = Some s'.
Proof. exact filter_old_sub. Qed.
Print Assumptions T02l_filter_old_sub.

Theorem T02l_filter_refuted_loop_variable :
  exists s s' q, rw_filter s = Some s' /\ exec_stmt (fun _ => test_world) s q <> exec_stmt (fun _ => test_world) s' q /\
                 exec_stmt (fun _ => test_world) s q <> None.
Proof. exact filter_refuted_loop_variable. Qed.
Print Assumptions T02l_filter_refuted_loop_variable.

(* fixes.simplify_redundant_lambda (repaired), on one positional application *)
Theorem T02l_lambda_sound : forall w l r en args tr res,
  NoDup (l_params l ++ match l_vararg l with Some a => [a] | None => [] end) ->
  rw_lambda l = Some r -> apply_lam w l en args tr = Some res -> apply_repl w r args tr = Some res.
Proof. exact lambda_sound. Qed.
Print Assumptions T02l_lambda_sound.

(* fixes.fix_raise_missing_from: value and context kept, cause changed (finding F02coll-3) *)
Theorem T02l_raise_from_partial : forall caught x,
  x_value (raise_from caught x) = x_value (raise_plain caught x) /\
  x_context (raise_from caught x) = x_context (raise_plain caught x).
Proof. exact raise_from_partial. Qed.
Print Assumptions T02l_raise_from_partial.

Theorem T02l_raise_from_refuted : forall caught x, raise_from caught x <> raise_plain caught x.
Proof. exact raise_from_refuted. Qed.
Print Assumptions T02l_raise_from_refuted.

(* fixes.implicit_defaultdict: one loop step leaves the same items; the class is observable (F02-58) *)
Theorem T02l_defaultdict_step_items : forall lk d k v, plain_step lk d k v = dd_step lk d k v.
Proof. exact defaultdict_step_items. Qed.
Print Assumptions T02l_defaultdict_step_items.

Theorem T02l_defaultdict_refuted_missing_key : forall lk d k, dict_get d k = None ->
  fst (mapping_read (PlainDict d) k) = None /\ fst (mapping_read (DefaultDict lk d) k) = Some (dd_empty lk).
Proof. exact defaultdict_refuted_missing_key. Qed.
Print Assumptions T02l_defaultdict_refuted_missing_key.

(* the merge rules in every statement list of a nested program *)
Theorem T02l_merge_deep_sound : forall W r, (forall x, blind W x) -> forall b q res,
  exec_block W b q = Some res -> exec_block W (merge_deep r b) q = Some res.
Proof. exact merge_deep_sound. Qed.
Print Assumptions T02l_merge_deep_sound.

(* fixes.implicit_dict_keys_values_items, `for k, _ in d.items()` -> `for k in d.keys()` (and values), as
   repaired (F02coll-11): same outcome, trace and variables except `_`, for loop bodies that never read `_` *)
Theorem T02l_items_sound : forall W s s' q, blind W underscore -> rw_items false s = Some s' ->
  match s with SFor _ _ body => reads_us_b body = false | _ => True end ->
  res_rel underscore (exec_stmt W s q) (exec_stmt W s' q).
Proof. exact items_sound. Qed.
Print Assumptions T02l_items_sound.

Theorem T02l_items_refuted_underscore :
  exists s s' q, rw_items false s = Some s' /\ exec_stmt (fun _ => test_world) s q <> exec_stmt (fun _ => test_world) s' q /\
                 exec_stmt (fun _ => test_world) s q <> None.
Proof. exact items_refuted_underscore. Qed.
Print Assumptions T02l_items_refuted_underscore.

(* a block that never reads `_` does not depend on the binding of `_` (statement-level frame) *)
Theorem T02l_block_frame_underscore : forall W b, blind W underscore -> reads_us_b b = false ->
  forall q1 q2, xequiv underscore q1 q2 -> res_rel underscore (exec_block W b q1) (exec_block W b q2).
Proof. intros W b H. exact (fB_all W H b). Qed.
Print Assumptions T02l_block_frame_underscore.

End Coll.
(* ---------------------------------------------------------------------------------------------- *)
(* Cls = definition / class rules (RulesClsModel; Part L on MiniPy, Parts O / U / D own fragments). *)
Require Pyrefact.RulesClsModel Pyrefact.RulesClsProofs.
Module Cls.
Import ListNotations.
Import Pyrefact.MiniPyModel Pyrefact.MiniPyProofs Pyrefact.RulesClsModel Pyrefact.RulesClsProofs.

(* T02k.1  fixes.undefine_unused_variables: an output p' of the rule on p in which every un-assigned
   assignment `x = e -> e` is dead (x is not live behind it in p', by the liveness analysis lv_block
   whose loop fixpoints the checker verifies) behaves like p: same outcome, trace and oracle position
   under every oracle from every state, termination preserved both ways.  uv_ok is evaluated on the
   real rule's output for every case of the correspondence. *)
Theorem T02k_undefine_dead_sound :
  forall n p p', uv_ok n p p' = true -> obs_equiv p p'.
Proof. exact undefine_dead_sound. Qed.
Print Assumptions T02k_undefine_dead_sound.

(* T02k.2  the same with a set `out` of variables that are read afterwards (globals) *)
Theorem T02k_undefine_dead_sound_out :
  forall n p p' out, ok_block n p p' out [] [] out = true ->
  forall o st r, runs o st p r ->
  exists r', runs o st p' r' /\ obs r = obs r' /\
             (fst r = Normal ->
              forall x, vmem x out = true -> get (s_env (snd r)) x = get (s_env (snd r')) x).
Proof. exact undefine_dead_sound_out. Qed.
Print Assumptions T02k_undefine_dead_sound_out.

(* T02k.3  the rule's own decision on straight-line code (uv_line = _iter_unused_names with
   code_dependencies_outputs on simple statements; exact correspondence) is behaviour preserving *)
Theorem T02k_undefine_straight_sound :
  forall p, forallb simple p = true -> obs_equiv p (uv_line p).
Proof. exact undefine_straight_sound. Qed.
Print Assumptions T02k_undefine_straight_sound.

(* T02k.4  un-assigning an assignment that is NOT dead changes the behaviour *)
Theorem T02k_undefine_live_refuted :
  exists p p', (exists pre x e post, p = pre ++ SAssign x e :: post /\ p' = pre ++ drop_asg e :: post) /\
               ~ obs_equiv p p'.
Proof. exact undefine_live_refuted. Qed.
Print Assumptions T02k_undefine_live_refuted.

Example T02k_undefine_example :
  uv_ok 3 [SAssign 0 (RVal (VBool true)); SLoop (HWhile (Unknown 1 [1])) [SAssign 0 (RVar 1); SAssign 1 (RTest (Unknown 2 [0]))] []]
          [SPass; SLoop (HWhile (Unknown 1 [1])) [SAssign 0 (RVar 1); SAssign 1 (RTest (Unknown 2 [0]))] []] = true.
Proof. reflexivity. Qed.


(* T02k.5  object_oriented.remove_unused_self_cls (after repairs 45b0c63, 6ce9a8c, 41a477a, 880ec73): the
   model of the rule -- five passes of rs_pass, as processing.fix runs it -- leaves the run of the module
   unchanged for every fuel: same trace (events, uses of the first parameter with the object it is bound
   to), same outcome (exception class).  wf_mod: no class-body alias has the name of a method; no_dyn: no
   getattr(x, "name") (known finding F02-28). *)
Theorem T02k_self_cls_sound :
  forall M, wf_mod M = true -> no_dyn M = true ->
  forall fuel, run_module fuel (rs_model M) = run_module fuel M.
Proof. exact self_cls_sound. Qed.
Print Assumptions T02k_self_cls_sound.

Theorem T02k_self_cls_dynamic_refuted :
  exists M, wf_mod M = true /\ no_dyn M = false /\ run_module 9 (rs_model M) <> run_module 9 M
            /\ snd (run_module 9 M) = OOk.
Proof. exact self_cls_dynamic_refuted. Qed.
Print Assumptions T02k_self_cls_dynamic_refuted.

(* the code before repair 6ce9a8c (no "looked up on a class" guard): C.m(x) with an explicit instance *)
Theorem T02k_self_cls_unguarded_refuted :
  exists M, wf_mod M = true /\ no_dyn M = true /\ run_module 9 (rs_pass_unguarded M) <> run_module 9 M
            /\ snd (run_module 9 M) = OOk.
Proof. exact self_cls_unguarded_refuted. Qed.
Print Assumptions T02k_self_cls_unguarded_refuted.

Example T02k_self_cls_example :
  let M := mkMod [IClass (mkCls 1 None [mkMeth 1 KPlain 1 [AEv 1]; mkMeth 2 KPlain 1 [ACall RSelf 1 0]] []);
                  IClass (mkCls 2 (Some 1) [mkMeth 3 KPlain 1 [AUse; ACall RSuper 2 0]] [])] [] []
                 [ACall (RNew 2) 3 0] in
  wf_mod M = true /\ no_dyn M = true /\ rs_model M <> M /\ run_module 20 M = ([TUse (SInst 2); TEv 1], OOk).
Proof. repeat split; try reflexivity. vm_compute. discriminate. Qed.

(* T02k.6  object_oriented.fix_unconventional_class_definitions (after repair cc76320): for a class that
   nothing observes while it is created, the output runs like the input: same outcome, log and class
   attributes.  Hook (decorator / __init_subclass__ / metaclass): refuted, finding F02cls-2. *)
Theorem T02k_unconventional_sound :
  forall p, u_hook p = false -> urun (fu_model p) = urun p.
Proof. exact unconventional_sound. Qed.
Print Assumptions T02k_unconventional_sound.

Theorem T02k_unconventional_hook_refuted :
  exists p, u_hook p = true /\ urun (fu_model p) <> urun p.
Proof. exact unconventional_hook_refuted. Qed.
Print Assumptions T02k_unconventional_hook_refuted.

(* the code before the repair moved every assignment *)
Theorem T02k_unconventional_unguarded_refuted :
  (exists p, u_hook p = false /\ urun (fu_unguarded p) <> urun p /\ fst (fst (urun p)) = true
             /\ exists a x, u_post p = [(a, VName x)])
  /\ (exists p, u_hook p = false /\ urun (fu_unguarded p) <> urun p /\ fst (fst (urun p)) = true
                /\ exists a b, u_post p = [(a, VAttr b)]).
Proof. exact unconventional_unguarded_refuted. Qed.
Print Assumptions T02k_unconventional_unguarded_refuted.


(* T02k.7  fixes.remove_duplicate_functions / abstractions.hash_node (after repairs 45d5772, 3b14d91, a2a12bd):
   two functions with the same numbering have the same node types and plain fields at every position of
   the walk, the same preserved (free) names at the same positions, and their remaining names follow the
   same pattern (two occurrences in f are one name iff the occurrences at the same positions in g are):
   g is f with its bound names renamed one-to-one.  Identity, __name__, default values evaluated once and
   keyword calls are findings F02cls-2, F02-33, F02-34. *)
Theorem T02k_duplicate_alpha :
  forall keep1 keep2 l1 l2,
  canon_go keep1 [] l1 = canon_go keep2 [] l2 ->
  length l1 = length l2 /\
  (forall i k, nth_error l1 i = Some (TK k) -> nth_error l2 i = Some (TK k)) /\
  (forall i x b, nth_error l1 i = Some (TN x b) -> nmem x keep1 = true ->
                 exists b', nth_error l2 i = Some (TN x b') /\ nmem x keep2 = true) /\
  (forall i j x b x' b', nth_error l1 i = Some (TN x b) -> nth_error l1 j = Some (TN x' b') ->
      nmem x keep1 = false -> nmem x' keep1 = false ->
      exists y c y' c', nth_error l2 i = Some (TN y c) /\ nth_error l2 j = Some (TN y' c') /\
                        nmem y keep2 = false /\ nmem y' keep2 = false /\ (x = x' <-> y = y')).
Proof. exact duplicate_alpha. Qed.
Print Assumptions T02k_duplicate_alpha.

(* the code before repair 45d5772 numbered the free names as well: `len(x)` and `sum(x)` were "equal" *)
Theorem T02k_duplicate_old_refuted :
  exists f g, dup_eqb_old [] f g = true /\ dup_eqb [] f g = false /\
              exists i x y, nth_error f i = Some (TN x false) /\ nth_error g i = Some (TN y false) /\ x <> y
                            /\ nmem x (bound_names f) = false /\ nmem y (bound_names g) = false.
Proof. exact duplicate_old_refuted. Qed.
Print Assumptions T02k_duplicate_old_refuted.


(* T02k.8  fixes.delete_unused_functions_and_classes (preserve = {}): the model of the rule -- five passes of
   du_pass, with the scheduler's "the removal of a method wins over the removal of its class" -- leaves the
   run of the module unchanged for every fuel.  uniq_cls: class names are distinct; no_dyn: no
   getattr(x, "name") (known finding F02-28; effects of the deleted definition itself: F02-29, duck typing
   through library protocols: F02-30 are outside this semantics). *)
Theorem T02k_delete_unused_sound :
  forall M, no_dyn M = true -> uniq_cls M = true ->
  forall fuel, run_module fuel (du_model M) = run_module fuel M.
Proof. exact delete_unused_sound. Qed.
Print Assumptions T02k_delete_unused_sound.

Theorem T02k_delete_unused_dynamic_refuted :
  exists M, uniq_cls M = true /\ no_dyn M = false /\ run_module 9 (du_model M) <> run_module 9 M
            /\ snd (run_module 9 M) = OOk.
Proof. exact delete_unused_dynamic_refuted. Qed.
Print Assumptions T02k_delete_unused_dynamic_refuted.

Example T02k_delete_unused_example :
  let M := mkMod [IFunc (mkFunc 1 0 [ACall RMod 2 0]); IFunc (mkFunc 2 0 [AEv 2]); IFunc (mkFunc 3 0 [ACall RMod 3 0]);
                  IClass (mkCls 1 None [mkMeth 50 KPlain 1 [AEv 5]; mkMeth 1 KPlain 1 [AUse]; mkMeth 2 KPlain 1 []] []);
                  IClass (mkCls 2 None [mkMeth 1 KPlain 1 []] [])] [] []
                 [ACall (RNew 1) 1 0; ACall RMod 1 0] in
  no_dyn M = true /\ uniq_cls M = true /\ length (m_items (du_model M)) = 3
  /\ run_module 20 M = ([TEv 5; TUse (SInst 1); TEv 2], OOk).
Proof. repeat split; reflexivity. Qed.


(* T02k.9  object_oriented.move_staticmethod_static_scope (after repairs 82c842a .. 4757c14 and cca2e92: one
   transaction per method, ms_moved = the part of the plan that processing's scheduler keeps), resolution level:
   a static method x of class k that a pass moves under the new name n IS, in the output, the module-level
   function n: same parameters, the (redirected) body of x, bound by nothing else (no other function, no stored
   name) -- so a redirected access `C.m(args)` -> `n(args)` reaches the body that `C.m` reached (T02k.10), with
   the same arity test and no first argument.  The whole-run equality of ms_model is NOT proved (correspondence
   + CPython-validated semantics + oracle only). *)
Theorem T02k_move_static_redirect :
  forall M k x n,
  uniq_cls M = true -> uniq_meths M = true -> nodup_names (map snd (ms_plan M)) = true ->
  In k (classes M) -> c_base k = None -> In x (c_meths k) -> ms_new_name M k x = Some n ->
  In ((c_name k, m_name x), n) (ms_moved M) ->
  m_kind x = KStatic /\
  resolve (ms_pass M) SNone None RMod n = TFn (moved_fn (ms_moved M) k x n) /\
  f_params (moved_fn (ms_moved M) k x n) = m_params x /\
  f_body (moved_fn (ms_moved M) k x n) = map (ms_act (ms_moved M) (Some (c_name k))) (m_body x).
Proof. exact move_static_redirect. Qed.
Print Assumptions T02k_move_static_redirect.

(* what a pass moves is part of the plan; with no access of one planned method inside another, all of it *)
Theorem T02k_move_static_moved_planned : forall M e, In e (ms_moved M) -> In e (ms_plan M).
Proof. exact ms_moved_planned. Qed.
Print Assumptions T02k_move_static_moved_planned.

Theorem T02k_move_static_original :
  forall M k x n nargs,
  uniq_cls M = true -> uniq_meths M = true -> wf_mod M = true ->
  In k (classes M) -> c_base k = None -> In x (c_meths k) -> ms_new_name M k x = Some n ->
  resolve M SNone None (RCls (c_name k)) (m_name x) = TMeth (ViaCls (c_name k)) (c_name k) x /\
  bind (ViaCls (c_name k)) x nargs = (SNone, Nat.eqb (m_params x) nargs).
Proof. exact move_static_original. Qed.
Print Assumptions T02k_move_static_original.

Example T02k_move_static_example :
  let M := mkMod [IClass (mkCls 1 None [mkMeth 1 KStatic 0 [AEv 1]; mkMeth 2 KPlain 1 [ACall RSelf 1 0]] [])] [] []
                 [ACall (RCls 1) 1 0; ACall (RNew 1) 2 0] in
  ms_new_name M (mkCls 1 None [mkMeth 1 KStatic 0 [AEv 1]; mkMeth 2 KPlain 1 [ACall RSelf 1 0]] []) (mkMeth 1 KStatic 0 [AEv 1])
    = Some (moved_name 1)
  /\ In ((1, 1)%nat, moved_name 1) (ms_moved M)
  /\ run_module 20 (ms_model M) = run_module 20 M /\ run_module 20 M = ([TEv 1; TEv 1], OOk).
Proof. repeat split; try reflexivity. left. reflexivity. Qed.

(* a discarded transaction: m3 reads m1 through `self`; only m3 moves, before cca2e92 both did *)
Example T02k_move_static_schedule_example :
  let M := mkMod [IClass (mkCls 1 None [mkMeth 3 KStatic 1 [ACall RSelf 1 0]; mkMeth 1 KStatic 0 [AEv 3]] [])] [] []
                 [ACall (RCls 1) 1 0] in
  map fst (ms_plan M) = [(1, 3); (1, 1)]%nat /\ map fst (ms_moved M) = [(1, 3)]%nat
  /\ ms_model M = ms_pass M /\ ms_pass_old M <> ms_pass M.
Proof. exact move_static_schedule. Qed.

End Cls.

(* ------------------------------------------------------------------------------------------------ *)
(* Tranche "str": text-level rules (invalid_escape_sequence, deinterpolate_logging_args, delete_commented_code) *)
Require Pyrefact.RulesStrModel Pyrefact.RulesStrProofs.
Module Str.
Import NArith Ascii.
Import ListNotations.
Import Pyrefact.RulesStrModel Pyrefact.RulesStrProofs.

(* invalid_escape_sequence after 9b544c4: when the rule fires, the raw literal denotes the same string *)
Theorem T02s_escape_rule_sound :
  forall uname body, ies_fires uname body = true ->
  exists v, decode uname false false body = Some v /\ decode uname true false body = Some v.
Proof. exact ies_sound. Qed.
Print Assumptions T02s_escape_rule_sound.

(* no valid escape sequence (str or bytes literal): raw and non-raw reading coincide *)
Theorem T02s_escape_all_invalid_same :
  forall uname bytes s, se_all_invalid bytes s = true -> decode uname true bytes s = decode uname false bytes s.
Proof. exact decode_all_invalid_same. Qed.
Print Assumptions T02s_escape_all_invalid_same.

(* ... and only then *)
Theorem T02s_escape_same_only_if_all_invalid :
  forall uname bytes s v,
  decode uname false bytes s = Some v -> decode uname true bytes s = Some v -> se_all_invalid bytes s = true.
Proof. exact decode_same_only_if_all_invalid. Qed.
Print Assumptions T02s_escape_same_only_if_all_invalid.

(* the repaired rule fires exactly on the literals with a backslash and without a valid escape sequence *)
Theorem T02s_escape_rule_fires_iff :
  forall uname body v, decode uname false false body = Some v ->
  (ies_fires uname body = true <-> se_has_bs body = true /\ se_all_invalid false body = true).
Proof. exact ies_fires_iff. Qed.
Print Assumptions T02s_escape_rule_fires_iff.

(* implicit concatenation: the prefix goes to the first piece; the rule compares the whole values *)
Theorem T02s_escape_concat_sound :
  forall uname first rest, ies_fires_concat uname first rest = true ->
  exists v, decode uname false false first = Some v /\ decode uname true false first = Some v.
Proof. exact ies_concat_sound. Qed.
Print Assumptions T02s_escape_concat_sound.

(* the rule before 9b544c4 (placeholder texts "\ooo", "\xhh" in the list of valid escapes) *)
Theorem T02s_escape_old_rule_refuted :
  forall uname, exists body,
  ies_old_fires body = true /\ decode uname false false body <> decode uname true false body.
Proof. exact ies_old_refuted. Qed.
Print Assumptions T02s_escape_old_rule_refuted.

Theorem T02s_escape_old_rule_partial :
  forall uname body, ies_old_fires body = true -> se_none_of se_missing_list body = true ->
  decode uname true false body = decode uname false false body.
Proof. exact ies_old_partial. Qed.
Print Assumptions T02s_escape_old_rule_partial.

Example T02s_escape_old_rule_partial_example :
  let body := map ascii_of_N [97; 92; 100; 92; 46]%N in
  ies_old_fires body = true /\ se_none_of se_missing_list body = true /\ ies_fires (fun _ => None) body = true.
Proof. exact ies_old_partial_example. Qed.

(* deinterpolate_logging_args after 79e10b7 *)
Theorem T02s_logging_rule_partial :
  forall objs ps msg args enabled,
  lg_rule ps = Some (msg, args) -> lg_benign objs ps = true ->
  lg_after objs enabled msg args = lg_before objs enabled ps.
Proof. exact lg_rule_partial. Qed.
Print Assumptions T02s_logging_rule_partial.

Theorem T02s_logging_rule_refuted_custom_format :
  exists objs ps msg args, lg_rule ps = Some (msg, args) /\ lg_after objs true msg args <> lg_before objs true ps.
Proof. exact lg_rule_refuted_custom_format. Qed.
Print Assumptions T02s_logging_rule_refuted_custom_format.

Theorem T02s_logging_rule_refuted_raising_str :
  exists objs ps msg args enabled,
  lg_rule ps = Some (msg, args) /\ lg_after objs enabled msg args <> lg_before objs enabled ps.
Proof. exact lg_rule_refuted_raising_str. Qed.
Print Assumptions T02s_logging_rule_refuted_raising_str.

Theorem T02s_logging_format_call_partial :
  forall objs fmt n msg args enabled,
  lg_rule_format fmt n = Some (msg, args) ->
  exists ps, lg_fparse [] fmt 0 = Some ps /\ length (lg_args ps) = n /\
             (lg_benign objs ps = true -> lg_after objs enabled msg args = lg_before objs enabled ps).
Proof. exact lg_rule_format_partial. Qed.
Print Assumptions T02s_logging_format_call_partial.

(* the guards are needed: a literal % left alone, a format spec squeezed into %s *)
Theorem T02s_logging_noescape_refuted :
  exists objs ps msg args,
  lg_benign objs ps = true /\ lg_rule_noescape ps = Some (msg, args) /\
  lg_after objs true msg args <> lg_before objs true ps.
Proof. exact lg_noescape_refuted. Qed.
Print Assumptions T02s_logging_noescape_refuted.

Theorem T02s_logging_nospec_refuted :
  exists objs ps msg args,
  lg_benign objs ps = true /\ lg_rule_nospec ps = Some (msg, args) /\
  lg_after objs true msg args <> lg_before objs true ps.
Proof. exact lg_nospec_refuted. Qed.
Print Assumptions T02s_logging_nospec_refuted.

(* the rule before 79e10b7: str.format placeholders handed to the logging module; the line is lost *)
Theorem T02s_logging_old_rule_refuted :
  exists objs ps msg args,
  lg_benign objs ps = true /\ lg_rule_old ps = Some (msg, args) /\
  lg_before objs true ps = LEmit (Some [97; 61; 49]%N) /\ lg_after objs true msg args = LEmit None.
Proof. exact lg_rule_old_refuted. Qed.
Print Assumptions T02s_logging_old_rule_refuted.

Example T02s_logging_example :
  let objs := fun _ => lg_o (Some [49]%N) (Some [39; 49; 39]%N) (Some [39; 49; 39]%N) (Some [49]%N) in
  let ps := [PLit [97; 61]%N; PFld 0 CNone None; PLit [32; 53; 37; 32]%N; PFld 1 CRepr None] in
  lg_rule ps = Some ([97; 61; 37; 115; 32; 53; 37; 37; 32; 37; 114]%N, [0; 1]) /\ lg_benign objs ps = true /\
  lg_before objs true ps = LEmit (Some [97; 61; 49; 32; 53; 37; 32; 39; 49; 39]%N).
Proof. exact lg_rule_partial_example. Qed.

(* delete_commented_code *)
Theorem T02s_comments_rule_sound :
  forall parses src,
  (forall l, In l src -> cm_deletable l = true -> cm_line_insig l = true) ->
  cm_sig (cm_rule parses src) = cm_sig src.
Proof. exact cm_rule_sound. Qed.
Print Assumptions T02s_comments_rule_sound.

Theorem T02s_comments_rule_refuted_unprotected :
  exists parses src, cm_sig (cm_rule parses src) <> cm_sig src.
Proof. exact cm_rule_refuted_unprotected. Qed.
Print Assumptions T02s_comments_rule_refuted_unprotected.

Example T02s_comments_example :
  let src := [mkLine 0 false false false [TSig 1; TSig 2; TSig 3]; mkLine 1 true false false [TComment; TNl];
              mkLine 2 true false false [TComment; TNl]; mkLine 3 false false false [TSig 4]] in
  map l_id (cm_rule (cm_table [(1, 2)]) src) = [0; 2; 3] /\ cm_sig (cm_rule (cm_table [(1, 2)]) src) = cm_sig src.
Proof. exact cm_rule_example. Qed.

End Str.
(* ------------------------------------------------------------------------------------------- *)
(* abstraction tranche: overused_constant, missing_context_manager (design/C02_abs.md) *)
Require Pyrefact.RulesAbsModel Pyrefact.RulesAbsProofs.

Module Abs.
Import ListNotations.
Import Pyrefact.RulesAbsModel Pyrefact.RulesAbsProofs.

(* overused_constant, for EVERY program of AbsPy and EVERY plan (literal -> new name) of immutable literals with
   distinct names that do not occur in the program: binding the literals behind the docstring / leading imports and
   replacing their occurrences preserves every run -- outcome incl. returned contents and exception class, heap,
   handles, event trace, oracle position, and every variable except the new names. *)
Theorem T02a_overused_constant_sound : forall p pl,
  plan_imm pl = true -> NoDup (names pl) -> (forall x, In x (names pl) -> maxv p < x) ->
  forall o st, res_rel pl (exec_block o st p) (exec_block o st (oc_with pl p)).
Proof. exact oc_with_sound. Qed.
Print Assumptions T02a_overused_constant_sound.

(* the rule as it is (plan = its own choice of literals, >= 5 occurrences, >= 20 characters): sound whenever every
   chosen literal is immutable ... *)
Theorem T02a_overused_constant_partial : forall p p', oc p = Some p' -> plan_imm (oc_plan p) = true ->
  forall o st, res_rel (oc_plan p) (exec_block o st p) (exec_block o st p').
Proof. exact oc_partial. Qed.
Print Assumptions T02a_overused_constant_partial.

(* ... and refuted for list displays, which the rule admits (F02-81): five lists become one *)
Theorem T02a_overused_constant_refuted_list_display : exists p p' o,
  oc p = Some p' /\ plan_imm (oc_plan p) = false /\
  ~ res_rel (oc_plan p) (exec_block o st0 p) (exec_block o st0 p') /\
  s_tr (snd (exec_block o st0 p)) = [EvCall 0 [RList [RAtom 0 22]]] /\
  s_tr (snd (exec_block o st0 p')) = [EvCall 0 [RList [RAtom 0 22; RAtom 4 5]]].
Proof. exact oc_refuted_list_display. Qed.
Print Assumptions T02a_overused_constant_refuted_list_display.

(* evaluating an immutable literal is pure and yields the same value in every state *)
Theorem T02a_immutable_literal_pure : forall o st l, imm_lit l = true -> eval o st l = EV (litval l) st.
Proof. exact eval_imm. Qed.
Print Assumptions T02a_immutable_literal_pure.

Example T02a_overused_constant_example :
  let p := SImport 0 :: five (EDisp KTup [EAtom 0 22; EAtom 4 5]) ++ [SExpr (ECall 0 [EAtom 0 22; EName 2])] in
  oc p = Some (SImport 0 :: SAssign 6 (EDisp KTup [EAtom 0 22; EAtom 4 5]) :: five (EName 6) ++ [SExpr (ECall 0 [EAtom 0 22; EName 2])])
  /\ plan_imm (oc_plan p) = true.
Proof. exact oc_partial_example. Qed.

(* missing_context_manager (after repairs 7bedbf5, e19a6bf), one rewrite in one statement list, every run: the same
   outcome, and the final state is the same or differs by ONE handle closed (one more EvClose event) *)
Theorem T02a_mcm_sound : forall b b', mcm1 b = Some b' ->
  forall o st, close_rel (exec_block o st b) (exec_block o st b').
Proof. exact mcm1_sound. Qed.
Print Assumptions T02a_mcm_sound.

(* when exactly: runs on which the moved block completes are unchanged ... *)
Theorem T02a_mcm_close_normal : forall o st x r b1 b2 st2,
  existsb (assigns x) b1 = false ->
  exec_block o (opened x r st) b1 = (Normal, st2) ->
  exec_block o st (SWith x r b1 :: b2) = exec_block o st (SOpen x r :: b1 ++ SClose x :: b2).
Proof. exact mcm_close_normal. Qed.
Print Assumptions T02a_mcm_close_normal.

(* ... runs on which it is left by an exception or a return end with the handle closed (the point of the rule) ... *)
Theorem T02a_mcm_close_abrupt : forall o st x r b1 b2 out st2,
  exec_block o (opened x r st) b1 = (out, st2) -> out <> Normal ->
  exec_block o st (SOpen x r :: b1 ++ SClose x :: b2) = (out, st2) /\
  exec_block o st (SWith x r b1 :: b2) = (out, close_h (length (s_files st)) st2).
Proof. exact mcm_close_abrupt. Qed.
Print Assumptions T02a_mcm_close_abrupt.

(* ... and without any close() the handle is closed when the list is left, on every run *)
Theorem T02a_mcm_noclose_exact : forall o st x r rest,
  exec_block o st [SWith x r rest] =
  (fst (exec_block o st (SOpen x r :: rest)), close_h (length (s_files st)) (snd (exec_block o st (SOpen x r :: rest)))).
Proof. exact mcm_noclose_exact. Qed.
Print Assumptions T02a_mcm_noclose_exact.

(* so full-strength equality of runs is refuted, by design *)
Theorem T02a_mcm_strict_refuted : exists b b' o,
  mcm1 b = Some b' /\ exec_block o st0 b <> exec_block o st0 b' /\
  s_tr (snd (exec_block o st0 b')) = EvClose 0 :: s_tr (snd (exec_block o st0 b)).
Proof. exact mcm_strict_refuted. Qed.
Print Assumptions T02a_mcm_strict_refuted.

(* the rule before the repairs *)
Theorem T02a_mcm_old_refuted_rebind : exists b b' o,
  mcm1_old b = Some b' /\ mcm1 b <> Some b' /\
  s_files (snd (exec_block o st0 b)) = [true; false] /\ s_files (snd (exec_block o st0 b')) = [false; true] /\
  ~ close_rel (exec_block o st0 b) (exec_block o st0 b').
Proof. exact mcm_old_refuted_rebind. Qed.
Print Assumptions T02a_mcm_old_refuted_rebind.

Theorem T02a_mcm_old_refuted_nested_return : exists b b' o,
  mcm1_old b = Some b' /\ mcm1 b = None /\
  fst (exec_block o st0 b) = Ret (RHandle 0 true) /\ fst (exec_block o st0 b') = Ret (RHandle 0 true) /\
  nth 0 (s_files (snd (exec_block o st0 b))) false = true /\
  nth 0 (s_files (snd (exec_block o st0 b'))) false = false.
Proof. exact mcm_old_refuted_nested_return. Qed.
Print Assumptions T02a_mcm_old_refuted_nested_return.

(* not a congruence: the with block ends with the list in which it is introduced, the enclosing list may still use the
   handle (F02abs-3) *)
Theorem T02a_mcm_nested_refuted : exists p o,
  mcm p = [SIf (ECall 0 []) [SWith 1 0 [SRead 2 1]] []; SRead 2 1] /\
  fst (exec_block o st0 p) = Normal /\ fst (exec_block o st0 (mcm p)) = Exc XClosed.
Proof. exact mcm_nested_refuted. Qed.
Print Assumptions T02a_mcm_nested_refuted.

Example T02a_mcm_example :
  mcm [SOpen 1 0; SRead 2 1; SClose 1; SExpr (ECall 0 [EName 2])] = [SWith 1 0 [SRead 2 1]; SExpr (ECall 0 [EName 2])]
  /\ mcm [SOpen 1 0; SOpen 3 1; SRead 2 1] = [SWith 1 0 [SWith 3 1 [SRead 2 1]]].
Proof. exact mcm_fires_example. Qed.

End Abs.

(* ------------------------------------------------------------------------------------------- *)
(* iteration tranche: remove_redundant_iter, optimize_contains_types, replace_sorted_heapq
   (design/C02_perf.md). Fragment: integers, lists with identity, tuples, one-shot iterators, generator
   functions g<k>() whose elements come from a world W and whose steps are events; a run ends with an
   exception class or none, an environment and a store (lists, iterator positions, event trace). *)
Require Pyrefact.RulesPerfModel Pyrefact.RulesPerfProofs.

Module Perf.
Import ZArith.
Import ListNotations.
Import Pyrefact.RulesPerfModel Pyrefact.RulesPerfProofs.

(* remove_redundant_iter (after 32fac44, 5ea8100, 608b244): for every module of the fragment, every world and
   every loop budget the rewritten module ends with the same exception class, environment, lists, iterator
   positions and event trace. *)
Theorem T02p_remove_redundant_iter_preserves : forall W fuel p, run W fuel (rri p) = run W fuel p.
Proof. exact rri_preserves. Qed.
Print Assumptions T02p_remove_redundant_iter_preserves.

(* the rule before 32fac44 (any argument): the producer is interleaved with the loop body *)
Theorem T02p_old_iter_generator_refuted :
  exists W fuel p, obs (run W fuel (rri_before_32fac44 p)) <> obs (run W fuel p).
Proof. exact rri_before_32fac44_refuted. Qed.
Print Assumptions T02p_old_iter_generator_refuted.

(* the rule before 608b244 (names of lists): the loop body mutates what it iterates over (F02-65) *)
Theorem T02p_old_iter_snapshot_refuted :
  exists W fuel p, obs (run W fuel (rri_before_608b244 p)) <> obs (run W fuel p).
Proof. exact rri_before_608b244_refuted. Qed.
Print Assumptions T02p_old_iter_snapshot_refuted.

Example T02p_iter_examples :
  rri p_interleave = p_interleave /\ rri p_snapshot = p_snapshot /\
  obs (run W12 5 p_snapshot) = (None, [EvPrint (RList [])]) /\
  obs (run W12 5 (rri_before_608b244 p_snapshot)) = (None, [EvPrint (RList [2%Z])]).
Proof. repeat split; reflexivity. Qed.

(* optimize_contains_types, the wrapper part ('a in list(c)' -> 'a in c', 'a in [c for c in xs]' -> generator;
   after 2835a2e, 5ea8100, cf0e3b9): preserved for every module *)
Theorem T02p_contains_wrappers_preserves : forall W fuel p, run W fuel (oct_wrappers p) = run W fuel p.
Proof. exact oct_wrappers_preserves. Qed.
Print Assumptions T02p_contains_wrappers_preserves.

(* the whole rule, with 'a in [1, 2]' -> 'a in {1, 2}': refuted by an unhashable element (F02-63) ... *)
Theorem T02p_contains_refuted : exists W fuel p, obs (run W fuel (oct p)) <> obs (run W fuel p).
Proof. exact oct_refuted. Qed.
Print Assumptions T02p_contains_refuted.

(* ... and preserved when every tested element is a literal *)
Theorem T02p_contains_partial : forall W fuel p, prog_all oct_safe p = true -> run W fuel (oct p) = run W fuel p.
Proof. exact oct_partial. Qed.
Print Assumptions T02p_contains_partial.

(* the rule before 2835a2e / cf0e3b9 (any argument): an iterator is used up by list() but only up to the first
   hit by `in`; a generator expression stops at the first hit *)
Theorem T02p_old_contains_consumption_refuted :
  exists W fuel p, obs (run W fuel (oct_before_2835a2e p)) <> obs (run W fuel p).
Proof. exact oct_before_2835a2e_refuted. Qed.
Print Assumptions T02p_old_contains_consumption_refuted.

Theorem T02p_old_contains_lazy_refuted :
  exists W fuel p, obs (run W fuel (oct_before_2835a2e p)) <> obs (run W fuel p).
Proof. exact oct_before_cf0e3b9_refuted. Qed.
Print Assumptions T02p_old_contains_lazy_refuted.

Example T02p_contains_examples :
  oct p_consumed = p_consumed /\ oct p_lazy = p_lazy /\
  obs (run W12 5 p_lazy) = (None, [EvPull 0 0; EvPull 0 1; EvDone 0; EvPrint (RBool true)]) /\
  obs (run W12 5 (oct_before_2835a2e p_lazy)) = (None, [EvPull 0 0; EvPrint (RBool true)]).
Proof. repeat split; reflexivity. Qed.

(* replace_sorted_heapq: refuted four ways (open findings) ... *)
Theorem T02p_heapq_empty_refuted : exists W fuel p, obs (run W fuel (hq p)) <> obs (run W fuel p).
Proof. exact hq_refuted_empty. Qed.
Print Assumptions T02p_heapq_empty_refuted.

Theorem T02p_heapq_ties_refuted : exists W fuel p, obs (run W fuel (hq p)) <> obs (run W fuel p).
Proof. exact hq_refuted_ties. Qed.
Print Assumptions T02p_heapq_ties_refuted.

Theorem T02p_heapq_negative_n_refuted : exists W fuel p, obs (run W fuel (hq p)) <> obs (run W fuel p).
Proof. exact hq_refuted_negative_n. Qed.
Print Assumptions T02p_heapq_negative_n_refuted.

Theorem T02p_heapq_tail_zero_refuted : exists W fuel p, obs (run W fuel (hq p)) <> obs (run W fuel p).
Proof. exact hq_refuted_tail_zero. Qed.
Print Assumptions T02p_heapq_tail_zero_refuted.

Example T02p_heapq_empty_classes :
  obs (run W12 5 p_empty) = (Some IndexErr, []) /\ obs (run W12 5 (hq p_empty)) = (Some ValueErr, []).
Proof. exact hq_empty_classes. Qed.

(* ... and preserved when every rewritten site is safe: [0] / [-1] of a non-empty display ([-1] without key),
   [:n] and [-n:] with a positive literal n ([-n:] without key); any argument, consumed or not *)
Theorem T02p_heapq_partial : forall W fuel p, prog_all (hq_ok p) p = true -> run W fuel (hq p) = run W fuel p.
Proof. exact hq_partial. Qed.
Print Assumptions T02p_heapq_partial.

(* the stable sort and min / max: the facts the partial theorem rests on *)
Theorem T02p_sorted_head_is_first_min : forall k l,
  match isort k l with [] => minby k l = None | z :: _ => minby k l = Some z end.
Proof. exact isort_head. Qed.
Print Assumptions T02p_sorted_head_is_first_min.

Theorem T02p_sorted_last_is_max_without_key : forall l,
  match rev (isort false l) with [] => maxby false l = None | z :: _ => maxby false l = Some z end.
Proof. exact isort_last. Qed.
Print Assumptions T02p_sorted_last_is_max_without_key.

(* the congruence all of the above go through: a rewrite of expressions that preserves their evaluation under
   the invariant of a module's globals (names the module never binds are unbound; a name that is only ever
   assigned collections holds one) preserves the run of the module *)
Theorem T02p_congruence : forall W p fe fi ok,
  (forall en e h, ok e = true -> Inv p en -> eval W en (fe e) h = eval W en e h) ->
  (forall en e h, ok e = true -> Inv p en -> eval_it W en (fi e) h = eval_it W en e h) ->
  forall fuel, prog_all ok p = true -> run W fuel (map (map_stmt fe fi) p) = run W fuel p.
Proof. exact run_map. Qed.
Print Assumptions T02p_congruence.

End Perf.

(* ================================================================================================
   Tranche "idx": performance.replace_subscript_looping, fixes.simplify_transposes
   (value semantics of RulesIdxModel: nested lists / tuples, iterators, dictionaries; Type/Index/Key/NameError) *)
Require Pyrefact.RulesIdxModel Pyrefact.RulesIdxProofs.
Module Idx.
Import ZArith.
Import ListNotations.
Import Pyrefact.RulesIdxModel Pyrefact.RulesIdxProofs.

(* replace_subscript_looping, as the code is after 63d3448, anywhere in an expression (used = the names written in
   the module, covers: it lists at least those of e): same value / same exception class in every environment where, at
   each rewritten comprehension, x is not the index and x holds a list, a tuple or nothing iterable at all *)
Theorem T02i_subscript_looping_partial : forall en used e,
  covers used e = true -> sub_ok en e = true -> eval en (sub used e) = eval en e.
Proof. exact sub_partial. Qed.
Print Assumptions T02i_subscript_looping_partial.

(* '[x[i] for i in range(len(x))]' of a list / tuple IS list(x) *)
Theorem T02i_subscript_looping_simple_value : forall en used x i l,
  x <> i -> (lookup en x = Some (VList l) \/ lookup en x = Some (VTup l)) ->
  eval en (ESub x i BHole) = Ok (VList l) /\ eval en (sub used (ESub x i BHole)) = Ok (VList l).
Proof. exact sub_simple_value. Qed.
Print Assumptions T02i_subscript_looping_simple_value.

(* F02idx-1: x[i] of a dictionary looks a key up, iteration yields the keys *)
Theorem T02i_subscript_looping_refuted :
  exists en used e, covers used e = true /\ eval en (sub used e) <> eval en e.
Proof. exact sub_refuted. Qed.
Print Assumptions T02i_subscript_looping_refuted.

(* F02idx-1: len() of an iterator is a TypeError, list() of it is not *)
Theorem T02i_subscript_looping_iterator_refuted :
  exists en used e, covers used e = true /\ eval en e = Err TypeErr /\ exists v, eval en (sub used e) = Ok v.
Proof. exact sub_iterator_refuted. Qed.
Print Assumptions T02i_subscript_looping_iterator_refuted.

(* F02idx-2, the rule before 63d3448: the new name x_i captures a variable of that name; the repaired rule leaves the
   witness alone *)
Theorem T02i_old_subscript_looping_capture_refuted :
  exists en used e, covers used e = true /\ sub used e = e /\ eval en (sub_before_63d3448 used e) <> eval en e.
Proof. exact sub_before_63d3448_refuted. Qed.
Print Assumptions T02i_old_subscript_looping_capture_refuted.

(* the rule before b71cf14: the index used on its own is no longer bound; the repaired rule leaves the witness alone *)
Theorem T02i_old_subscript_looping_index_refuted :
  exists en used e, covers used e = true /\ sub used e = e /\ eval en (sub_before_b71cf14 used e) <> eval en e.
Proof. exact sub_before_b71cf14_refuted. Qed.
Print Assumptions T02i_old_subscript_looping_index_refuted.

Example T02i_sub_examples :
  let e1 := ESub 0%nat 1%nat (BAdd BHole (BInt 1)) in
  sub (used_of en_list e_simple) e_simple = EListOf (EVar 0%nat) /\ sub_ok en_list e_simple = true /\
  sub (used_of en_list e1) e1 = EFor (join 0%nat 1%nat) 0%nat (BAdd (BVar (join 0%nat 1%nat)) (BInt 1)) /\
  covers (used_of en_list e1) e1 = true /\ sub_ok en_list e1 = true /\
  eval en_list e1 = Ok (VList [VInt 2; VInt 3]) /\
  eval en_dict e_simple = Err KeyErr /\ eval en_dict (sub (used_of en_dict e_simple) e_simple) = Ok (VList [VInt 1]) /\
  sub_before_63d3448 (used_of en_capture e_capture) e_capture
  = EFor (join 0%nat 1%nat) 0%nat (BAdd (BVar (join 0%nat 1%nat)) (BVar (join 0%nat 1%nat))).
Proof. repeat split; reflexivity. Qed.

(* simplify_transposes (F02idx-5: no guard). Iterated row by row, zip( *zip( *e)) is e when the rows of e all have
   the same positive length (or e is an error / not iterable: same exception class) *)
Theorem T02i_transposes_rows_partial : forall en e,
  transp_ok (eval en e) = true -> eval en (ERows (EZip (EZip e))) = eval en (ERows e).
Proof. exact transp_rows_partial. Qed.
Print Assumptions T02i_transposes_rows_partial.

(* FULL for the triple: zip( *zip( *zip( *e))) = zip( *e) for every e and every environment *)
Theorem T02i_transposes_triple_preserves : forall en e, eval en (EZip (EZip (EZip e))) = eval en (EZip e).
Proof. exact transp_triple. Qed.
Print Assumptions T02i_transposes_triple_preserves.

(* the type of the value: list(zip( *zip( *x))) is a list of tuples, list(x) a list of lists, although x is rectangular *)
Theorem T02i_transposes_refuted :
  exists en e, transp_ok (eval en (EVar 0%nat)) = true /\ eval en (transp e) <> eval en e.
Proof. exact transp_refuted. Qed.
Print Assumptions T02i_transposes_refuted.

Theorem T02i_transposes_len_refuted : exists en e v, eval en e = Err TypeErr /\ eval en (transp e) = Ok v.
Proof. exact transp_len_refuted. Qed.
Print Assumptions T02i_transposes_len_refuted.

Theorem T02i_transposes_ragged_refuted :
  exists en e, eval en (transp (ERows (EZip (EZip e)))) <> eval en (ERows (EZip (EZip e))).
Proof. exact transp_ragged_refuted. Qed.
Print Assumptions T02i_transposes_ragged_refuted.

Theorem T02i_transposes_empty_rows_refuted :
  exists en e, eval en (transp (ERows (EZip (EZip e)))) <> eval en (ERows (EZip (EZip e))).
Proof. exact transp_empty_rows_refuted. Qed.
Print Assumptions T02i_transposes_empty_rows_refuted.

Example T02i_transp_examples :
  transp (ERows (EZip (EZip (EVar 0%nat)))) = ERows (EVar 0%nat) /\
  transp (EZip (EZip (EZip (EVar 0%nat)))) = EZip (EVar 0%nat) /\
  transp_ok (eval [(0%nat, m22)] (EVar 0%nat)) = true /\
  eval [(0%nat, m22)] (ERows (EZip (EZip (EVar 0%nat)))) = Ok m22 /\
  eval [(0%nat, ragged)] (ERows (EZip (EZip (EVar 0%nat)))) = Ok (VList [VList [VInt 1]; VList [VInt 3]]).
Proof. repeat split; reflexivity. Qed.
End Idx.

(* ================================================================================================
   Tranche "idx", second part: fixes.inline_math_comprehensions over the store semantics of the perf tranche
   (RulesIdxInlModel: the simple statements of RulesPerfModel + z = sum(e) / z = len(e)) *)
Require Pyrefact.RulesIdxInlModel Pyrefact.RulesIdxInlProofs.
Module IdxInl.
Import ZArith.
Import ListNotations.
Import Pyrefact.RulesPerfModel Pyrefact.RulesPerfProofs Pyrefact.RulesIdxInlModel Pyrefact.RulesIdxInlProofs.

(* the step of the rule from ANY state (environment, store) that meets the guard: the value is made of list / tuple /
   sorted / a list comprehension over displays and variables that hold a list of the store or a tuple, it does not
   mention y, the statements in between bind other names to atoms / displays or print them.  Equality of exception,
   environment, lists, iterators and event trace, for every world and every continuation. *)
Theorem T02i_inline_math_step_partial : forall W en h y v mid z ln post,
  step_ok en h y v mid = true ->
  exec_ip W en (IS (SAssign y v) :: mid ++ IMath z ln v :: post) h
  = exec_ip W en (IS (SAssign y v) :: mid ++ IMath z ln (EAtom (AVar y)) :: post) h.
Proof. exact inl_step_partial. Qed.
Print Assumptions T02i_inline_math_step_partial.

(* inside a module: the state reached by the statements before must meet the guard *)
Theorem T02i_inline_math_partial : forall W pre y v mid z ln post,
  (forall en1 h1, exec_ip W [] pre empty_heap = (None, en1, h1) -> step_ok en1 h1 y v mid = true) ->
  run_i W (pre ++ IS (SAssign y v) :: mid ++ IMath z ln v :: post)
  = run_i W (pre ++ IS (SAssign y v) :: mid ++ IMath z ln (EAtom (AVar y)) :: post).
Proof. exact inl_partial. Qed.
Print Assumptions T02i_inline_math_partial.

(* F02idx-6, the rule before 07a567e: a call inside the value runs twice; the repaired rule leaves the module alone *)
Theorem T02i_old_inline_math_twice_refuted :
  exists W p, inl p = p /\ obs (run_i W (inl_before_07a567e p)) <> obs (run_i W p).
Proof. exact inl_before_07a567e_refuted. Qed.
Print Assumptions T02i_old_inline_math_twice_refuted.

(* F02idx-7: the iterator the value is computed from is used up by the first evaluation *)
Theorem T02i_inline_math_used_up_refuted : exists W p, obs (run_i W (inl p)) <> obs (run_i W p).
Proof. exact inl_used_up_refuted. Qed.
Print Assumptions T02i_inline_math_used_up_refuted.

(* the rule before 13da1a3: the list changes through another name in between; the repaired rule leaves it alone *)
Theorem T02i_old_inline_math_alias_refuted :
  exists W p, inl p = p /\ obs (run_i W (inl_before_13da1a3 p)) <> obs (run_i W p).
Proof. exact inl_before_13da1a3_refuted. Qed.
Print Assumptions T02i_old_inline_math_alias_refuted.

Example T02i_inline_examples :
  (* the rule fires on p_fine, at the shape of the theorem, and the guard holds in the state before 'y = sorted(a)' *)
  inl p_fine = IS (SAssign va (EDisp [3; 1; 2])) :: IS (SAssign vy (ESorted false (EAtom (AVar va))))
               :: p_fine_mid ++ [IMath vz false (ESorted false (EAtom (AVar va))); print_z] /\
  (let '(_, en, h) := exec_ip W12 [] [IS (SAssign va (EDisp [3; 1; 2]))] empty_heap in
   step_ok en h vy (ESorted false (EAtom (AVar va))) p_fine_mid) = true /\
  obs (run_i W12 p_fine) = (None, [EvPrint (RInt 3); EvPrint (RInt 6)]) /\
  obs (run_i W12 p_used_up) = (None, [EvPull 0 0; EvPull 0 1; EvDone 0; EvPrint (RInt 3)]) /\
  obs (run_i W12 (inl p_used_up)) = (None, [EvPull 0 0; EvPull 0 1; EvDone 0; EvPrint (RInt 0)]) /\
  obs (run_i W12 p_alias) = (None, [EvPrint (RInt 6)]) /\
  obs (run_i W12 (inl_before_13da1a3 p_alias)) = (None, [EvPrint (RInt 10)]).
Proof. repeat split; reflexivity. Qed.
End IdxInl.
(* ================================================================================================ *)
(* tranche "ctl": abstractions.simplify_if_control_flow over MiniPy (RulesCtlModel.v / RulesCtlProofs.v) *)
Require Pyrefact.RulesCtlModel Pyrefact.RulesCtlProofs.
Module Ctl.
Import ListNotations.
Import Pyrefact.MiniPyModel Pyrefact.RulesCtlModel Pyrefact.RulesCtlProofs.

(* one pass of the rule body (the first if / else in ast.walk order whose branches are equal up to a renaming of
   names, `var_N = name` put in front of both branches, the differing Name nodes replaced), for EVERY MiniPy
   program, EVERY oracle of the opaque calls / unknown conditions and EVERY initial state: the new names are
   var_N names that do not occur in the program, and the program before and after have the same runs -- same
   outcome (incl. the returned value), same oracle position, same event trace, same contents of every variable
   except the new names; termination is preserved in both directions *)
Theorem T02ctl_step_sound : forall p p' tr, sicf_step p = Done p' tr ->
  (forall w, In w (new_names tr) -> VB <= w /\ ~ In w (bvars p)) /\
  forall o st,
    (forall r, runs o st p r -> exists r', runs o st p' r' /\ same_upto (new_names tr) r r') /\
    (forall r', runs o st p' r' -> exists r, runs o st p r /\ same_upto (new_names tr) r r').
Proof. exact sicf_step_sound. Qed.
Print Assumptions T02ctl_step_sound.

(* the rule function (it calls itself on its result until no node is rewritten or alter_code refuses an `elif`):
   same runs up to the contents of the var_N names *)
Theorem T02ctl_rule_sound : forall p o st,
  (forall r, runs o st p r -> exists r', runs o st (sicf p) r' /\ same_low r r') /\
  (forall r', runs o st (sicf p) r' -> exists r, runs o st p r /\ same_low r r').
Proof. exact sicf_sound. Qed.
Print Assumptions T02ctl_rule_sound.

(* ... hence the same observable behaviour of the function (outcome, oracle position, event trace) *)
Theorem T02ctl_rule_obs_equiv : forall p, obs_equiv p (sicf p).
Proof. exact sicf_obs_equiv. Qed.
Print Assumptions T02ctl_rule_obs_equiv.

(* the general statement behind them: rewriting ANY number of assignment-free if / else nodes this way (or back),
   with new names W the program does not mention, from states that agree outside W *)
Theorem T02ctl_rewrite_sound : forall W o p p' st st', brel W p p' -> R W st st' ->
  (forall r, runs o st p r -> exists r', runs o st' p' r' /\ Rres W r r') /\
  (forall r', runs o st' p' r' -> exists r, runs o st p r /\ Rres W r r').
Proof. exact brel_sound. Qed.
Print Assumptions T02ctl_rewrite_sound.

(* non-vacuity: a program with two pairs of differing names and a nested if on which the rule fires; an elif
   chain on which it stops without touching the later candidate *)
Example T02ctl_fires : exists p' tr, sicf_step ex_fire = Done p' tr /\ length tr = 2.
Proof. eexists; eexists; split; [exact ex_fire_fires|reflexivity]. Qed.
Example T02ctl_elif_stops : sicf_step ex_elif = Stop /\ sicf ex_elif = ex_elif.
Proof. exact ex_elif_stops. Qed.
End Ctl.
