(* C02 -- Every individual rewrite rule preserves program behaviour (control-flow tranche).
   Property theorems only; every proof is `exact <lemma>`; Print Assumptions under each. *)
From Coq Require Import List Bool Arith.
Import ListNotations.
Require Import Pyrefact.MiniPyModel Pyrefact.MiniPyProofs Pyrefact.RulesFlowModel Pyrefact.RulesFlowProofs.

(* T02.0  core.is_blocking (as modelled on the fragment) is sound for the executable semantics: a block
   with a blocking statement never completes normally, whatever the oracle answers. *)
Theorem T02_0_blocking_sound :
  forall b, anyb b = true ->
  forall o st out st', runs o st b (out, st') -> out <> Normal.
Proof. exact anyb_blocks. Qed.
Print Assumptions T02_0_blocking_sound.

(* T02.1  fixes.remove_dead_ifs (If/While part, after repairs 1ab9418, 725f2e2): for every program, every
   oracle and every initial state the result runs to the same outcome, trace and environment. *)
Theorem T02_1_remove_dead_ifs_preserves :
  forall p, equiv p (remove_dead_ifs_model p).
Proof. exact remove_dead_ifs_preserves. Qed.
Print Assumptions T02_1_remove_dead_ifs_preserves.

(* T02.2  fixes.remove_redundant_else *)
Theorem T02_2_remove_redundant_else_preserves :
  forall p, equiv p (remove_redundant_else_model p).
Proof. exact remove_redundant_else_preserves. Qed.
Print Assumptions T02_2_remove_redundant_else_preserves.
