(* C02 -- Every individual rewrite rule preserves program behaviour.
   Property theorems only; every proof is `exact <lemma>`; Print Assumptions under each.
   One module per tranche (the tranches define their own MiniPy fragments with overlapping names):
   Flow = control-flow rules (MiniPyModel / RulesFlowModel). *)
From Coq Require Import List Bool Arith.
Require Pyrefact.MiniPyModel Pyrefact.MiniPyProofs Pyrefact.RulesFlowModel Pyrefact.RulesFlowProofs
        Pyrefact.RulesFlowProofs2.

Module Flow.
Import ListNotations.
Import Pyrefact.MiniPyModel Pyrefact.MiniPyProofs Pyrefact.RulesFlowModel Pyrefact.RulesFlowProofs
       Pyrefact.RulesFlowProofs2.

(* T02.0  core.is_blocking (as modelled on the fragment) is sound for the executable semantics: a block
   with a blocking statement never completes normally, whatever the oracle answers. *)
Theorem T02_0_blocking_sound :
  forall b, anyb b = true ->
  forall o st out st', runs o st b (out, st') -> out <> Normal.
Proof. exact anyb_blocks. Qed.
Print Assumptions T02_0_blocking_sound.

(* T02.1  fixes.remove_dead_ifs (If/While part, after repairs 1ab9418, 725f2e2): for every program, every
   oracle and every initial state the result runs to the same outcome, trace and environment. *)
Theorem T02_1_remove_dead_ifs_preserves :
  forall p, equiv p (remove_dead_ifs_model p).
Proof. exact remove_dead_ifs_preserves. Qed.
Print Assumptions T02_1_remove_dead_ifs_preserves.

(* T02.2  fixes.remove_redundant_else *)
Theorem T02_2_remove_redundant_else_preserves :
  forall p, equiv p (remove_redundant_else_model p).
Proof. exact remove_redundant_else_preserves. Qed.
Print Assumptions T02_2_remove_redundant_else_preserves.

(* T02.3  fixes.fix_if_return: `if c: return True / return False` -> `return c` returns the VALUE of c, not
   its truthiness (finding F02-8): refuted for an opaque condition returning a non-bool; sound when every
   rewritten condition is syntactically boolean (a literal or `not ...`); the mirrored form
   (-> `return not c`) is always sound and is covered by the same partial theorem. *)
Theorem T02_3_fix_if_return_refuted :
  exists p, ~ obs_equiv p (fix_if_return_model p).
Proof. exact fix_if_return_refuted. Qed.
Print Assumptions T02_3_fix_if_return_refuted.

Theorem T02_3_fix_if_return_partial :
  forall p, fir_safe (fuel_of p) p = true -> equiv p (fix_if_return_model p).
Proof. exact fix_if_return_partial. Qed.
Print Assumptions T02_3_fix_if_return_partial.

Example T02_3_partial_nontrivial :
  let p := [SEv 1 []; SIf (TNot (Unknown 1 [0])) [SReturn (RVal (VBool true))] []; SReturn (RVal (VBool false))] in
  fir_safe (fuel_of p) p = true /\ fix_if_return_model p <> p.
Proof. exact fix_if_return_partial_nontrivial. Qed.

(* T02.4  fixes.fix_if_assign (after repair 066a7f0): same value-vs-truthiness defect (finding F02-9). *)
Theorem T02_4_fix_if_assign_refuted :
  exists p, ~ obs_equiv p (fix_if_assign_model p).
Proof. exact fix_if_assign_refuted. Qed.
Print Assumptions T02_4_fix_if_assign_refuted.

Theorem T02_4_fix_if_assign_partial :
  forall p, fia_safe (fuel_of p) p = true -> equiv p (fix_if_assign_model p).
Proof. exact fix_if_assign_partial. Qed.
Print Assumptions T02_4_fix_if_assign_partial.

Example T02_4_partial_nontrivial :
  let p := [SIf (TNot (Unknown 1 [])) [SAssign 0 (RVal (VBool true))] [SAssign 0 (RVal (VBool false))];
            SIf (Unknown 2 []) [SAssign 1 (RVal (VBool false))] [SAssign 1 (RVal (VBool true))]] in
  fia_safe (fuel_of p) p = true /\ fix_if_assign_model p <> p.
Proof. exact fix_if_assign_partial_nontrivial. Qed.

(* T02.5  fixes.swap_if_else (explicit and implicit forms, all heuristics, the 5-pass driver): sound for
   every program; the negation it builds is the exact complement on truthiness and performs the same
   oracle draws / events. *)
Theorem T02_5_swap_if_else_preserves :
  forall p, equiv p (swap_if_else_model p).
Proof. exact swap_if_else_preserves. Qed.
Print Assumptions T02_5_swap_if_else_preserves.

Theorem T02_5_negate_complements :
  forall t o st,
    truthy (fst (eval_test o st (negate t))) = negb (truthy (fst (eval_test o st t)))
    /\ snd (eval_test o st (negate t)) = snd (eval_test o st t).
Proof. exact negate_complements. Qed.
Print Assumptions T02_5_negate_complements.

(* T02.6  fixes.delete_unreachable_code (after repairs d6620b5, c9f0b78), on top of T02.0 *)
Theorem T02_6_delete_unreachable_code_preserves :
  forall p, equiv p (delete_unreachable_code_model p).
Proof. exact delete_unreachable_code_preserves. Qed.
Print Assumptions T02_6_delete_unreachable_code_preserves.

(* T02.7  fixes.early_return: the rewritten function body is indistinguishable for every caller (same
   outcome and returned value, same trace, same oracle position); only the dead local environment
   differs (the assignment to the returned variable is gone). *)
Theorem T02_7_early_return_preserves :
  forall p, obs_equiv p (early_return_model p).
Proof. exact early_return_preserves. Qed.
Print Assumptions T02_7_early_return_preserves.

(* T02.8  fixes.early_continue (both forms, after repair bf06b6c) *)
Theorem T02_8_early_continue_preserves :
  forall p, equiv p (early_continue_model p).
Proof. exact early_continue_preserves. Qed.
Print Assumptions T02_8_early_continue_preserves.

(* T02.9  fixes.breakout_common_code_in_ifs (finding F02-20): moving the common FIRST statement of both
   branches in front of the `if` reorders it with the evaluation of the test: refuted.  Sound for every
   program in which each statement moved before an `if` commutes with the tests it passes (literal test, or
   a constant assignment to a variable the test does not read); moves of a common LAST statement behind the
   `if` (decisions B, D, E of the rule) need no side condition and are covered by the same theorem. *)
Theorem T02_9_breakout_common_code_refuted :
  exists p, ~ obs_equiv p (breakout_common_code_model p).
Proof. exact breakout_common_code_refuted. Qed.
Print Assumptions T02_9_breakout_common_code_refuted.

Theorem T02_9_breakout_common_code_partial :
  forall p, bc_safe p = true -> equiv p (breakout_common_code_model p).
Proof. exact breakout_common_code_partial. Qed.
Print Assumptions T02_9_breakout_common_code_partial.

Example T02_9_partial_nontrivial_tail :
  let p := [SIf (Unknown 1 [0]) [SEv 2 []; SEv 1 [0]] [SEv 3 []; SEv 1 [0]]; SEv 4 []] in
  bc_safe p = true /\ breakout_common_code_model p = [SIf (Unknown 1 [0]) [SEv 2 []] [SEv 3 []]; SEv 1 [0]; SEv 4 []].
Proof. exact breakout_partial_nontrivial_tail. Qed.

Example T02_9_partial_nontrivial_head :
  let p := [SIf (Unknown 1 [1]) [SAssign 0 (RVal (VBool true)); SEv 2 [0]] [SAssign 0 (RVal (VBool true)); SEv 3 [0]]] in
  bc_safe p = true /\
  breakout_common_code_model p = [SAssign 0 (RVal (VBool true)); SIf (Unknown 1 [1]) [SEv 2 [0]] [SEv 3 [0]]].
Proof. exact breakout_partial_nontrivial_head. Qed.

(* T02.10  fixes.move_before_loop (on loops with straight-line bodies; findings F02-22, F02-11): refuted
   for a loop that may run zero times, and -- even for a loop that certainly runs -- when the moved variable
   is assigned again later in the body.  Sound when every loop out of which something is moved certainly
   runs at least once (`for` over a non-empty literal, `while <truthy literal>`), the moved statement
   assigns a constant and its variable is assigned nowhere else in the body. *)
Theorem T02_10_move_before_loop_refuted :
  exists p, ~ obs_equiv p (move_before_loop_model p).
Proof. exact move_before_loop_refuted. Qed.
Print Assumptions T02_10_move_before_loop_refuted.

Theorem T02_10_move_before_loop_refuted_reassigned :
  exists p h b e, p = [SLoop h b e] /\ runs_once h = true /\ ~ obs_equiv p (move_before_loop_model p).
Proof. exact move_before_loop_refuted_reassigned. Qed.
Print Assumptions T02_10_move_before_loop_refuted_reassigned.

Theorem T02_10_move_before_loop_partial :
  forall p, mbl_safe (fuel_of p) p = true -> equiv p (move_before_loop_model p).
Proof. exact move_before_loop_partial. Qed.
Print Assumptions T02_10_move_before_loop_partial.

Example T02_10_partial_nontrivial :
  let p := [SLoop (HFor (IKnown 3)) [SEv 1 [1]; SAssign 0 (RVal (VObj true 0)); SEv 2 [0]] []; SEv 3 [0]] in
  mbl_safe (fuel_of p) p = true /\
  move_before_loop_model p =
    [SAssign 0 (RVal (VObj true 0)); SLoop (HFor (IKnown 3)) [SEv 1 [1]; SEv 2 [0]] []; SEv 3 [0]].
Proof. exact move_before_loop_partial_nontrivial. Qed.

(* T02.11  independence from the scheduling of processing.fix (which sites are rewritten in which pass, in which
   order, how many passes): every program reachable from p by applying the unconditional local rewrites
   (dead if/while, redundant else, if/else swap with negated test, deletion after a blocking statement,
   moving a common last statement behind the `if`, appending `continue`) at ANY positions of the tree, in any
   order, any number of times -- and backwards -- is equivalent to p. *)
Theorem T02_11_any_schedule_sound :
  forall p q, ctx local_rule p q -> equiv p q.
Proof. exact any_schedule_sound. Qed.
Print Assumptions T02_11_any_schedule_sound.

End Flow.
