(* C12 -- Pattern matching agrees with its declarative semantics.
   Property theorems only; every proof is `exact <lemma>`; Print Assumptions under each.
   Model: Pyrefact.MatchModel (match_tmpl mirrors core.match_template; Matches is the declarative
   semantics).  Proofs: Pyrefact.MatchProofs. *)
From Coq Require Import List Arith Bool ZArith NArith String.
Import ListNotations.
Require Import Pyrefact.MatchModel Pyrefact.MatchProofs.

(* T12.1 soundness: whatever the matcher reports is an instance of the pattern under the reported
   bindings (consistent wildcards, regex-legal split of every list), for every template in which a
   wildcard's own template binds nothing (what compile_template produces). *)
Theorem T12_1_soundness :
  forall t v r, wf_tmpl t = true -> match_tmpl t v = Some r -> Matches (env_of (snd r)) t v.
Proof. exact match_sound. Qed.
Print Assumptions T12_1_soundness.

(* ... and soundness at full strength is refuted by a wildcard nested directly in a wildcard (the
   inner name is dropped, core.py:264): hand-built templates only. *)
Theorem T12_1_soundness_refuted_unguarded :
  exists t v r, match_tmpl t v = Some r /\ forall rho, ~ Matches rho t v.
Proof. exact sound_refuted_nested_wildcard. Qed.
Print Assumptions T12_1_soundness_refuted_unguarded.

(* T12.2 the count-vector enumeration of _iter_template_permutations is exactly the set of legal
   count vectors of the right sum: the `slack` bound never excludes one (Appendix A.1's open lemma) *)
Theorem T12_2_count_vectors :
  forall (its : list (item tmpl)) n cs, In cs (cvecs its n) <-> legal its cs /\ nsum cs = n.
Proof. exact (@cvecs_spec tmpl). Qed.
Print Assumptions T12_2_count_vectors.

(* T12.2 the list core, both directions: for item lists that bind no names the matcher accepts
   exactly the regular-expression reading *)
Theorem T12_2_list_core :
  forall its rho k l,
    forallb (fun i => nowild (tmpl_of i)) its = true ->
    (match_tmpl (TList its) (VL k l) <> None <-> LMatch (Matches rho) its l).
Proof. exact list_core_exact. Qed.
Print Assumptions T12_2_list_core.

(* ... and for every binding-free template (types, tuples, sets, lists, nodes, {{...}}) *)
Theorem T12_2_exact_binding_free :
  forall t rho v, nowild t = true -> (match_tmpl t v <> None <-> Matches rho t v).
Proof. exact match_exact_nowild. Qed.
Print Assumptions T12_2_exact_binding_free.

(* T12.3 completeness for linear templates (each name once, in unquantified positions) *)
Theorem T12_3_completeness_partial :
  forall t rho v, linear t = true -> Matches rho t v -> match_tmpl t v <> None.
Proof. exact match_complete_linear. Qed.
Print Assumptions T12_3_completeness_partial.

(* R12.4 completeness at full strength is refuted (known findings F12-1, F12-2) *)
Theorem R12_4_completeness_refuted_no_backtracking :
  exists t v rho, wf_tmpl t = true /\ Matches rho t v /\ match_tmpl t v = None.
Proof. exact complete_refuted_no_backtracking. Qed.
Print Assumptions R12_4_completeness_refuted_no_backtracking.

Theorem R12_4_completeness_refuted_named_quantifier :
  exists t v rho, wf_tmpl t = true /\ Matches rho t v /\ match_tmpl t v = None.
Proof. exact complete_refuted_named_quantifier. Qed.
Print Assumptions R12_4_completeness_refuted_named_quantifier.

(* T12.5 reflexivity: every tree matches the template it embeds to, binding nothing *)
Theorem T12_5_reflexivity :
  forall v, wf_value v = true -> match_tmpl (embed v) v = Some (Some v, []).
Proof. exact match_reflexive. Qed.
Print Assumptions T12_5_reflexivity.

(* every result binds each name at most once and only names of the template *)
Theorem T12_result_names :
  forall t v r, match_tmpl t v = Some r -> incl (bnames (snd r)) (names t) /\ NoDup (bnames (snd r)).
Proof. exact result_names. Qed.
Print Assumptions T12_result_names.

Example T12_guards_nonvacuous : wf_tmpl R1_t = true /\ linear R1_t = false.
Proof. exact wf_example_repeated_names. Qed.
