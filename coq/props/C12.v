(* C12 -- Pattern matching agrees with its declarative semantics.
   Property theorems only; every proof is `exact <lemma>`; Print Assumptions under each.
   Model: Pyrefact.MatchModel (match_tmpl mirrors core.match_template; Matches is the declarative
   semantics).  Proofs: Pyrefact.MatchProofs. *)
From Coq Require Import List Arith Bool ZArith NArith String.
Import ListNotations.
Require Import Pyrefact.MatchModel Pyrefact.MatchProofs.

(* T12.1 soundness: whatever the matcher reports is an instance of the pattern under the reported
   bindings (consistent wildcards, regex-legal split of every list), for every template in which a
   wildcard's own template binds nothing (what compile_template produces). *)
Theorem T12_1_soundness :
  forall t v r, wf_tmpl t = true -> match_tmpl t v = Some r -> Matches (env_of (snd r)) t v.
Proof. exact match_sound. Qed.
Print Assumptions T12_1_soundness.

Theorem T12_1_soundness_env :
  forall t v r, wf_tmpl t = true -> match_tmpl t v = Some r ->
    exists rho, (forall n w, In (n, w) (snd r) -> rho n = Some w) /\ Matches rho t v.
Proof. exact match_sound_ex. Qed.
Print Assumptions T12_1_soundness_env.

(* ... and soundness at full strength is refuted by a wildcard nested directly in a wildcard (the
   inner name is dropped, core.py:264): hand-built templates only. *)
Theorem T12_1_soundness_refuted_unguarded :
  exists t v r, match_tmpl t v = Some r /\ forall rho, ~ Matches rho t v.
Proof. exact sound_refuted_nested_wildcard. Qed.
Print Assumptions T12_1_soundness_refuted_unguarded.

(* T12.2 the count-vector enumeration of _iter_template_permutations is exactly the set of legal
   count vectors of the right sum: the `slack` bound never excludes one (Appendix A.1's open lemma) *)
Theorem T12_2_count_vectors :
  forall (its : list (item tmpl)) n cs, In cs (cvecs its n) <-> legal its cs /\ nsum cs = n.
Proof. exact (@cvecs_spec tmpl). Qed.
Print Assumptions T12_2_count_vectors.

(* T12.2 the list core, both directions: for item lists that bind no names the matcher accepts
   exactly the regular-expression reading *)
Theorem T12_2_list_core :
  forall its rho k l,
    forallb (fun i => nowild (tmpl_of i)) its = true ->
    (match_tmpl (TList its) (VL k l) <> None <-> LMatch (Matches rho) its l).
Proof. exact list_core_exact. Qed.
Print Assumptions T12_2_list_core.

(* ... and for every binding-free template (types, tuples, sets, lists, nodes, {{...}}) *)
Theorem T12_2_exact_binding_free :
  forall t rho v, nowild t = true -> (match_tmpl t v <> None <-> Matches rho t v).
Proof. exact match_exact_nowild. Qed.
Print Assumptions T12_2_exact_binding_free.

(* T12.3 completeness for linear templates (each name once, in unquantified positions) *)
Theorem T12_3_completeness_partial :
  forall t rho v, linear t = true -> Matches rho t v -> match_tmpl t v <> None.
Proof. exact match_complete_linear. Qed.
Print Assumptions T12_3_completeness_partial.

(* R12.4 completeness at full strength is refuted (known findings F12-1, F12-2) *)
Theorem R12_4_completeness_refuted_no_backtracking :
  exists t v rho, wf_tmpl t = true /\ Matches rho t v /\ match_tmpl t v = None.
Proof. exact complete_refuted_no_backtracking. Qed.
Print Assumptions R12_4_completeness_refuted_no_backtracking.

Theorem R12_4_completeness_refuted_named_quantifier :
  exists t v rho, wf_tmpl t = true /\ Matches rho t v /\ match_tmpl t v = None.
Proof. exact complete_refuted_named_quantifier. Qed.
Print Assumptions R12_4_completeness_refuted_named_quantifier.

(* T12.5 reflexivity: every tree matches the template it embeds to, binding nothing *)
Theorem T12_5_reflexivity :
  forall v, wf_value v = true -> match_tmpl (embed v) v = Some (Some v, []).
Proof. exact match_reflexive. Qed.
Print Assumptions T12_5_reflexivity.

(* every result binds each name at most once and only names of the template *)
Theorem T12_result_names :
  forall t v r, match_tmpl t v = Some r -> incl (bnames (snd r)) (names t) /\ NoDup (bnames (snd r)).
Proof. exact result_names. Qed.
Print Assumptions T12_result_names.

Example T12_guards_nonvacuous : wf_tmpl R1_t = true /\ linear R1_t = false.
Proof. exact wf_example_repeated_names. Qed.

(* T12.6 search.  ast.walk (BFS with the height as fuel) enumerates exactly the descendants *)
Theorem T12_6_walk_all_subnodes : forall root n, In n (ast_walk root) <-> subnode n root.
Proof. exact ast_walk_spec. Qed.
Print Assumptions T12_6_walk_all_subnodes.

(* expression / statement patterns: every reported occurrence is a sub-node of that class that
   matches, and every matching sub-node is reported (once per node identity) *)
Theorem T12_6_search_sound :
  forall root tg fs n r,
    In (n, r) (walk_wildcard root (TNode tg fs)) ->
    subnode n root /\ vtag n = tg /\ match_tmpl (TNode tg fs) n = Some r.
Proof. exact walk_wildcard_node_sound. Qed.
Print Assumptions T12_6_search_sound.

Theorem T12_6_search_complete :
  forall root tg fs n r,
    subnode n root -> match_tmpl (TNode tg fs) n = Some r ->
    exists n' r', In (n', r') (walk_wildcard root (TNode tg fs)) /\
                  ((n', r') = (n, r) \/ same_node n n' = true).
Proof. exact walk_wildcard_node_complete. Qed.
Print Assumptions T12_6_search_complete.

(* ... but a pattern that is a single wildcard is never found (known finding F12-3) *)
Theorem R12_6_bare_wildcard_never_found : forall root n c t, walk_wildcard root (TWild n c t) = [].
Proof. exact walk_wildcard_bare_wildcard. Qed.
Print Assumptions R12_6_bare_wildcard_never_found.

(* statement-sequence patterns: exactly the windows (contiguous runs of the pattern's length) of the
   body / orelse of the walked scopes on which the element matches merge consistently *)
Theorem T12_6_windows :
  forall k (l w : list value), 1 <= k ->
    (In w (windows k l) <-> List.length w = k /\ exists pre post, l = pre ++ w ++ post).
Proof. exact (@windows_spec value). Qed.
Print Assumptions T12_6_windows.

Theorem T12_6_sequence_search :
  forall order root ts w b,
    In (w, b) (walk_sequence order root ts) <->
    exists sc body rs,
      In sc (map fst (walk_wildcard root (TOr (map (fun g => TType [g]) order)))) /\
      In body (bodies sc) /\ In w (windows (List.length ts) body) /\
      zip_match ts w = Some rs /\ merge_all [] (map Some rs) = Some b.
Proof. exact walk_sequence_spec. Qed.
Print Assumptions T12_6_sequence_search.

Theorem T12_6_sequence_scopes :
  forall order root sc,
    In sc (map fst (walk_wildcard root (TOr (map (fun g => TType [g]) order)))) ->
    subnode sc root /\ In (vtag sc) order.
Proof. exact walk_sequence_scopes. Qed.
Print Assumptions T12_6_sequence_scopes.

(* the searched block kinds, re-checked against constants.AST_TYPES_WITH_BODY/ORELSE of /repo on
   every run: modules, definitions, if/for/while/with -- nothing from try/finally/match *)
Theorem T12_6_body_kinds : forall g, In g body_kinds <-> In g stated_kinds.
Proof. exact body_kinds_spec. Qed.
Print Assumptions T12_6_body_kinds.
