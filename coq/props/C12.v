(* C12 -- placeholder until MatchProofs.v lands *)
From Coq Require Import List.
Require Import Pyrefact.MatchModel.
Theorem T12_placeholder : forall v, match_tmpl TAny v <> None.
Proof. intros v; discriminate. Qed.
Print Assumptions T12_placeholder.
