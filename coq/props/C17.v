From Coq Require Import List ZArith Bool Lia.
Require Import Pyrefact.BoundModel.
Open Scope Z_scope.
Theorem placeholder_opposite_involutive : forall o, opposite (opposite o) = o.
Proof. destruct o; reflexivity. Qed.
Print Assumptions placeholder_opposite_involutive.
