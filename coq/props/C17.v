(* C17 -- Boolean, comparison and range rewrites are logically equivalent.
   Property theorems only; every proof is `exact <lemma>`; Print Assumptions under each. *)
From Coq Require Import List ZArith Bool Lia.
Import ListNotations.
Require Import Pyrefact.Ops PyrefactGen.Tables Pyrefact.BoundModel Pyrefact.BoolRwModel Pyrefact.BoundProofs.
Require Import Pyrefact.RangeModel Pyrefact.RangeProofs.
Require Import Pyrefact.BoundValueProofs Pyrefact.BoolEquivModel Pyrefact.BoolEquivProofs.
Require Import Pyrefact.SumPolyModel Pyrefact.SumPolyProofs.
From Coq Require Import QArith.
Open Scope Z_scope.

(* T17.1 the regenerated REVERSE_OPERATOR_MAPPING is total and maps every operator to its negation
   (for every pair of integers; membership / identity are arbitrary relations). *)
Theorem T17_1_reverse_total : forall o, reverse_op o <> None.
Proof. exact reverse_op_total. Qed.
Print Assumptions T17_1_reverse_total.

Theorem T17_1_reverse_negates :
  forall mem same o o' x y,
    reverse_op o = Some o' -> cmpop_sem mem same o' x y = negb (cmpop_sem mem same o x y).
Proof. exact reverse_op_negates. Qed.
Print Assumptions T17_1_reverse_negates.

(* T17.2 _negate_condition: for every condition tree and every valuation the negated condition has
   the opposite truth value and evaluates exactly the same opaque terms in the same order. *)
Theorem T17_2_negate_condition :
  forall mem same term atom c,
    ceval mem same term atom (negate c) =
      (negb (fst (ceval mem same term atom c)), snd (ceval mem same term atom c)).
Proof. exact negate_sound. Qed.
Print Assumptions T17_2_negate_condition.

(* T17.3 the 6x6 bound table is sound for EVERY integer x and all constants. *)
Theorem T17_3_table_sound :
  forall o1 c1 o2 c2 x,
    let v := table o1 c1 o2 c2 in
    let p := cmp_sem o1 x c1 in
    let q := cmp_sem o2 x c2 in
    (v_false v = true -> p && q = false) /\
    (v_true v = true -> p || q = true) /\
    (v_and v = RmFirst -> implies q p) /\ (v_and v = RmSecond -> implies p q) /\
    (v_or v = RmFirst -> implies p q) /\ (v_or v = RmSecond -> implies q p).
Proof. exact table_sound. Qed.
Print Assumptions T17_3_table_sound.

(* T17.3b the table's verdict depends only on the operator pair and on compare c1 c2, so the
   correspondence enumeration over constants {0,1,2} is complete for the table. *)
Theorem T17_3b_table_depends_on_compare :
  forall o1 o2 c1 c2 d1 d2, (c1 ?= c2) = (d1 ?= d2) -> table o1 c1 o2 c2 = table o1 d1 o2 d2.
Proof. exact table_depends_on_compare. Qed.
Print Assumptions T17_3b_table_depends_on_compare.

(* T17.3 n-ary: the whole BoolOp branch of simplify_boolean_expressions (opposite operands, nested
   same-operator flattening, pair scan, triple rule, direct-operand removal, constant folding)
   preserves the truth value for every operand list of every length and every valuation. *)
Theorem T17_3_simplify_sound :
  forall isand vs rho sigma,
    match simplify isand vs with
    | RConst b => eval_list rho sigma isand vs = b
    | RValues vs' => eval_list rho sigma isand vs' = eval_list rho sigma isand vs
    | RNone => True
    end.
Proof. exact simplify_sound. Qed.
Print Assumptions T17_3_simplify_sound.

(* T17.4 remove_redundant_boolop_values: for every mask and every operand list consistent with it,
   the kept operands give the same VALUE (not just truthiness) and evaluate the same unknown
   operands in the same order. *)
Theorem T17_4_redundant_sound :
  forall (truth : Z -> bool) isand mask (ops : list (nat * Z)),
    length mask = length ops -> ops <> [] ->
    NoDup (map fst ops) ->
    Forall2 (consistent Z truth) mask (map snd ops) ->
    let kept := keep (redundant isand mask) ops in
    let unk := unknown_ids mask ops in
    kept <> [] /\
    fst (bool_val Z truth isand kept) = fst (bool_val Z truth isand ops) /\
    filter (fun i => existsb (Nat.eqb i) unk) (snd (bool_val Z truth isand kept)) =
    filter (fun i => existsb (Nat.eqb i) unk) (snd (bool_val Z truth isand ops)).
Proof. exact redundant_sound. Qed.
Print Assumptions T17_4_redundant_sound.

(* T17.9 / R17.10 sum(range(a, b)): the closed form is right for a <= b and refuted for b < a
   (known finding F17-1). *)
Theorem T17_9_sum_range_partial :
  forall a b, a <= b -> 2 * sum_range a b = sum_range_closed2 a b.
Proof. exact sum_range_closed_form. Qed.
Print Assumptions T17_9_sum_range_partial.

Theorem R17_10_sum_range_refuted :
  exists a b, b < a /\ 2 * sum_range a b <> sum_range_closed2 a b.
Proof. exact sum_range_closed_form_refuted. Qed.
Print Assumptions R17_10_sum_range_refuted.

(* non-vacuity: a 4-operand formula on which three different parts of the analysis fire *)
Example T17_example :
  simplify true [OCmp 0 BGt 1 false; OCmp 0 BGe 1 false; OVar 0; OCmp 0 BLt 5 false]
  = RValues [OCmp 0 BGt 1 false; OVar 0; OCmp 0 BLt 5 false].
Proof. vm_compute. reflexivity. Qed.

(* T17.7 simplify_constrained_range (after the repair commit): for every list of range arguments
   (int literals or arbitrary expressions, whose run-time values rho is quantified over), every
   positive literal step, every list of filters of any length in any order (comparisons with any
   int constant on either side, opaque conditions interpreted by any sigma), the comprehension over
   the new range arguments with the redundant filters replaced by True enumerates EXACTLY the same
   list of elements in the same order. *)
Theorem T17_7_fold_sound :
  forall rho sigma args cs args' red,
    fold_range args cs = VFold args' red ->
    length red = length cs /\
    comp_sem rho sigma args' (mask_true red cs) = comp_sem rho sigma args cs.
Proof. exact fold_sound. Qed.
Print Assumptions T17_7_fold_sound.

(* T17.7b the empty verdict (comprehension replaced by one over ()) is right. *)
Theorem T17_7b_fold_empty_sound :
  forall rho sigma args cs, fold_range args cs = VEmpty -> comp_sem rho sigma args cs = [].
Proof. exact fold_empty_sound. Qed.
Print Assumptions T17_7b_fold_empty_sound.

(* T17.7c non-literal bounds are never overwritten or dropped and the rule only fires for a positive
   literal step. *)
Theorem T17_7c_fold_args_shape :
  forall args cs args' red,
    fold_range args cs = VFold args' red ->
    exists a0 a1 st s e,
      normalise args = Some (a0, a1, AInt st) /\ 0 < st /\
      args' = out_args a0 a1 s e st /\
      (lit a0 = None -> s = None) /\ (lit a1 = None -> e = None).
Proof. exact fold_args_shape. Qed.
Print Assumptions T17_7c_fold_args_shape.

(* R17.8 the pre-repair clauses (old_fold_range) are refuted: x <= stop, misaligned start for
   step > 1, dropped step, overwritten unknown bound, dead negative-step guard (fixed: F17-4..7). *)
Theorem R17_8_old_fold_refuted :
  old_wrong [AInt 0; AInt 5] [RCmp RLe 5 false] /\
  old_wrong [AInt 0; AInt 10; AInt 2] [RCmp RGt 2 false] /\
  old_wrong [AInt 0; AInt 10; AInt 2] [RCmp RLt 5 false] /\
  old_wrong [AInt 0; ASym 0] [RCmp RLt 5 false] /\
  old_wrong [AInt 10; AInt 0; AInt (-1)] [RCmp RGt 2 false].
Proof. exact old_fold_refuted. Qed.
Print Assumptions R17_8_old_fold_refuted.

(* non-vacuity: symbolic stop, step 3, opaque + unrecognised filters, two folded filters *)
Example T17_7_example :
  fold_range [AInt (-1); ASym 0; AInt 3]
             [ROther 0; RCmp RGt 2 false; RCmp RLe 6 true; RCmp RLt 9 false; RCmp RNe 5 false]
  = VFold [AInt 8; ASym 0; AInt 3] [false; true; true; false; false].
Proof. vm_compute. reflexivity. Qed.
Example T17_7b_example :
  fold_range [AInt (-1); AInt 89] [ROther 0; ROther 1; RCmp REq 89 false] = VEmpty.
Proof. vm_compute. reflexivity. Qed.

(* T17.3v the BoolOp branch after the value-context repair (7b8d685): a node is rewritten only where
   just its truth value is used (ctx = true) or where it is boolean valued; in the first case the TRUTH
   value is preserved, in the second the VALUE (Python's and/or evaluate to an operand; OVar i is any
   expression with an arbitrary bool or integer value tau i) -- for every operand list, every integer
   valuation and every tau. *)
Theorem T17_3v_simplify_ctx_sound :
  forall ctx isand vs rho tau,
    match simplify_ctx ctx isand vs with
    | RConst b =>
        if ctx then truthy (opval rho tau (OBool isand vs)) = b
        else opval rho tau (OBool isand vs) = VB b
    | RValues vs' =>
        if ctx then truthy (opval rho tau (OBool isand vs')) = truthy (opval rho tau (OBool isand vs))
        else opval rho tau (OBool isand vs') = opval rho tau (OBool isand vs)
    | RNone => True
    end.
Proof. exact simplify_ctx_sound. Qed.
Print Assumptions T17_3v_simplify_ctx_sound.

(* R17.3w the pre-repair rule (no guard) changes the value: `x and True` -> `x` for x = 2
   (fixed: F17-10 / F15-6 / C01 F01-30). *)
Theorem R17_3w_unguarded_value_refuted :
  exists isand vs vs' rho tau,
    simplify isand vs = RValues vs' /\ opval rho tau (OBool isand vs') <> opval rho tau (OBool isand vs).
Proof. exact simplify_value_refuted. Qed.
Print Assumptions R17_3w_unguarded_value_refuted.

(* T17.11 the propositional checker used to validate every output of the sympy rule: it accepts a
   pair exactly when the two formulas have the same truth value under every valuation of the atoms
   (any atom type with a correct equality test). *)
Theorem T17_11_equiv_dec_sound :
  forall (A : Type) (aeqb : A -> A -> bool), (forall a b, aeqb a b = true <-> a = b) ->
  forall f g : pform A, equiv_dec aeqb f g = true -> forall v, peval v f = peval v g.
Proof. exact equiv_dec_sound. Qed.
Print Assumptions T17_11_equiv_dec_sound.

Theorem T17_11_equiv_dec_complete :
  forall (A : Type) (aeqb : A -> A -> bool) (f g : pform A),
    (forall v, peval v f = peval v g) -> equiv_dec aeqb f g = true.
Proof. exact equiv_dec_complete. Qed.
Print Assumptions T17_11_equiv_dec_complete.

(* T17.11a representative points: conditions built from `x op c`, `c op x`, bare integer names and
   opaque operands agree under ALL integer valuations as soon as they agree under the valuations that
   send every variable to 0 or to c-1, c, c+1 for a constant c occurring in them. *)
Theorem T17_11a_rep_points_suffice :
  forall (f g : form) C,
    incl (consts f ++ consts g) C ->
    (forall rho sigma, (forall x, In (rho x) (points C)) -> teval rho sigma f = teval rho sigma g) ->
    forall rho sigma, teval rho sigma f = teval rho sigma g.
Proof. exact rep_points_suffice. Qed.
Print Assumptions T17_11a_rep_points_suffice.

(* T17.11b truth equivalence over the integers is decided by the finite grid *)
Theorem T17_11b_equiv_dec_arith_sound :
  forall f g : form, equiv_dec_arith f g = true -> forall rho sigma, teval rho sigma f = teval rho sigma g.
Proof. exact equiv_dec_arith_sound. Qed.
Print Assumptions T17_11b_equiv_dec_arith_sound.

Theorem T17_11b_equiv_dec_arith_complete :
  forall f g : form, (forall rho sigma, teval rho sigma f = teval rho sigma g) -> equiv_dec_arith f g = true.
Proof. exact equiv_dec_arith_complete. Qed.
Print Assumptions T17_11b_equiv_dec_arith_complete.

(* T17.11c a pair accepted by the value checker has the same VALUE under every integer valuation *)
Theorem T17_11c_vequiv_dec_sound :
  forall f g : form, vequiv_dec f g = true -> forall rho sigma, veval rho sigma f = veval rho sigma g.
Proof. exact vequiv_dec_sound. Qed.
Print Assumptions T17_11c_vequiv_dec_sound.

(* T17.11d without bare names among the operands truth equivalence IS value equivalence (this is the
   situation in which the repaired sympy rule fires in a value context) *)
Theorem T17_11d_names_free_truth_is_value :
  forall f g : form,
    names_free f = true -> names_free g = true -> equiv_dec_arith f g = true ->
    forall rho sigma, veval rho sigma f = veval rho sigma g.
Proof. exact names_free_truth_is_value. Qed.
Print Assumptions T17_11d_names_free_truth_is_value.

(* R17.12 `(a and b) or (a and not b)` -> `a` (what sympy returns): same truth value under every
   valuation, different VALUE for a = 2, b = 3 (fixed: F17-11; the rule no longer fires where the
   value is used). *)
Theorem R17_12_truth_not_value :
  (equiv_dec atom_eqb r1712_in r1712_out = true) /\
  (vequiv_dec r1712_in r1712_out = false) /\
  (exists rho sigma, veval rho sigma r1712_in <> veval rho sigma r1712_out).
Proof. exact truth_not_value. Qed.
Print Assumptions R17_12_truth_not_value.

(* T17.9b sum(range(a, b)) after the repair of literal empty ranges (c4152d3): the emitted value is
   right whenever a <= b or both bounds are literals; R17.10b: still refuted for symbolic bounds. *)
Theorem T17_9b_sum_range_out_sound :
  forall literal a b, (a <= b \/ literal = true)%Z -> (2 * sum_range a b = sum_range_out2 literal a b)%Z.
Proof. exact sum_range_out_sound. Qed.
Print Assumptions T17_9b_sum_range_out_sound.

Theorem R17_10b_sum_range_symbolic_refuted :
  exists a b, (b < a)%Z /\ (2 * sum_range a b <> sum_range_out2 false a b)%Z.
Proof. exact sum_range_out_symbolic_refuted. Qed.
Print Assumptions R17_10b_sum_range_symbolic_refuted.

(* T17.13 the discrete fundamental theorem used to validate the closed forms sympy computes: F with
   F (k + 1) = F k + f k sums f over range(a, b) to F b - F a for every a <= b; and its use: an emitted
   closed form `out` for sum(elt for x in range(lo, hi)) is right at a valuation as soon as such an F
   with F lo = 0 and F hi = out exists (the generated instance files prove the premises with `field`). *)
Theorem T17_13_telescope :
  forall (F f : Z -> Q), (forall k : Z, (F (k + 1)%Z == F k + f k)%Q) ->
  forall a b, (a <= b)%Z -> (qsumf f (zrange a b 1) == F b - F a)%Q.
Proof. exact telescope. Qed.
Print Assumptions T17_13_telescope.

Theorem T17_13_closed_form_valid :
  forall x lo hi elt out rho a b (F : Z -> Q),
    zeval rho lo = Some a -> zeval rho hi = Some b -> (a <= b)%Z ->
    (forall k : Z, (F (k + 1)%Z == F k + aeval (upd rho x k) elt)%Q) ->
    (F a == 0)%Q -> (F b == aeval rho out)%Q ->
    exists v, comp_sum [GRange x lo hi (ANum 1)] rho elt = Some v /\ (v == aeval rho out)%Q.
Proof. exact closed_form_valid. Qed.
Print Assumptions T17_13_closed_form_valid.

(* ---- chained comparisons as operands (round 5, seed C17-d) ---- *)
Require Import Pyrefact.ChainProofs.

(* T17.14a a chained comparison `t0 op1 t1 op2 t2 ..` (BoundModel.OChain; every middle term evaluated once)
   has the truth value of the conjunction of its links, for every valuation. *)
Theorem T17_14a_chain_is_conjunction :
  forall rho sigma t0 ls, eval rho sigma (OChain t0 ls) = eval_list rho sigma true (links_of t0 ls).
Proof. exact chain_is_conjunction. Qed.
Print Assumptions T17_14a_chain_is_conjunction.

(* T17.14b the rule as it is (a chain is an opaque operand: no bound is read from it, it is kept or dropped as a
   whole) preserves the value / truth value of operand lists that contain chains. *)
Theorem T17_14b_chain_operand_opaque_sound :
  forall ctx isand pre t0 ls post rho tau,
    let vs := pre ++ OChain t0 ls :: post in
    match simplify_ctx ctx isand vs with
    | RConst b =>
        if ctx then truthy (opval rho tau (OBool isand vs)) = b
        else opval rho tau (OBool isand vs) = VB b
    | RValues vs' =>
        if ctx then truthy (opval rho tau (OBool isand vs')) = truthy (opval rho tau (OBool isand vs))
        else opval rho tau (OBool isand vs') = opval rho tau (OBool isand vs)
    | RNone => True
    end.
Proof. exact chain_operand_opaque_sound. Qed.
Print Assumptions T17_14b_chain_operand_opaque_sound.

(* T17.14c letting the links of chains take part in the bound analysis is sound for an `and` node ... *)
Theorem T17_14c_links_and_sound :
  forall vs rho sigma,
    match simplify_links true vs with
    | RConst b => eval_list rho sigma true vs = b
    | RValues ws =>
        exists vs', ws = map (with_links true) vs' /\ incl vs' vs /\
                    eval_list rho sigma true vs' = eval_list rho sigma true vs
    | RNone => True
    end.
Proof. exact links_and_sound. Qed.
Print Assumptions T17_14c_links_and_sound.

(* R17.14 ... and wrong for an `or` node: `0 < x < 10 or y > 3` -> True, false at x = y = -40. *)
Theorem R17_14_links_or_refuted :
  exists vs rho sigma b, simplify_links false vs = RConst b /\ eval_list rho sigma false vs <> b.
Proof. exact links_or_refuted. Qed.
Print Assumptions R17_14_links_or_refuted.

Theorem R17_14b_with_links_or_refuted :
  exists rho sigma o, eval rho sigma (with_links false o) <> eval rho sigma o.
Proof. exact with_links_or_refuted. Qed.
Print Assumptions R17_14b_with_links_or_refuted.
