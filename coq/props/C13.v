(* C13 -- Match objects and the re-like API are geometrically coherent.
   Property theorems only; every proof is `exact <lemma>`; Print Assumptions under each. *)
From Coq Require Import List ZArith NArith Bool Lia.
Import ListNotations.
Require Import Pyrefact.Base Pyrefact.SpanModel Pyrefact.SpanProofs Pyrefact.SpanIgnoreBridge.
Require Pyrefact.IgnoreModel.
Open Scope Z_scope.

(* T13.1 Match line/column: for EVERY source and every offset p inside it, the reported line is
   CPython's line number of p, the column counts the characters since the start of that line, the
   line table entry of the line plus the column is p, and converting CPython's (line, utf-8 byte
   column) of p back with _get_charno gives p again. *)
Theorem T13_1_linecol_roundtrip :
  forall s p, (p <= length s)%nat ->
    exists l c, lineno_col s (Z.of_nat p) = Some (l, c)
      /\ l = fst (tok_pos s p)
      /\ 0 <= c <= Z.of_nat p
      /\ py_index (line_starts s) (l - 1) = Some (Z.of_nat p - c)
      /\ get_charno s l (snd (tok_pos s p)) = Some (Z.of_nat p).
Proof. exact match_linecol_roundtrip. Qed.
Print Assumptions T13_1_linecol_roundtrip.

(* T13.2 (lineno, col_offset) -> character offset is exact for every source: non-ASCII text before
   the position, every line-end kind, form feeds and Unicode separators anywhere (no guard needed
   after the repairs F13-1, F13-2, F13-5) *)
Theorem T13_2_charno_of_position :
  forall s p, (p <= length s)%nat ->
    get_charno s (fst (tok_pos s p)) (snd (tok_pos s p)) = Some (Z.of_nat p).
Proof. exact get_charno_tok_pos. Qed.
Print Assumptions T13_2_charno_of_position.

(* the two formulations of the reference location (structural / left-to-right scan) agree *)
Theorem T13_2_reference_location_scan : forall s p, tok_scan s p 1 0 = tok_pos s p.
Proof. exact tok_scan_is_tok_pos. Qed.
Print Assumptions T13_2_reference_location_scan.

(* the line table is 0 followed by the offsets just after every \n, \r\n, \r *)
Theorem T13_2_line_table : forall s, line_starts s = 0 :: ends_from 0 s.
Proof. exact line_starts_ends. Qed.
Print Assumptions T13_2_line_table.

(* T13.3 span of a node = (true start, true end); hence inside the source, and Match.string is the
   node text.  Guard: the text does not start or end with a space (F13-6). *)
Theorem T13_3_span_partial :
  forall s p1 p2 is_def,
    (p1 <= p2)%nat -> (p2 <= length s)%nat ->
    no_edge_blank (node_text s p1 p2) = true ->
    get_charnos s [] (attrs_of (tok_pos s p1) (tok_pos s p2)) is_def false
    = Some (Z.of_nat p1, Z.of_nat p2).
Proof. exact span_of_node_partial. Qed.
Print Assumptions T13_3_span_partial.

Theorem T13_3_span_inside_and_text :
  forall s p1 p2 is_def r,
    (p1 <= p2)%nat -> (p2 <= length s)%nat ->
    no_edge_blank (node_text s p1 p2) = true ->
    get_charnos s [] (attrs_of (tok_pos s p1) (tok_pos s p2)) is_def false = Some r ->
    0 <= fst r <= snd r /\ snd r <= len s /\ match_string s r = node_text s p1 p2.
Proof. exact span_inside_and_text. Qed.
Print Assumptions T13_3_span_inside_and_text.

Theorem T13_3_span_refuted :
  exists s p1 p2 r,
    (p1 <= p2)%nat /\ (p2 <= length s)%nat
    /\ get_charnos s [] (attrs_of (tok_pos s p1) (tok_pos s p2)) false false = Some r
    /\ snd r < fst r.
Proof. exact span_of_node_refuted. Qed.
Print Assumptions T13_3_span_refuted.

Example T13_3_partial_is_not_vacuous :
  let s := [115; 32; 61; 32; 39; 233; 39; 59; 32; 102; 40; 49; 41]%N in
  no_edge_blank (node_text s 9 13) = true
  /\ tok_pos s 9 = (1, 10)
  /\ get_charnos s [] (attrs_of (tok_pos s 9) (tok_pos s 13)) false false = Some (9, 13).
Proof. exact span_partial_nontrivial. Qed.

(* keep_first_indent moves the start left over exactly the run of spaces that precedes it *)
Theorem T13_3_keep_first_indent :
  forall s p1 p2 is_def,
    (p1 <= p2)%nat -> (p2 <= length s)%nat ->
    no_edge_blank (node_text s p1 p2) = true ->
    exists k pre,
      get_charnos s [] (attrs_of (tok_pos s p1) (tok_pos s p2)) is_def true
      = Some (Z.of_nat p1 - k, Z.of_nat p2)
      /\ 0 <= k <= Z.of_nat p1
      /\ firstn p1 s = pre ++ repeat SP (Z.to_nat k)
      /\ match rev pre with c :: _ => neqb c SP = false | [] => True end.
Proof. exact span_keep_first_indent. Qed.
Print Assumptions T13_3_keep_first_indent.

(* decorated definitions: the span starts at the "@" of the first decorator.  Guard: only blanks,
   line continuations and "(" between the "@" and the decorator expression (F13-7). *)
Theorem T13_3_decorated_partial :
  forall s d ds pre bl pd p1 p2,
    (pd <= p1)%nat -> (p1 <= p2)%nat -> (p2 <= length s)%nat ->
    (let '(l, c, _, _) := min_pos d ds in (l, c)) = tok_pos s pd ->
    firstn pd s = pre ++ AT :: bl ->
    forallb is_dec_blank bl = true ->
    no_edge_blank (node_text s pd p2) = true ->
    get_charnos s (d :: ds) (attrs_of (tok_pos s p1) (tok_pos s p2)) true false
    = Some (len pre, Z.of_nat p2).
Proof. exact span_of_decorated_partial. Qed.
Print Assumptions T13_3_decorated_partial.

Theorem T13_3_decorated_refuted :
  exists s d pre bl pd p1 p2,
    (pd <= p1)%nat /\ (p1 <= p2)%nat /\ (p2 <= length s)%nat
    /\ (let '(l, c, _, _) := d in (l, c)) = tok_pos s pd
    /\ firstn pd s = pre ++ AT :: bl
    /\ no_edge_blank (node_text s pd p2) = true
    /\ get_charnos s [d] (attrs_of (tok_pos s p1) (tok_pos s p2)) true false
       <> Some (len pre, Z.of_nat p2).
Proof. exact span_of_decorated_refuted. Qed.
Print Assumptions T13_3_decorated_refuted.

Example T13_3_decorated_is_not_vacuous :
  let s := [64; 32; 102; 111; 111; 10; 100; 101; 102; 32; 102; 40; 41; 58; 10; 32; 32; 112; 97; 115; 115]%N in
  tok_pos s 2 = (1, 2) /\ firstn 2 s = [] ++ AT :: [32%N] /\ forallb is_dec_blank [32%N] = true
  /\ get_charnos s [(1, 2, 1, 5)] (attrs_of (tok_pos s 6) (tok_pos s 21)) true false = Some (0, 21).
Proof. exact span_decorated_nontrivial. Qed.

(* R13.3 the arithmetic of the pinned tree (repaired by F13-1, F13-2) fails the round trip *)
Theorem R13_3_byte_column_refuted :
  exists s p, (p <= length s)%nat /\ is_ascii s = false
    /\ charno_v0 s (fst (tok_pos s p)) (snd (tok_pos s p)) <> Some (Z.of_nat p).
Proof. exact v0_byte_column_refuted. Qed.
Print Assumptions R13_3_byte_column_refuted.

Theorem R13_3_splitlines_table_refuted :
  exists s p, (p <= length s)%nat /\ is_ascii s = true
    /\ charno_v0 s (fst (tok_pos s p)) (snd (tok_pos s p)) <> Some (Z.of_nat p).
Proof. exact v0_splitlines_table_refuted. Qed.
Print Assumptions R13_3_splitlines_table_refuted.

Theorem R13_3_old_arithmetic_partial :
  forall s p n b cc,
    (p <= length s)%nat -> is_ascii s = true -> tok_lines s = str_lines s -> ends_with_nl s = false ->
    tok_loc s p = (n, b, cc) ->
    charno_v0 s (1 + Z.of_nat n) b = Some (Z.of_nat p).
Proof. exact v0_agrees_when_plain. Qed.
Print Assumptions R13_3_old_arithmetic_partial.

(* T13.5 has_ignore_comment and the range.  `coms` is the verdict of CPython's tokenizer (the zero-based lines that
   carry a matching COMMENT token; None = tokenize raised), an input of the model.
   a) monotone in the range as long as the inner range is not an insertion point *)
Theorem T13_5_ignore_monotone :
  forall s coms a b a' b', a <> b -> a' <= a -> b <= b' ->
    has_ignore_comment s coms (a, b) = true -> has_ignore_comment s coms (a', b') = true.
Proof. exact has_ignore_mono. Qed.
Print Assumptions T13_5_ignore_monotone.

(* b) the unguarded statement (true of the recogniser before repair 8992e08) fails for an insertion at the
   first column of an ignored line: "x<LF># pyrefact: ignore", point 2, range (0, 2) *)
Theorem T13_5_ignore_monotone_any_refuted :
  exists s coms a b a' b', a' <= a /\ b <= b'
    /\ has_ignore_comment s coms (a, b) = true /\ has_ignore_comment s coms (a', b') = false.
Proof. exact has_ignore_mono_any_refuted. Qed.
Print Assumptions T13_5_ignore_monotone_any_refuted.

Theorem R13_5_old_recogniser_monotone :
  forall s a b a' b', a' <= a -> b <= b' ->
    has_ignore_comment_v0 s (a, b) = true -> has_ignore_comment_v0 s (a', b') = true.
Proof. exact has_ignore_v0_mono. Qed.
Print Assumptions R13_5_old_recogniser_monotone.

(* c) a refused insertion point p is also refused as part of every non-empty range that contains the character
   at p -- at the end of the text (the end of an unterminated last line) the character before p *)
Theorem T13_5_insertion_caught_by_containing_range :
  forall s coms p a' b',
    a' <= p -> p <= b' -> a' < b' ->
    (if p <? len s then p <? b' else a' <? p) = true ->
    has_ignore_comment s coms (p, p) = true -> has_ignore_comment s coms (a', b') = true.
Proof. exact has_ignore_insertion_caught. Qed.
Print Assumptions T13_5_insertion_caught_by_containing_range.

(* d) exactly: inserting before the character at p is refused iff rewriting that character is *)
Theorem T13_5_insertion_is_character :
  forall s coms p, p < len s ->
    has_ignore_comment s coms (p, p) = has_ignore_comment s coms (p, p + 1).
Proof. exact has_ignore_insertion_is_char. Qed.
Print Assumptions T13_5_insertion_is_character.

(* e) nothing is touched by an insertion beyond the end of the text *)
Theorem T13_5_insertion_beyond_end :
  forall s coms p, len s < p -> has_ignore_comment s coms (p, p) = false.
Proof. exact has_ignore_insertion_beyond. Qed.
Print Assumptions T13_5_insertion_beyond_end.

(* f) at the end of the text: refused iff there is no final line terminator and the last character is protected *)
Theorem T13_5_insertion_at_end :
  forall s coms,
    has_ignore_comment s coms (len s, len s)
    = negb (terminated s) && has_ignore_comment s coms (len s - 1, len s).
Proof. exact has_ignore_insertion_at_end. Qed.
Print Assumptions T13_5_insertion_at_end.

(* g) the K3 model of has_ignore_comment and the independently written model of property C20 are the same function *)
Theorem T13_5_same_as_C20_model :
  forall s coms r, has_ignore_comment s coms r = Pyrefact.IgnoreModel.has_ignore s coms r.
Proof. exact has_ignore_comment_same. Qed.
Print Assumptions T13_5_same_as_C20_model.

(* T13.4a findall is the list of Match.string of finditer, in order *)
Theorem T13_4_findall_texts_of_finditer :
  forall s spans, findall s spans = map (match_string s) spans.
Proof. exact findall_is_map_string. Qed.
Print Assumptions T13_4_findall_texts_of_finditer.

(* T13.4b search is the first finditer result *)
Theorem T13_4_search_first : forall spans, search spans = hd_error spans.
Proof. exact search_is_first. Qed.
Print Assumptions T13_4_search_first.

(* T13.4c match succeeds exactly when some match starts at the first statement; it returns the first one *)
Theorem T13_4_match_spec :
  forall body spans br,
    body_range body = Some br ->
    ((exists m, pm_match body spans = Some m) <-> (exists m, In m spans /\ fst m = fst br))
    /\ (forall m, pm_match body spans = Some m ->
          exists l1 l2, spans = l1 ++ m :: l2 /\ fst m = fst br /\ forall x, In x l1 -> fst x <> fst br).
Proof. exact match_spec. Qed.
Print Assumptions T13_4_match_spec.

(* T13.4d fullmatch succeeds exactly when some match spans the whole module body *)
Theorem T13_4_fullmatch_spec :
  forall body spans br,
    body_range body = Some br ->
    ((exists m, pm_fullmatch body spans = Some m) <-> In br spans)
    /\ (forall m, pm_fullmatch body spans = Some m -> m = br).
Proof. exact fullmatch_spec. Qed.
Print Assumptions T13_4_fullmatch_spec.

(* T13.4e the module body range is the hull of the statement ranges *)
Theorem T13_4_body_range :
  forall body br, body_range body = Some br ->
    (forall r, In r body -> fst br <= fst r /\ snd r <= snd br)
    /\ In (fst br) (map fst body) /\ In (snd br) (map snd body).
Proof. exact body_range_spec. Qed.
Print Assumptions T13_4_body_range.
