(* C13 -- Match objects and the re-like API are geometrically coherent.
   Property theorems only; every proof is `exact <lemma>`; Print Assumptions under each. *)
From Coq Require Import List ZArith NArith Bool Lia.
Import ListNotations.
Require Import Pyrefact.Base Pyrefact.SpanModel Pyrefact.SpanProofs.
Open Scope Z_scope.

(* T13.4a findall is the list of Match.string of finditer, in order *)
Theorem T13_4_findall_texts_of_finditer :
  forall s spans, findall s spans = map (match_string s) spans.
Proof. exact findall_is_map_string. Qed.
Print Assumptions T13_4_findall_texts_of_finditer.

(* T13.4b search is the first finditer result *)
Theorem T13_4_search_first : forall spans, search spans = hd_error spans.
Proof. exact search_is_first. Qed.
Print Assumptions T13_4_search_first.

(* T13.4c match succeeds exactly when some match starts at the first statement; it returns the first one *)
Theorem T13_4_match_spec :
  forall body spans br,
    body_range body = Some br ->
    ((exists m, pm_match body spans = Some m) <-> (exists m, In m spans /\ fst m = fst br))
    /\ (forall m, pm_match body spans = Some m ->
          exists l1 l2, spans = l1 ++ m :: l2 /\ fst m = fst br /\ forall x, In x l1 -> fst x <> fst br).
Proof. exact match_spec. Qed.
Print Assumptions T13_4_match_spec.

(* T13.4d fullmatch succeeds exactly when some match spans the whole module body *)
Theorem T13_4_fullmatch_spec :
  forall body spans br,
    body_range body = Some br ->
    ((exists m, pm_fullmatch body spans = Some m) <-> In br spans)
    /\ (forall m, pm_fullmatch body spans = Some m -> m = br).
Proof. exact fullmatch_spec. Qed.
Print Assumptions T13_4_fullmatch_spec.

(* T13.4e the module body range is the hull of the statement ranges *)
Theorem T13_4_body_range :
  forall body br, body_range body = Some br ->
    (forall r, In r body -> fst br <= fst r /\ snd r <= snd br)
    /\ In (fst br) (map fst body) /\ In (snd br) (map snd body).
Proof. exact body_range_spec. Qed.
Print Assumptions T13_4_body_range.
