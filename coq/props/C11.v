(* C11 -- Layout stages never change program structure or string contents.
   Property theorems only; every proof is `exact <lemma>`; Print Assumptions under each.
   A text is a list of (code point, mask) pairs; mask = inside a string / bytes / f-string literal.
     nonws s = the non-whitespace characters of s, in order
     lit s   = the characters of s inside literals, in order *)
From Coq Require Import List NArith Arith Bool.
Import ListNotations.
Require Import Pyrefact.LayoutModel Pyrefact.LayoutProofs Pyrefact.RestoreModel Pyrefact.RestoreProofs Pyrefact.FrameModel Pyrefact.FrameProofs.

(* ---- T11.1: every stage changes only whitespace, for all texts -------------------------------- *)
(* expandtabs and rmspace touch nothing but spaces and tabs (any tab size, any start column) *)
Theorem T11_1_expandtabs : forall ts s col, nonblank_chars (expandtabs_from ts col s) = nonblank_chars s.
Proof. exact expandtabs_nonblank. Qed.
Print Assumptions T11_1_expandtabs.

Theorem T11_1_rmspace : forall s, nonblank_chars (rmspace s) = nonblank_chars s.
Proof. exact rmspace_nonblank. Qed.
Print Assumptions T11_1_rmspace.

Theorem T11_1_blank_lines : forall s, nonws (blank_lines s) = nonws s.
Proof. exact blank_lines_nonws. Qed.
Print Assumptions T11_1_blank_lines.

Theorem T11_1_prepass : forall s, nonws (prepass s) = nonws s.
Proof. exact prepass_nonws. Qed.
Print Assumptions T11_1_prepass.

Theorem T11_1_minimize_ws : forall sc, nonws (concat (minimize_ws sc)) = nonws (concat (new_of sc)).
Proof. exact minimize_ws_nonws. Qed.
Print Assumptions T11_1_minimize_ws.

Theorem T11_1_import_spacing : forall s ps, g_ranges s ps = true -> nonws (import_spacing s ps) = nonws s.
Proof. exact import_spacing_nonws. Qed.
Print Assumptions T11_1_import_spacing.

Theorem R11_1_import_spacing_overlap : exists s ps, nonws (import_spacing s ps) <> nonws s.
Proof. exact import_spacing_nonws_refuted. Qed.
Print Assumptions R11_1_import_spacing_overlap.

(* ---- T11.2: guarded literal preservation ------------------------------------------------------- *)
Theorem T11_2_expandtabs : forall ts s col, g_tab s = true -> lit (expandtabs_from ts col s) = lit s.
Proof. exact expandtabs_lit. Qed.
Print Assumptions T11_2_expandtabs.

Theorem T11_2_rmspace : forall s, g_trail s = true -> lit (rmspace s) = lit s.
Proof. exact rmspace_lit. Qed.
Print Assumptions T11_2_rmspace.

Theorem T11_2_blank_lines : forall s, g_blank s = true -> lit (blank_lines s) = lit s.
Proof. exact blank_lines_lit. Qed.
Print Assumptions T11_2_blank_lines.

Theorem T11_2_prepass : forall s,
  g_tab s = true -> g_trail (expandtabs4 s) = true -> g_blank (rmspace (expandtabs4 s)) = true ->
  lit (prepass s) = lit s.
Proof. exact prepass_lit. Qed.
Print Assumptions T11_2_prepass.

(* the same with all three guards evaluated on the INPUT text *)
Theorem T11_2_prepass_input : forall s,
  g_tab s = true -> g_trail s = true -> g_blank s = true -> lit (prepass s) = lit s.
Proof. exact prepass_lit_input. Qed.
Print Assumptions T11_2_prepass_input.

Theorem T11_2_minimize_ws : forall sc,
  g_script sc = true -> lit (concat (minimize_ws sc)) = lit (concat (new_of sc)).
Proof. exact minimize_ws_lit. Qed.
Print Assumptions T11_2_minimize_ws.

Theorem T11_2_import_spacing : forall s ps,
  g_ranges s ps = true -> g_ranges_lit s ps = true -> lit (import_spacing s ps) = lit s.
Proof. exact import_spacing_lit. Qed.
Print Assumptions T11_2_import_spacing.

(* ---- R11.3: refuted without the guards (known findings F11-1..3) -------------------------------- *)
Theorem R11_3_expandtabs : exists s, lit (expandtabs4 s) <> lit s.
Proof. exact expandtabs_lit_refuted. Qed.
Print Assumptions R11_3_expandtabs.

Theorem R11_3_rmspace : exists s, lit (rmspace s) <> lit s.
Proof. exact rmspace_lit_refuted. Qed.
Print Assumptions R11_3_rmspace.

Theorem R11_3_blank_lines : exists s, lit (blank_lines s) <> lit s.
Proof. exact blank_lines_lit_refuted. Qed.
Print Assumptions R11_3_blank_lines.

Theorem R11_3_minimize_ws : exists sc, lit (concat (minimize_ws sc)) <> lit (concat (new_of sc)).
Proof. exact minimize_ws_lit_refuted. Qed.
Print Assumptions R11_3_minimize_ws.

(* ---- T11.4: minimize_ws, for every edit script -------------------------------------------------- *)
Theorem T11_4_minimize_ws_lines : forall sc, filter has_ink (minimize_ws sc) = filter has_ink (new_of sc).
Proof. exact minimize_ws_lines. Qed.
Print Assumptions T11_4_minimize_ws_lines.

(* ---- R11.5 / T11.6: indentation order under expandtabs(4) --------------------------------------- *)
Theorem R11_5_indent_order : exists s1 s2,
  blanks_only s1 = true /\ blanks_only s2 = true /\
  indent_cmp s1 s2 = Some Lt /\
  indent_cmp (expandtabs_plain 4 s1) (expandtabs_plain 4 s2) = Some Gt.
Proof. exact indent_order_refuted. Qed.
Print Assumptions R11_5_indent_order.

Theorem T11_6_indent_order : forall a b a' b' c,
  indent_cmp (indent_ts a b) (indent_ts a' b') = Some c ->
  indent_cmp (expandtabs_plain 4 (indent_ts a b)) (expandtabs_plain 4 (indent_ts a' b')) = Some c.
Proof. exact indent_cmp_preserved. Qed.
Print Assumptions T11_6_indent_order.

Theorem T11_6_indent_columns : forall a b a' b' c ts,
  indent_cmp (indent_ts a b) (indent_ts a' b') = Some c ->
  Nat.compare (col_after ts 0 (expandtabs_plain 4 (indent_ts a b)))
              (col_after ts 0 (expandtabs_plain 4 (indent_ts a' b'))) = c.
Proof. exact indent_order_preserved. Qed.
Print Assumptions T11_6_indent_columns.

(* ---- T11.7 / R11.8: the quote-restoration step (_substitute_original_strings) ------------------ *)
(* a spelling is overwritten only if, parsed on its own, it is a literal of the node's value, and only with
   an original spelling that is a literal of the same value *)
Theorem T11_7_restore_sound : forall origs news nd c,
  restore_node origs news nd = Some c ->
  n_lit nd = true /\
  forall t, In t c -> exists o, In o origs /\ o_text o = t /\ o_val o = n_val nd /\ o_lit o = true.
Proof. exact restore_node_sound. Qed.
Print Assumptions T11_7_restore_sound.

Theorem T11_7_restore_whole : forall a origs news i c,
  nth_error (restore a origs news) i = Some (Some c) ->
  exists nd, nth_error news i = Some nd /\ restore_node origs news nd = Some c.
Proof. exact restore_sound. Qed.
Print Assumptions T11_7_restore_whole.

(* hence, for any denotation the two booleans are computed from, old and new spelling denote the same value *)
Theorem T11_7_restore_same_value : forall (den : nat -> option nat) origs news nd c t,
  (forall o, In o origs -> o_lit o = true -> den (o_text o) = Some (o_val o)) ->
  (n_lit nd = true -> den (n_text nd) = Some (n_val nd)) ->
  restore_node origs news nd = Some c -> In t c ->
  den t = den (n_text nd).
Proof. exact restore_same_value. Qed.
Print Assumptions T11_7_restore_same_value.

Theorem R11_8_restore_guard_needed : exists origs news nd c,
  restore_node_unguarded origs news nd = Some c /\ n_lit nd = false /\ restore_node origs news nd = None.
Proof. exact restore_guard_needed. Qed.
Print Assumptions R11_8_restore_guard_needed.

Example restore_example :
  restore false [mkO 7 1 true; mkO 8 3 true] [mkN 7 2 true; mkN 8 3 true; mkN 7 4 false] = [Some [1]; None; None].
Proof. reflexivity. Qed.

(* the spelling actually written (Counter.most_common: highest count, first seen on ties) is one of them *)
Theorem T11_7_restore_pick : forall origs news nd c,
  restore_node origs news nd = Some c ->
  n_lit nd = true /\
  exists o, In o origs /\ o_text o = most_common c /\ o_val o = n_val nd /\ o_lit o = true.
Proof. exact restore_pick_sound. Qed.
Print Assumptions T11_7_restore_pick.

(* ---- T11.13 / R11.14: the spelling written after the b/r/f prefix adjustment (repair c664901) ---- *)
(* a node is overwritten only if its own spelling is a literal of its value, and only with a spelling that
   ast.literal_eval evaluates to the node's value (type included: other types are other interned values) *)
Theorem T11_13_restore_write_sound : forall origs news adj nd w,
  restore_write_node origs news adj nd = Some w ->
  n_lit (wn nd) = true /\
  exists c, restore_node (map wo origs) (map wn news) (wn nd) = Some c /\
            written origs adj nd c = Some (w, Some (n_val (wn nd))).
Proof. exact restore_write_node_sound. Qed.
Print Assumptions T11_13_restore_write_sound.

(* where that spelling and its verdict come from: the most common original spelling itself when the prefix
   letters agree, otherwise CPython's verdict about prefix + stripped original spelling *)
Theorem T11_13_written_spec : forall origs adj nd c w d,
  written origs adj nd c = Some (w, d) ->
  (w = most_common c /\
   exists o, In o origs /\ o_text (wo o) = w /\ o_val (wo o) = n_val (wn nd) /\ o_lit (wo o) = true /\
             o_eval o = d /\ mods_of (n_pre nd) = mods_of (o_pre o))
  \/ (exists p, In (most_common c, p, w, d) adj /\ leqb p (prefix_of (mods_of (n_pre nd))) = true).
Proof. exact written_spec. Qed.
Print Assumptions T11_13_written_spec.

Theorem T11_13_restore_write_whole : forall a origs news adj i w,
  nth_error (restore_write a origs news adj) i = Some (Some w) ->
  exists nd, nth_error news i = Some nd /\ restore_write_node origs news adj nd = Some w.
Proof. exact restore_write_sound. Qed.
Print Assumptions T11_13_restore_write_whole.

(* hence, for any evaluation of spellings the verdicts are computed from, the written spelling evaluates to
   what the overwritten spelling evaluates to -- prefix change or not *)
Theorem T11_13_restore_write_same_value : forall (den : nat -> option nat) origs news adj nd w,
  (forall o, In o origs -> o_eval o = Some (n_val (wn nd)) -> den (o_text (wo o)) = Some (n_val (wn nd))) ->
  (forall t p w', In (t, p, w', Some (n_val (wn nd))) adj -> den w' = Some (n_val (wn nd))) ->
  (n_lit (wn nd) = true -> den (n_text (wn nd)) = Some (n_val (wn nd))) ->
  restore_write_node origs news adj nd = Some w ->
  den w = den (n_text (wn nd)).
Proof. exact restore_write_same_value. Qed.
Print Assumptions T11_13_restore_write_same_value.

(* pinned: the step as it was before the repair writes a spelling of another value (r'\n' pasted as '\n') *)
Theorem R11_14_old_restore_write_refuted : exists origs news adj nd w v,
  restore_write_node_unchecked origs news adj nd = Some (w, Some v) /\ v <> n_val (wn nd) /\
  restore_write_node origs news adj nd = None.
Proof. exact old_restore_write_refuted. Qed.
Print Assumptions R11_14_old_restore_write_refuted.

(* spellings 1 = r"a" (twice) and 2 = 'a' in the original; the new source has 3 = 'a'-in-another-quoting (no
   prefix letters) and 1 again: the most common spelling r"a" is pasted without its r (spelling 4), which the
   table says evaluates to the node's value 7; the node spelled 1 is left alone *)
Example restore_write_example :
  restore_write false
    [mkWO (mkO 7 1 true) [114%N] (Some 7); mkWO (mkO 7 1 true) [114%N] (Some 7); mkWO (mkO 7 2 true) [] (Some 7)]
    [mkWN (mkN 7 3 true) []; mkWN (mkN 7 1 true) [114%N]] [(1, [], 4, Some 7); (1, [114%N], 1, Some 7)]
  = [Some 4; None].
Proof. reflexivity. Qed.

(* ---- T11.11 / R11.12: the f-string restoration step (_substitute_original_fstrings) ----------- *)
Theorem T11_11_frestore_sound : forall origs nd r,
  frestore_node origs nd = Some r ->
  fn_valid nd = true /\
  exists o, In o origs /\ fo_text o = r /\ fo_key o = fn_key nd /\ fo_valid o = true.
Proof. exact frestore_node_sound. Qed.
Print Assumptions T11_11_frestore_sound.

Theorem T11_11_frestore_same_key : forall (ukey : nat -> option nat) origs news nd r,
  (forall o, In o origs -> fo_valid o = true -> ukey (fo_text o) = Some (fo_key o)) ->
  (forall n, In n news -> fn_self n = true -> ukey (fn_text n) = Some (fn_key n)) ->
  f_guard origs news = true -> In nd news ->
  frestore_node origs nd = Some r -> ukey r = ukey (fn_text nd).
Proof. exact frestore_same_key. Qed.
Print Assumptions T11_11_frestore_same_key.

Theorem R11_12_frestore_guard : exists origs news, f_guard origs news = false.
Proof. exact frestore_guard_refuted. Qed.
Print Assumptions R11_12_frestore_guard.

Example frestore_example :
  frestore [mkFO 5 1 true; mkFO 5 3 true; mkFO 5 3 true] [mkFN 5 2 true true; mkFN 5 1 true true; mkFN 6 4 true true]
  = [Some 3; None; None]
  /\ f_guard [mkFO 5 1 true; mkFO 5 3 true; mkFO 5 3 true] [mkFN 5 2 true true; mkFN 5 1 true true] = true.
Proof. split; reflexivity. Qed.

(* ---- T11.9 / R11.10: the dedent / re-indent frame of fix_line_lengths -------------------------- *)
(* with the indent computed as the minimum over the lines of the range (as the code does), every non-blank
   line of the range -- in particular every line inside a multi-line literal -- comes back unchanged *)
Theorem T11_9_frame_identity : forall ls, normal (fix_frame ls) = normal ls.
Proof. exact fix_frame_identity. Qed.
Print Assumptions T11_9_frame_identity.

Theorem T11_9_frame_line : forall ls i l,
  nth_error ls i = Some l -> blankl l = false -> nth_error (fix_frame ls) i = Some l.
Proof. exact fix_frame_line. Qed.
Print Assumptions T11_9_frame_line.

(* refuted when the indent is read from the first line of the range only *)
Theorem R11_10_frame_first_line : exists ls, normal (frame (lead (hd [] ls)) ls) <> normal ls.
Proof. exact frame_first_line_refuted. Qed.
Print Assumptions R11_10_frame_first_line.

Example frame_example :
  fix_frame [[32; 32; 97]; [32; 32; 32; 98]; []; [32; 32; 99]]%N = [[32; 32; 97]; [32; 32; 32; 98]; []; [32; 32; 99]]%N
  /\ level [[32; 32; 97]; [32; 32; 32; 98]; []; [32; 32; 99]]%N = 2.
Proof. vm_compute. split; reflexivity. Qed.

(* ---- the guards are satisfiable by inputs on which the stages do something ---------------------- *)
(* print("a")<TAB># c<SP><NL><NL><NL><NL><NL>x = 1<NL><NL> : the literal is masked *)
Definition ex_text : text :=
  [(112, false); (40, false); (34, true); (97, true); (34, true); (41, false); (9, false); (35, false);
   (32, false); (99, false); (32, false); (10, false); (10, false); (10, false); (10, false); (10, false);
   (120, false); (10, false); (10, false)]%N.
Example guards_hold :
  g_tab ex_text = true /\ g_trail ex_text = true /\ g_blank ex_text = true /\
  g_trail (expandtabs4 ex_text) = true /\ g_blank (rmspace (expandtabs4 ex_text)) = true /\
  plain (prepass ex_text) <> plain ex_text /\ lit (prepass ex_text) = lit ex_text.
Proof. vm_compute. repeat split; discriminate. Qed.

Example indent_example : indent_cmp (indent_ts 1 2) (indent_ts 2 3) = Some Lt.
Proof. reflexivity. Qed.

Example script_example :
  g_script [(Keep, untagged [97; 10]); (Add, untagged [10]); (Del, untagged [32; 10]); (Add, untagged [98; 10])]%N = true.
Proof. reflexivity. Qed.

Example ranges_example :
  let s := untagged [105; 10; 10; 10; 106; 10]%N in
  let ps := [mkPair (mkKind true true false false) (mkKind true true false false) 1 4 0] in
  g_ranges s ps = true /\ g_ranges_lit s ps = true /\ plain (import_spacing s ps) = [105; 10; 106; 10]%N.
Proof. vm_compute. repeat split. Qed.
