(* C02X -- property theorems of the expression / collection tranche of C02 (development / standalone copy;
   the coordinator appends coq/props/C02_expr.v.part to coq/props/C02.v).
   Property theorems only; every proof is `exact <lemma>`; Print Assumptions under each. *)
From Coq Require Import List ZArith Bool Lia Permutation.
Import ListNotations.
Require Import Pyrefact.RulesExprModel Pyrefact.RulesExprProofs.
Open Scope Z_scope.

(* ===== C02, expression / collection tranche (theories/RulesExprModel.v, RulesExprProofs.v) =====
   needs:  Require Import Pyrefact.RulesExprModel Pyrefact.RulesExprProofs.
   eval w e en tr = Some (value, trace') | None (raises); a world w fixes the results of all user calls and
   the __eq__ of opaque objects; every theorem quantifies over all worlds, environments and traces. *)

(* fixes.singleton_eq_comparison (repaired: None only) *)
Theorem T02x_singleton_sound : forall w e e',
  (forall o, eq_or w o VNone = VBool false) ->
  rw_singleton e = Some e' ->
  forall en tr, eval w e' en tr = eval w e en tr.
Proof. exact singleton_sound. Qed.
Print Assumptions T02x_singleton_sound.

Theorem T02x_singleton_refuted_custom_eq :
  exists w e e' en, rw_singleton e = Some e' /\ eval w e' en [] <> eval w e en [].
Proof. exact singleton_refuted_custom_eq. Qed.
Print Assumptions T02x_singleton_refuted_custom_eq.

Theorem T02x_singleton_old_refuted :
  exists e e' en, rw_singleton_old e = Some e' /\
    (forall w, eval w e en [] = Some (VBool true, [])) /\ (forall w, eval w e' en [] = Some (VBool false, [])).
Proof. exact singleton_old_refuted. Qed.
Print Assumptions T02x_singleton_old_refuted.

(* fixes.remove_duplicate_set_elts *)
Theorem T02x_dup_set_sound : forall w e e',
  rw_dup_set e = Some e' -> forall en tr, eval w e' en tr = eval w e en tr.
Proof. exact dup_set_sound. Qed.
Print Assumptions T02x_dup_set_sound.

(* fixes.remove_duplicate_dict_keys (repaired) *)
Theorem T02x_dup_dict_sound : forall w e e',
  rw_dup_dict e = Some e' -> forall en tr r, eval w e en tr = Some r -> eval w e' en tr = Some r.
Proof. exact dup_dict_sound. Qed.
Print Assumptions T02x_dup_dict_sound.

(* the dict law behind it: writes to a key that is already present can be hoisted *)
Theorem T02x_dict_update_hoist : forall k ps E, dict_has E k = true ->
  dict_update E ps = dict_update (match lastv k ps with Some x => dict_set E k x | None => E end) (filt k ps).
Proof. exact dict_update_hoist. Qed.
Print Assumptions T02x_dict_update_hoist.

(* fixes.redundant_enumerate (repaired) *)
Theorem T02x_enumerate_sound : forall w e e',
  rw_enumerate e e = Some e' ->
  (match e with EComp _ _ _ _ (EBi _ [it]) _ => is_star it = false | _ => True end) ->
  forall en tr, eval w e' en tr = eval w e en tr.
Proof. exact enumerate_sound. Qed.
Print Assumptions T02x_enumerate_sound.

(* the frame lemma behind it: an expression that never reads `_` does not depend on its binding *)
Theorem T02x_underscore_frame : forall w e, reads_us e = false ->
  forall en1 en2, agree_off en1 en2 -> forall tr, eval w e en1 tr = eval w e en2 tr.
Proof. exact frame. Qed.
Print Assumptions T02x_underscore_frame.

(* fixes.unused_zip_args (repaired): refuted in general, right for equal lengths *)
Theorem T02x_zip_refuted :
  exists e e' en, rw_zip e e = Some e' /\
    forall w, eval w e en [] = Some (VList [], []) /\ eval w e' en [] = Some (VList [VInt 1], []).
Proof. exact zip_refuted. Qed.
Print Assumptions T02x_zip_refuted.

Theorem T02x_zip2_partial : forall w k elt dval x a b ifs,
  let e := EComp k elt dval (TTup [underscore; x]) (EBi BZip [a; b]) ifs in
  let e' := EComp k elt dval (TName x) b ifs in
  reads_us e = false -> simple a = true -> plain b = true -> Nat.eqb x underscore = false ->
  rw_zip e e = Some e' /\
  forall en tr va tra vb tr1,
    eval w a en tr = Some (va, tra) -> eval w b en tr = Some (vb, tr1) -> same_len va vb = true ->
    eval w e' en tr = eval w e en tr.
Proof. exact zip2_partial. Qed.
Print Assumptions T02x_zip2_partial.

(* performance.remove_redundant_chained_calls (repaired) *)
Theorem T02x_chain1_exact : forall w e e',
  rw_chain1 e = Some e' ->
  (match e with EBi outer (a0 :: _) => strip_exact outer a0 | _ => false end) = true ->
  forall en tr r, eval w e en tr = Some r -> eval w e' en tr = Some r.
Proof. exact chain1_exact. Qed.
Print Assumptions T02x_chain1_exact.

Theorem T02x_chain1_sorted_partial : forall w inner x kws,
  inner = BReversed \/ inner = BSorted -> plain x = true -> forallb is_kw kws = true ->
  forall en tr v tr1, eval w x en tr = Some (v, tr1) -> items_indist v = true ->
  forall r, eval w (EBi BSorted (EBi inner [x] :: kws)) en tr = Some r ->
            eval w (EBi BSorted (x :: kws)) en tr = Some r.
Proof. exact chain1_sorted_partial. Qed.
Print Assumptions T02x_chain1_sorted_partial.

Theorem T02x_chain1_sorted_reversed_refuted :
  exists e e' en, rw_chain1 e = Some e' /\
    forall w, eval w e en [] = Some (VList [VInt 1; VBool true], []) /\
              eval w e' en [] = Some (VList [VBool true; VInt 1], []).
Proof. exact chain1_sorted_reversed_refuted. Qed.
Print Assumptions T02x_chain1_sorted_reversed_refuted.

Theorem T02x_chain1_set_reversed_refuted :
  exists e e' en, rw_chain1 e = Some e' /\
    forall w, eval w e en [] = Some (VSet [VInt 1], []) /\ eval w e' en [] = Some (VSet [VBool true], []).
Proof. exact chain1_set_reversed_refuted. Qed.
Print Assumptions T02x_chain1_set_reversed_refuted.

(* the list laws behind them *)
Theorem T02x_sort_perm_invariant : forall l l', Permutation l l' -> indist l -> sort l = sort l'.
Proof. exact sort_perm_inv. Qed.
Print Assumptions T02x_sort_perm_invariant.

Theorem T02x_sort_idempotent : forall l, sort (sort l) = sort l.
Proof. exact sort_sort. Qed.
Print Assumptions T02x_sort_idempotent.

Theorem T02x_sum_perm_invariant : forall l l', Permutation l l' -> sum_num l = sum_num l'.
Proof. exact sum_num_perm. Qed.
Print Assumptions T02x_sum_perm_invariant.

Theorem T02x_set_idempotent : forall l s, mkset l = Some (VSet s) -> mkset s = Some (VSet s).
Proof. exact mkset_idem. Qed.
Print Assumptions T02x_set_idempotent.

Theorem T02x_chain2_sound : forall w e e',
  rw_chain2 e = Some e' -> forall en tr r, eval w e en tr = Some r -> eval w e' en tr = Some r.
Proof. exact chain2_sound. Qed.
Print Assumptions T02x_chain2_sound.

Theorem T02x_chain3_refuted_type : forall w x en tr r t r' t', plain x = true ->
  eval w (rev_sorted x) en tr = Some (r, t) -> eval w (sorted_rev x) en tr = Some (r', t') -> r <> r'.
Proof. exact chain3_refuted_type. Qed.
Print Assumptions T02x_chain3_refuted_type.

Theorem T02x_chain3_partial_items : forall w x en tr v tr1 r t, plain x = true ->
  eval w x en tr = Some (v, tr1) -> items_indist v = true ->
  eval w (rev_sorted x) en tr = Some (r, t) ->
  exists r', eval w (sorted_rev x) en tr = Some (r', t) /\ items_of r' = items_of r.
Proof. exact chain3_partial_items. Qed.
Print Assumptions T02x_chain3_partial_items.

Theorem T02x_chain3_refuted_stability :
  exists x en, plain x = true /\
    forall w, eval w (rev_sorted x) en [] = Some (VIter [VInt 1; VBool true], []) /\
              eval w (sorted_rev x) en [] = Some (VList [VBool true; VInt 1], []).
Proof. exact chain3_refuted_stability. Qed.
Print Assumptions T02x_chain3_refuted_stability.

(* fixes.remove_redundant_chain_casts / remove_redundant_comprehension_casts (repaired) *)
Theorem T02x_chain_casts_sound : forall w e e',
  rw_chain_casts e = Some e' -> forall en tr r, eval w e en tr = Some r -> eval w e' en tr = Some r.
Proof. exact chain_casts_sound. Qed.
Print Assumptions T02x_chain_casts_sound.

Theorem T02x_comp_casts_sound : forall w e e',
  rw_comp_casts e = Some e' ->
  (match e with EBi BSet [EComp CDict _ _ _ _ _] => false | _ => true end) = true ->
  forall en tr, eval w e' en tr = eval w e en tr.
Proof. exact comp_casts_sound. Qed.
Print Assumptions T02x_comp_casts_sound.

(* fixes.replace_negated_numeric_comparison *)
Theorem T02x_negated_sound : forall w e e', bool_eq w ->
  rw_negated e = Some e' -> forall en tr, eval w e' en tr = eval w e en tr.
Proof. exact negated_sound. Qed.
Print Assumptions T02x_negated_sound.

(* fixes.replace_functions_with_literals, fixes.replace_redundant_starred *)
Theorem T02x_literals_sound : forall w e e',
  rw_literals e = Some e' -> forall en tr, eval w e' en tr = eval w e en tr.
Proof. exact literals_sound. Qed.
Print Assumptions T02x_literals_sound.

Theorem T02x_starred_sound : forall w e e',
  rw_starred e = Some e' -> forall en tr, eval w e' en tr = eval w e en tr.
Proof. exact starred_sound. Qed.
Print Assumptions T02x_starred_sound.

(* fixes.simplify_dict_unpacks, fixes.simplify_collection_unpacks (repaired) *)
Theorem T02x_dict_unpacks_sound : forall w e e',
  rw_dict_unpacks e = Some e' -> forall en tr r, eval w e en tr = Some r -> eval w e' en tr = Some r.
Proof. exact dict_unpacks_sound. Qed.
Print Assumptions T02x_dict_unpacks_sound.

Theorem T02x_unpacks_sound : forall w e e',
  rw_unpacks e = Some e' -> forall en tr r, eval w e en tr = Some r -> eval w e' en tr = Some r.
Proof. exact unpacks_sound. Qed.
Print Assumptions T02x_unpacks_sound.

(* the set / dict laws behind them *)
Theorem T02x_set_absorb : forall l acc s,
  fold_left set_add (fold_left set_add l acc) s = fold_left set_add l (fold_left set_add acc s).
Proof. exact set_absorb. Qed.
Print Assumptions T02x_set_absorb.

Theorem T02x_dict_merge : forall d'' d d0, wfd d0 ->
  dict_update d (dict_update d0 d'') = dict_update (dict_update d d0) d''.
Proof. exact update_update. Qed.
Print Assumptions T02x_dict_merge.

(* set({k: v for ...}) -> {k for ...} (the remaining case of remove_redundant_comprehension_casts) *)
Theorem T02x_comp_casts_set_dict : forall w elt dval t it ifs,
  simple dval = true ->
  rw_comp_casts (EBi BSet [EComp CDict elt dval t it ifs]) = Some (EComp CSet elt (EConst ANone) t it ifs) /\
  forall en tr r, eval w (EBi BSet [EComp CDict elt dval t it ifs]) en tr = Some r ->
                  eval w (EComp CSet elt (EConst ANone) t it ifs) en tr = Some r.
Proof. exact comp_casts_set_dict. Qed.
Print Assumptions T02x_comp_casts_set_dict.

(* congruence: a rule that is right at the root and yields proper expressions is right when applied
   bottom-up at every node (rw_all), as the walker of the real rule does *)
Theorem T02x_lift_sound : forall w (rw : expr -> option expr),
  (forall a a', rw a = Some a' ->
     wrapper a' = false /\ forall en tr r, eval w a en tr = Some r -> eval w a' en tr = Some r) ->
  forall e en tr r, eval w e en tr = Some r -> eval w (rw_all (lift rw) e) en tr = Some r.
Proof. exact lift_sound. Qed.
Print Assumptions T02x_lift_sound.

Theorem T02x_dup_set_everywhere : forall w e en tr r,
  eval w e en tr = Some r -> eval w (rw_all (lift rw_dup_set) e) en tr = Some r.
Proof. exact dup_set_everywhere. Qed.
Print Assumptions T02x_dup_set_everywhere.

Theorem T02x_dup_dict_everywhere : forall w e en tr r,
  eval w e en tr = Some r -> eval w (rw_all (lift rw_dup_dict) e) en tr = Some r.
Proof. exact dup_dict_everywhere. Qed.
Print Assumptions T02x_dup_dict_everywhere.

Theorem T02x_unpacks_everywhere : forall w e en tr r,
  eval w e en tr = Some r -> eval w (rw_all (lift rw_unpacks) e) en tr = Some r.
Proof. exact unpacks_everywhere. Qed.
Print Assumptions T02x_unpacks_everywhere.

Theorem T02x_dict_unpacks_everywhere : forall w e en tr r,
  eval w e en tr = Some r -> eval w (rw_all (lift rw_dict_unpacks) e) en tr = Some r.
Proof. exact dict_unpacks_everywhere. Qed.
Print Assumptions T02x_dict_unpacks_everywhere.
