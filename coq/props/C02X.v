(* C02X -- development copy of the property theorems of the expression / collection tranche of C02.
   Property theorems only; every proof is `exact <lemma>`; Print Assumptions under each. *)
From Coq Require Import List ZArith Bool Lia Permutation.
Import ListNotations.
Require Import Pyrefact.RulesExprModel Pyrefact.RulesExprProofs.
Open Scope Z_scope.

Theorem T02x_singleton_sound : forall w e e',
  (forall o, eq_or w o VNone = VBool false) ->
  rw_singleton e = Some e' ->
  forall en tr, eval w e' en tr = eval w e en tr.
Proof. exact singleton_sound. Qed.
Print Assumptions T02x_singleton_sound.
