(* C14 -- Pattern substitution rewrites exactly the matches and nothing else.
   Property theorems only; every proof is `exact <lemma>`; Print Assumptions under each. *)
From Coq Require Import String List ZArith Bool Lia Permutation Sorted.
Import ListNotations.
Require Import Pyrefact.SchedModel Pyrefact.SchedProofs Pyrefact.Splice.
Require Import Pyrefact.SubstModel Pyrefact.SubstProofs Pyrefact.ExprModel Pyrefact.ExprProofs.
Require Pyrefact.IgnoreModel.

(* T14.1 no match => identity: with an empty list of matches subn yields nothing and returns the
   source byte for byte (restore = _substitute_original_(f)strings, which leave an unchanged text alone;
   the harness checks that on every source). *)
Theorem T14_1_no_match_identity :
  forall (valid : text -> bool) (equiv : text -> text -> bool) (wrap : range -> bool) (mlstr : text -> bool)
         (strl : text -> list nat) (restore : text -> text -> text) (src tmpl : text) (coms : option (list nat))
         (count : Z),
    (forall s, restore s s = s) ->
    subn_items strl src tmpl count [] = Some [] /\ subn_output valid equiv wrap mlstr restore src coms [] = src.
Proof. exact no_match_identity. Qed.
Print Assumptions T14_1_no_match_identity.

(* T14.2 count: for count > 0 at most count rewrites are scheduled (whatever the matches, the texts,
   the ignored lines). *)
Theorem T14_2_count_bounds_rewrites :
  forall (T : Type) (teqb : T -> T -> bool) (tcmp : T -> T -> comparison) (ilines : list range)
         (count : Z) (items : list (range * T)),
    (0 < count)%Z ->
    (length (subn_schedule T teqb tcmp ilines (take_count count items)) <= Z.to_nat count)%nat.
Proof. exact count_bounds_rewrites. Qed.
Print Assumptions T14_2_count_bounds_rewrites.

(* T14.3 greedy selection: the scheduled rewrites are exactly the greedy selection in yield order ... *)
Theorem T14_3_applied_is_greedy_selection :
  forall (T : Type) (teqb : T -> T -> bool) (tcmp : T -> T -> comparison) (ilines : list range)
         (items : list (range * T)),
    Permutation (map snd (subn_schedule T teqb tcmp ilines items))
                (map (rw_of T) (greedy T teqb ilines [] [] items)).
Proof. exact schedule_is_greedy. Qed.
Print Assumptions T14_3_applied_is_greedy_selection.

(* ... where "greedy" means: the item after the prefix [pre] is selected iff it is not a repetition of
   an earlier item, touches no ignored line and overlaps nothing selected from [pre]. *)
Theorem T14_3_greedy_step :
  forall (T : Type) (teqb : T -> T -> bool) (ilines : list range)
         (pre : list (range * T)) (it : range * T) (post : list (range * T)),
    let sel := greedy T teqb ilines [] [] pre in
    greedy T teqb ilines [] [] (pre ++ it :: post)
    = if existsb (item_eqb T teqb it) pre || ignored ilines (fst it)
         || existsb (fun a => overlaps (fst it) (fst a)) sel
      then greedy T teqb ilines (it :: rev pre) sel post
      else greedy T teqb ilines (it :: rev pre) (sel ++ [it]) post.
Proof. exact greedy_step. Qed.
Print Assumptions T14_3_greedy_step.

(* the applied matches never overlap (instance of T10.2) *)
Theorem T14_3_applied_disjoint :
  forall (T : Type) (teqb : T -> T -> bool) (tcmp : T -> T -> comparison) (ilines : list range)
         (items : list (range * T)),
    ForallOrdPairs (fun a b => overlaps (rrng (snd a)) (rrng (snd b)) = false)
                   (subn_schedule T teqb tcmp ilines items).
Proof. exact subn_schedule_disjoint. Qed.
Print Assumptions T14_3_applied_disjoint.

(* T14.4 untouched text: for matches whose ranges lie inside the source, the text after the loop of
   _apply_rewrites (refused whitespace-only transactions, skipped no-op members, and the _do_rewrite calls with
   their plain / parenthesised / padded / "pass" / re-indented candidates) is the simultaneous
   splice of the source at the scheduled ranges, ascending: every character outside them is the
   source's, in order.  [coms] = the tokenizer's verdict on the source (input of has_ignore_comment). *)
Theorem T14_4_untouched_text :
  forall (valid : text -> bool) (equiv : text -> text -> bool) (wrap : range -> bool) (mlstr : text -> bool)
         (coms : option (list nat)) (src : text) (items : list (range * text)),
    Forall (fun it => range_ok (length src) (fst it)) items ->
    exists asc : list (nrw Z),
      map nkey asc = rev (map nat_range (map (fun e : tkey * rewrite text => rrng (snd e))
                                             (subn_sched_text src coms items)))
      /\ chain_ok Z (length src) 0 asc
      /\ subn_candidate valid equiv wrap mlstr src coms items = build Z 0 src asc.
Proof. exact candidate_is_simultaneous_splice. Qed.
Print Assumptions T14_4_untouched_text.

(* the value subn returns is the source (validity rollback, T10.5) or that text after the
   string-restoring step *)
Theorem T14_4_output_cases :
  forall (valid : text -> bool) (equiv : text -> text -> bool) (wrap : range -> bool) (mlstr : text -> bool)
         (restore : text -> text -> text) (src : text) (coms : option (list nat)) (items : list (range * text)),
    subn_output valid equiv wrap mlstr restore src coms items = src
    \/ subn_output valid equiv wrap mlstr restore src coms items
       = restore src (subn_candidate valid equiv wrap mlstr src coms items).
Proof. exact output_cases. Qed.
Print Assumptions T14_4_output_cases.

(* T14.5 ignore: no scheduled rewrite touches a line that carries an ignore comment ... *)
Theorem T14_5_never_on_ignored_lines :
  forall (T : Type) (teqb : T -> T -> bool) (tcmp : T -> T -> comparison) (ilines : list range)
         (items : list (range * T)) (e : tkey * rewrite T),
    In e (subn_schedule T teqb tcmp ilines items) -> ignored ilines (rrng (snd e)) = false.
Proof. exact scheduled_not_ignored. Qed.
Print Assumptions T14_5_never_on_ignored_lines.

(* ... the test the scheduler applies to the lines it is handed (sched_ilines: the physical lines of
   core.split_lines that match the ignore regex and carry a comment token, an unterminated last line extended by
   the insertion point at the end of the text) IS core.has_ignore_comment as modelled for C20, for every range
   of the text, insertion points included ... *)
Theorem T14_5_scheduler_test_is_has_ignore_comment :
  forall (src : text) (coms : option (list nat)) (r : range),
    (fst r <= snd r)%Z -> (snd r <= Z.of_nat (length src))%Z ->
    ignored (sched_ilines src coms) r = IgnoreModel.has_ignore (to_n src) coms r.
Proof. exact sched_ignored_is_has_ignore. Qed.
Print Assumptions T14_5_scheduler_test_is_has_ignore_comment.

(* ... so no scheduled rewrite of subn is one that has_ignore_comment refuses ... *)
Theorem T14_5_scheduled_has_no_ignore_comment :
  forall (src : text) (coms : option (list nat)) (items : list (range * text)),
    Forall (fun it => range_ok (length src) (fst it)) items ->
    forall e, In e (subn_sched_text src coms items) ->
    IgnoreModel.has_ignore (to_n src) coms (rrng (snd e)) = false.
Proof. exact scheduled_has_no_ignore. Qed.
Print Assumptions T14_5_scheduled_has_no_ignore_comment.

(* ... and every physical line of the source that carries an ignore comment is a contiguous, unchanged
   piece of the rewritten text. *)
Theorem T14_5_ignored_lines_verbatim :
  forall (valid : text -> bool) (equiv : text -> text -> bool) (wrap : range -> bool) (mlstr : text -> bool)
         (src : text) (coms : option (list nat)) (items : list (range * text)),
    Forall (fun it => range_ok (length src) (fst it)) items ->
    forall l, In l (ignore_lines src coms) ->
    exists pre post, subn_candidate valid equiv wrap mlstr src coms items = pre ++ slice src l ++ post.
Proof. exact ignored_lines_survive. Qed.
Print Assumptions T14_5_ignored_lines_verbatim.

(* T14.6 printing with ast.unparse's parentheses and parsing back is the identity, all depths. *)
Theorem T14_6_parse_unparse : forall e : expr, parse (unparse e) = Some e.
Proof. exact parse_unparse. Qed.
Print Assumptions T14_6_parse_unparse.

(* T14.7 (partial): format_template's textual filling agrees with tree-level substitution when every
   binding's top operator binds at least as tightly as the context of its wildcard. *)
Theorem T14_7_instantiation_partial :
  forall (rho : nat -> expr) (t : expr),
    safe rho t = true ->
    inst_text rho t = unparse (inst_tree rho t) /\ parse (inst_text rho t) = Some (inst_tree rho t).
Proof. exact inst_text_partial. Qed.
Print Assumptions T14_7_instantiation_partial.

(* R14.8: refuted without the guard (known finding F14-1): {{x}} * 2 with x = 1 + 2 ... *)
Theorem R14_8_instantiation_refuted :
  exists rho t, parse (inst_text rho t) <> Some (inst_tree rho t).
Proof. exact inst_text_refuted. Qed.
Print Assumptions R14_8_instantiation_refuted.

(* ... and substituting the pattern {{a}} * {{b}} by itself in (1 + 2) * 3 changes the tree. *)
Theorem R14_8_self_substitution_refuted :
  exists rho t e, inst_tree rho t = e /\ parse (inst_text rho t) <> Some e.
Proof. exact self_substitution_refuted. Qed.
Print Assumptions R14_8_self_substitution_refuted.

(* T14.9 the "whitespace-only change" test (processing._same_significant_lines): the significant lines are equal iff
   the replacement and the code it replaces have the same non-blank lines after rstrip() ... *)
Theorem T14_9_skip_guard_spec :
  forall n code : text, ws_only_change n code = true <-> sig_lines n = sig_lines code.
Proof. exact ws_only_change_spec. Qed.
Print Assumptions T14_9_skip_guard_spec.

(* ... so such a replacement has, line by line, the indentation of the code it would have replaced: a change
   of block structure is never taken for white space ... *)
Theorem T14_9_skipped_keeps_indentation :
  forall n code : text,
    ws_only_change n code = true ->
    map count_leading_sp (filter nonblank (lines_nk n))
    = map count_leading_sp (filter nonblank (lines_nk code)).
Proof. exact skipped_keeps_indentation. Qed.
Print Assumptions T14_9_skipped_keeps_indentation.

(* ... _apply_rewrites (after 287b37c / 4047a08) decides on the ORIGINAL source which scheduled rewrites reach
   _do_rewrite: a member is a refusing one iff it changes the text, but only in blank lines / trailing blanks and
   with no line of either text beginning inside a string literal ... *)
Theorem T14_9_whitespace_only_member :
  forall (mlstr : text -> bool) (src : text) (e : entry),
    let code := slice src (rrng (snd e)) in
    let n := rnew (snd e) in
    ws_refused mlstr src e = true
    <-> (n <> code /\ sig_lines n = sig_lines code /\ mlstr code = false /\ mlstr n = false).
Proof. exact ws_refused_spec. Qed.
Print Assumptions T14_9_whitespace_only_member.

(* ... a scheduled rewrite is applied iff no member of its transaction is such a member and its own replacement
   differs from the original text of its range (no re-test of the ignore comment on the partly rewritten text) ... *)
Theorem T14_9_applied_decision :
  forall (mlstr : text -> bool) (src : text) (sched : list entry) (e : entry),
    In e (applicable mlstr src sched)
    <-> (In e sched
         /\ (forall e', In e' sched -> fst e' = fst e -> ws_refused mlstr src e' = false)
         /\ rnew (snd e) <> slice src (rrng (snd e))).
Proof. exact applicable_spec. Qed.
Print Assumptions T14_9_applied_decision.

(* ... and _do_rewrite(scheduled=True) leaves the text alone exactly when the replacement is the text already
   there; otherwise it splices in the replacement (in parentheses when it replaces a generator that shared those
   of its call, padded with blanks next to the brace of an f-string field), "pass" for an empty one, or a
   re-indented copy. *)
Theorem T14_9_do_rewrite_decision :
  forall (valid : text -> bool) (equiv : text -> text -> bool) (wrap : range -> bool) (cur : text) (r : range)
         (n : text),
    let code := slice cur r in
    (n = code -> do_rewrite valid equiv wrap cur (r, n) = cur)
    /\ (n <> code ->
        exists n', In n' (candidates (pad_braces valid equiv cur r (wrapped wrap r n)))
                   /\ do_rewrite valid equiv wrap cur (r, n) = splice Z cur r n').
Proof. exact do_rewrite_decision. Qed.
Print Assumptions T14_9_do_rewrite_decision.

Theorem T14_9_pad_braces_cases :
  forall (valid : text -> bool) (equiv : text -> text -> bool) (src : text) (r : range) (n : text),
    pad_braces valid equiv src r n = n \/ pad_braces valid equiv src r n = SP :: n ++ [SP].
Proof. exact pad_braces_cases. Qed.
Print Assumptions T14_9_pad_braces_cases.

(* moving the last statement of an if body out of the block is not a whitespace-only change; trailing
   blanks and blank lines are *)
Example T14_9_hoist_is_not_ws_only :
  ws_only_change (text_of_string "if q:
    f(1)
g(2)"%string) (text_of_string "if q:
    f(1)
    g(2)"%string) = false
  /\ ws_only_change (text_of_string "if q:
    f(1)
    g(2)  "%string) (text_of_string "if q:
    f(1)

    g(2)"%string) = true.
Proof. vm_compute. split; reflexivity. Qed.

(* non-vacuity *)
Example T14_guard_example :
  safe (rho_of [Bin BOr (Atom 1) (Un UNot (Atom 2)); Call 7 (Bin BAdd (Atom 1) (Atom 2))])
       (Bin BMul (Call 5 (Hole 0)) (Un UNeg (Hole 1))) = true.
Proof. exact safe_example. Qed.

(* x = f(f(1))\ny = f(2)  # pyrefact: ignore   with f({{a}}) -> g({{a}}): three matches in yield order
   outer, ignored, inner; exactly the outer one is applied (tokenizer verdict: comment token on line 1) *)
Example T14_subn_example :
  let src := text_of_string "x = f(f(1))
y = f(2)  # pyrefact: ignore
"%string in
  map (fun e => rrng (snd e))
      (subn_sched_text src (Some [1%nat]) [((4, 11), text_of_string "g(f(1))"); ((16, 20), text_of_string "g(2)");
                            ((6, 10), text_of_string "g(1)")]%Z)
  = [(4, 11)%Z]
  /\ ignore_lines src (Some [1%nat]) = [(12, 41)%Z]
  /\ ignore_lines src (Some []) = [].
Proof. vm_compute. repeat split; reflexivity. Qed.

(* the application step no longer re-tests the ignore comment on the partly rewritten text: with
   f({{x}}) -> {{x}} # pyrefact: ignore  on  x = f(1) + f(2)  both scheduled rewrites are applied, although the
   first one (applied back to front) puts an ignore comment on the line of the second (the chain before 287b37c
   refused the second: x = f(1) + 2 # pyrefact: ignore) *)
Example T14_9_apply_example :
  let src := text_of_string "x = f(1) + f(2)
"%string in
  subn_candidate (fun _ => true) (fun _ _ => true) (fun _ => false) (fun _ => false) src (Some [])
    [((4, 8), text_of_string "1 # pyrefact: ignore"); ((11, 15), text_of_string "2 # pyrefact: ignore")]%Z
  = text_of_string "x = 1 # pyrefact: ignore + 2 # pyrefact: ignore
"%string.
Proof. vm_compute. reflexivity. Qed.

(* a set display pasted into the replacement field of an f-string is padded: f"{ {x, 2} }", not f"{{x, 2}}" *)
Example T14_9_pad_example :
  let src := text_of_string "f""{g(x)}"""%string in
  pad_braces (fun _ => true) (fun _ _ => false) src (3, 7)%Z (text_of_string "{x, 2}")
  = text_of_string " {x, 2} "%string.
Proof. vm_compute. reflexivity. Qed.

(* T14.10 (round 5, seed C14-d) lines that begin inside a string literal are content: the indentation step of
   find_replace leaves every line of the INSTANTIATED, dedented replacement that the tokenizer flags
   (strl = _lines_inside_string_literals, asked about that text) byte-identical, whatever the indentation of
   the matched line and wherever the literal comes from (template or binding: the docstring of a bound def) ... *)
Theorem T14_10_string_lines_verbatim :
  forall (strl : text -> list nat) (src : text) (r : range) (filled : text) (j : nat),
    In j (strl (dedent filled)) ->
    nth_error (split_nl (place_replacement strl src r filled)) j = nth_error (split_nl (dedent filled)) j.
Proof. exact place_replacement_string_lines_verbatim. Qed.
Print Assumptions T14_10_string_lines_verbatim.

(* ... every line of the yielded text is the line of the dedented text, with the indentation of the matched line
   in front iff it is not the first line, not flagged and not blank *)
Theorem T14_10_line_cases :
  forall (strl : text -> list nat) (src : text) (r : range) (filled : text) (j : nat),
    nth_error (split_nl (place_replacement strl src r filled)) j
    = option_map (fun l => if line_kept false (strl (dedent filled)) j l then l
                           else spaces (match_indentation src r) ++ l)
                 (nth_error (split_nl (dedent filled)) j).
Proof. exact place_replacement_line_cases. Qed.
Print Assumptions T14_10_line_cases.

(* ... and format_template (f93f22a) leaves the flagged lines of a binding alone when it indents the binding's
   other lines like the slot *)
Theorem T14_10_binding_string_lines_verbatim :
  forall (strl : text -> list nat) (k : nat) (v : text) (j : nat),
    In j (strl v) -> nth_error (split_nl (indent_binding strl k v)) j = nth_error (split_nl v) j.
Proof. exact indent_binding_string_lines_verbatim. Qed.
Print Assumptions T14_10_binding_string_lines_verbatim.

(* `if D:` + `    {{s}}` -> `{{s}}` on a method with a two-line docstring in a class body: line 2 of the bound
   text begins inside the literal (tokenizer: [2]) and stays at its column, the code lines follow the match;
   a tokenizer that is not asked (answers []) moves the docstring line: the yielded texts differ *)
Example T14_10_docstring_example :
  let src := text_of_string "class K:
    if D:
        def f():
            '''a
          b'''
            return 1
"%string in
  let filled := text_of_string "def f():
    '''a
          b'''
    return 1"%string in
  place_replacement (fun _ => [2%nat]) src (13, 86)%Z filled
  = text_of_string "def f():
        '''a
          b'''
        return 1"%string
  /\ place_replacement (fun _ => []) src (13, 86)%Z filled
  = text_of_string "def f():
        '''a
              b'''
        return 1"%string.
Proof. vm_compute. split; reflexivity. Qed.
