(* C05 -- Formatting is a pure function of its input (history independence); caches stay faithful.
   Property theorems only; every proof is `exact <lemma>`; Print Assumptions under each. *)
From Coq Require Import List Arith Bool.
Import ListNotations.
Require Import Pyrefact.CacheModel Pyrefact.CacheProofs Pyrefact.AuxStateModel Pyrefact.AuxStateProofs.

(* T05.1 (general form).  For every key/value type, every computation, EVERY eviction policy that only
   removes entries, every call history h of programs that never change an object they were handed, and
   every such call p under test, from every faithful start state:
   the cache invariant Inv holds after the history, p returns its cache-free result, and that is the
   result p gives in the empty (fresh-process) state. *)
Theorem T05_1_history_independence :
  forall (K V : Type) (keqb : K -> K -> bool), (forall a b, keqb a b = true <-> a = b) ->
  forall (compute : K -> option V) (evict : list (K * V) -> list (K * V)),
    (forall st e, In e (evict st) -> In e st) ->
  forall (R : Type) (h : list (prog K V R)) (p : prog K V R) (st0 : cache K V),
    Forall pure h -> pure p -> faithful K V compute st0 ->
    Inv K V keqb compute (run_history K V keqb compute evict h st0)
    /\ fst (exec K V keqb compute evict p (run_history K V keqb compute evict h st0)) = eval K V compute p
    /\ fst (exec K V keqb compute evict p (run_history K V keqb compute evict h st0))
       = fst (exec K V keqb compute evict p []).
Proof. exact history_independence. Qed.
Print Assumptions T05_1_history_independence.

(* T05.1 for core.parse: lru_cache(maxsize=100), Inv stated through lookup, fresh process = []. *)
Theorem T05_1_parse_cache :
  forall (Src Tree : Type) (src_eqb : Src -> Src -> bool), (forall a b, src_eqb a b = true <-> a = b) ->
  forall (py_parse : Src -> option Tree) (R : Type) (h : list (prog Src Tree R)) (p : prog Src Tree R),
    Forall pure h -> pure p ->
    let st := run_history Src Tree src_eqb py_parse (lru PARSE_MAXSIZE) h [] in
    (forall s t, lookup Src Tree src_eqb s st = Some t -> py_parse s = Some t)
    /\ fst (exec Src Tree src_eqb py_parse (lru PARSE_MAXSIZE) p st)
       = fst (exec Src Tree src_eqb py_parse (lru PARSE_MAXSIZE) p []).
Proof. exact parse_cache_independence. Qed.
Print Assumptions T05_1_parse_cache.

(* T05.1 for the parse cache and the template cache side by side (tagged keys, one capacity each). *)
Theorem T05_1_both_caches :
  forall (K V : Type) (keqb : bool * K -> bool * K -> bool), (forall a b, keqb a b = true <-> a = b) ->
  forall (compute : bool * K -> option V) (R : Type) (h : list (prog (bool * K) V R)) (p : prog (bool * K) V R),
    Forall pure h -> pure p ->
    let ev := evict2 PARSE_MAXSIZE TEMPLATE_MAXSIZE in
    let st := run_history (bool * K) V keqb compute ev h [] in
    Inv (bool * K) V keqb compute st
    /\ fst (exec (bool * K) V keqb compute ev p st) = fst (exec (bool * K) V keqb compute ev p []).
Proof. exact both_caches_independence. Qed.
Print Assumptions T05_1_both_caches.

(* same input twice: identical results *)
Theorem T05_1_twice_same :
  forall (K V : Type) (keqb : K -> K -> bool), (forall a b, keqb a b = true <-> a = b) ->
  forall (compute : K -> option V) (evict : list (K * V) -> list (K * V)),
    (forall st e, In e (evict st) -> In e st) ->
  forall (R : Type) (h : list (prog K V R)) (p : prog K V R),
    Forall pure h -> pure p ->
    let st := run_history K V keqb compute evict h [] in
    fst (exec K V keqb compute evict p (snd (exec K V keqb compute evict p st)))
    = fst (exec K V keqb compute evict p st).
Proof. exact twice_same. Qed.
Print Assumptions T05_1_twice_same.

(* the lru cache never exceeds its capacity (eviction really happens in the model) *)
Theorem T05_3_capacity :
  forall (K V : Type) (keqb : K -> K -> bool) (compute : K -> option V) (cap : nat)
         (R : Type) (p : prog K V R) (st : cache K V),
    length st <= cap -> length (snd (exec K V keqb compute (lru cap) p st)) <= cap.
Proof. exact exec_bounded. Qed.
Print Assumptions T05_3_capacity.

(* R05.2: the premise is necessary -- a rule that edits the object it was handed and whose result shows
   the edit returns two different results when called twice, for every capacity >= 1. *)
Theorem R05_2_mutating_rule_history_dependent :
  forall (K V R : Type) (keqb : K -> K -> bool), (forall a b, keqb a b = true <-> a = b) ->
  forall (compute : K -> option V) (cap : nat) (k : K) (f : V -> V) (g : V -> R) (err : R) (t : V),
    compute k = Some t -> g (f (f t)) <> g (f t) ->
    let call := exec K V keqb compute (lru (S cap)) (edit_rule K V R k f g err) in
    fst (call (snd (call []))) <> fst (call []).
Proof. exact mutating_rule_history_dependent. Qed.
Print Assumptions R05_2_mutating_rule_history_dependent.

(* R05.2 witness: remove_redundant_chained_calls as it was before the repair (F05-1) *)
Theorem R05_2_chained_calls_refuted :
  exists (h : list (prog nat bool (option bool))),
    let call := exec nat bool Nat.eqb (fun _ => Some false) (lru PARSE_MAXSIZE) chained_calls_before_fix in
    fst (call (run_history nat bool Nat.eqb (fun _ => Some false) (lru PARSE_MAXSIZE) h [])) <> fst (call []).
Proof. exact chained_calls_refuted. Qed.
Print Assumptions R05_2_chained_calls_refuted.

(* non-vacuity: the repaired rule meets the premise of T05.1; a cache of capacity 2 evicts *)
Example T05_after_fix_pure : pure chained_calls_after_fix.
Proof. exact chained_calls_after_fix_pure. Qed.

Example T05_eviction_example :
  cexec 2 1 5 [[OGet (false, 0); OMut (false, 0); OGet (false, 0)];
               [OGet (false, 1); OGet (false, 2); OGet (false, 0); OGet (false, 7)]]
  = [[Some 1; Some 2]; [Some 2; Some 3; Some 1; None]].
Proof. vm_compute. reflexivity. Qed.

(* ---- round 5: state next to the parse cache that is keyed by object identity (core._REBOUND_NAMES) ---- *)

(* T05.4: a registry of the addresses of cached objects whose entries die with the object (WeakSet: removed
   when the lru_cache evicts the tree) is invisible.  For every predicate binds, EVERY allocator that never
   hands out a live address (so: with arbitrary reuse of freed addresses), every capacity >= 1, every
   history of parses and every source: the call folds exactly when the source does not bind the name, which
   is its result in the fresh process. *)
Theorem T05_4_weak_registry_history_independent :
  forall (binds : nat -> bool) (alloc : list nat -> nat), (forall live, ~ In (alloc live) live) ->
  forall (c : nat) (h : list nat) (s : nat),
    fst (aquery binds alloc (S c) true s (arun binds alloc (S c) true h afresh)) = negb (binds s)
    /\ fst (aquery binds alloc (S c) true s (arun binds alloc (S c) true h afresh))
       = fst (aquery binds alloc (S c) true s afresh).
Proof. exact aux_weak_history_independent. Qed.
Print Assumptions T05_4_weak_registry_history_independent.

(* ... in particular with the lowest-free-address allocator (a free list) used by the refutation below *)
Theorem T05_4_weak_registry_free_list :
  forall (binds : nat -> bool) (c : nat) (h : list nat) (s : nat),
    fst (aquery binds alloc_least (S c) true s (arun binds alloc_least (S c) true h afresh))
    = fst (aquery binds alloc_least (S c) true s afresh).
Proof. exact aux_weak_least_independent. Qed.
Print Assumptions T05_4_weak_registry_free_list.

(* R05.4: the same registry as a plain set of id(node) (entries outlive eviction, addresses are reused) is
   history dependent at the real capacity: a binder, 100 other parses, then a never-seen source (seed C05-d) *)
Theorem R05_4_id_registry_refuted :
  exists (binds : nat -> bool) (h : list nat) (s : nat),
    fst (aquery binds alloc_least PARSE_MAXSIZE false s (arun binds alloc_least PARSE_MAXSIZE false h afresh))
    <> fst (aquery binds alloc_least PARSE_MAXSIZE false s afresh).
Proof. exact aux_id_design_refuted. Qed.
Print Assumptions R05_4_id_registry_refuted.

(* ... and history independent under the boolean guard "no source of the history binds the name" (every
   allocator, every capacity): why tests without a binder in their history cannot see the defect *)
Theorem R05_4_id_registry_partial :
  forall (binds : nat -> bool) (alloc : list nat -> nat) (cap : nat) (h : list nat) (s : nat),
    no_binder binds h = true ->
    fst (aquery binds alloc cap false s (arun binds alloc cap false h afresh)) = negb (binds s)
    /\ fst (aquery binds alloc cap false s (arun binds alloc cap false h afresh))
       = fst (aquery binds alloc cap false s afresh).
Proof. exact aux_id_design_partial. Qed.
Print Assumptions R05_4_id_registry_partial.

Example R05_4_guard_met : no_binder binds_only_0 (seq 1 150) = true.
Proof. exact no_binder_example. Qed.

Example R05_4_same_history_both_designs :
  fst (aquery binds_only_0 alloc_least PARSE_MAXSIZE true refuting_probe
         (arun binds_only_0 alloc_least PARSE_MAXSIZE true refuting_history afresh)) = true
  /\ fst (aquery binds_only_0 alloc_least PARSE_MAXSIZE false refuting_probe
         (arun binds_only_0 alloc_least PARSE_MAXSIZE false refuting_history afresh)) = false.
Proof. exact refuting_history_weak_ok. Qed.
