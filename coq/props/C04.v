(* C04 -- The formatter is total: it never raises and always terminates.
   Property theorems only.  What is proved: the DRIVERS terminate after a bounded number of stage
   applications, and the early-return behaviour on skip_file / invalid input.  Freedom from
   arbitrary Python exceptions inside the ~100 stage functions is not a theorem (sweep only). *)
From Coq Require Import List Arith Bool.
Import ListNotations.
Require Import Pyrefact.SchedModel Pyrefact.SchedProofs Pyrefact.DriverModel Pyrefact.DriverProofs.
Require Import PyrefactGen.Tables.

(* T04.1 bounded driving: for every stage semantics, every input and every option combination
   format_code applies at most 2 * MAX_FILE_PASSES * |_multi_run_fixes| + 16 stages *)
Theorem T04_1_format_code_bounded :
  forall (St : Type) (eqb : St -> St -> bool) (Pres : Type)
         (skip_file is_blank valid : St -> bool) (indent_level : St -> nat)
         (surface : Pres -> St -> Pres) (app : stage -> Pres -> St -> St) (minws : St -> St -> St)
         (n_multi : nat) safe keep p0 s0,
    length (format_code_trace St eqb Pres skip_file is_blank valid indent_level surface app minws
                              n_multi MAX_FILE_PASSES safe keep p0 s0)
    <= 2 * MAX_FILE_PASSES * n_multi + 16.
Proof. intros. apply format_code_bounded. Qed.
Print Assumptions T04_1_format_code_bounded.

(* T04.1 for the public entry point: the wrapper main.format_code (final line break handling)
   applies no stage of its own *)
Theorem T04_1_format_code_entry_point_bounded :
  forall (St : Type) (eqb : St -> St -> bool) (Pres : Type)
         (skip_file is_blank valid : St -> bool) (indent_level : St -> nat)
         (surface : Pres -> St -> Pres) (app : stage -> Pres -> St -> St) (minws : St -> St -> St)
         (is_empty terminated : St -> bool) (add_nl : St -> St) (ends_lf : St -> bool) (drop_last : St -> St)
         (n_multi : nat) safe keep p0 s0,
    length (snd (format_code_outer_run St eqb Pres skip_file is_blank valid indent_level surface app minws
                                       is_empty terminated add_nl ends_lf drop_last
                                       n_multi MAX_FILE_PASSES safe keep p0 s0))
    <= 2 * MAX_FILE_PASSES * n_multi + 16.
Proof. intros. apply format_code_outer_bounded. Qed.
Print Assumptions T04_1_format_code_entry_point_bounded.

(* T04.1' fix() / chain() / sub() perform at most max_iter passes (T10.7) *)
Theorem T04_1_fix_bounded :
  forall (A : Type) (pass : list A -> list A) (src_eqb : list A -> list A -> bool)
         (max_iter : nat) (src : list A),
    exists n, n <= max_iter /\ fix_wrapper A pass src_eqb max_iter src = Nat.iter n pass src.
Proof. exact fix_bounded. Qed.
Print Assumptions T04_1_fix_bounded.

(* T04.1'' every history loop returns an iterate f^m with m <= budget *)
Theorem T04_1_history_loop_bounded :
  forall (St : Type) (eqb : St -> St -> bool) (f : St -> St) (n : nat) (h : list St) (s : St),
    exists m, m <= n /\ fst (fst (hloop St eqb St (fun s => s) f n h s)) = it St f m s.
Proof. exact loop_is_iterate. Qed.
Print Assumptions T04_1_history_loop_bounded.

(* T04.1''' format_files makes at most max_passes passes over a folder *)
Theorem T04_1_format_files_bounded :
  forall (C Fid : Type) (ff : Fid -> C -> C * bool) (n : nat) (fs : list (file C Fid)),
    let '(fs', ch, k) := folder_run C Fid ff n fs in
    k <= n /\ fs' = Nat.iter k (pass_files C Fid ff) fs /\ (ch = true -> k = n).
Proof. exact folder_run_bounded. Qed.
Print Assumptions T04_1_format_files_bounded.

(* T04.7 "syntactically invalid input is handed back with at most whitespace normalisation":
   when the text is invalid after the pre-passes and still invalid after dedent, exactly
   expandtabs, rmspace, blank-line squeezing and dedent have been applied, nothing else *)
Theorem T04_7_invalid_input_whitespace_only :
  forall (St : Type) (eqb : St -> St -> bool) (Pres : Type)
         (skip_file is_blank valid : St -> bool) (indent_level : St -> nat)
         (surface : Pres -> St -> Pres) (app : stage -> Pres -> St -> St) (minws : St -> St -> St)
         (n_multi max_file_passes : nat) safe keep p0 s0,
    skip_file s0 = false -> is_blank (pre_text St Pres app p0 s0) = false ->
    valid (pre_text St Pres app p0 s0) = false ->
    valid (app StDedent p0 (pre_text St Pres app p0 s0)) = false ->
    format_code_model St eqb Pres skip_file is_blank valid indent_level surface app minws
                      n_multi max_file_passes safe keep p0 s0
      = app StDedent p0 (pre_text St Pres app p0 s0)
    /\ format_code_trace St eqb Pres skip_file is_blank valid indent_level surface app minws
                         n_multi max_file_passes safe keep p0 s0
      = [StExpandtabs; StRmspace; StBlankLines; StDedent].
Proof. exact invalid_after_prepasses_returned_as_is. Qed.
Print Assumptions T04_7_invalid_input_whitespace_only.

(* T04.8 a file carrying the skip_file marker is returned untouched, no stage runs *)
Theorem T04_8_skip_file_untouched :
  forall (St : Type) (eqb : St -> St -> bool) (Pres : Type)
         (skip_file is_blank valid : St -> bool) (indent_level : St -> nat)
         (surface : Pres -> St -> Pres) (app : stage -> Pres -> St -> St) (minws : St -> St -> St)
         (n_multi max_file_passes : nat) safe keep p0 s0,
    skip_file s0 = true ->
    format_code_model St eqb Pres skip_file is_blank valid indent_level surface app minws
                      n_multi max_file_passes safe keep p0 s0 = s0
    /\ format_code_trace St eqb Pres skip_file is_blank valid indent_level surface app minws
                         n_multi max_file_passes safe keep p0 s0 = [].
Proof. exact skip_file_returned_untouched. Qed.
Print Assumptions T04_8_skip_file_untouched.

(* T04.8' ... also through the wrapper, when the source lacks a final line break (appending "\n"
   keeps the marker, dropping the last character undoes the appending) *)
Theorem T04_8_skip_file_untouched_entry_point :
  forall (St : Type) (eqb : St -> St -> bool) (Pres : Type)
         (skip_file is_blank valid : St -> bool) (indent_level : St -> nat)
         (surface : Pres -> St -> Pres) (app : stage -> Pres -> St -> St) (minws : St -> St -> St)
         (is_empty terminated : St -> bool) (add_nl : St -> St) (ends_lf : St -> bool) (drop_last : St -> St)
         (n_multi max_file_passes : nat) safe keep p0 s,
    skip_file s = true ->
    (skip_file (add_nl s) = true /\ ends_lf (add_nl s) = true /\ drop_last (add_nl s) = s) ->
    format_code_outer St eqb Pres skip_file is_blank valid indent_level surface app minws
                      is_empty terminated add_nl ends_lf drop_last n_multi max_file_passes safe keep p0 s = s
    /\ snd (format_code_outer_run St eqb Pres skip_file is_blank valid indent_level surface app minws
                                  is_empty terminated add_nl ends_lf drop_last n_multi max_file_passes
                                  safe keep p0 s) = [].
Proof. exact outer_skip_file_untouched. Qed.
Print Assumptions T04_8_skip_file_untouched_entry_point.

(* the bound is attained up to the constant: a successor chain exhausts both history loops *)
Example T04_example_budget_exhausted :
  let app := fun (st : stage) (_ : unit) (s : nat) => match st with StMulti 0 => S s | StSimplifyAssign => 1000 | _ => s end in
  let r := format_code_run nat Nat.eqb unit (fun _ => false) (fun _ => false) (fun _ => true)
             (fun _ => 0) (fun p _ => p) app (fun _ s => s) 2 MAX_FILE_PASSES false false tt 0 in
  fst r = 1000 + MAX_FILE_PASSES /\ length (snd r) = 2 * MAX_FILE_PASSES * 2 + 14.
Proof. vm_compute. split; reflexivity. Qed.

(* T04.9 (round 5, seed C04-d): in symbolic_math.simplify_boolean_expressions the constants collected as
   bounds of one operand (the isinstance guard = bound_admitted, tied to the code by correspondence) are
   pairwise orderable, so the unguarded comparisons of the redundancy analysis raise no TypeError;
   `orderable` is the reference semantics (validated against CPython) *)
Theorem T04_9_collected_bounds_comparisons_total :
  forall ks : list bkind, comparisons_total (collected_bounds ks) = true.
Proof. exact collected_bounds_comparisons_total. Qed.
Print Assumptions T04_9_collected_bounds_comparisons_total.

(* T04.9' the guard cannot be widened: one more kind next to int and the comparisons are partial *)
Theorem T04_9_wider_guard_not_total :
  forall k : bkind, bound_admitted k = false -> comparisons_total [BkInt; k] = false.
Proof. exact wider_guard_not_total. Qed.
Print Assumptions T04_9_wider_guard_not_total.

Example T04_9_example_mixed_operand :
  collected_bounds [BkStr; BkInt; BkNone; BkFloat; BkBytes] = [BkInt; BkFloat]
  /\ comparisons_total [BkStr; BkInt] = false.
Proof. vm_compute. split; reflexivity. Qed.
