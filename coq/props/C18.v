(* C18 -- Import normalisation keeps every referenced name bound to the same object.
   Property theorems only; every proof is `exact <lemma>`; Print Assumptions under each.
   Models: ImportsModel.v (resolve = reference semantics of import over a finite package graph; models of
   tracing.trace_origin / fix_starred_imports / fix_reimported_names and of the import-statement rules of
   fixes.py).  Proofs: ImportsProofs.v. *)
From Coq Require Import List Arith Bool.
Import ListNotations.
Require Import Pyrefact.ImportsModel Pyrefact.ImportsProofs.

(* ---- fuel: on an acyclic graph (every module imports only from modules listed before it) resolution
   with fuel > number of modules never runs out of fuel; a result other than Timeout is stable. *)
Theorem T18_0_acyclic_no_timeout : forall g, topo_ok g = true ->
  forall m n, resolve (S (length g)) g m n <> Timeout.
Proof. exact topo_no_timeout. Qed.
Print Assumptions T18_0_acyclic_no_timeout.

Theorem T18_0_fuel_monotone : forall f g m n,
  resolve f g m n <> Timeout -> resolve (S f) g m n = resolve f g m n.
Proof. exact resolve_mono. Qed.
Print Assumptions T18_0_fuel_monotone.

(* ---- T18.1a star expansion (tracing.fix_starred_imports, repaired): every referenced name of the client
   resolves to the same object afterwards, for every graph, provided nobody imports the client and the tool's
   test "module m provides n" (trace_origin) agrees with Python's star-import semantics on the client's star
   imports (boolean guard stars_agree).  Refuted without the guard (un-aliased dotted import in a module). *)
Theorem T18_1_star_expansion_partial : forall f F g c mi used n,
  find_mod g c = Some mi ->
  client_leaf g c = true ->
  stars_agree f F g (body mi) used = true ->
  In n used ->
  resolve (S f) g c n <> Timeout ->
  resolve (S f) (update_mod g c (set_body mi (fix_starred F g (body mi) used))) c n = resolve (S f) g c n.
Proof. exact star_expansion_partial. Qed.
Print Assumptions T18_1_star_expansion_partial.

Theorem T18_1_star_expansion_acyclic : forall F g c mi used n,
  topo_ok g = true ->
  find_mod g c = Some mi ->
  client_leaf g c = true ->
  stars_agree (length g) F g (body mi) used = true ->
  In n used ->
  resolve (S (length g)) (update_mod g c (set_body mi (fix_starred F g (body mi) used))) c n =
  resolve (S (length g)) g c n.
Proof. exact star_expansion_acyclic. Qed.
Print Assumptions T18_1_star_expansion_acyclic.

Theorem T18_1_star_expansion_refuted : exists f F g c mi used n,
  find_mod g c = Some mi /\ client_leaf g c = true /\ In n used /\
  resolve (S f) g c n <> Timeout /\
  resolve (S f) (update_mod g c (set_body mi (fix_starred F g (body mi) used))) c n <> resolve (S f) g c n.
Proof. exact star_expansion_refuted. Qed.
Print Assumptions T18_1_star_expansion_refuted.

(* ---- T18.1b redirection of re-exported names (tracing.fix_reimported_names, one pass): preserved when the
   client has no star import, the name has at most one binder in the client (redirected imports are moved to
   the first import line) and the tool's trace agrees with Python's scan on the modules looked into. *)
Theorem T18_1_redirect_partial : forall f F std g c mi n,
  find_mod g c = Some mi ->
  client_leaf g c = true ->
  has_star (body mi) = false ->
  count_binders n (body mi) <= 1 ->
  redirect_agrees f F std g (body mi) = true ->
  resolve (S (S f)) g c n <> Timeout ->
  resolve (S (S f)) (update_mod g c (set_body mi (fix_reimported F std g (body mi)))) c n = resolve (S (S f)) g c n.
Proof. exact redirect_partial. Qed.
Print Assumptions T18_1_redirect_partial.

Theorem T18_1_redirect_acyclic : forall F std g c mi n,
  topo_ok g = true ->
  find_mod g c = Some mi ->
  client_leaf g c = true ->
  has_star (body mi) = false ->
  count_binders n (body mi) <= 1 ->
  redirect_agrees (length g) F std g (body mi) = true ->
  resolve (S (S (length g))) (update_mod g c (set_body mi (fix_reimported F std g (body mi)))) c n =
  resolve (S (S (length g))) g c n.
Proof. exact redirect_acyclic. Qed.
Print Assumptions T18_1_redirect_acyclic.

Theorem T18_1_redirect_refuted : exists f F std g c mi n,
  find_mod g c = Some mi /\ client_leaf g c = true /\ has_star (body mi) = false /\
  redirect_agrees f F std g (body mi) = true /\
  resolve (S (S f)) g c n <> Timeout /\
  resolve (S (S f)) (update_mod g c (set_body mi (fix_reimported F std g (body mi)))) c n <> resolve (S (S f)) g c n.
Proof. exact redirect_refuted. Qed.
Print Assumptions T18_1_redirect_refuted.

(* ---- T18.1c the agreement guards follow from STRUCTURAL conditions: acyclic graph (topo_ok), no un-aliased
   dotted import in any module (no_dotted), every from-import finds its name (froms_found).  Then the tool's
   "module m provides n" (trace_origin) and Python's star-import semantics coincide for all modules and names,
   and both rewrites preserve resolve under boolean guards only. *)
Theorem T18_1_tool_agrees_with_python : forall g,
  topo_ok g = true -> no_dotted g = true -> froms_found (S (length g)) g = true ->
  forall m n, star_ok g m n && t_has (length g) g m n = py_has (length g) g m n.
Proof. exact tool_agrees_with_python. Qed.
Print Assumptions T18_1_tool_agrees_with_python.

Theorem T18_1_star_expansion_structural : forall g c mi used n,
  topo_ok g = true -> no_dotted g = true -> froms_found (S (length g)) g = true ->
  find_mod g c = Some mi ->
  client_leaf g c = true ->
  In n used ->
  resolve (S (length g)) (update_mod g c (set_body mi (fix_starred (length g) g (body mi) used))) c n =
  resolve (S (length g)) g c n.
Proof. exact star_expansion_structural. Qed.
Print Assumptions T18_1_star_expansion_structural.

Theorem T18_1_redirect_structural : forall std g c mi n,
  topo_ok g = true -> no_dotted g = true -> froms_found (S (length g)) g = true ->
  find_mod g c = Some mi ->
  client_leaf g c = true ->
  has_star (body mi) = false ->
  count_binders n (body mi) <= 1 ->
  resolve (S (S (length g))) (update_mod g c (set_body mi (fix_reimported (length g) std g (body mi)))) c n =
  resolve (S (S (length g))) g c n.
Proof. exact redirect_structural. Qed.
Print Assumptions T18_1_redirect_structural.

(* ---- T18.2 the binding environment (local name -> target, last binding wins) of a list of import
   statements.  Key fact: when all bindings of one local name have the same target (coherent), the
   environment depends only on the SET of bindings. *)
Theorem T18_2_env_depends_on_binding_set : forall l l' a,
  coherent l = true -> same_binds l l' -> env l' a = env l a.
Proof. exact env_same_binds. Qed.
Print Assumptions T18_2_env_depends_on_binding_set.

(* sorting a run of import statements (_sort_import_statements, repaired by cc67280): FULL -- for EVERY list of
   import statements the environment is unchanged, because the rule leaves a run alone exactly when
   fixes._import_order_matters says its order could matter (a star import, or a name bound by two aliases;
   `import os.path` + `import os` count as two bindings of os).  Underneath: a permutation of bindings with
   pairwise distinct bound names yields the same environment. *)
Theorem T18_2_perm_distinct_names : forall B B' a,
  has_dup (map fst B) = false -> Permutation.Permutation B' B -> lookup_last B' a = lookup_last B a.
Proof. exact perm_distinct_names_env. Qed.
Print Assumptions T18_2_perm_distinct_names.
Theorem T18_2_sort : forall l a, env (sort_stmts l) a = env l a.
Proof. exact sort_stmts_env. Qed.
Print Assumptions T18_2_sort.
(* the rule before the repair (every run is sorted), pinned: refuted, and true under the coherence guard *)
Theorem T18_2_old_sort_refuted : exists l a, env (old_sort_stmts l) a <> env l a.
Proof. exact old_sort_stmts_refuted. Qed.
Print Assumptions T18_2_old_sort_refuted.
Theorem T18_2_old_sort_partial : forall l a, coherent l = true -> env (old_sort_stmts l) a = env l a.
Proof. exact old_sort_stmts_env. Qed.
Print Assumptions T18_2_old_sort_partial.

(* sorting / normalising the aliases inside a statement (_fix_imported_as_self_or_unsorted, repaired by 95f12ea):
   FULL -- a statement two of whose aliases bind one name keeps its order *)
Theorem T18_2_sort_aliases : forall l a, env (sort_aliases l) a = env l a.
Proof. exact sort_aliases_env. Qed.
Print Assumptions T18_2_sort_aliases.
Theorem T18_2_old_sort_aliases_refuted : exists l a, env (old_sort_aliases l) a <> env l a.
Proof. exact old_sort_aliases_refuted. Qed.
Print Assumptions T18_2_old_sort_aliases_refuted.
Theorem T18_2_old_sort_aliases_partial : forall l a, coherent l = true -> env (old_sort_aliases l) a = env l a.
Proof. exact old_sort_aliases_env. Qed.
Print Assumptions T18_2_old_sort_aliases_partial.

(* fixes.sort_imports as a whole (alias sort after statement sort): FULL *)
Theorem T18_2_sort_imports : forall l a, env (sort_aliases (sort_stmts l)) a = env l a.
Proof. exact sort_imports_env. Qed.
Print Assumptions T18_2_sort_imports.

(* the bound name of the guard is Python's `alias.asname or alias.name.split(".")[0]` on every alias Python can
   write *)
Theorem T18_2_guard_bound_name : forall al, wf_ialias al = true ->
  ibound al = match ias al with Some a => a | None => ihead al end.
Proof. exact ibound_raw. Qed.
Print Assumptions T18_2_guard_bound_name.

(* merging from-imports of one module (_fix_duplicate_from_imports) *)
Theorem T18_2_merge_partial : forall l a, coherent l = true -> env (dup_from l) a = env l a.
Proof. exact dup_from_env. Qed.
Print Assumptions T18_2_merge_partial.
Theorem T18_2_merge_refuted : exists l a, env (dup_from l) a <> env l a.
Proof. exact dup_from_refuted. Qed.
Print Assumptions T18_2_merge_refuted.

(* dropping duplicate plain imports (_fix_duplicate_regular_imports, repaired) *)
Theorem T18_2_duplicates_partial : forall l a, coherent l = true -> env (dup_regular l) a = env l a.
Proof. exact dup_regular_env. Qed.
Print Assumptions T18_2_duplicates_partial.
Theorem T18_2_duplicates_refuted : exists l a, env (dup_regular l) a <> env l a.
Proof. exact dup_regular_refuted. Qed.
Print Assumptions T18_2_duplicates_refuted.

(* splitting `import a, b` (_breakout_stacked_imports) *)
Theorem T18_2_split_partial : forall l a, coherent l = true -> env (breakout l) a = env l a.
Proof. exact breakout_env. Qed.
Print Assumptions T18_2_split_partial.
Theorem T18_2_split_refuted : exists l a, env (breakout l) a <> env l a.
Proof. exact breakout_refuted. Qed.
Print Assumptions T18_2_split_refuted.

(* removing unused imports (remove_unused_imports, repaired): every USED name keeps its target *)
Theorem T18_2_remove_unused_partial : forall used l a,
  coherent l = true -> In a used -> env (remove_unused used l) a = env l a.
Proof. exact remove_unused_env. Qed.
Print Assumptions T18_2_remove_unused_partial.
Theorem T18_2_remove_unused_refuted : exists used l a, In a used /\ env (remove_unused used l) a <> env l a.
Proof. exact remove_unused_refuted. Qed.
Print Assumptions T18_2_remove_unused_refuted.

(* ---- non-vacuity *)
Example T18_example_star :
  topo_ok ex_graph = true /\ loads 10 ex_graph = true /\
  find_mod ex_graph 40 = Some ex_client /\ client_leaf ex_graph 40 = true /\
  stars_agree 10 10 ex_graph (body ex_client) ex_used = true /\
  forallb (fun n => negb (res_eqb (resolve 11 ex_graph 40 n) Timeout)) ex_used = true /\
  fix_starred 10 ex_graph (body ex_client) ex_used =
    [From 30 2 2; From 30 4 4; From 20 6 6; From 20 8 8; From 30 6 12].
Proof. exact star_example. Qed.

Example T18_example_redirect :
  find_mod ex_graph2 40 = Some ex_client2 /\ client_leaf ex_graph2 40 = true /\
  has_star (body ex_client2) = false /\
  forallb (fun n => count_binders n (body ex_client2) <=? 1) ex_used = true /\
  redirect_agrees 10 10 (fun _ => false) ex_graph2 (body ex_client2) = true /\
  forallb (fun n => negb (res_eqb (resolve 12 ex_graph2 40 n) Timeout)) ex_used = true /\
  fix_reimported 10 (fun _ => false) ex_graph2 (body ex_client2) =
    [From 0 2 2; From 0 4 4; From 10 2 6; From 20 6 12; From 20 8 8].
Proof. exact redirect_example. Qed.

Example T18_example_coherent :
  coherent coherent_example = true /\
  order_matters coherent_example = true /\ sort_stmts coherent_example = coherent_example /\
  dup_from coherent_example <> coherent_example /\
  dup_regular coherent_example <> coherent_example /\
  breakout coherent_example <> coherent_example /\
  remove_unused [2; 12] coherent_example <> coherent_example.
Proof. exact coherent_example_ok. Qed.

(* the repaired sort rules still sort where they may (statements and aliases move), and leave the witnesses of
   the old rules alone *)
Example T18_example_sort :
  order_matters sort_example = false /\
  sort_stmts sort_example = [SImport [(10, Some 10, 10, true)]; SFrom false 0 [(2, Some 14)]; SFrom false 4 [(6, None); (2, Some 8)]] /\
  sort_aliases (sort_stmts sort_example) =
    [SImport [(10, None, 10, true)]; SFrom false 0 [(2, Some 14)]; SFrom false 4 [(2, Some 8); (6, None)]].
Proof. exact sort_example_ok. Qed.
Example T18_example_sort_refuses :
  sort_stmts sort_witness = sort_witness /\ sort_aliases alias_witness = alias_witness.
Proof. exact (conj sort_stmts_witness_kept sort_aliases_witness_kept). Qed.

Example T18_example_structural :
  topo_ok ex_graph = true /\ no_dotted ex_graph = true /\ froms_found (S (length ex_graph)) ex_graph = true /\
  topo_ok ex_graph2 = true /\ no_dotted ex_graph2 = true /\ froms_found (S (length ex_graph2)) ex_graph2 = true.
Proof. exact structural_example. Qed.
