(* C18 -- placeholder while the proofs are being written *)
From Coq Require Import List Arith Bool.
Import ListNotations.
Require Import Pyrefact.ImportsModel Pyrefact.ImportsProofs.

Theorem T18_tmp : forall l1 l2 a,
  lookup_last (l1 ++ l2) a =
  match lookup_last l2 a with Some t => Some t | None => lookup_last l1 a end.
Proof. exact lookup_last_app. Qed.
Print Assumptions T18_tmp.
