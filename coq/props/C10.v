From Coq Require Import List ZArith Bool Lia.
Require Import Pyrefact.SchedModel.
Open Scope Z_scope.
Theorem overlaps_sym : forall a b, overlaps a b = overlaps b a.
Proof. intros a b. unfold overlaps. apply andb_comm. Qed.
Print Assumptions overlaps_sym.
