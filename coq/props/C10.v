(* C10 -- Rewrites are scheduled transactionally and never overlap.
   Property theorems only; every proof is `exact <lemma>`; Print Assumptions under each. *)
From Coq Require Import List ZArith Bool Lia Permutation Sorted.
Import ListNotations.
Require Import Pyrefact.SchedModel Pyrefact.SchedProofs Pyrefact.Splice.
Require Import Pyrefact.IgnoreModel Pyrefact.SchedApplyModel Pyrefact.SchedApplyProofs.
Open Scope Z_scope.

(* T10.1 atomicity: for every list of groups, every yield list and every transaction assignment,
   the scheduled entries of a transaction are none, or exactly its (set-deduplicated) rewrites. *)
Theorem T10_1_atomicity :
  forall (T : Type) (teqb : T -> T -> bool) (tcmp : T -> T -> comparison),
    (forall a b, teqb a b = true <-> a = b) ->
  forall (ilines : list range) (groups : list (list (yielded T))) (key : tkey),
    let got := filter (fun e => key_eqb (fst e) key) (schedule T teqb tcmp ilines groups) in
    got = [] \/ Permutation (map snd got) (nodup_rw T teqb (tx_of T groups key)).
Proof. exact schedule_atomic. Qed.
Print Assumptions T10_1_atomicity.

(* T10.2 disjointness: no two scheduled rewrites overlap. *)
Theorem T10_2_disjointness :
  forall (T : Type) (teqb : T -> T -> bool) (tcmp : T -> T -> comparison) (ilines : list range)
         (groups : list (list (yielded T))),
    ForallOrdPairs (fun a b => overlaps (rrng (snd a)) (rrng (snd b)) = false)
                   (schedule T teqb tcmp ilines groups).
Proof. exact schedule_disjoint. Qed.
Print Assumptions T10_2_disjointness.

(* T10.3 drop characterisation, both directions: a transaction is scheduled iff it exists, no
   transaction with precedence has the same rewrite list, none of its ranges touches an ignored line,
   it does not overlap itself, and it overlaps no *scheduled* transaction with precedence. *)
Theorem T10_3_dropped_only_if :
  forall (T : Type) (teqb : T -> T -> bool) (tcmp : T -> T -> comparison),
    (forall a b, teqb a b = true <-> a = b) ->
  forall (ilines : list range) (groups : list (list (yielded T))) (key : tkey),
    In key (map fst (schedule T teqb tcmp ilines groups)) <->
      tx_of T groups key <> []
      /\ ~ (exists key', key_cmp key' key = Lt /\ tx_of T groups key' = tx_of T groups key)
      /\ existsb (fun r => ignored ilines (rrng r)) (tx_of T groups key) = false
      /\ self_conflict T (nodup_rw T teqb (tx_of T groups key)) = false
      /\ (forall key', key_cmp key' key = Lt ->
            In key' (map fst (schedule T teqb tcmp ilines groups)) ->
            forall r r', In r (tx_of T groups key) -> In r' (tx_of T groups key') ->
                         overlaps (rrng r) (rrng r') = false).
Proof. exact schedule_drop_iff. Qed.
Print Assumptions T10_3_dropped_only_if.

(* T10.4 splice: sequential application in descending order of sorted, pairwise non-overlapping,
   well-formed ranges is the simultaneous splice (untouched text verbatim and in order). *)
Theorem T10_4_sequential_is_simultaneous :
  forall (A : Type) (src : list A) (asc : list (nrw A)),
    StronglySorted (lex_le A) asc ->
    ForallOrdPairs (fun a b => noverlaps A a b = false) asc ->
    Forall (wf A (length src)) asc ->
    apply_desc A src asc = build A 0 src asc.
Proof. exact sorted_disjoint_apply. Qed.
Print Assumptions T10_4_sequential_is_simultaneous.

(* T10.5 rollback: for every validity predicate the pass returns the source or a valid text, and an
   invalid spliced candidate gives back exactly the source. *)
Theorem T10_5_rollback :
  forall (A : Type) (valid : list A -> bool) (restore : list A -> list A -> list A)
         (src : list A) (rws : list (range * list A)),
    (let r := apply_rewrites A valid restore src rws in r = src \/ valid r = true)
    /\ (valid (apply_all A src rws) = false -> apply_rewrites A valid restore src rws = src).
Proof. intros; split; [apply apply_rollback | apply apply_invalid_identity]. Qed.
Print Assumptions T10_5_rollback.

(* T10.7 bounded driving of fix()/chain(): at most max_iter passes, result is pass^n. *)
Theorem T10_7_fix_bounded :
  forall (A : Type) (pass : list A -> list A) (src_eqb : list A -> list A -> bool)
         (max_iter : nat) (src : list A),
    exists n, (n <= max_iter)%nat /\ fix_wrapper A pass src_eqb max_iter src = Nat.iter n pass src.
Proof. exact fix_bounded. Qed.
Print Assumptions T10_7_fix_bounded.

(* T10.1b atomicity of the whole pass (scheduler + application step of the repaired code): for EVERY refusal
   predicate on single rewrites (the tool's one: "changes nothing but blank lines / trailing whitespace"), the
   rewrites of a transaction that are spliced into the text are none, or exactly its (set-deduplicated) rewrites;
   and what is spliced stays pairwise disjoint. *)
Theorem T10_1b_pass_atomicity :
  forall (T : Type) (teqb : T -> T -> bool) (tcmp : T -> T -> comparison),
    (forall a b, teqb a b = true <-> a = b) ->
  forall (refused : tkey * rewrite T -> bool) (ilines : list range) (groups : list (list (yielded T)))
         (key : tkey),
    let got := filter (fun e => key_eqb (fst e) key)
                      (surviving T refused (schedule T teqb tcmp ilines groups)) in
    got = [] \/ Permutation (map snd got) (nodup_rw T teqb (tx_of T groups key)).
Proof. exact pass_atomic. Qed.
Print Assumptions T10_1b_pass_atomicity.

Theorem T10_2b_pass_disjointness :
  forall (T : Type) (teqb : T -> T -> bool) (tcmp : T -> T -> comparison)
         (refused : tkey * rewrite T -> bool) (ilines : list range) (groups : list (list (yielded T))),
    ForallOrdPairs (fun a b => overlaps (rrng (snd a)) (rrng (snd b)) = false)
                   (surviving T refused (schedule T teqb tcmp ilines groups)).
Proof. exact pass_disjoint. Qed.
Print Assumptions T10_2b_pass_disjointness.

(* T10.3b a scheduled transaction is taken out at the application step iff one of its members is refused
   (finding F10-3: this reason is not in the property's list). *)
Theorem T10_3b_refused_iff :
  forall (T : Type) (refused : tkey * rewrite T -> bool) (sched : list (tkey * rewrite T)) (key : tkey),
    In key (map fst sched) ->
    (In key (map fst (surviving T refused sched)) <->
     forall e, In e sched -> fst e = key -> refused e = false).
Proof. exact surviving_drop_iff. Qed.
Print Assumptions T10_3b_refused_iff.

(* T10.1c the application step BEFORE repairs 287b37c / 4047a08 (hunt items C10-0, C10-1) is refuted: a transaction
   accepted by the scheduler with two members is applied in part, once through the whitespace-only refusal and
   once through the ignore test re-run on the partly rewritten text; partial: when no member is refused at its turn
   the old step is the pure splice. *)
Theorem T10_1c_old_apply_step_refuted :
  (exists src ilines groups key,
      length (filter (fun e => key_eqb (fst e) key) (schedule_text ilines groups)) = 2%nat
      /\ torn key (outcomes_v0 src (schedule_text ilines groups)) = true
      /\ In (key, RefusedWs) (outcomes_v0 src (schedule_text ilines groups)))
  /\ (exists src ilines groups key,
      length (filter (fun e => key_eqb (fst e) key) (schedule_text ilines groups)) = 2%nat
      /\ torn key (outcomes_v0 src (schedule_text ilines groups)) = true
      /\ In (key, RefusedIgnore) (outcomes_v0 src (schedule_text ilines groups))).
Proof. exact apply_v0_atomic_refuted. Qed.
Print Assumptions T10_1c_old_apply_step_refuted.

Theorem T10_1c_old_apply_step_partial :
  forall (sched : list entry) (src : ztext),
    Forall wf_entry sched ->
    no_refusal (outcomes_v0 src sched) = true ->
    apply_v0 src sched = apply_all Z src (map (fun e => (rrng (snd e), rnew (snd e))) sched).
Proof. exact apply_v0_partial. Qed.
Print Assumptions T10_1c_old_apply_step_partial.

(* non-vacuity: 3 groups, 5 transactions: one self-overlap, one duplicate, one cross-group conflict,
   one on an ignored line; exactly one survives besides the first. *)
Example T10_example :
  map fst (schedule_text [(20, 30)]
     [ [((0, 3), [1], Some 0); ((2, 5), [2], Some 0);          (* self-overlap *)
        ((6, 9), [3], Some 1)];                                 (* accepted *)
       [((6, 9), [3], Some 7);                                  (* duplicate of (0,1) *)
        ((8, 12), [4], None)];                                  (* overlaps scheduled (0,1) *)
       [((22, 23), [5], None); ((12, 15), [6], Some 2)] ])      (* ignored line; accepted *)
  = [(2, 2); (0, 1)].
Proof. vm_compute. reflexivity. Qed.
