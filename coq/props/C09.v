(* C09 -- Repeated formatting converges and never oscillates.
   Property theorems only; every proof is `exact <lemma>`; Print Assumptions under each.
   What is proved is the convergence machinery (history loops, fix(), CLI pass bookkeeping);
   idempotence of the whole stage composition is NOT a theorem (see design/C09.md: sweep). *)
From Coq Require Import List Arith Bool.
Import ListNotations.
Require Import Pyrefact.DriverModel Pyrefact.DriverProofs.
Require Import PyrefactGen.Tables.

(* T09.1 cycle-cut idempotence of format_code's history loop: if the loop over ANY function f
   stops on a history hit (not by exhausting the budget n), running the loop again from its
   result stops on a history hit at exactly the same text -- even when f has no fixed point. *)
Theorem T09_1_cycle_cut_idempotent :
  forall (St : Type) (eqb : St -> St -> bool), (forall a b, eqb a b = true <-> a = b) ->
  forall (f : St -> St) (n : nat) (s r : St) (h : list St),
    run St eqb f n s = (r, h, true) -> exists h', run St eqb f n r = (r, h', true).
Proof. exact cycle_cut_idempotent. Qed.
Print Assumptions T09_1_cycle_cut_idempotent.

(* T09.1' the text returned on a history hit is a periodic point of f of period <= n *)
Theorem T09_1_hit_is_periodic :
  forall (St : Type) (eqb : St -> St -> bool), (forall a b, eqb a b = true <-> a = b) ->
  forall (f : St -> St) (n : nat) (s r : St) (h : list St),
    run St eqb f n s = (r, h, true) -> exists p, 1 <= p <= n /\ it St f p r = r.
Proof. exact hit_is_periodic. Qed.
Print Assumptions T09_1_hit_is_periodic.

(* T09.1'' without a hit the whole budget was used and the result is the n-th iterate *)
Theorem T09_1_exhausted_is_nth_iterate :
  forall (St : Type) (eqb : St -> St -> bool) (f : St -> St) (n : nat) (h : list St) (s r : St) (h' : list St),
    hloop St eqb St (fun s => s) f n h s = (r, h', false) -> r = it St f n s.
Proof. exact loop_exhausted. Qed.
Print Assumptions T09_1_exhausted_is_nth_iterate.

(* T09.1''' the multi-run phase of format_code IS that loop, over the composition of the
   n_multi stages of _multi_run_fixes (traces dropped) *)
Theorem T09_1_first_loop_is_history_loop :
  forall (St : Type) (eqb : St -> St -> bool) (Pres : Type) (app : stage -> Pres -> St -> St)
         (n_multi max_file_passes : nat) (p : Pres) (x : tstate St),
    let '(x', h', b) := hloop St eqb (tstate St) fst (multi_run St Pres app n_multi p)
                              max_file_passes [fst x] x in
    run St eqb (multi_fun St Pres app n_multi p) max_file_passes (fst x) = (fst x', h', b).
Proof. exact first_loop_is_history_loop. Qed.
Print Assumptions T09_1_first_loop_is_history_loop.

(* T09.5 lifted to format_code: when every stage other than those of _multi_run_fixes is inert
   (and every text is a valid non-blank module, safe = false), format_code is the first history loop
   (the second loop is never entered) ... *)
Theorem T09_5_format_code_is_history_loop :
  forall (St : Type) (eqb : St -> St -> bool), (forall a b, eqb a b = true <-> a = b) ->
  forall (Pres : Type) (indent_level : St -> nat) (surface : Pres -> St -> Pres)
         (app : stage -> Pres -> St -> St) (n_multi max_file_passes : nat),
    (forall st p s, is_multi st = false -> app st p s = s) ->
  forall keep p0 s,
    format_code_model St eqb Pres (fun _ => false) (fun _ => false) (fun _ => true) indent_level surface
                      app (fun _ s => s) n_multi max_file_passes false keep p0 s
    = fst (fst (run St eqb (multi_fun St Pres app n_multi p0) max_file_passes s)).
Proof. exact format_code_is_history_loop. Qed.
Print Assumptions T09_5_format_code_is_history_loop.

(* ... and therefore idempotent on its own output whenever the loop stopped on a history hit,
   whatever the multi-run stages do (they may oscillate among themselves) *)
Theorem T09_5_format_code_idempotent_when_inert :
  forall (St : Type) (eqb : St -> St -> bool), (forall a b, eqb a b = true <-> a = b) ->
  forall (Pres : Type) (indent_level : St -> nat) (surface : Pres -> St -> Pres)
         (app : stage -> Pres -> St -> St) (n_multi max_file_passes : nat),
    (forall st p s, is_multi st = false -> app st p s = s) ->
  forall keep p0 s,
    snd (run St eqb (multi_fun St Pres app n_multi p0) max_file_passes s) = true ->
    let F := format_code_model St eqb Pres (fun _ => false) (fun _ => false) (fun _ => true) indent_level
                               surface app (fun _ s => s) n_multi max_file_passes false keep p0 in
    F (F s) = F s.
Proof. exact format_code_idempotent_when_inert. Qed.
Print Assumptions T09_5_format_code_idempotent_when_inert.

(* T09.6 for arbitrary stages: a text that every stage leaves alone is a fixed point of format_code
   (so a second application can only differ where some single stage still changes the text) *)
Theorem T09_6_stagewise_fixed_point :
  forall (St : Type) (eqb : St -> St -> bool) (Pres : Type) (indent_level : St -> nat)
         (surface : Pres -> St -> Pres) (app : stage -> Pres -> St -> St) (n_multi max_file_passes : nat)
         (skip_file is_blank valid : St -> bool) (minws : St -> St -> St) (r : St),
    (forall st p, app st p r = r) -> (forall o, minws o r = r) ->
  forall safe keep p0,
    format_code_model St eqb Pres skip_file is_blank valid indent_level surface app minws
                      n_multi max_file_passes safe keep p0 r = r.
Proof. exact format_code_fixed_point. Qed.
Print Assumptions T09_6_stagewise_fixed_point.

(* T09.2 the history of processing.fix / chain is {source} and never extended: the loop stops
   early exactly at the first return to the INITIAL text, otherwise all max_iter passes run *)
Theorem T09_2_fix_history_initial_only :
  forall (St : Type) (eqb : St -> St -> bool), (forall a b, eqb a b = true <-> a = b) ->
  forall (pass : St -> St) (n : nat) (s : St),
    (exists m, 1 <= m <= n /\ it St pass m s = s /\ (forall m', 1 <= m' < m -> it St pass m' s <> s)
               /\ fix_model St eqb pass n s = s)
    \/ ((forall m', 1 <= m' <= n -> it St pass m' s <> s) /\ fix_model St eqb pass n s = it St pass n s).
Proof. exact fix_history_initial_only. Qed.
Print Assumptions T09_2_fix_history_initial_only.

(* T09.4 format_files: folders evolve independently; a folder is re-formatted pass after pass for
   as long as the previous pass changed one of its files, at most max_passes times ... *)
Theorem T09_4_format_files_per_folder :
  forall (C Fid : Type) (ff : Fid -> C -> C * bool) (max_passes : nat) (folders : list (list (file C Fid))),
    map (proj C Fid) (fst (format_files_model C Fid ff max_passes folders))
    = map (fun fs => fst (folder_run C Fid ff max_passes fs)) folders.
Proof. exact format_files_per_folder. Qed.
Print Assumptions T09_4_format_files_per_folder.

(* ... every file of a folder gets the same number k <= max_passes of applications, and k =
   max_passes when the folder was still changing at the end ... *)
Theorem T09_4_folder_run_bounded :
  forall (C Fid : Type) (ff : Fid -> C -> C * bool) (n : nat) (fs : list (file C Fid)),
    let '(fs', ch, k) := folder_run C Fid ff n fs in
    k <= n /\ fs' = Nat.iter k (pass_files C Fid ff) fs /\ (ch = true -> k = n).
Proof. exact folder_run_bounded. Qed.
Print Assumptions T09_4_folder_run_bounded.

(* ... and (since the repair feb2676) format_files returns exactly whether a pass ran and some file's first
   formatting reported a change ... *)
Theorem T09_4_result_characterised :
  forall (C Fid : Type) (ff : Fid -> C -> C * bool) (max_passes : nat) (folders : list (list (file C Fid))),
    format_files_result C Fid ff max_passes folders
    = (0 <? max_passes) && existsb (fun fs => existsb snd (map (format_one C Fid ff) fs)) folders.
Proof. exact format_files_result_char. Qed.
Print Assumptions T09_4_result_characterised.

(* ... so False means that nothing was rewritten and every file is at a fixed point of format_file *)
Theorem T09_4_false_means_all_fixed :
  forall (C Fid : Type) (ff : Fid -> C -> C * bool),
    (forall id c, snd (ff id c) = false -> fst (ff id c) = c) ->
  forall (max_passes : nat) (folders : list (list (file C Fid))),
    0 < max_passes ->
    format_files_result C Fid ff max_passes folders = false ->
    map (@f_files C Fid) (fst (format_files_model C Fid ff max_passes folders)) = folders /\
    Forall (fun fs => Forall (fun x => ff (fst x) (snd x) = (snd x, false)) fs) folders.
Proof. exact format_files_false_all_fixed. Qed.
Print Assumptions T09_4_false_means_all_fixed.

(* the pre-repair return value (flags of the last pass only) answered False for a run that rewrote a file *)
Theorem R09_4_old_result_refuted :
  exists (max_passes : nat) (folders : list (list (file nat nat))),
    format_files_last_flags nat nat ff_once max_passes folders = false /\
    map (@f_files nat nat) (fst (format_files_model nat nat ff_once max_passes folders)) <> folders /\
    format_files_result nat nat ff_once max_passes folders = true.
Proof. exact old_result_refuted. Qed.
Print Assumptions R09_4_old_result_refuted.

(* T09.7 the orientation heuristic fixes._orelse_preferred_as_body (used by swap_if_else, early_return,
   early_continue) is antisymmetric on well-formed branch summaries without dead code, unless both
   branches are only `pass`: a swap it asks for is never asked back *)
Theorem T09_7_orientation_antisymmetric :
  forall b o : branch,
    branch_wf b = true -> branch_wf o = true -> no_dead_code b = true -> no_dead_code o = true ->
    br_all_pass b && br_all_pass o = false ->
    orelse_preferred b o = true -> orelse_preferred o b = false.
Proof. exact orelse_preferred_antisym. Qed.
Print Assumptions T09_7_orientation_antisymmetric.

(* ... and is NOT without the no-dead-code guard (a branch `return ...; if ...: ...`) *)
Theorem T09_7_orientation_antisymmetric_refuted :
  exists b o, branch_wf b = true /\ branch_wf o = true /\ br_all_pass b && br_all_pass o = false
              /\ orelse_preferred b o = true /\ orelse_preferred o b = true.
Proof. exact orelse_preferred_antisym_refuted. Qed.
Print Assumptions T09_7_orientation_antisymmetric_refuted.

(* non-vacuity / contrast: fix() does not cut a cycle that avoids the initial text (its result
   depends on the parity of max_iter), format_code's loop does *)
Example T09_example_fix_vs_history_loop :
  let pass := fun s => match s with 0 => 1 | 1 => 2 | _ => 1 end in
  fix_model nat Nat.eqb pass 5 0 = 1 /\ fix_model nat Nat.eqb pass 4 0 = 2
  /\ fst (fst (hloop nat Nat.eqb nat (fun s => s) pass 5 [0] 0)) = 1
  /\ fst (fst (hloop nat Nat.eqb nat (fun s => s) pass 4 [0] 0)) = 1.
Proof. exact fix_no_cycle_cut. Qed.

(* two folders, MAX_MODULE_PASSES passes: folder 1 (file 0) converges after 2 changes, folder 2
   (file 1) oscillates 5 <-> 6 and uses the whole budget *)
Example T09_example_format_files :
  let ff := fun (id c : nat) =>
    match id with
    | 0 => (Nat.min (c + 1) 2, c <? 2)
    | _ => (if c =? 5 then 6 else 5, true)
    end in
  let r := format_files_model nat nat ff MAX_MODULE_PASSES [[(0, 0)]; [(1, 5)]] in
  map (proj nat nat) (fst r) = [([(0, 2)], false); ([(1, 6)], true)]
  /\ snd r = [[0; 1]; [0; 1]; [0; 1]; [1]; [1]].
Proof. vm_compute. split; reflexivity. Qed.
