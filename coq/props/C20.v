(* C20 -- Opt-out comments are honoured.
   Property theorems only; every proof is `exact <lemma>`; Print Assumptions under each. *)
From Coq Require Import List ZArith NArith Bool Lia Permutation Sorted.
Import ListNotations.
Require Import Pyrefact.SchedModel Pyrefact.SchedProofs Pyrefact.Splice Pyrefact.IgnoreModel Pyrefact.IgnoreProofs.

(* T20.0 the hand-translated scanners are exactly the regexes  #\s*pyrefact\s*:\s*(skip_file|ignore)
   and  #\s*pyrefact\s*:\s*skip_file : for every text, the scanner answers true iff the text contains
   '#', spaces, "pyrefact", spaces, ':', spaces, keyword. *)
Theorem T20_0_ignore_regex :
  forall l, ignore_line l = true <-> Occurs [SKIP_FILE; IGNORE] l.
Proof. exact ignore_line_iff. Qed.
Print Assumptions T20_0_ignore_regex.

Theorem T20_0_skip_regex :
  forall s, skip_search s = true <-> Occurs [SKIP_FILE] s.
Proof. exact skip_search_iff. Qed.
Print Assumptions T20_0_skip_regex.

(* T20.1 skip_file: a skip-file comment on ANY physical line of the source (however the line is
   delimited: \n, \r\n, \r, \f, \v, \x1c-\x1e, \x85, U+2028, U+2029) makes format_code return its input,
   whatever the rest of the pipeline would have done. *)
Theorem T20_1_skip_file_identity :
  forall (rest : text -> text) src l,
    In l (split_lines src) -> Occurs [SKIP_FILE] l -> format_code_head rest src = src.
Proof. exact skip_line_returns_source. Qed.
Print Assumptions T20_1_skip_file_identity.

(* T20.3a scheduler non-interference: for every rule set, yield order and transaction assignment, no
   scheduled rewrite touches a line that carries an ignore comment. *)
Theorem T20_3a_scheduled_not_ignored :
  forall (T : Type) (teqb : T -> T -> bool) (tcmp : T -> T -> comparison),
    (forall a b, teqb a b = true <-> a = b) ->
  forall ilines groups e,
    In e (schedule T teqb tcmp ilines groups) -> ignored ilines (rrng (snd e)) = false.
Proof. exact scheduled_not_ignored. Qed.
Print Assumptions T20_3a_scheduled_not_ignored.

(* T20.3b the line survives: for every source, every physical line l of it that matches the ignore
   regex, and every chain of rewrites none of which has_ignore_comment, the simultaneous splice (=
   the sequential application, by C10/T10.4) contains l verbatim and contiguous. *)
Theorem T20_3b_ignored_line_survives :
  forall (src : text) (rws : list (range * text)) (r : range) (l : text),
    In (r, l) (line_ranges 0 (split_lines src)) -> ignore_line l = true ->
    chain_ok N (length src) 0 (map (to_nrw N) rws) ->
    (forall rw, In rw rws -> (0 <= fst (fst rw))%Z /\ has_ignore src (fst rw) = false) ->
    exists pre post, build N 0 src (map (to_nrw N) rws) = pre ++ l ++ post.
Proof. exact ignored_line_survives. Qed.
Print Assumptions T20_3b_ignored_line_survives.

(* generic form: any segment no rewrite overlaps (insertions at its edges allowed) survives *)
Theorem T20_3c_untouched_segment_survives :
  forall (A : Type) (X l Y : list A) (asc : list (nrw A)) (p : nat),
    let src := X ++ l ++ Y in
    chain_ok A (length src) p asc -> (p <= length X)%nat -> l <> [] ->
    (forall r, In r asc -> misses A (length X) (length X + length l) r) ->
    exists pre post, build A p src asc = pre ++ l ++ post.
Proof. exact build_keeps_segment. Qed.
Print Assumptions T20_3c_untouched_segment_survives.

(* R20.4 (direct-edit back end: processing.remove_nodes/_insert_nodes/alter_code have no ignore test)
   is not a statement about this model; it is a known finding reproduced by the sweep (findings F20-n). *)
