(* C20 -- Opt-out comments are honoured.
   Property theorems only; every proof is `exact <lemma>`; Print Assumptions under each. *)
From Coq Require Import List ZArith NArith Bool Lia Permutation Sorted.
Import ListNotations.
Require Import Pyrefact.SchedModel Pyrefact.SchedProofs Pyrefact.Splice Pyrefact.IgnoreModel Pyrefact.IgnoreProofs.

(* T20.0 the hand-translated scanners are exactly the regexes  #\s*pyrefact\s*:\s*(skip_file|ignore)
   and  #\s*pyrefact\s*:\s*skip_file : for every text, the scanner answers true iff the text contains
   '#', spaces, "pyrefact", spaces, ':', spaces, keyword. *)
Theorem T20_0_ignore_regex :
  forall l, ignore_line l = true <-> Occurs [SKIP_FILE; IGNORE] l.
Proof. exact ignore_line_iff. Qed.
Print Assumptions T20_0_ignore_regex.

Theorem T20_0_skip_regex :
  forall s, skip_search s = true <-> Occurs [SKIP_FILE] s.
Proof. exact skip_search_iff. Qed.
Print Assumptions T20_0_skip_regex.

(* T20.1 skip_file: a skip-file comment on ANY physical line of the source makes format_code return its
   input, whatever the rest of the pipeline would have done.  T20_1b: the same for the finer pieces of
   str.splitlines (\f, \v, \x1c-\x1e, \x85, U+2028, U+2029 as delimiters too). *)
Theorem T20_1_skip_file_identity :
  forall (rest : text -> text) src l,
    In l (split_lines src) -> Occurs [SKIP_FILE] l -> format_code_head rest src = src.
Proof. exact skip_line_returns_source. Qed.
Print Assumptions T20_1_skip_file_identity.

Theorem T20_1b_skip_file_identity_strlines :
  forall (rest : text -> text) src l,
    In l (str_splitlines src) -> Occurs [SKIP_FILE] l -> format_code_head rest src = src.
Proof. exact skip_strline_returns_source. Qed.
Print Assumptions T20_1b_skip_file_identity_strlines.

(* T20.2 line structure (hunt C20-2/3/4, C10-2, C14-10, C01-a-19, C01-b-23, C03-3, C03-7): the lines of
   core.split_lines -- used by has_ignore_comment, _do_rewrite, _insert_nodes, _fix_undefined_variables
   after the repairs -- are the tokenizer's physical lines: each is a body without \r and \n followed
   by exactly one of \n, \r, \r\n, except possibly the last, which may be unterminated; and they
   concatenate to the source.  str.splitlines is NOT that structure (T20_2_refuted: "a\x0cb\n"). *)
Theorem T20_2_line_breaks_are_eol : forall s, py_lines (split_lines s).
Proof. exact split_lines_py_lines. Qed.
Print Assumptions T20_2_line_breaks_are_eol.

Theorem T20_2_lines_concat : forall s, concat (split_lines s) = s.
Proof. exact split_lines_concat. Qed.
Print Assumptions T20_2_lines_concat.

Theorem T20_2_refuted_for_str_splitlines :
  exists s, str_splitlines s <> split_lines s /\ ~ py_lines (str_splitlines s).
Proof. exact str_splitlines_not_py_lines. Qed.
Print Assumptions T20_2_refuted_for_str_splitlines.

(* T20.3a scheduler non-interference: for every rule set, yield order and transaction assignment, no
   scheduled rewrite touches a line that carries an ignore comment. *)
Theorem T20_3a_scheduled_not_ignored :
  forall (T : Type) (teqb : T -> T -> bool) (tcmp : T -> T -> comparison),
    (forall a b, teqb a b = true <-> a = b) ->
  forall ilines groups e,
    In e (schedule T teqb tcmp ilines groups) -> ignored ilines (rrng (snd e)) = false.
Proof. exact scheduled_not_ignored. Qed.
Print Assumptions T20_3a_scheduled_not_ignored.

(* T20.3b the line survives: for every source, every tokenizer verdict, every physical line l that
   protects (its text matches the regex and the tokenizer confirms a comment on it, or the tokenizer
   failed), and every chain of rewrites none of which has_ignore_comment -- empty ranges (insertions)
   included --, the simultaneous splice (= the sequential application, by C10/T10.4) contains l verbatim,
   terminator included, and contiguous. *)
Theorem T20_3b_ignored_line_survives :
  forall (src : text) (coms : option (list nat)) (rws : list (range * text)) (r : range) (l : text),
    In (r, l) (ignore_entries src coms) ->
    chain_ok N (length src) 0 (map (to_nrw N) rws) ->
    (forall rw, In rw rws -> (0 <= fst (fst rw))%Z /\ has_ignore src coms (fst rw) = false) ->
    exists pre post, build N 0 src (map (to_nrw N) rws) = pre ++ l ++ post.
Proof. exact ignored_line_survives. Qed.
Print Assumptions T20_3b_ignored_line_survives.

(* T20.3d (hunt C10-3) the repaired recogniser refuses everything that overlap with an ignored line
   refuses (so T20.3a, stated with the C10 scheduler model, still describes the code), and also the
   insertion at the first column of an ignored line, which overlap alone does not see. *)
Theorem T20_3d_has_ignore_extends_overlap : forall src coms r,
  ignored (map fst (ignore_entries src coms)) r = true -> (fst r <> snd r) -> has_ignore src coms r = true.
Proof. exact has_ignore_extends_overlap. Qed.
Print Assumptions T20_3d_has_ignore_extends_overlap.

Example T20_3d_insertion_at_line_start :
  let src := [120; 32; 35; 112; 121; 114; 101; 102; 97; 99; 116; 58; 105; 103; 110; 111; 114; 101; 10; 121; 10]%N in
  existsb (overlaps (0, 0)%Z) (map fst (ignore_entries src None)) = false /\ has_ignore src None (0, 0)%Z = true
  /\ has_ignore src None (19, 19)%Z = false.
Proof. exact insertion_at_line_start. Qed.

(* generic form: any segment no rewrite overlaps (insertions at its edges allowed) survives *)
Theorem T20_3c_untouched_segment_survives :
  forall (A : Type) (X l Y : list A) (asc : list (nrw A)) (p : nat),
    let src := X ++ l ++ Y in
    chain_ok A (length src) p asc -> (p <= length X)%nat -> l <> [] ->
    (forall r, In r asc -> misses A (length X) (length X + length l) r) ->
    exists pre post, build A p src asc = pre ++ l ++ post.
Proof. exact build_keeps_segment. Qed.
Print Assumptions T20_3c_untouched_segment_survives.

(* T20.4 (round 5, seed C20-d) nodes.  The direct-editing back end (processing.remove_nodes, alter_code) and the
   rules' own guards ask has_ignore_comment about the character range of a NODE.  A non-empty range that starts
   inside physical line [first] and ends inside line [last] is refused exactly when one of the physical lines
   first..last protects; for the range core.get_charnos hands over, [first] is the line of the first decorator. *)
Theorem T20_4_node_range_is_its_lines : forall src coms r first last,
  spans src r first last = true ->
  has_ignore src coms r = node_lines_ignore src coms first last.
Proof. exact node_range_is_its_lines. Qed.
Print Assumptions T20_4_node_range_is_its_lines.

(* T20.4b a range that starts only at the def/class line misses exactly the decorator lines first..lineno-1 *)
Theorem T20_4b_late_start_misses_decorator_lines : forall src coms r r' first lineno last,
  spans src r first last = true -> spans src r' lineno last = true ->
  (first < lineno)%nat -> (lineno <= last)%nat ->
  has_ignore src coms r = node_lines_ignore src coms first (lineno - 1) || has_ignore src coms r'.
Proof. exact late_start_misses_decorator_lines. Qed.
Print Assumptions T20_4b_late_start_misses_decorator_lines.

(* the reading "node.lineno .. node.end_lineno" is refuted ("@d  # pyrefact: ignore" + "def f(): pass") and holds
   under the guard that no decorator line protects *)
Theorem T20_4_refuted_for_lineno_reading :
  exists src coms r first lineno last,
    spans src r first last = true /\ (first < lineno)%nat /\ (lineno <= last)%nat
    /\ has_ignore src coms r = true /\ node_lines_ignore src coms lineno last = false.
Proof. exact lineno_reading_refuted. Qed.
Print Assumptions T20_4_refuted_for_lineno_reading.

Theorem T20_4_partial_lineno_reading : forall src coms r first lineno last,
  spans src r first last = true -> (first < lineno)%nat -> (lineno <= last)%nat ->
  node_lines_ignore src coms first (lineno - 1) = false ->
  has_ignore src coms r = node_lines_ignore src coms lineno last.
Proof. exact lineno_reading_partial. Qed.
Print Assumptions T20_4_partial_lineno_reading.

Example T20_4_examples :
  spans DECO_SRC (0, 36)%Z 0 1 = true /\ spans DECO_SRC (23, 36)%Z 1 1 = true
  /\ spans DECO_SRC (23, 36)%Z 0 1 = false
  /\ has_ignore DECO_SRC (Some [0%nat]) (23, 36)%Z = false
  /\ node_lines_ignore DECO_SRC (Some [0%nat]) 0 1 = true
  /\ node_lines_ignore DECO_SRC (Some [0%nat]) 0 0 = true.
Proof. exact node_examples. Qed.

(* R20.4 (direct-edit back end: processing.remove_nodes/_insert_nodes/alter_code have no ignore test)
   is not a statement about this model; it is a known finding reproduced by the sweep (findings F20-n). *)
