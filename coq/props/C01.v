(* C01 -- Whole-pipeline refactoring preserves program behaviour.
   Property theorems only; every proof is `exact <lemma>`; Print Assumptions under each.

   WHAT THESE THEOREMS ARE ABOUT: the ORCHESTRATION of main.format_code / main._format_code (which stage runs, when, on what,
   under which option), for arbitrary stage functions.  That every individual stage preserves behaviour is a
   HYPOTHESIS here (one per reachable stage kind; discharged rule by rule by C02 where a rule has a model, open
   otherwise).  The property's execution oracle is the deterministic sweep of harness/c01.py, which is not a proof. *)
From Coq Require Import List Arith Bool.
Import ListNotations.
Require Import PyrefactGen.Tables Pyrefact.PipelineModel Pyrefact.PipelineProofs.

(* T01.1 (behaviour).  For every text type, every family of stage functions, all guards, every number of rules
   in _multi_run_fixes, every pass bound, all options and EVERY input s (early returns included): if each stage
   kind reachable under these options preserves the observable behaviour `beh` on every text, in the contexts the
   driver calls it with, then format_code does. *)
Theorem T01_1_behaviour_preserved :
  forall (src P : Type) (src_eqb : src -> src -> bool) (stage : kind -> option (ctx src P) -> src -> src)
         (is_skip is_blank valid : src -> bool) (indent_level : src -> nat) (safe_preserve : P -> src -> P)
         (n_multi max_passes : nat) (B : Type) (beh : src -> B) (o : opts P) (s : src),
    (forall k, In k (reachable_for src P stage valid indent_level n_multi o s) ->
       forall c, ctxs src P stage valid indent_level safe_preserve o s c ->
       forall t, beh (stage k c t) = beh t) ->
    beh (format_code_model src P src_eqb stage is_skip is_blank valid indent_level safe_preserve
           n_multi max_passes o s) = beh s.
Proof. exact behaviour_preserved. Qed.
Print Assumptions T01_1_behaviour_preserved.

(* T01.1 (any preorder R: "valid => valid", "surface kept", "same behaviour" ...). *)
Theorem T01_1_relation_preserved :
  forall (src P : Type) (src_eqb : src -> src -> bool) (stage : kind -> option (ctx src P) -> src -> src)
         (is_skip is_blank valid : src -> bool) (indent_level : src -> nat) (safe_preserve : P -> src -> P)
         (n_multi max_passes : nat) (R : src -> src -> Prop),
    (forall a, R a a) -> (forall a b c, R a b -> R b c -> R a c) ->
    forall (o : opts P) (s : src),
    (forall k, In k (reachable_for src P stage valid indent_level n_multi o s) ->
       okk src P stage R (ctxs src P stage valid indent_level safe_preserve o s) k) ->
    R s (format_code_model src P src_eqb stage is_skip is_blank valid indent_level safe_preserve
           n_multi max_passes o s).
Proof. exact orchestration_preserves. Qed.
Print Assumptions T01_1_relation_preserved.

(* T01.1 (tightest premise): only the stage kinds that actually ran on this input need to preserve R. *)
Theorem T01_1_only_what_ran :
  forall (src P : Type) (src_eqb : src -> src -> bool) (stage : kind -> option (ctx src P) -> src -> src)
         (is_skip is_blank valid : src -> bool) (indent_level : src -> nat) (safe_preserve : P -> src -> P)
         (n_multi max_passes : nat) (R : src -> src -> Prop),
    (forall a, R a a) -> (forall a b c, R a b -> R b c -> R a c) ->
    forall (o : opts P) (s : src),
    (forall k, In k (format_code_trace src P src_eqb stage is_skip is_blank valid indent_level safe_preserve
                       n_multi max_passes o s) ->
       okk src P stage R (ctxs src P stage valid indent_level safe_preserve o s) k) ->
    R s (format_code_model src P src_eqb stage is_skip is_blank valid indent_level safe_preserve
           n_multi max_passes o s).
Proof. exact preserved_if_trace_ok. Qed.
Print Assumptions T01_1_only_what_ran.

(* T01.1 early returns, exactly what is handed back: (a) skip_file: the input, no stage ran;
   (b) blank after the whitespace pre-passes: the pre-passed text; (c) still invalid after dedent: the
   pre-passed AND dedented text (it is not re-indented), and the pre-passed text was itself invalid;
   (d) otherwise the main body runs on the dedented text. *)
Theorem T01_1_exit_skip :
  forall (src P : Type) (src_eqb : src -> src -> bool) (stage : kind -> option (ctx src P) -> src -> src)
         (is_skip is_blank valid : src -> bool) (indent_level : src -> nat) (safe_preserve : P -> src -> P)
         (n_multi max_passes : nat) (o : opts P) (s : src),
    is_skip s = true ->
    format_code_traced src P src_eqb stage is_skip is_blank valid indent_level safe_preserve
      n_multi max_passes o s = (s, []).
Proof. exact exit_skip. Qed.
Print Assumptions T01_1_exit_skip.

Theorem T01_1_exit_blank :
  forall (src P : Type) (src_eqb : src -> src -> bool) (stage : kind -> option (ctx src P) -> src -> src)
         (is_skip is_blank valid : src -> bool) (indent_level : src -> nat) (safe_preserve : P -> src -> P)
         (n_multi max_passes : nat) (o : opts P) (s : src),
    is_skip s = false -> is_blank (fst (prepass src P stage s)) = true ->
    format_code_traced src P src_eqb stage is_skip is_blank valid indent_level safe_preserve
      n_multi max_passes o s
    = (stage KBlankLines None (stage KRmspace None (stage KExpandTabs None s)),
       [KExpandTabs; KRmspace; KBlankLines]).
Proof. exact exit_blank. Qed.
Print Assumptions T01_1_exit_blank.

Theorem T01_1_exit_invalid :
  forall (src P : Type) (src_eqb : src -> src -> bool) (stage : kind -> option (ctx src P) -> src -> src)
         (is_skip is_blank valid : src -> bool) (indent_level : src -> nat) (safe_preserve : P -> src -> P)
         (n_multi max_passes : nat) (o : opts P) (s : src),
    is_skip s = false -> is_blank (fst (prepass src P stage s)) = false ->
    valid (fst (dedented src P stage valid (prepass src P stage s))) = false ->
    format_code_traced src P src_eqb stage is_skip is_blank valid indent_level safe_preserve
      n_multi max_passes o s = run src P stage None KDedent (prepass src P stage s)
    /\ valid (fst (prepass src P stage s)) = false.
Proof. exact exit_invalid. Qed.
Print Assumptions T01_1_exit_invalid.

Theorem T01_1_no_exit :
  forall (src P : Type) (src_eqb : src -> src -> bool) (stage : kind -> option (ctx src P) -> src -> src)
         (is_skip is_blank valid : src -> bool) (indent_level : src -> nat) (safe_preserve : P -> src -> P)
         (n_multi max_passes : nat) (o : opts P) (s : src),
    exit_of src P stage is_skip is_blank valid s = NoExit ->
    format_code_traced src P src_eqb stage is_skip is_blank valid indent_level safe_preserve
      n_multi max_passes o s
    = body src P src_eqb stage valid indent_level safe_preserve n_multi max_passes o
        (fst (prepass src P stage s)) (dedented src P stage valid (prepass src P stage s)).
Proof. exact no_exit. Qed.
Print Assumptions T01_1_no_exit.

(* T01.2 the hypothesis list of T01.1 is tight: with the live MAX_FILE_PASSES, on every input on which no early
   return fires and for EVERY family of stage functions, the set of stage kinds that run is exactly
   reachable_for (keep_imports, was-dedented, minimum_indent = 0); on the other inputs it is a subset. *)
Theorem T01_2_reachable_exact :
  forall (src P : Type) (src_eqb : src -> src -> bool) (stage : kind -> option (ctx src P) -> src -> src)
         (is_skip is_blank valid : src -> bool) (indent_level : src -> nat) (safe_preserve : P -> src -> P)
         (n_multi : nat) (o : opts P) (s : src),
    exit_of src P stage is_skip is_blank valid s = NoExit ->
    forall k, In k (format_code_trace src P src_eqb stage is_skip is_blank valid indent_level safe_preserve
                      n_multi MAX_FILE_PASSES o s)
              <-> In k (reachable_for src P stage valid indent_level n_multi o s).
Proof. exact trace_exact_tables. Qed.
Print Assumptions T01_2_reachable_exact.

Theorem T01_2_reachable_sound_always :
  forall (src P : Type) (src_eqb : src -> src -> bool) (stage : kind -> option (ctx src P) -> src -> src)
         (is_skip is_blank valid : src -> bool) (indent_level : src -> nat) (safe_preserve : P -> src -> P)
         (n_multi max_passes : nat) (o : opts P) (s : src),
    incl (format_code_trace src P src_eqb stage is_skip is_blank valid indent_level safe_preserve
            n_multi max_passes o s)
         (reachable_for src P stage valid indent_level n_multi o s).
Proof. exact trace_sound. Qed.
Print Assumptions T01_2_reachable_sound_always.

(* T01.2 (shape): the trace is  pre-passes ; [dedent] ; [add_missing_imports] ; single-run chain ;
   n1 full passes of _multi_run_fixes (1 <= n1 <= MAX) ; overused_constant ; simplify_assign_immediate_return ;
   n2 full passes (0 <= n2 <= MAX) ; naming / import / layout stages under their guards. *)
Theorem T01_2_trace_shape :
  forall (src P : Type) (src_eqb : src -> src -> bool) (stage : kind -> option (ctx src P) -> src -> src)
         (is_skip is_blank valid : src -> bool) (indent_level : src -> nat) (safe_preserve : P -> src -> P)
         (n_multi max_passes : nat) (o : opts P) (s : src),
    exit_of src P stage is_skip is_blank valid s = NoExit ->
    exists n1 n2, n1 <= max_passes /\ (1 <= max_passes -> 1 <= n1) /\ n2 <= max_passes /\
      format_code_trace src P src_eqb stage is_skip is_blank valid indent_level safe_preserve
        n_multi max_passes o s =
        [KExpandTabs; KRmspace; KBlankLines]
        ++ (if negb (valid (fst (prepass src P stage s))) then [KDedent] else [])
        ++ body_pre (o_keep P o) (Nat.eqb (min_indent src valid indent_level (fst (prepass src P stage s))) 0)
        ++ passes n_multi n1 ++ [KOverused; KSimplifyAssign] ++ passes n_multi n2
        ++ body_post (o_keep P o) (Nat.eqb (min_indent src valid indent_level (fst (prepass src P stage s))) 0).
Proof. exact trace_no_exit. Qed.
Print Assumptions T01_2_trace_shape.

(* for a top-level (valid, unindented) input the premises of T01.1 mention neither Dedent nor Indent *)
Theorem T01_2_reachable_top :
  forall (src P : Type) (stage : kind -> option (ctx src P) -> src -> src) (valid : src -> bool)
         (indent_level : src -> nat) (n_multi : nat) (o : opts P) (s : src),
    valid (fst (prepass src P stage s)) = true ->
    reachable_for src P stage valid indent_level n_multi o s = reachable n_multi (o_keep P o) false true.
Proof. exact reachable_top. Qed.
Print Assumptions T01_2_reachable_top.

(* ---- through the wrapper main.format_code (repair 9438482: an unterminated text is formatted as _format_code(text + LF)
        and one trailing LF is removed from the result).  The theorems above are about _format_code. *)

(* T01.1 (wrapper): besides the stage premises, now stated for the terminated text, appending the last line's
   terminator and removing one trailing LF must preserve the behaviour (true for Python programs; a hypothesis here). *)
Theorem T01_1_outer_behaviour_preserved :
  forall (src P : Type) (src_eqb : src -> src -> bool) (stage : kind -> option (ctx src P) -> src -> src)
         (is_skip is_blank valid : src -> bool) (indent_level : src -> nat) (safe_preserve : P -> src -> P)
         (n_multi max_passes : nat) (needs_nl : src -> bool) (add_nl strip_nl : src -> src)
         (B : Type) (beh : src -> B) (o : opts P) (s : src),
    (needs_nl s = true -> beh (add_nl s) = beh s) ->
    (needs_nl s = true -> forall t, beh (strip_nl t) = beh t) ->
    (forall k, In k (reachable_for src P stage valid indent_level n_multi o (inner_input src needs_nl add_nl s)) ->
       forall c, ctxs src P stage valid indent_level safe_preserve o (inner_input src needs_nl add_nl s) c ->
       forall t, beh (stage k c t) = beh t) ->
    beh (format_code_outer src P src_eqb stage is_skip is_blank valid indent_level safe_preserve
           n_multi max_passes needs_nl add_nl strip_nl o s) = beh s.
Proof. exact outer_behaviour_preserved. Qed.
Print Assumptions T01_1_outer_behaviour_preserved.

Theorem T01_1_outer_relation_preserved :
  forall (src P : Type) (src_eqb : src -> src -> bool) (stage : kind -> option (ctx src P) -> src -> src)
         (is_skip is_blank valid : src -> bool) (indent_level : src -> nat) (safe_preserve : P -> src -> P)
         (n_multi max_passes : nat) (needs_nl : src -> bool) (add_nl strip_nl : src -> src) (R : src -> src -> Prop),
    (forall a, R a a) -> (forall a b c, R a b -> R b c -> R a c) ->
    forall (o : opts P) (s : src),
    (needs_nl s = true -> R s (add_nl s)) ->
    (needs_nl s = true -> forall t, R t (strip_nl t)) ->
    (forall k, In k (reachable_for src P stage valid indent_level n_multi o (inner_input src needs_nl add_nl s)) ->
       okk src P stage R (ctxs src P stage valid indent_level safe_preserve o (inner_input src needs_nl add_nl s)) k) ->
    R s (format_code_outer src P src_eqb stage is_skip is_blank valid indent_level safe_preserve
           n_multi max_passes needs_nl add_nl strip_nl o s).
Proof. exact outer_preserves. Qed.
Print Assumptions T01_1_outer_relation_preserved.

(* skip_file through the wrapper: the input comes back unchanged and no stage runs, provided removing the LF undoes
   appending it *)
Theorem T01_1_outer_exit_skip :
  forall (src P : Type) (src_eqb : src -> src -> bool) (stage : kind -> option (ctx src P) -> src -> src)
         (is_skip is_blank valid : src -> bool) (indent_level : src -> nat) (safe_preserve : P -> src -> P)
         (n_multi max_passes : nat) (needs_nl : src -> bool) (add_nl strip_nl : src -> src) (o : opts P) (s : src),
    is_skip (inner_input src needs_nl add_nl s) = true ->
    (needs_nl s = true -> strip_nl (add_nl s) = s) ->
    format_code_outer_traced src P src_eqb stage is_skip is_blank valid indent_level safe_preserve
      n_multi max_passes needs_nl add_nl strip_nl o s = (s, []).
Proof. exact outer_exit_skip. Qed.
Print Assumptions T01_1_outer_exit_skip.

(* T01.2 (wrapper): the wrapper runs exactly the stages _format_code runs on the (possibly terminated) text, so the
   reachable set is exact for it too. *)
Theorem T01_2_outer_trace_is_inner_trace :
  forall (src P : Type) (src_eqb : src -> src -> bool) (stage : kind -> option (ctx src P) -> src -> src)
         (is_skip is_blank valid : src -> bool) (indent_level : src -> nat) (safe_preserve : P -> src -> P)
         (n_multi max_passes : nat) (needs_nl : src -> bool) (add_nl strip_nl : src -> src) (o : opts P) (s : src),
    format_code_outer_trace src P src_eqb stage is_skip is_blank valid indent_level safe_preserve
      n_multi max_passes needs_nl add_nl strip_nl o s
    = format_code_trace src P src_eqb stage is_skip is_blank valid indent_level safe_preserve
        n_multi max_passes o (inner_input src needs_nl add_nl s).
Proof. exact outer_trace_eq. Qed.
Print Assumptions T01_2_outer_trace_is_inner_trace.

Theorem T01_2_outer_reachable_exact :
  forall (src P : Type) (src_eqb : src -> src -> bool) (stage : kind -> option (ctx src P) -> src -> src)
         (is_skip is_blank valid : src -> bool) (indent_level : src -> nat) (safe_preserve : P -> src -> P)
         (n_multi : nat) (needs_nl : src -> bool) (add_nl strip_nl : src -> src) (o : opts P) (s : src),
    exit_of src P stage is_skip is_blank valid (inner_input src needs_nl add_nl s) = NoExit ->
    forall k, In k (format_code_outer_trace src P src_eqb stage is_skip is_blank valid indent_level safe_preserve
                      n_multi MAX_FILE_PASSES needs_nl add_nl strip_nl o s)
              <-> In k (reachable_for src P stage valid indent_level n_multi o (inner_input src needs_nl add_nl s)).
Proof. exact outer_trace_exact_tables. Qed.
Print Assumptions T01_2_outer_reachable_exact.

(* not vacuous: an instance in which both history loops run several passes and the second one stops on a
   history hit that is not a fixpoint *)
Example T01_example_run : fst (ex_run 20) = 2 /\ length (snd (ex_run 20)) = 35.
Proof. vm_compute. split; reflexivity. Qed.
