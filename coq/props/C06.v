(* C06 -- Results are deterministic across processes, hash seeds and worker schedules.
   Property theorems only; every proof is `exact <lemma>`; Print Assumptions under each. *)
From Coq Require Import List ZArith Bool Permutation Sorted.
From Coq Require String.
Import ListNotations.
Require Import Pyrefact.SchedModel Pyrefact.SchedProofs Pyrefact.SchedPermProofs Pyrefact.SchedSortProofs.
Require Import Pyrefact.FilesModel Pyrefact.FilesProofs.
Require Import Pyrefact.PickModel Pyrefact.PickProofs.
Open Scope Z_scope.

(* T06.1 yield order (set-iteration order) of a rule cannot matter when its rewrites do not conflict:
   for every list of groups before and after, every group g whose yields carry default transaction
   numbers, are pairwise different and pairwise non-overlapping, and every permutation g' of g, the same
   rewrites are scheduled (the final order is by (range, text), so the applied list is the same up to the
   position of equal entries). *)
Theorem T06_1_yield_order_irrelevant_without_conflicts :
  forall (T : Type) (teqb : T -> T -> bool) (tcmp : T -> T -> comparison),
    (forall a b, teqb a b = true <-> a = b) ->
  forall (ilines : list range) (pre post : list (list (yielded T))) (g g' : list (yielded T)),
    Permutation g g' ->
    Forall (is_default T) g ->
    NoDup (map (yrw T) g) ->
    ForallOrdPairs (fun a b => overlaps (rrng a) (rrng b) = false) (map (yrw T) g) ->
    Permutation (map snd (schedule T teqb tcmp ilines (pre ++ g :: post)))
                (map snd (schedule T teqb tcmp ilines (pre ++ g' :: post))).
Proof. exact schedule_perm_invariant. Qed.
Print Assumptions T06_1_yield_order_irrelevant_without_conflicts.

(* T06.1, list form: for a lawful order on the new texts the scheduled rewrites come out in the same ORDER
   too (the final sort is by (range, text); entries that compare equal are equal rewrites) ... *)
Theorem T06_1_same_list_for_every_yield_order :
  forall (T : Type) (teqb : T -> T -> bool) (tcmp : T -> T -> comparison),
    (forall a b, teqb a b = true <-> a = b) ->
    (forall a b, tcmp a b = Eq <-> a = b) ->
    (forall a b, tcmp a b = CompOpp (tcmp b a)) ->
    (forall a b c, tcmp a b = Lt -> tcmp b c = Lt -> tcmp a c = Lt) ->
  forall (ilines : list range) (pre post : list (list (yielded T))) (g g' : list (yielded T)),
    Permutation g g' ->
    Forall (is_default T) g ->
    NoDup (map (yrw T) g) ->
    ForallOrdPairs (fun a b => overlaps (rrng a) (rrng b) = false) (map (yrw T) g) ->
    map snd (schedule T teqb tcmp ilines (pre ++ g :: post))
    = map snd (schedule T teqb tcmp ilines (pre ++ g' :: post)).
Proof. exact schedule_perm_invariant_list. Qed.
Print Assumptions T06_1_same_list_for_every_yield_order.

(* ... and, for the concrete text order of the correspondence, the text produced by the pass is the same *)
Theorem T06_1_same_text_for_every_yield_order :
  forall (ilines : list range) (src : list Z) (pre post : list (list (yielded (list Z))))
         (g g' : list (yielded (list Z))),
    Permutation g g' ->
    Forall (is_default (list Z)) g ->
    NoDup (map (yrw (list Z)) g) ->
    ForallOrdPairs (fun a b => overlaps (rrng a) (rrng b) = false) (map (yrw (list Z)) g) ->
    apply_all Z src (map (fun e => (rrng (snd e), rnew (snd e))) (schedule_text ilines (pre ++ g :: post)))
    = apply_all Z src (map (fun e => (rrng (snd e), rnew (snd e))) (schedule_text ilines (pre ++ g' :: post))).
Proof. exact pass_text_perm_invariant. Qed.
Print Assumptions T06_1_same_text_for_every_yield_order.

(* R06.2 with a conflict and default transaction numbers the first one yielded wins ... *)
Theorem R06_2_first_yield_wins :
  forall (T : Type) (teqb : T -> T -> bool) (tcmp : T -> T -> comparison),
    (forall a b, teqb a b = true <-> a = b) ->
  forall (ilines : list range) (a b : yielded T),
    is_default T a -> is_default T b ->
    overlaps (rrng (yrw T a)) (rrng (yrw T b)) = true ->
    ignored ilines (rrng (yrw T a)) = false ->
    map snd (schedule T teqb tcmp ilines [[a; b]]) = [yrw T a].
Proof. exact first_yield_wins. Qed.
Print Assumptions R06_2_first_yield_wins.

(* ... so a rule that yields two conflicting rewrites from a set is order dependent *)
Theorem R06_2_conflict_order_dependent :
  forall (T : Type) (teqb : T -> T -> bool) (tcmp : T -> T -> comparison),
    (forall a b, teqb a b = true <-> a = b) ->
  forall (ilines : list range) (a b : yielded T),
    is_default T a -> is_default T b ->
    overlaps (rrng (yrw T a)) (rrng (yrw T b)) = true ->
    ignored ilines (rrng (yrw T a)) = false -> ignored ilines (rrng (yrw T b)) = false ->
    yrw T a <> yrw T b ->
    map snd (schedule T teqb tcmp ilines [[a; b]]) <> map snd (schedule T teqb tcmp ilines [[b; a]]).
Proof. exact conflict_order_dependent. Qed.
Print Assumptions R06_2_conflict_order_dependent.

Theorem R06_2_perm_invariance_refuted :
  exists (g g' : list (yielded (list Z))),
    Permutation g g' /\ map snd (schedule_text [] [g]) <> map snd (schedule_text [] [g']).
Proof. exact perm_invariance_refuted. Qed.
Print Assumptions R06_2_perm_invariance_refuted.

Open Scope nat_scope.

(* T06.3 the order of the file list does not matter (the code sorts) *)
Theorem T06_3_file_list_order :
  forall (chg : file -> nat -> bool) (max_passes : nat) (fs fs' : list file),
    Permutation fs fs' -> format_files_model chg max_passes fs = format_files_model chg max_passes fs'.
Proof. exact format_files_order_independent. Qed.
Print Assumptions T06_3_file_list_order.

(* T06.3 the pass bookkeeping is a function of the per-file change results only *)
Theorem T06_3_change_results_only :
  forall (chg chg' : file -> nat -> bool) (max_passes : nat) (fs : list file),
    (forall f, In f fs -> forall p, chg f p = chg' f p) ->
    format_files_model chg max_passes fs = format_files_model chg' max_passes fs.
Proof. exact format_files_change_results_only. Qed.
Print Assumptions T06_3_change_results_only.

(* T06.3 at most max_passes batches; a batch never contains a file twice (no two workers are handed the
   same file), is sorted, and consists of given files *)
Theorem T06_3_batches :
  forall (chg : file -> nat -> bool) (max_passes : nat) (fs : list file),
    let log := fst (format_files_model chg max_passes fs) in
    length log <= max_passes
    /\ forall batch, In batch log ->
         NoDup batch /\ StronglySorted fle batch /\ (forall f, In f batch -> In f fs).
Proof. exact format_files_batches. Qed.
Print Assumptions T06_3_batches.

(* T06.3 a folder that converged is never dispatched again: consecutive batches only shrink *)
Theorem T06_3_batches_shrink :
  forall (chg : file -> nat -> bool) (fuel p : nat) (fs : list file) (st : fstate)
         (b1 b2 : list file) (rest : list (list file)),
    fst (pass_loop chg fuel p fs st) = b1 :: b2 :: rest -> forall f, In f b2 -> In f b1.
Proof. exact batches_shrink. Qed.
Print Assumptions T06_3_batches_shrink.

(* T06.5 (round 5) picking ONE candidate out of a hash-ordered collection: Python's max(S, key=k) (first element in
   iteration order with maximal key) is a function of the SET S -- the same for every permutation of the iteration
   order -- if and only if the key separates the best elements (no tie among the maxima). *)
Theorem T06_5_max_over_set_order_independent_iff :
  forall (A : Type) (key : A -> Z) (l : list A),
    (forall l', Permutation l l' -> argmax A key l' = argmax A key l) <-> key_separates_maxima A key l.
Proof. exact argmax_order_independent_iff. Qed.
Print Assumptions T06_5_max_over_set_order_independent_iff.

(* T06.5 partial (guarded) form, and the sufficient condition the allow-list uses ("key-injective") *)
Theorem T06_5_max_partial :
  forall (A : Type) (key : A -> Z) (l l' : list A),
    key_separates_maxima A key l -> Permutation l l' -> argmax A key l' = argmax A key l.
Proof. exact argmax_perm_invariant. Qed.
Print Assumptions T06_5_max_partial.

Theorem T06_5_injective_key_suffices :
  forall (A : Type) (key : A -> Z) (l : list A),
    (forall x y, List.In x l -> List.In y l -> key x = key y -> x = y) -> key_separates_maxima A key l.
Proof. exact injective_key_separates. Qed.
Print Assumptions T06_5_injective_key_suffices.

(* R06.5 a tie IS exhibited by two iteration orders: both tied elements are returned by some order *)
Theorem R06_5_tie_is_order_dependent :
  forall (A : Type) (key : A -> Z) (l : list A) (x y : A),
    is_max A key l x -> is_max A key l y -> x <> y ->
    exists l1 l2, Permutation l l1 /\ Permutation l l2 /\ argmax A key l1 = Some x /\ argmax A key l2 = Some y.
Proof. exact argmax_tie_order_dependent. Qed.
Print Assumptions R06_5_tie_is_order_dependent.

(* R06.5 refuted at full strength for "the spelling written most often" (seed C06-d): boxWidth / BoxWidth, 2 : 2 *)
Theorem R06_5_most_written_refuted :
  exists (mentions names names' : list String.string),
    Permutation names names' /\ most_written mentions names <> most_written mentions names'.
Proof. exact most_written_perm_invariance_refuted. Qed.
Print Assumptions R06_5_most_written_refuted.

(* non-vacuity *)
Open Scope Z_scope.
Example T06_1_example :
  let g := [((0, 3), [1], None); ((3, 5), [2], None); ((7, 7), [3], None)] in
  map snd (schedule_text [(20, 30)] [[((4, 6), [9], None)]; g; [((8, 9), [4], None)]])
  = map snd (schedule_text [(20, 30)] [[((4, 6), [9], None)]; rev g; [((8, 9), [4], None)]]).
Proof. exact perm_invariance_example. Qed.

Open Scope nat_scope.
Example T06_3_example :
  format_files_model (table_chg [((1, 0), 1); ((2, 5), 1); ((2, 5), 2)]) 3
                     [(2, 5); (1, 1); (1, 0); (2, 4); (1, 1)]
  = ([[(1, 0); (1, 1); (2, 4); (2, 5)]; [(1, 0); (1, 1); (2, 4); (2, 5)]; [(2, 4); (2, 5)]], true).
Proof. vm_compute. reflexivity. Qed.
