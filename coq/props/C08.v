(* C08 -- Preserved names survive, within a file and across files.
   Property theorems only; every proof is `exact <lemma>`; Print Assumptions under each. *)
From Coq Require Import List Bool String.
Import ListNotations.
Require Import Pyrefact.SurfaceModel Pyrefact.SurfaceProofs.
Open Scope string_scope.
Open Scope list_scope.

(* T08.1 a definition referenced by module attribute (`lib.d`) or attribute access (`obj.d`) is collected. *)
Theorem T08_1_attribute_access_collected :
  forall f b d, In (OAttr b d) (f_occs f) -> In d (used_names f).
Proof. exact attr_access_collected. Qed.
Print Assumptions T08_1_attribute_access_collected.

(* T08.2 a from-imported name is collected under its ORIGINAL name, used or not, aliased or not (F08-1);
   under a starred import every name of the file is collected (F08-4). *)
Theorem T08_2_from_import_collected :
  forall f a, In a (f_imports f) -> i_from a = true -> i_name a <> "*" -> In (i_name a) (used_names f).
Proof. exact from_import_collected. Qed.
Print Assumptions T08_2_from_import_collected.

Theorem T08_2_star_import_collected :
  forall f a n, In a (f_imports f) -> i_name a = "*" -> i_as a = None -> In (OName n) (f_occs f) ->
                In n (used_names f).
Proof. exact star_import_collected. Qed.
Print Assumptions T08_2_star_import_collected.

(* T08.2c (round 4) names the client writes as call keywords / match-class keyword patterns, members a
   client subclass defines on top of a library base class, `__all__` under a starred import, and the source
   spelling `__n` of a private member reached as `obj._C__n` are collected. *)
Theorem T08_2_keyword_collected : forall f a, In (OKeyword a) (f_occs f) -> In a (used_names f).
Proof. exact keyword_collected. Qed.
Print Assumptions T08_2_keyword_collected.

Theorem T08_2_submember_collected : forall f n, In (OSubMember n) (f_occs f) -> In n (used_names f).
Proof. exact submember_collected. Qed.
Print Assumptions T08_2_submember_collected.

Theorem T08_2_star_import_keeps_all :
  forall f a, In a (f_imports f) -> i_from a = true -> i_name a = "*" -> In "__all__" (used_names f).
Proof. exact star_import_keeps_all. Qed.
Print Assumptions T08_2_star_import_keeps_all.

Theorem T08_2_mangled_access_collected :
  forall f b c n, In (OAttr b ("_" ++ c ++ n)%string) (f_occs f) ->
                  1 <= String.length c -> prefix "__" n = true -> 3 <= String.length n ->
                  In n (used_names f).
Proof. exact mangled_access_collected. Qed.
Print Assumptions T08_2_mangled_access_collected.

Example T08_2_mangled_example :
  used_names {| f_imports := [{| i_from := false; i_name := "lib"; i_as := None |}];
                f_occs := [OName "lib"; OAttr (Some "lib") "A"; OAttr None "_A__secret"] |}
  = ["lib"; "A"; "lib"; "_A__secret"; "__secret"].
Proof. vm_compute. reflexivity. Qed.

(* R08.2 on the pinned tree a name that is only from-imported was not collected. *)
Theorem R08_2_pinned_from_import_not_collected :
  exists f a, In a (f_imports f) /\ i_from a = true /\ ~ In (i_name a) (used_names_pinned f).
Proof. exact from_import_not_collected_pinned. Qed.
Print Assumptions R08_2_pinned_from_import_not_collected.

(* T08.1' the names another preserved file uses reach this file's preserve set. *)
Theorem T08_1_file_preserve :
  forall files self ns f d, In (ns, f) files -> ns <> self -> In d (used_names f) ->
                            In d (file_preserve files self).
Proof. exact used_names_in_file_preserve. Qed.
Print Assumptions T08_1_file_preserve.

(* T08.1'' the file's own used names never reduce its preserve set (the library may itself be among the
   preserved files: `pyrefact lib.py --preserve .`). *)
Theorem T08_1_own_names_irrelevant :
  forall files self f, file_preserve ((self, f) :: files) self = file_preserve files self.
Proof. exact own_names_irrelevant. Qed.
Print Assumptions T08_1_own_names_irrelevant.

(* T08.3 every rule, every preserve set, every oracle, every sequence of rules (multi-pass runs are
   longer sequences): a top-level definition whose name is in `preserve` (and is not `_`), and a member
   whose name and whose class name are, is neither deleted nor renamed. *)
Theorem T08_3_rule_keeps_preserved : forall r P o m, keeps P m (apply_rule (rule_guard r) P o m).
Proof. exact rule_keeps. Qed.
Print Assumptions T08_3_rule_keeps_preserved.

Theorem T08_3_pipeline_keeps_preserved : forall P rs m, keeps P m (run_rules P rs m).
Proof. exact run_rules_keeps. Qed.
Print Assumptions T08_3_pipeline_keeps_preserved.

(* T08 end to end over the model: what a preserved client reaches survives in the library. *)
Theorem T08_cross_file_top :
  forall files self ns f d rs lib,
    In (ns, f) files -> ns <> self -> In d (used_names f) -> d <> "_" ->
    In d (top_surface lib) ->
    In d (top_surface (run_rules (file_preserve files self) rs lib)).
Proof. exact cross_file_top_survives. Qed.
Print Assumptions T08_cross_file_top.

Theorem T08_cross_file_member_partial :
  forall files self ns f c d rs lib,
    In (ns, f) files -> ns <> self -> In c (used_names f) -> In d (used_names f) -> c <> "_" -> d <> "_" ->
    In (c, d) (member_surface lib) ->
    In (c, d) (member_surface (run_rules (file_preserve files self) rs lib)).
Proof. exact cross_file_member_survives. Qed.
Print Assumptions T08_cross_file_member_partial.

(* R08.3 (finding F08-3) without the class name in `preserve` a preserved method is deleted with its class. *)
Theorem R08_3_member_of_unpreserved_class_refuted :
  exists P m o c f,
    In f P /\ In (c, f) (member_surface m) /\
    ~ In (c, f) (member_surface (apply_rule g_delete_unused P o m)).
Proof. exact preserved_member_of_unpreserved_class_refuted. Qed.
Print Assumptions R08_3_member_of_unpreserved_class_refuted.

(* R08.4 on the pinned tree the two-step path (method -> static function -> deletion) was open:
   move_staticmethod_static_scope did not test the bare name (repaired by F08-2). *)
Theorem R08_4_pinned_move_static_unguarded :
  exists P c f, In c P /\ In f P /\ g_move_static_pinned P (SMDef c false f true) = false.
Proof. exact move_static_pinned_unguarded. Qed.
Print Assumptions R08_4_pinned_move_static_unguarded.

(* the two-step path on the repaired guards, with an oracle that touches everything it may *)
Example T08_two_step_path :
  let m := [Class "A" false [MDef "foo" false; MDef "bar" false]; Def "unused" false] in
  let m' := run_rules ["A"; "foo"] [(RSelfCls, o_all); (RMoveStatic, o_all); (RDeleteUnused, o_all); (RAlign, o_all)] m in
  member_surface m' = [("A", "foo")] /\ top_surface m' = ["A"].
Proof. exact two_step_path. Qed.
