(* C19 -- Renaming is consistent and capture-free.
   Property theorems only; every proof is `exact <lemma>`; Print Assumptions under each.
   Texts/identifiers are lists of code points; NamingModel.v mirrors pyrefact/style.py,
   RenameModel.v mirrors fixes._get_uses_of, fixes.align_variable_names_with_convention and the
   name generators (after the `fix:` commits listed in design/C19.md). *)
From Coq Require Import List NArith ZArith Bool.
Import ListNotations.
Require Import Pyrefact.NamingModel Pyrefact.NamingProofs Pyrefact.RenameModel Pyrefact.RenameProofs.

(* ---- T19.1 the constructed name is a valid identifier, or the name is left alone ---- *)
Theorem T19_1_rename_variable_ident_or_same :
  forall v st pr, is_ident (rename_variable v st pr) = true \/ rename_variable v st pr = v.
Proof. exact rename_variable_ident_or_same. Qed.
Print Assumptions T19_1_rename_variable_ident_or_same.

Theorem T19_1_rename_variable_ident :
  forall v st pr, is_ident v = true -> is_ident (rename_variable v st pr) = true.
Proof. exact rename_variable_ident. Qed.
Print Assumptions T19_1_rename_variable_ident.

Theorem T19_1_rename_class_ident :
  forall n pr r, is_ident n = true -> rename_class n pr = Some r -> is_ident r = true.
Proof. exact rename_class_ident. Qed.
Print Assumptions T19_1_rename_class_ident.

Theorem T19_1_rename_class_total : forall n pr, n <> [] -> rename_class n pr <> None.
Proof. exact rename_class_total. Qed.
Print Assumptions T19_1_rename_class_total.

(* complete description: a public name is converted exactly when its first [A-Za-z0-9] character
   is a letter (R19.2: "_1x" and names without such characters are left alone) *)
Theorem T19_1_rename_variable_public :
  forall v st,
    rename_variable v st false =
      if text_eqb v [US] || is_dunder v then v
      else match first_alnum v with
           | Some c => if is_alpha c then make_snakecase st v else v
           | None => v
           end.
Proof. exact rename_variable_public. Qed.
Print Assumptions T19_1_rename_variable_public.

Theorem T19_1_rename_variable_private :
  forall v st, rename_variable v st true = if text_eqb v [US] || is_dunder v then v else US :: make_snakecase st v.
Proof. exact rename_variable_private. Qed.
Print Assumptions T19_1_rename_variable_private.

Theorem T19_1_snake_chars : forall st v, forallb is_idchar (make_snakecase st v) = true.
Proof. exact make_snakecase_chars. Qed.
Print Assumptions T19_1_snake_chars.

(* `renamed_variable.lstrip("_")` and the `name[1:]` branch of rename_class are dead code *)
Theorem T19_1_lstrip_is_dead_code :
  forall v st, let r := make_snakecase st v in drop_while is_under r = r.
Proof. exact lstrip_is_dead_code. Qed.
Print Assumptions T19_1_lstrip_is_dead_code.

Theorem T19_1_camelcase_never_private : forall s, is_private (make_camelcase s) = false.
Proof. exact camelcase_never_private. Qed.
Print Assumptions T19_1_camelcase_never_private.

(* ---- T19.3 idempotence ---- *)
Theorem T19_3_rename_variable_idempotent :
  forall v st pr, rename_variable (rename_variable v st pr) st pr = rename_variable v st pr.
Proof. exact rename_variable_idempotent. Qed.
Print Assumptions T19_3_rename_variable_idempotent.

Theorem T19_3_make_snakecase_idempotent :
  forall st v, make_snakecase st (make_snakecase st v) = make_snakecase st v.
Proof. exact make_snakecase_idempotent. Qed.
Print Assumptions T19_3_make_snakecase_idempotent.

Theorem R19_3_rename_class_idempotent_refuted :
  exists n pr r r', rename_class n pr = Some r /\ rename_class r pr = Some r' /\ r <> r'.
Proof. exact rename_class_idempotent_refuted. Qed.
Print Assumptions R19_3_rename_class_idempotent_refuted.

Theorem T19_3_rename_class_idempotent_partial :
  forall n pr r, camel_guard n = true -> rename_class n pr = Some r -> rename_class r pr = Some r.
Proof. exact rename_class_idempotent_partial. Qed.
Print Assumptions T19_3_rename_class_idempotent_partial.

(* ---- T19.4 / T19.5 / T19.6: one pass of align_variable_names_with_convention ---- *)
(* the new name is not imported, not defined, not written anywhere in the module in any role,
   not a builtin and not a keyword (tables regenerated from /repo) *)
Theorem T19_4_new_name_is_fresh :
  forall pres m n old s,
    In (n, old, s) (align pres m) ->
    ~ In s (imported m) /\ ~ In s (defined_names m) /\ ~ In s (map m_name (mentions m))
    /\ ~ In s BUILTINS /\ ~ In s KEYWORDS.
Proof. exact align_fresh. Qed.
Print Assumptions T19_4_new_name_is_fresh.

(* two nodes that get the same new name carried the same old name *)
Theorem T19_5_no_capture_among_new_names :
  forall pres m n1 old1 n2 old2 s,
    In (n1, old1, s) (align pres m) -> In (n2, old2, s) (align pres m) -> old1 = old2.
Proof. exact align_injective. Qed.
Print Assumptions T19_5_no_capture_among_new_names.

(* if one place where identifier x is written is renamed to s, every place where x is written
   (Name in any context, def/class, argument, attribute, keyword, global/nonlocal, import alias,
   except handler, match capture, type parameter) is a renamed node, renamed to s *)
Theorem T19_6_all_mentions_or_none :
  forall pres m n' x s mm,
    wf_modl m = true ->
    In (n', x, s) (align pres m) -> In mm (mentions m) -> m_name mm = x ->
    exists n, m_node mm = Some n /\ In (n, x, s) (align pres m).
Proof. exact align_consistent. Qed.
Print Assumptions T19_6_all_mentions_or_none.

(* consistency and capture-freedom together: after the pass two places carry the same identifier
   iff they did before *)
Theorem T19_56_identifier_bijection :
  forall pres m m1 m2,
    wf_modl m = true -> In m1 (mentions m) -> In m2 (mentions m) ->
    (mention_sub (align pres m) m1 = mention_sub (align pres m) m2 <-> m_name m1 = m_name m2).
Proof. exact align_alpha. Qed.
Print Assumptions T19_56_identifier_bijection.

(* preserved names and names that are also builtins (a read before the definition means the builtin)
   are never renamed *)
Theorem T19_6_preserved_names_untouched :
  forall pres m n old s, In (n, old, s) (align pres m) -> ~ In old pres /\ ~ In old BUILTINS /\ old <> s.
Proof. exact align_respects_preserve. Qed.
Print Assumptions T19_6_preserved_names_untouched.

(* ---- T19.6' use-site discovery ---- *)
Theorem T19_6_uses_of_sound :
  forall sc t m o,
    In o (uses_of sc t m) ->
    In o (occs m) /\ o_name o = t_name t /\ in_scope sc (o_scopes o) = true
    /\ (o_aug o = true \/ o_ctx o = Load).
Proof. exact uses_of_sound. Qed.
Print Assumptions T19_6_uses_of_sound.

Theorem R19_6_uses_of_refuted :
  exists sc t m o, In o (uses_of sc t m) /\ is_load o = true /\ refers_outer sc t m o = false.
Proof. exact uses_of_refuted. Qed.
Print Assumptions R19_6_uses_of_refuted.

Theorem T19_6_uses_of_partial :
  forall sc t m o,
    no_inner_store sc t m = true ->
    In o (occs m) -> is_load o = true -> o_aug o = false ->
    (In o (uses_of sc t m) <->
       in_scope sc (o_scopes o) = true /\ o_name o = t_name t /\ refers_outer sc t m o = true
       /\ (pos_lt (t_end t) (o_start o) || (unordered sc (defs m) && pos_lt (o_end o) (t_start t))) = true).
Proof. exact uses_of_partial. Qed.
Print Assumptions T19_6_uses_of_partial.

(* ---- T19.7 generated names ---- *)
Theorem T19_7_loop_names_fresh : forall used n, In n (loop_names used) -> ~ In n used.
Proof. exact loop_names_fresh. Qed.
Print Assumptions T19_7_loop_names_fresh.

Theorem T19_7_loop_names_distinct : forall used, NoDup (loop_names used).
Proof. exact loop_names_NoDup. Qed.
Print Assumptions T19_7_loop_names_distinct.

Theorem T19_7_loop_names_shape :
  forall used n, In n (loop_names used) -> n <> [] /\ forallb is_lower n = true /\ (length n <= 2)%nat.
Proof. exact loop_names_shape. Qed.
Print Assumptions T19_7_loop_names_shape.

Theorem R19_7_loop_name_keyword_refuted :
  exists used n, hd_error (loop_names used) = Some n /\ In n KEYWORDS.
Proof. exact loop_names_keyword_refuted. Qed.
Print Assumptions R19_7_loop_name_keyword_refuted.

Theorem T19_7_loop_name_keyword_partial :
  forall used n,
    (length (filter (fun c => negb (mem c used)) (firstn 44 loop_candidates)) >= 1)%nat ->
    hd_error (loop_names used) = Some n -> ~ In n KEYWORDS.
Proof. exact loop_names_keyword_partial. Qed.
Print Assumptions T19_7_loop_name_keyword_partial.

Theorem T19_7_overused_index_free : forall bl i, pick_index bl = Some i -> ~ In (overused_name i) bl.
Proof. exact pick_index_free. Qed.
Print Assumptions T19_7_overused_index_free.

Theorem T19_7_overused_names_fresh : forall bl k n, In n (overused_names bl k) -> ~ In n bl.
Proof. exact overused_names_fresh. Qed.
Print Assumptions T19_7_overused_names_fresh.

Theorem T19_7_overused_names_distinct : forall bl k, NoDup (overused_names bl k).
Proof. exact overused_names_NoDup. Qed.
Print Assumptions T19_7_overused_names_distinct.

Theorem T19_7_overused_string_name_free :
  forall bl c n, overused_string_name bl c = Some n -> n = c /\ ~ In n bl /\ is_ident n = true.
Proof. exact overused_string_name_free. Qed.
Print Assumptions T19_7_overused_string_name_free.

Theorem T19_7_var_names_fresh : forall used k n, In n (var_names used k) -> ~ In n used.
Proof. exact var_names_fresh. Qed.
Print Assumptions T19_7_var_names_fresh.

Theorem T19_7_keys_items_fresh :
  forall used value target n, keys_items_decision used value target = Some n -> ~ In n used.
Proof. exact keys_items_fresh. Qed.
Print Assumptions T19_7_keys_items_fresh.

(* T19.8 (round 5): the list of mentions is an input of the decision; T19.5/T19.6 speak about the program
   under the named premise `mentions_complete` (every place where an identifier is written is in the list) *)
Theorem T19_8_identifier_bijection_on_all_places :
  forall pres m places p1 p2,
    wf_modl m = true -> mentions_complete places (mentions m) -> In p1 places -> In p2 places ->
    (mention_sub (align pres m) p1 = mention_sub (align pres m) p2 <-> m_name p1 = m_name p2).
Proof. exact align_alpha_complete. Qed.
Print Assumptions T19_8_identifier_bijection_on_all_places.

(* the premise cannot be dropped: one place missing from the list (the star capture of `case [x, *name]`)
   and two different variables get the same identifier ... *)
Theorem T19_8_missing_mention_capture_refuted :
  exists ms cs missing p,
    wf_decision ms cs /\ In p ms /\ ~ In missing ms /\ m_name p <> m_name missing
    /\ mention_sub (decide [] [] ms cs []) p = mention_sub (decide [] [] ms cs []) missing.
Proof. exact mentions_incomplete_capture_refuted. Qed.
Print Assumptions T19_8_missing_mention_capture_refuted.

(* ... or one variable is left with two identifiers *)
Theorem T19_8_missing_mention_partial_rename_refuted :
  exists ms cs missing p,
    wf_decision ms cs /\ In p ms /\ ~ In missing ms /\ m_name p = m_name missing
    /\ mention_sub (decide [] [] ms cs []) p <> mention_sub (decide [] [] ms cs []) missing.
Proof. exact mentions_incomplete_partial_rename_refuted. Qed.
Print Assumptions T19_8_missing_mention_partial_rename_refuted.
