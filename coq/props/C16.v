From Coq Require Import List Bool.
Require Import Pyrefact.FlowModel.
Theorem placeholder : is_exception SRaise = true.
Proof. reflexivity. Qed.
Print Assumptions placeholder.
