(* C16 -- Code is treated as unreachable or pointless only when it really is.
   Property theorems only; every proof is `exact <lemma>`; Print Assumptions under each. *)
From Coq Require Import List Bool.
Import ListNotations.
Require Import Pyrefact.FlowModel Pyrefact.FlowProofs.

(* T16.1  is_blocking is sound: a statement judged impossible to get past never completes normally,
   for every statement tree, every behaviour of the unevaluable tests / iterables / calls
   (context managers assumed not to swallow exceptions -- the tool's assumption). *)
Theorem T16_1_blocking_sound :
  forall s, is_blocking s PNone = true -> o_n (outcomes false s) = false.
Proof. exact blocking_sound. Qed.
Print Assumptions T16_1_blocking_sound.

(* T16.1b  inside a loop body (the scan of `while True:` / `for x in <non-empty>:`) *)
Theorem T16_1b_blocking_loop_sound :
  forall s p, p <> PNone -> may_leave s = false -> is_blocking s p = true ->
    o_n (outcomes false s) = false /\ o_b (outcomes false s) = false /\ o_c (outcomes false s) = false.
Proof. exact blocking_loop_sound. Qed.
Print Assumptions T16_1b_blocking_loop_sound.

(* T16.1c  _may_leave_iteration is sound: no break/continue outcome when it answers False *)
Theorem T16_1c_may_leave_sound :
  forall sup s, may_leave s = false ->
    o_b (outcomes sup s) = false /\ o_c (outcomes sup s) = false.
Proof. exact may_leave_sound. Qed.
Print Assumptions T16_1c_may_leave_sound.

(* T16.2  delete_unreachable_code: what _iter_unreachable_nodes yields is preceded by a prefix of the
   body that never completes normally *)
Theorem T16_2_unreachable_sound :
  forall body,
    unreachable_from body = [] \/
    exists pre s, body = pre ++ s :: unreachable_from body /\
                  o_n (outcomes_block false (pre ++ [s])) = false.
Proof. exact unreachable_sound. Qed.
Print Assumptions T16_2_unreachable_sound.

(* R16.2  refuted when a context manager may swallow an exception (known finding F16-2) ... *)
Theorem R16_2_blocking_refuted_with_suppression :
  exists s, is_blocking s PNone = true /\ o_n (outcomes true s) = true.
Proof. exact blocking_refuted_with_suppression. Qed.
Print Assumptions R16_2_blocking_refuted_with_suppression.

(* ... and the guarded version that holds whatever context managers do *)
Theorem T16_1_partial_no_with :
  forall sup s, no_with s = true -> is_blocking s PNone = true -> o_n (outcomes sup s) = false.
Proof. exact blocking_sound_no_with. Qed.
Print Assumptions T16_1_partial_no_with.
