(* C16 -- Code is treated as unreachable or pointless only when it really is.
   Property theorems only; every proof is `exact <lemma>`; Print Assumptions under each. *)
From Coq Require Import List Bool.
Import ListNotations.
Require Import Pyrefact.FlowModel Pyrefact.FlowProofs.

(* T16.1  is_blocking is sound: a statement judged impossible to get past never completes normally,
   for every statement tree, every behaviour of the unevaluable tests / iterables / calls
   (context managers assumed not to swallow exceptions -- the tool's assumption). *)
Theorem T16_1_blocking_sound :
  forall s, is_blocking s PNone = true -> o_n (outcomes false s) = false.
Proof. exact blocking_sound. Qed.
Print Assumptions T16_1_blocking_sound.

(* T16.1b  inside a loop body (the scan of `while True:` / `for x in <non-empty>:`) *)
Theorem T16_1b_blocking_loop_sound :
  forall s p, p <> PNone -> may_leave s = false -> is_blocking s p = true ->
    o_n (outcomes false s) = false /\ o_b (outcomes false s) = false /\ o_c (outcomes false s) = false.
Proof. exact blocking_loop_sound. Qed.
Print Assumptions T16_1b_blocking_loop_sound.

(* T16.1c  _may_leave_iteration is sound: no break/continue outcome when it answers False *)
Theorem T16_1c_may_leave_sound :
  forall sup s, may_leave s = false ->
    o_b (outcomes sup s) = false /\ o_c (outcomes sup s) = false.
Proof. exact may_leave_sound. Qed.
Print Assumptions T16_1c_may_leave_sound.

(* T16.2  delete_unreachable_code: what _iter_unreachable_nodes yields is preceded by a prefix of the
   body that never completes normally *)
Theorem T16_2_unreachable_sound :
  forall body,
    unreachable_from body = [] \/
    exists pre s, body = pre ++ s :: unreachable_from body /\
                  o_n (outcomes_block false (pre ++ [s])) = false.
Proof. exact unreachable_sound. Qed.
Print Assumptions T16_2_unreachable_sound.

(* R16.2  refuted when a context manager may swallow an exception (known finding F16-2) ... *)
Theorem R16_2_blocking_refuted_with_suppression :
  exists s, is_blocking s PNone = true /\ o_n (outcomes true s) = true.
Proof. exact blocking_refuted_with_suppression. Qed.
Print Assumptions R16_2_blocking_refuted_with_suppression.

(* ... and the guarded version that holds whatever context managers do *)
Theorem T16_1_partial_no_with :
  forall sup s, no_with s = true -> is_blocking s PNone = true -> o_n (outcomes sup s) = false.
Proof. exact blocking_sound_no_with. Qed.
Print Assumptions T16_1_partial_no_with.

(* T16.8  the constant-test branch of delete_unreachable_code (dead else / dead body / dead `if False:` /
   `while False:` without else) keeps the possible outcomes of the statement *)
Theorem T16_8_dead_const_sound : forall sup s, outcomes_block sup (apply_dead s) = outcomes sup s.
Proof. exact dead_const_sound. Qed.
Print Assumptions T16_8_dead_const_sound.

(* ===================== match statements (seeded/C01-d; T16.1 / T16.1b / T16.1c / T16.2 above now range over
   statement trees with `match`: cases with an opaque or irrefutable pattern, an optional guard, a body) ===== *)
(* T16.9a  core.is_blocking has no clause for ast.Match: never judged impossible to get past *)
Theorem T16_9a_match_never_blocking : forall cs p, is_blocking (SMatch cs) p = false.
Proof. exact match_never_blocking. Qed.
Print Assumptions T16_9a_match_never_blocking.

(* T16.9b  a break / continue of the enclosing loop in ANY case body is seen by _may_leave_iteration *)
Theorem T16_9b_match_case_leave_seen :
  forall cs c, List.In c cs -> any_leave (snd c) = true -> may_leave (SMatch cs) = true.
Proof. exact match_case_leave_seen. Qed.
Print Assumptions T16_9b_match_case_leave_seen.

(* R16.9  the walk that follows only body / handlers / orelse / finalbody (Match.cases forgotten) is refuted:
   a break it does not see leaves the loop; `while True:` / a literal `for` scanned with it are judged
   impossible to get past although they complete normally ... *)
Theorem R16_9_stmt_list_walk_refuted :
  (exists s, may_leave_stmt_lists s = false /\ o_b (outcomes false s) = true) /\
  (exists body, scan_with may_leave_stmt_lists body PWhile true = true /\
                o_n (outcomes false (SWhile TTrue body [])) = true) /\
  (exists body, scan_with may_leave_stmt_lists body PFor false = true /\
                o_n (outcomes false (SFor INonEmpty body [])) = true).
Proof. exact stmt_list_walk_refuted. Qed.
Print Assumptions R16_9_stmt_list_walk_refuted.

(* ... and agrees with _may_leave_iteration on every tree without a match statement *)
Theorem T16_9_partial_no_match :
  forall s, no_match s = true -> may_leave_stmt_lists s = may_leave s.
Proof. exact stmt_list_walk_partial_no_match. Qed.
Print Assumptions T16_9_partial_no_match.

(* ===================== classification of `for` iterables inside is_blocking ===================== *)
Require Import Pyrefact.IterModel Pyrefact.IterProofs.

(* T16.7  core.is_blocking evaluates the iterable with literal_value and decides emptiness by ITERATING;
   for every iterable expression (displays, strings, range, enumerate, zip, reversed, sorted, list, tuple, set,
   iter, nested): classified empty => the loop iterates over nothing; classified non-empty => over at least
   one item.  These are the premises of the IEmpty / INonEmpty clauses of FlowModel.outcomes. *)
Theorem T16_7_classify_empty_sound : forall x, classify x = IEmpty -> elements x = Some [].
Proof. exact classify_empty_sound. Qed.
Print Assumptions T16_7_classify_empty_sound.

Theorem T16_7b_classify_nonempty_sound :
  forall x, classify x = INonEmpty -> exists v l, elements x = Some (v :: l).
Proof. exact classify_nonempty_sound. Qed.
Print Assumptions T16_7b_classify_nonempty_sound.

Theorem T16_7c_for_blocking_sound : forall x body orelse,
  is_blocking (SFor (classify x) body orelse) PNone = true ->
  (exists v l, elements x = Some (v :: l)) /\ o_n (outcomes false (SFor (classify x) body orelse)) = false.
Proof. exact for_blocking_sound. Qed.
Print Assumptions T16_7c_for_blocking_sound.

(* R16.7  the emptiness test must iterate: the truth value of an enumerate / zip / reversed object says
   nothing (`for i, x in enumerate(()): return x` would be judged blocking) ... *)
Theorem R16_7_truthiness_test_refuted :
  exists x, classify_by_truthiness x = INonEmpty /\ elements x = Some [] /\
            is_blocking (SFor (classify_by_truthiness x) [SReturn] []) PNone = true.
Proof. exact truthiness_test_refuted. Qed.
Print Assumptions R16_7_truthiness_test_refuted.

(* ... while both tests agree on lists, tuples, strings, sets and ranges *)
Theorem T16_7d_truthiness_agrees_on_containers : forall x k l,
  lit_value x = Some (k, l) -> k <> OKIter -> classify_by_truthiness x = classify x.
Proof. exact truthiness_agrees_on_containers. Qed.
Print Assumptions T16_7d_truthiness_agrees_on_containers.

(* ===================== "pointless" half: core.has_side_effect ===================== *)
(* (EffectModel has its own statement type; from here on `stmt`, `SIf`, ... are EffectModel's) *)
From Coq Require Import String.
Require Import PyrefactGen.Tables Pyrefact.EffectModel Pyrefact.EffectProofs.

(* R16.4  has_side_effect identifies callees by bare name; three ways in which that is wrong
   (known findings F16-12 / F16-13): `_()`, `list(map(print, xs))`, `B().f()` *)
Theorem R16_4_refuted_underscore_callee :
  exists e wl o, hse e wl = false /\ all_benign wl (fst (eval e o)) = false.
Proof. exact hse_refuted_underscore_callee. Qed.
Print Assumptions R16_4_refuted_underscore_callee.

Theorem R16_4_refuted_higher_order :
  exists e wl o, hse e wl = false /\ (forall x, mem x wl = true -> mem x impure_builtins = false) /\
                 all_benign wl (fst (eval e o)) = false.
Proof. exact hse_refuted_higher_order. Qed.
Print Assumptions R16_4_refuted_higher_order.

Theorem R16_4_refuted_method_name :
  exists e wl o, hse e wl = false /\ all_benign wl (fst (eval e o)) = false.
Proof. exact hse_refuted_method_name. Qed.
Print Assumptions R16_4_refuted_method_name.

(* T16.4 (partial)  for every expression tree whose callees are identifiable by name ([plain]: a plain
   name other than `_`, or a method of a literal; no bare name handed to a higher-order builtin), every
   whitelist and every oracle (truth values, iteration counts): has_side_effect = False implies that the
   evaluation emits only harmless events -- calls of whitelisted callables, methods of literals, (re)binding
   of `_`.  Comprehension elements and keys, conditional expressions, f-strings, slices included. *)
Theorem T16_4_expr_partial :
  forall e wl, plain e = true -> hse e wl = false ->
  forall o, all_benign wl (fst (eval e o)) = true.
Proof. exact hse_sound_partial. Qed.
Print Assumptions T16_4_expr_partial.

(* T16.4 (partial), statements: ... and the statement completes normally (binds nothing but `_`, cannot
   alter control flow); for/else, if/else, assignments, definitions named `_` included *)
Theorem T16_4_stmt_partial :
  forall s wl, plain_s s = true -> hse_s s wl = false ->
  forall o, all_benign wl (fst (fst (exec s o))) = true /\ snd (fst (exec s o)) = ONormal.
Proof. exact hse_stmt_sound_partial. Qed.
Print Assumptions T16_4_stmt_partial.

(* T16.4c  the deletion decision of delete_pointless_statements *)
Theorem T16_4c_pointless_sound :
  forall body wl k s,
    nth_error (stmts_list body) k = Some s ->
    nth k (pointless body wl) false = true ->
    plain_s s = true ->
    forall o, all_benign wl (fst (fst (exec s o))) = true /\ snd (fst (exec s o)) = ONormal.
Proof. exact pointless_sound. Qed.
Print Assumptions T16_4c_pointless_sound.

Theorem T16_4d_docstring_kept :
  forall s tl wl, is_docstring s = true -> nth 0 (pointless (SCons s tl) wl) false = false.
Proof. exact pointless_keeps_docstring. Qed.
Print Assumptions T16_4d_docstring_kept.

(* T16.4e  has_side_effect is monotone in the whitelist (used by T16.5) *)
Theorem T16_4e_hse_monotone :
  forall e a b, (forall x, mem x a = true -> mem x b = true) -> hse e a = false -> hse e b = false.
Proof. exact hse_mono. Qed.
Print Assumptions T16_4e_hse_monotone.

(* ===================== parsing.safe_callable_names ===================== *)

(* T16.5  every function name declared safe is a base name or names a definition -- not shadowed by another kind
   of binding, not shared with another definition -- whose inspected statements and returned values are free of
   side effects relative to the final safe set *)
Theorem T16_5_safe_names_justified :
  forall base shadowed dups defs x,
    mem x (fst (safe_functions base shadowed dups defs)) = true ->
    mem x base = true \/
    exists d, In d defs /\ f_name d = x /\ mem x shadowed = false /\ mem x dups = false /\
              fdef_pure d (fst (safe_functions base shadowed dups defs)) = true.
Proof. exact safe_names_justified. Qed.
Print Assumptions T16_5_safe_names_justified.

Theorem T16_5b_safe_class_justified :
  forall base shadowed dups defs c,
    class_safe (snd (safe_functions base shadowed dups defs)) c = true ->
    forall i, In i (snd c) ->
    exists d, nth_error defs i = Some d /\ mem (f_name d) shadowed = false /\
              fdef_pure d (fst (safe_functions base shadowed dups defs)) = true.
Proof. exact safe_class_justified. Qed.
Print Assumptions T16_5b_safe_class_justified.

(* R16.5  names, not definitions, are whitelisted: without the list of shared names a second definition is taken
   for the first one (the repaired safe_callable_names computes that list) ... *)
Theorem R16_5_refuted_duplicate :
  exists base shadowed defs d,
    In d defs /\ mem (f_name d) (fst (safe_functions base shadowed [] defs)) = true /\
    mem (f_name d) base = false /\ mem (f_name d) shadowed = false /\
    fdef_pure d (fst (safe_functions base shadowed [] defs)) = false.
Proof. exact safe_names_refuted_duplicate. Qed.
Print Assumptions R16_5_refuted_duplicate.

(* ... T16.5 (partial): when the names outside [dups] are distinct, EVERY definition whose name is declared safe is
   free of side effects *)
Theorem T16_5_partial_unique_names :
  forall base shadowed dups defs d,
    nodupb (map f_name (unshared dups defs)) = true ->
    In d defs -> mem (f_name d) base = false ->
    mem (f_name d) (fst (safe_functions base shadowed dups defs)) = true ->
    fdef_pure d (fst (safe_functions base shadowed dups defs)) = true.
Proof. exact safe_names_partial_unique. Qed.
Print Assumptions T16_5_partial_unique_names.

(* T16.4f  the guards of delete_pointless_statements: what it deletes is judged free of side effects (T16.4 applies),
   inside a try body with handlers it cannot raise, when `_` is read somewhere it does not touch `_`, and it
   iterates over nothing but objects built on the spot *)
Theorem T16_4f_pointless_guards : forall body in_try us_used wl k s,
  nth_error (stmts_list body) k = Some s ->
  nth k (pointless_ctx in_try us_used body wl) false = true ->
  hse_s s wl = false /\ (in_try = true -> cannot_raise s = true) /\
  (us_used = true -> mentions_us s = false) /\ iter_unk_s s = false.
Proof. exact pointless_ctx_sound. Qed.
Print Assumptions T16_4f_pointless_guards.

Theorem T16_4g_cannot_raise_inert : forall s o, cannot_raise s = true -> exec s o = ([], ONormal, o).
Proof. exact cannot_raise_inert. Qed.
Print Assumptions T16_4g_cannot_raise_inert.

(* T16.6  the regenerated constants.SAFE_CALLABLES lists no builtin known to have a side effect
   (next, anext, help, print, input, exec, ...) *)
Theorem T16_6_safe_table_excludes_impure :
  forall x, In x SAFE_CALLABLES -> mem x impure_builtins = false.
Proof. exact (table_excludes_impure SAFE_CALLABLES eq_refl). Qed.
Print Assumptions T16_6_safe_table_excludes_impure.
